#!/usr/bin/env python3
"""Regenerates MANIFEST.json from properties.config.json and manifest.meta.json (kept in sync by hand-run)."""
import json, os
ROOT = os.path.dirname(os.path.abspath(__file__))
cfg = json.load(open(os.path.join(ROOT, "properties.config.json")))
meta = json.load(open(os.path.join(ROOT, "manifest.meta.json")))
props = [json.loads(l) for l in open(os.path.join(ROOT, "properties.jsonl"))]
checks = []
for p in props:
    pid = p["id"]
    if pid not in cfg["properties"]:
        continue
    m = meta["checks"][pid]
    checks.append({
        "property_id": pid,
        "quick_cmd": "./check %s --tier quick" % pid,
        "thorough_cmd": "./check %s --tier thorough" % pid,
        "evidence_file": "/verif/evidence/%s.json" % pid,
        "replay_cmd_template": "./check replay {path}",
        "engine": "lean-proof+correspondence",
        "level_claimed": {"category": "proof", "text": m["text"], "design_ref": m.get("design_ref", "DESIGN.md section 6")},
        "level_note": m["note"],
        "technique": m["technique"],
    })
na = [{"property_id": p["id"], "reason": meta["not_applicable"].get(p["id"], "check not built yet in this session; see DESIGN.md section 6 for the plan")} for p in props if p["id"] not in cfg["properties"]]
man = {
    "version": 1,
    "setup_cmd": "./check setup",
    "hooks": meta["hooks"],
    "engines": [{"name": "lean-proof+correspondence", "path": "/verif/check", "serves_properties": [c["property_id"] for c in checks],
                 "kind_free_text": "Lean 4 theorems about a hand-written executable model (lean/SemverModel, SemverSpec, SemverProofs) + differential correspondence check of the model against the crate (harness/, lean/Driver.lean) + spec-level oracles on the crate's answers"}],
    "checks": checks,
    "notes": meta["notes"],
    "not_applicable": na,
}
json.dump(man, open(os.path.join(ROOT, "MANIFEST.json"), "w"), indent=1)
print("MANIFEST.json: %d checks, %d not_applicable" % (len(checks), len(na)))
