#!/usr/bin/env python3
"""Regenerates MANIFEST.json from properties.config.json and manifest.meta.json (kept in sync by hand-run)."""
import json, os
ROOT = os.path.dirname(os.path.abspath(__file__))
cfg = json.load(open(os.path.join(ROOT, "properties.config.json")))
meta = json.load(open(os.path.join(ROOT, "manifest.meta.json")))
props = [json.loads(l) for l in open(os.path.join(ROOT, "properties.jsonl"))]
checks = []
for p in props:
    pid = p["id"]
    if pid not in cfg["properties"]:
        continue
    m = meta["checks"][pid]
    checks.append({
        "property_id": pid,
        "quick_cmd": "./check %s --tier quick" % pid,
        "thorough_cmd": "./check %s --tier thorough" % pid,
        "evidence_file": "/verif/evidence/%s.json" % pid,
        "replay_cmd_template": "./check replay {path}",
        "engine": "lean-proof+correspondence",
        "level_claimed": {"category": "proof", "text": m["text"], "design_ref": m.get("design_ref", "DESIGN.md section 6")},
        "level_note": m["note"],
        "technique": m["technique"],
    })
na = [{"property_id": p["id"], "reason": meta["not_applicable"].get(p["id"], "check not built yet in this session; see DESIGN.md section 6 for the plan")} for p in props if p["id"] not in cfg["properties"]]
man = {
    "version": 1,
    "setup_cmd": "./check setup",
    "hooks": meta["hooks"],
    "engines": [{"name": "lean-proof+correspondence", "path": "/verif/check", "serves_properties": [c["property_id"] for c in checks],
                 "kind_free_text": "Lean 4 theorems about an executable model of the crate (lean/SemverModel, SemverSpec, SemverProofs), tied to /repo's current source twice on every run: (1) a translator (translator/, rs2lean) regenerates Lean definitions from src/*.rs (lean/SemverGen/Extracted.lean) and the equivalence theorems of lean/SemverProofs/GenEquiv are re-checked - each generated definition is proved equal to the model definition the property theorems are about; (2) a differential correspondence check runs the model against the crate (harness/, lean/Driver.lean) with spec-level oracles on the crate's answers, which also searches for the concrete failing input when a proof obligation breaks"}],
    "checks": checks,
    "notes": meta["notes"],
    "not_applicable": na,
}
json.dump(man, open(os.path.join(ROOT, "MANIFEST.json"), "w"), indent=1)
print("MANIFEST.json: %d checks, %d not_applicable" % (len(checks), len(na)))
