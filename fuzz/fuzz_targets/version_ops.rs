#![no_main]
//! coverage-guided search in the version parser, ordering, diff and printing
use libfuzzer_sys::fuzz_target;
use nodejs_semver::Version;

fn touch_error(e: &nodejs_semver::SemverError) {
    let _ = e.input().len();
    let _ = e.offset();
    let _ = e.location();
    let _ = e.to_string();
    let _ = format!("{:?}", e.kind());
}

fuzz_target!(|data: &[u8]| {
    let Ok(s) = std::str::from_utf8(data) else { return };
    let mut parts = s.splitn(2, '\n');
    let ta = parts.next().unwrap_or("");
    let tb = parts.next().unwrap_or("1.2.3");
    let a = Version::parse(ta);
    let b = Version::parse(tb);
    if let Err(e) = &a {
        touch_error(e);
    }
    if let Ok(a) = &a {
        let _ = a.to_string();
        if let Ok(b) = &b {
            let _ = a.cmp(b);
            let _ = a == b;
            let _ = a.diff(b);
        }
    }
});
