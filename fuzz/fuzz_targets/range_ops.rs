#![no_main]
//! coverage-guided search for inputs that reach new code in the crate's range parser and range
//! operations; the corpus it leaves behind is replayed through the correspondence check
use libfuzzer_sys::fuzz_target;
use nodejs_semver::{Range, Version};

fn touch_error(e: &nodejs_semver::SemverError) {
    let _ = e.input().len();
    let _ = e.offset();
    let _ = e.location();
    let _ = e.to_string();
    let _ = format!("{:?}", e.kind());
}

fuzz_target!(|data: &[u8]| {
    let Ok(s) = std::str::from_utf8(data) else { return };
    // input: `<range a>\n<range b>\n<version>` (missing parts default)
    let mut parts = s.splitn(3, '\n');
    let ta = parts.next().unwrap_or("");
    let tb = parts.next().unwrap_or("*");
    let tv = parts.next().unwrap_or("1.2.3");
    let a = Range::parse(ta);
    let b = Range::parse(tb);
    let v = Version::parse(tv);
    if let Err(e) = &a {
        touch_error(e);
    }
    if let Err(e) = &v {
        touch_error(e);
    }
    if let Ok(a) = &a {
        let _ = a.to_string();
        let _ = a.min_version();
        if let Ok(v) = &v {
            let _ = a.satisfies(v);
            let _ = a.max_satisfying(std::slice::from_ref(v));
        }
        if let Ok(b) = &b {
            let _ = a.intersect(b);
            let _ = a.difference(b);
            let _ = a.allows_any(b);
            let _ = a.allows_all(b);
        }
    }
});
