//! rs2lean — translates the bodies of nodejs-semver's functions into Lean 4 definitions over the
//! model's data types (DESIGN.md §13).  It is run on every check against /repo's working tree; the
//! theorems of `SemverProofs/GenEquiv*.lean` then prove each generated definition equal to the
//! hand-written model function the property theorems are about.
//!
//! usage: rs2lean --src /repo/src --out <Extracted.lean> --report <report.json>
//!
//! The translator is deliberately small and syntactic.  Anything it does not understand makes the
//! function *untranslatable* (a comment in the output, an entry in the report); the equivalence
//! theorem of that function then does not elaborate, which the check reports.  It never guesses.

mod config;
mod fx;
mod tr;

use std::collections::BTreeMap;
use std::fs;

use tr::*;

fn main() {
    let args: Vec<String> = std::env::args().collect();
    let mut src = "/repo/src".to_string();
    let mut out = String::new();
    let mut report = String::new();
    let mut i = 1;
    while i < args.len() {
        match args[i].as_str() {
            "--src" => { src = args[i + 1].clone(); i += 2; }
            "--out" => { out = args[i + 1].clone(); i += 2; }
            "--report" => { report = args[i + 1].clone(); i += 2; }
            _ => { eprintln!("unknown argument {}", args[i]); std::process::exit(2); }
        }
    }
    let mut krate = Crate::default();
    let mut parse_errors = Vec::new();
    for name in ["lib.rs", "range.rs"] {
        let path = format!("{}/{}", src, name);
        match fs::read_to_string(&path) {
            Ok(text) => match syn::parse_file(&text) {
                Ok(f) => krate.add_file(name, &f),
                Err(e) => parse_errors.push(format!("{}: {}", path, e)),
            },
            Err(e) => parse_errors.push(format!("{}: {}", path, e)),
        }
    }
    // any other source file is new: not covered by any mapping
    let mut extra_files = Vec::new();
    if let Ok(rd) = fs::read_dir(&src) {
        for e in rd.flatten() {
            let n = e.file_name().to_string_lossy().to_string();
            if n != "lib.rs" && n != "range.rs" {
                extra_files.push(n);
            }
        }
    }
    extra_files.sort();
    for f in &extra_files {
        krate.global_problems.push(format!("source file `{}` is not read by the translator", f));
    }
    // the resolved version of winnow (Cargo.lock next to src/)
    match fs::read_to_string(format!("{}/../Cargo.lock", src)) {
        Ok(lock) => {
            let mut found = vec![];
            let lines: Vec<&str> = lock.lines().collect();
            for (i, l) in lines.iter().enumerate() {
                if l.trim() == "name = \"winnow\"" {
                    if let Some(v) = lines.get(i + 1) {
                        found.push(v.trim().trim_start_matches("version = ").trim_matches('"').to_string());
                    }
                }
            }
            if found != vec![config::WINNOW_VERSION.to_string()] {
                krate.global_problems.push(format!("Cargo.lock resolves winnow to {:?}; the combinators are described for {}", found, config::WINNOW_VERSION));
            }
        }
        Err(_) => {
            // no lock file (it is not tracked in the repository): the requirement in Cargo.toml decides
            let toml = fs::read_to_string(format!("{}/../Cargo.toml", src)).unwrap_or_default();
            let req = toml.lines().find(|l| l.trim_start().starts_with("winnow")).unwrap_or("").replace(' ', "");
            if !(req.contains("\"0.6\"") || req.contains("\"0.6.") || req.contains("\"^0.6") || req.contains("\"=0.6.26")) {
                krate.global_problems.push(format!("Cargo.toml requires `{}`; the combinators are described for winnow {}", req, config::WINNOW_VERSION));
            }
        }
    }

    let mut lean = String::new();
    lean.push_str("import SemverGen.RustPrelude\nimport SemverGen.Winnow\nimport SemverGen.Bytes\n");
    lean.push_str("/-!\n# Definitions extracted from the Rust source by `translator/` (rs2lean)\n\n");
    lean.push_str("GENERATED FILE — regenerated from /repo/src on every run of ./check; do not edit.\n");
    lean.push_str("Each definition is the body of one function of the crate, construct for construct, over the\n");
    lean.push_str("model's data types; `SemverProofs/GenEquiv*.lean` proves each equal to the model function.\n-/\n");
    lean.push_str("set_option linter.unusedVariables false\n-- an arm the Rust compiler accepts although earlier arms cover it is not an error here either\nset_option match.ignoreUnusedAlts true\n\n");

    let mut entries: Vec<BTreeMap<String, Json>> = Vec::new();
    // what concerns every function: imports and names the translation takes as given
    if krate.global_problems.is_empty() {
        lean.push_str("/-- no import is renamed or redirected, no item of the crate is named like a std / winnow item the translation gives a fixed meaning -/\ntheorem Semver.Gen.names_as_expected : True := trivial\n\n");
    } else {
        for g in &krate.global_problems {
            lean.push_str(&format!("-- UNTRANSLATABLE Semver.Gen.names_as_expected : {}\n", g));
        }
        lean.push('\n');
    }
    // shape checks of the data types first
    lean.push_str(&krate.shape_checks());

    let mut translated_quals = Vec::new();
    let mut emitted_helpers: Vec<String> = Vec::new();
    fn helpers_of(entry: &BTreeMap<String, Json>) -> Vec<String> {
        match entry.get("auto_helpers") {
            Some(Json::A(v)) => v.iter().filter_map(|j| if let Json::S(s) = j { Some(s.clone()) } else { None }).collect(),
            _ => vec![],
        }
    }
    fn emit_helper(krate: &Crate, q: &str, emitted: &mut Vec<String>, lean: &mut String, entries: &mut Vec<BTreeMap<String, Json>>, quals: &mut Vec<String>) {
        if emitted.iter().any(|e| e == q) {
            return;
        }
        emitted.push(q.to_string());
        let (text, entry) = krate.translate_helper(q);
        for h in helpers_of(&entry) {
            emit_helper(krate, &h, emitted, lean, entries, quals);
        }
        lean.push_str(&text);
        lean.push('\n');
        quals.push(q.to_string());
        entries.push(entry);
    }
    for item in config::ITEMS {
        let (text, entry) = krate.translate_item(item);
        for h in helpers_of(&entry) {
            emit_helper(&krate, &h, &mut emitted_helpers, &mut lean, &mut entries, &mut translated_quals);
        }
        lean.push_str(&text);
        lean.push('\n');
        if let Some(Json::S(q)) = entry.get("rust") {
            translated_quals.push(q.clone());
        }
        if let Some(Json::A(v)) = entry.get("inlined_helpers") {
            for j in v {
                if let Json::S(q) = j {
                    translated_quals.push(q.clone());
                }
            }
        }
        entries.push(entry);
    }
    // accounting of everything else
    let mut others = Vec::new();
    let mut new_fns = Vec::new();
    for f in &krate.fns {
        if translated_quals.contains(&f.qual) {
            continue;
        }
        let listed = config::BY_CORRESPONDENCE_ONLY.contains(&f.qual.as_str());
        let mut m = BTreeMap::new();
        m.insert("rust".into(), Json::S(f.qual.clone()));
        m.insert("file".into(), Json::S(f.file.clone()));
        m.insert("line".into(), Json::N(f.line as i64));
        m.insert("listed".into(), Json::B(listed));
        m.insert("body_hash".into(), Json::S(f.hash.clone()));
        if !listed {
            new_fns.push(f.qual.clone());
        }
        others.push(Json::O(m));
    }
    let mut root = BTreeMap::new();
    root.insert("items".into(), Json::A(entries.into_iter().map(Json::O).collect()));
    root.insert("not_translated".into(), Json::A(others));
    root.insert("new_functions".into(), Json::A(new_fns.into_iter().map(Json::S).collect()));
    root.insert("extra_source_files".into(), Json::A(extra_files.into_iter().map(Json::S).collect()));
    root.insert("parse_errors".into(), Json::A(parse_errors.into_iter().map(Json::S).collect()));
    root.insert("global_problems".into(), Json::A(krate.global_problems.iter().map(|s| Json::S(s.clone())).collect()));
    root.insert("macro_notes".into(), Json::A(krate.macro_notes.iter().map(|s| Json::S(s.clone())).collect()));
    root.insert("macro_rules".into(), Json::A(krate.macros.iter().map(|(n, h)| {
        let mut m = BTreeMap::new();
        m.insert("name".into(), Json::S(n.clone()));
        m.insert("hash".into(), Json::S(h.clone()));
        Json::O(m)
    }).collect()));
    if !out.is_empty() {
        // only touch the file when its content changes, so that lake does not rebuild needlessly
        let old = fs::read_to_string(&out).unwrap_or_default();
        if old != lean {
            fs::write(&out, &lean).expect("write output");
        }
    } else {
        print!("{}", lean);
    }
    if !report.is_empty() {
        fs::write(&report, Json::O(root).render(0)).expect("write report");
    }
}
