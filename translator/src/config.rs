//! What the translator is told about the crate: how its types map onto the model's types, and
//! which items are translated, in the order in which they are emitted.  Everything here is checked
//! by Lean when the generated file is elaborated (a wrong mapping does not type-check or breaks an
//! equivalence theorem); nothing here can make a changed function look unchanged.

pub struct TypeMap {
    pub rust: &'static str,
    pub lean: &'static str,
}

/// Rust type name -> Lean type of the model
pub const TYPES: &[TypeMap] = &[
    TypeMap { rust: "u64", lean: "Nat" },
    TypeMap { rust: "usize", lean: "Nat" },
    TypeMap { rust: "u8", lean: "Nat" },
    TypeMap { rust: "u16", lean: "Nat" },
    TypeMap { rust: "u32", lean: "Nat" },
    TypeMap { rust: "i8", lean: "Int" },
    TypeMap { rust: "i16", lean: "Int" },
    TypeMap { rust: "i32", lean: "Int" },
    TypeMap { rust: "i64", lean: "Int" },
    TypeMap { rust: "isize", lean: "Int" },
    TypeMap { rust: "bool", lean: "Bool" },
    TypeMap { rust: "Ordering", lean: "Ordering" },
    TypeMap { rust: "String", lean: "(List Char)" },
    TypeMap { rust: "str", lean: "(List Char)" },
    TypeMap { rust: "Version", lean: "Semver.Version" },
    TypeMap { rust: "Identifier", lean: "Semver.Ident" },
    TypeMap { rust: "Predicate", lean: "Semver.Pred" },
    TypeMap { rust: "Bound", lean: "Semver.Bound" },
    TypeMap { rust: "BoundSet", lean: "Semver.BoundSet" },
    TypeMap { rust: "Range", lean: "Semver.Range" },
    TypeMap { rust: "Operation", lean: "Semver.Operation" },
    TypeMap { rust: "Partial", lean: "Semver.Partial" },
    TypeMap { rust: "VersionDiff", lean: "Semver.VersionDiff" },
    TypeMap { rust: "SemverParseError", lean: "Semver.PErr" },
    TypeMap { rust: "SemverError", lean: "Semver.SemverError" },
    TypeMap { rust: "SemverErrorKind", lean: "Semver.EKind" },
    TypeMap { rust: "Extras", lean: "Semver.Gen.Extras" },
    TypeMap { rust: "char", lean: "Char" },
    // `Self::Err` of the two `FromStr` impls
    TypeMap { rust: "Err", lean: "Semver.SemverError" },
    // the type parameter of `SemverParseError<I>`: the crate only instantiates it with `&str`
    TypeMap { rust: "I", lean: "(List Char)" },
];

/// tuple structs with one field that the model represents by that field
pub const NEWTYPES: &[&str] = &["Range"];

/// enum variant -> constructor of the model
pub const VARIANTS: &[(&str, &str, &str)] = &[
    ("Predicate", "Excluding", "Semver.Pred.exc"),
    ("Predicate", "Including", "Semver.Pred.inc"),
    ("Predicate", "Unbounded", "Semver.Pred.unb"),
    ("Bound", "Lower", "Semver.Bound.lo"),
    ("Bound", "Upper", "Semver.Bound.up"),
    ("Identifier", "Numeric", "Semver.Ident.num"),
    ("Identifier", "AlphaNumeric", "Semver.Ident.alpha"),
    ("Operation", "Exact", "Semver.Operation.exact"),
    ("Operation", "GreaterThan", "Semver.Operation.gt"),
    ("Operation", "GreaterThanEquals", "Semver.Operation.ge"),
    ("Operation", "LessThan", "Semver.Operation.lt"),
    ("Operation", "LessThanEquals", "Semver.Operation.le"),
    ("VersionDiff", "Major", "Semver.VersionDiff.major"),
    ("VersionDiff", "Minor", "Semver.VersionDiff.minor"),
    ("VersionDiff", "Patch", "Semver.VersionDiff.patch"),
    ("VersionDiff", "PreMajor", "Semver.VersionDiff.preMajor"),
    ("VersionDiff", "PreMinor", "Semver.VersionDiff.preMinor"),
    ("VersionDiff", "PrePatch", "Semver.VersionDiff.prePatch"),
    ("VersionDiff", "PreRelease", "Semver.VersionDiff.preRelease"),
    ("Extras", "Build", "Semver.Gen.Extras.Build"),
    ("Extras", "Release", "Semver.Gen.Extras.Release"),
    ("Extras", "ReleaseAndBuild", "Semver.Gen.Extras.ReleaseAndBuild"),
    ("SemverErrorKind", "ParseIntError", "Rust.parse_int_error_kind"),
    ("SemverErrorKind", "MaxIntError", "Semver.EKind.maxInt"),
    ("SemverErrorKind", "NoValidRanges", "Semver.EKind.noValidRanges"),
    ("SemverErrorKind", "MaxLengthError", "Semver.EKind.maxLength"),
    ("SemverErrorKind", "IncompleteInput", "Semver.EKind.incompleteInput"),
    ("SemverErrorKind", "Other", "Semver.EKind.other"),
    ("SemverErrorKind", "Context", "Semver.EKind.context"),
    ("ErrMode", "Backtrack", "Winnow.ErrMode.Backtrack"),
    ("ErrMode", "Cut", "Winnow.ErrMode.Cut"),
    ("ErrMode", "Incomplete", "Winnow.ErrMode.Incomplete"),
    ("Result", "Ok", "Except.ok"),
    ("Result", "Err", "Except.error"),
    ("Ordering", "Less", "Ordering.lt"),
    ("Ordering", "Equal", "Ordering.eq"),
    ("Ordering", "Greater", "Ordering.gt"),
    ("Option", "Some", "some"),
    ("Option", "None", "none"),
];

/// struct field -> field of the model's structure (identity unless listed)
pub const FIELDS: &[(&str, &str)] = &[("pre_release", "pre")];

/// fields of one struct that are named differently in the model
pub const STRUCT_FIELDS: &[(&str, &str, &str)] = &[
    ("SemverParseError", "input", "rest"),
    ("SemverParseError", "context", "ctx"),
];

/// struct fields whose value is converted on the way into the model's field: (struct, field, model field, conversion)
pub const STRUCT_FIELD_CONV: &[(&str, &str, &str, &str)] = &[("SemverError", "span", "offset", "Rust.span_offset")];

/// types whose shape is not compared with the model's (generic, or generated here)
pub const NO_SHAPE: &[&str] = &["SemverParseError", "SemverErrorKind", "SemverError", "Extras"];

/// constants of the crate -> constants of the model
pub const CONSTS: &[(&str, &str)] = &[
    ("MAX_SAFE_INTEGER", "Semver.MAX_SAFE_INTEGER"),
    ("MAX_LENGTH", "Semver.MAX_LENGTH"),
];

#[derive(Clone, Debug)]
pub enum Item {
    /// `#[derive(Trait)]` on a type
    Derive { ty: &'static str, tr: &'static str },
    /// a function of an inherent impl (`tr == ""`) or of `impl tr for ty`
    Method { ty: &'static str, tr: &'static str, name: &'static str },
    /// `impl PartialOrd for ty` has to be `Some(self.cmp(other))`
    CanonicalPartialCmp { ty: &'static str },
    /// the `idx`-th closure (in source order) inside the free function `func`; parameter and result
    /// types are given here because Rust infers them
    /// `params` = types of the captured variables (`captures`) followed by those of the closure's parameters
    Closure { func: &'static str, idx: usize, lean: &'static str, captures: &'static [&'static str], params: &'static [&'static str], ret: &'static str },
    /// a `const`
    Const { name: &'static str },
    /// a function that is not modelled but whose body has to stay the given text (serde glue)
    CanonicalBody { ty: &'static str, tr: &'static str, name: &'static str, body: &'static str },
    /// an enum of the crate without counterpart in the model: the inductive type is generated
    GenType { name: &'static str },
    /// a winnow parser: `fn name(input: &mut &str) -> PResult<T, _>`
    Parser { name: &'static str },
}

use Item::*;

/// items in emission order (definitions before uses)
pub const ITEMS: &[Item] = &[
    Const { name: "MAX_SAFE_INTEGER" },
    Const { name: "MAX_LENGTH" },
    Derive { ty: "Identifier", tr: "PartialEq" },
    Derive { ty: "Identifier", tr: "Ord" },
    Method { ty: "Identifier", tr: "Display", name: "fmt" },
    Method { ty: "Version", tr: "", name: "is_prerelease" },
    Method { ty: "Version", tr: "PartialEq", name: "eq" },
    Method { ty: "Version", tr: "Ord", name: "cmp" },
    CanonicalPartialCmp { ty: "Version" },
    Method { ty: "Version", tr: "Hash", name: "hash" },
    Method { ty: "Version", tr: "", name: "diff" },
    Method { ty: "VersionDiff", tr: "Display", name: "fmt" },
    Method { ty: "Version", tr: "Display", name: "fmt" },
    // the 64-bit conversions first: `.into()` / `Version::from(..)` on a tuple resolves to them in the translation
    Method { ty: "Version", tr: "From<(u64,u64,u64)>", name: "from" },
    Method { ty: "Version", tr: "From<(u64,u64,u64,u64)>", name: "from" },
    Method { ty: "Version", tr: "From<(u8,u8,u8)>", name: "from" },
    Method { ty: "Version", tr: "From<(u8,u8,u8,u8)>", name: "from" },
    Method { ty: "Version", tr: "From<(u16,u16,u16)>", name: "from" },
    Method { ty: "Version", tr: "From<(u16,u16,u16,u16)>", name: "from" },
    Method { ty: "Version", tr: "From<(u32,u32,u32)>", name: "from" },
    Method { ty: "Version", tr: "From<(u32,u32,u32,u32)>", name: "from" },
    Method { ty: "Version", tr: "From<(usize,usize,usize)>", name: "from" },
    Method { ty: "Version", tr: "From<(usize,usize,usize,usize)>", name: "from" },
    // the 64-bit conversions first: `.into()` / `Version::from(..)` on a tuple resolves to them in the translation
    Method { ty: "Version", tr: "From<(i64,i64,i64)>", name: "from" },
    Method { ty: "Version", tr: "From<(i64,i64,i64,i64)>", name: "from" },
    Method { ty: "Version", tr: "From<(i8,i8,i8)>", name: "from" },
    Method { ty: "Version", tr: "From<(i8,i8,i8,i8)>", name: "from" },
    Method { ty: "Version", tr: "From<(i16,i16,i16)>", name: "from" },
    Method { ty: "Version", tr: "From<(i16,i16,i16,i16)>", name: "from" },
    Method { ty: "Version", tr: "From<(i32,i32,i32)>", name: "from" },
    Method { ty: "Version", tr: "From<(i32,i32,i32,i32)>", name: "from" },
    Method { ty: "Version", tr: "From<(isize,isize,isize)>", name: "from" },
    Method { ty: "Version", tr: "From<(isize,isize,isize,isize)>", name: "from" },
    Derive { ty: "Predicate", tr: "PartialEq" },
    Derive { ty: "Bound", tr: "PartialEq" },
    Derive { ty: "BoundSet", tr: "PartialEq" },
    Method { ty: "Predicate", tr: "", name: "flip" },
    Method { ty: "Bound", tr: "", name: "upper" },
    Method { ty: "Bound", tr: "", name: "lower" },
    Method { ty: "Bound", tr: "", name: "is_valid" },
    Method { ty: "Bound", tr: "", name: "predicate" },
    Method { ty: "Bound", tr: "Ord", name: "cmp" },
    CanonicalPartialCmp { ty: "Bound" },
    Method { ty: "BoundSet", tr: "", name: "new" },
    Method { ty: "BoundSet", tr: "", name: "at_least" },
    Method { ty: "BoundSet", tr: "", name: "at_most" },
    Method { ty: "BoundSet", tr: "", name: "exact" },
    Method { ty: "BoundSet", tr: "", name: "satisfies" },
    Method { ty: "BoundSet", tr: "", name: "min_version" },
    Method { ty: "BoundSet", tr: "", name: "allows_all" },
    Method { ty: "BoundSet", tr: "", name: "allows_any" },
    Method { ty: "BoundSet", tr: "", name: "intersect" },
    Method { ty: "BoundSet", tr: "", name: "difference" },
    Method { ty: "BoundSet", tr: "Display", name: "fmt" },
    Method { ty: "Range", tr: "", name: "any" },
    Method { ty: "Range", tr: "", name: "satisfies" },
    Method { ty: "Range", tr: "", name: "allows_all" },
    Method { ty: "Range", tr: "", name: "allows_any" },
    Method { ty: "Range", tr: "", name: "intersect" },
    Method { ty: "Range", tr: "", name: "difference" },
    Method { ty: "Range", tr: "", name: "max_satisfying" },
    Method { ty: "Range", tr: "", name: "min_satisfying" },
    Method { ty: "Range", tr: "", name: "min_version" },
    Method { ty: "Range", tr: "Display", name: "fmt" },
    Method { ty: "Version", tr: "", name: "satisfies" },
    Method { ty: "Version", tr: "From<Partial>", name: "from" },
    Closure { func: "range", idx: 0, lean: "Semver.Gen.range_fold", captures: &[], params: &["(List (Option Semver.BoundSet))"], ret: "(List Semver.BoundSet)" },
    Closure { func: "bound_sets", idx: 0, lean: "Semver.Gen.bound_sets_flatten", captures: &[], params: &["(List (List Semver.BoundSet))"], ret: "(List Semver.BoundSet)" },
    Closure { func: "primitive", idx: 0, lean: "Semver.Gen.primitive_table", captures: &[], params: &["(Semver.Operation × Semver.Partial)"], ret: "(Option Semver.BoundSet)" },
    Closure { func: "partial", idx: 0, lean: "Semver.Gen.partial_table", captures: &[], params: &["Semver.Partial"], ret: "(Option Semver.BoundSet)" },
    Closure { func: "tilde", idx: 0, lean: "Semver.Gen.tilde_table", captures: &[], params: &["(Option (List Char) × Semver.Partial)"], ret: "(Option Semver.BoundSet)" },
    Closure { func: "caret", idx: 0, lean: "Semver.Gen.caret_table", captures: &[], params: &["Semver.Partial"], ret: "(Option Semver.BoundSet)" },
    // ---- how the crate's error type takes part in winnow's error handling (what SemverGen/Winnow.lean assumes)
    Method { ty: "SemverParseError", tr: "ParserError<I>", name: "from_error_kind" },
    Method { ty: "SemverParseError", tr: "ParserError<I>", name: "append" },
    Method { ty: "SemverParseError", tr: "AddContext<I>", name: "add_context" },
    Method { ty: "SemverParseError", tr: "FromExternalError<&'astr,SemverParseError<&'astr>>", name: "from_external_error" },
    // ---- the winnow parsers of src/lib.rs
    Closure { func: "number", idx: 0, lean: "Semver.Gen.number_check", captures: &["copied"], params: &["(List Char)", "(List Char)"], ret: "(Except Semver.PErr Nat)" },
    Parser { name: "number" },
    Closure { func: "identifier", idx: 1, lean: "Semver.Gen.identifier_classify", captures: &[], params: &["(List Char)"], ret: "Semver.Ident" },
    Parser { name: "identifier" },
    Parser { name: "pre_release" },
    Parser { name: "build" },
    GenType { name: "Extras" },
    Method { ty: "Extras", tr: "", name: "values" },
    Parser { name: "extras" },
    Parser { name: "version_core" },
    Parser { name: "version" },
    // ---- the winnow parsers of src/range.rs
    Parser { name: "x_or_asterisk" },
    Parser { name: "component" },
    Parser { name: "partial_version" },
    Parser { name: "operation" },
    Parser { name: "primitive" },
    Parser { name: "partial" },
    Parser { name: "tilde_gt" },
    Parser { name: "tilde" },
    Parser { name: "caret" },
    Parser { name: "hyphen::parser" },
    Parser { name: "hyphen" },
    Parser { name: "garbage" },
    Parser { name: "simple" },
    Parser { name: "range" },
    Parser { name: "logical_or" },
    Parser { name: "bound_sets" },
    Closure { func: "range_set", idx: 0, lean: "Semver.Gen.range_set_check", captures: &["input"], params: &["(List Char)", "(List Semver.BoundSet)"], ret: "(Except Semver.PErr Semver.Range)" },
    Parser { name: "range_set" },
    // ---- serde: `serialize` writes what Display writes, `deserialize` parses an owned string
    CanonicalBody { ty: "Version", tr: "Serialize", name: "serialize", body: "{s.collect_str(self)}" },
    CanonicalBody { ty: "Version", tr: "Deserialize<'de>", name: "deserialize", body: "{lets=String::deserialize(d)?;s.parse().map_err(serde::de::Error::custom)}" },
    CanonicalBody { ty: "Range", tr: "Serialize", name: "serialize", body: "{s.collect_str(self)}" },
    CanonicalBody { ty: "Range", tr: "Deserialize<'de>", name: "deserialize", body: "{lets=String::deserialize(d)?;s.parse().map_err(serde::de::Error::custom)}" },
    // ---- error positions
    CanonicalBody { ty: "SemverError", tr: "", name: "offset", body: "{self.span.offset()}" },
    // ---- accessors and the miette glue of the error type: what is handed to miette is the input, one label at the span,
    //      and whatever the kind's derived Diagnostic says
    CanonicalBody { ty: "SemverError", tr: "", name: "input", body: "{&self.input}" },
    CanonicalBody { ty: "SemverError", tr: "", name: "span", body: "{&self.span}" },
    CanonicalBody { ty: "SemverError", tr: "", name: "kind", body: "{&self.kind}" },
    CanonicalBody { ty: "SemverError", tr: "Diagnostic", name: "code", body: "{self.kind().code()}" },
    CanonicalBody { ty: "SemverError", tr: "Diagnostic", name: "severity", body: "{self.kind().severity()}" },
    CanonicalBody { ty: "SemverError", tr: "Diagnostic", name: "help", body: "{self.kind().help()}" },
    CanonicalBody { ty: "SemverError", tr: "Diagnostic", name: "url", body: "{self.kind().url()}" },
    CanonicalBody { ty: "SemverError", tr: "Diagnostic", name: "source_code", body: "{Some(&self.input)}" },
    CanonicalBody { ty: "SemverError", tr: "Diagnostic", name: "labels", body: "{Some(Box::new(std::iter::once(miette::LabeledSpan::new_with_span(Some(\"here\".into()),*self.span()),)))}" },
    Method { ty: "SemverError", tr: "", name: "location" },
    // ---- the public entry points
    Method { ty: "Version", tr: "", name: "parse" },
    Method { ty: "Range", tr: "", name: "parse" },
    Method { ty: "Version", tr: "FromStr", name: "from_str" },
    Method { ty: "Range", tr: "FromStr", name: "from_str" },
];

/// functions of the crate that are deliberately not translated: they are tied to the model by the
/// correspondence check only (DESIGN.md §13.4).  A function that is neither translated nor listed
/// here is reported as new.
pub const BY_CORRESPONDENCE_ONLY: &[&str] = &[
    // error plumbing and diagnostics
    // entry points that wrap the winnow parsers, serde, FromStr
    "Version::partial_cmp",
    "Bound::partial_cmp",
    "Operation::fmt",
];

/// names to which the translation gives the meaning of `std` / `winnow`: the crate must not define items of these
/// names, and where it imports them it must import them from the expected path
pub const FIXED_NAMES: &[&str] = &[
    "Some", "None", "Ok", "Err", "Option", "Result", "Vec", "Box", "String", "Ordering", "Ord", "PartialOrd", "PartialEq",
    "Eq", "Hash", "Default", "max", "min", "alt", "opt", "peek", "preceded", "terminated", "delimited", "separated",
    "repeat_till", "take_while", "separated_pair", "literal", "digit1", "space0", "space1", "eof", "any", "Parser", "PResult", "ErrMode",
    "vec", "write", "unreachable", "panic", "debug_assert", "assert", "matches", "format", "todo", "unimplemented",
];

pub const EXPECTED_IMPORTS: &[(&str, &str)] = &[
    ("Ordering", "std::cmp::Ordering"),
    ("Ord", "std::cmp::Ord"),
    ("PartialOrd", "std::cmp::PartialOrd"),
    ("cmp", "std::cmp"),
    ("fmt", "std::fmt"),
    ("ParseIntError", "std::num::ParseIntError"),
    ("digit1", "winnow::ascii::digit1"),
    ("space0", "winnow::ascii::space0"),
    ("space1", "winnow::ascii::space1"),
    ("alt", "winnow::combinator::alt"),
    ("delimited", "winnow::combinator::delimited"),
    ("eof", "winnow::combinator::eof"),
    ("opt", "winnow::combinator::opt"),
    ("peek", "winnow::combinator::peek"),
    ("preceded", "winnow::combinator::preceded"),
    ("repeat_till", "winnow::combinator::repeat_till"),
    ("separated", "winnow::combinator::separated"),
    ("separated_pair", "winnow::combinator::separated_pair"),
    ("terminated", "winnow::combinator::terminated"),
    ("ErrMode", "winnow::error::ErrMode"),
    ("any", "winnow::token::any"),
    ("literal", "winnow::token::literal"),
    ("take_while", "winnow::token::take_while"),
    ("PResult", "winnow::PResult"),
    ("Parser", "winnow::Parser"),
];

/// glob imports at module level that are there today
pub const KNOWN_GLOBS: &[&str] = &["range::*"];

/// modules kept in files of their own that the translator reads
pub const KNOWN_MODULES: &[&str] = &["range"];

/// the version of winnow whose combinators `lean/SemverGen/Winnow.lean` describes
pub const WINNOW_VERSION: &str = "0.6.26";

/// the declarations of the data types, token for token (integer widths matter: the model's naturals stand for `u64`)
pub const EXPECTED_DECLS: &[(&str, &str)] = &[
    ("Version", "{pubmajor:u64,pubminor:u64,pubpatch:u64,pubbuild:Vec<Identifier>,pubpre_release:Vec<Identifier>,}"),
    ("Identifier", "{Numeric(u64),AlphaNumeric(String),}"),
    ("Partial", "{major:Option<u64>,minor:Option<u64>,patch:Option<u64>,pre_release:Vec<Identifier>,build:Vec<Identifier>,}"),
    ("BoundSet", "{upper:Box<Bound>,lower:Box<Bound>,}"),
    ("Predicate", "{Excluding(Version),Including(Version),Unbounded,}"),
    ("Bound", "{Lower(Predicate),Upper(Predicate),}"),
    ("Range", "(Vec<BoundSet>)"),
    ("Operation", "{Exact,GreaterThan,GreaterThanEquals,LessThan,LessThanEquals,}"),
    ("VersionDiff", "{Major,Minor,Patch,PreMajor,PreMinor,PrePatch,PreRelease,}"),
    ("SemverParseError", "{pub(crate)input:I,pub(crate)context:Option<&'staticstr>,pub(crate)kind:Option<SemverErrorKind>,}"),
    ("SemverError", "{input:String,span:SourceSpan,kind:SemverErrorKind,}"),
    ("Extras", "{Build(Vec<Identifier>),Release(Vec<Identifier>),ReleaseAndBuild((Vec<Identifier>,Vec<Identifier>)),}"),
];
