//! translation of function bodies: expressions (term mode) and statement sequences (`Id.run do`)
use std::collections::{BTreeMap, BTreeSet, HashMap, HashSet};

use quote::ToTokens;
use syn::punctuated::Punctuated;
use syn::spanned::Spanned;
use syn::*;

use crate::config;
use crate::tr::*;

#[derive(Clone, Debug)]
pub struct Site {
    /// unwrap | unreachable | arith | debug_assert | cast
    pub kind: String,
    pub line: usize,
    pub text: String,
}

impl Site {
    pub fn json(&self) -> Json {
        let mut m = BTreeMap::new();
        m.insert("kind".into(), Json::S(self.kind.clone()));
        m.insert("line".into(), Json::N(self.line as i64));
        m.insert("text".into(), Json::S(self.text.clone()));
        Json::O(m)
    }
}

#[derive(Clone, Copy, PartialEq, Debug)]
pub enum T {
    /// statement position: no value
    No,
    /// the value of the function: `return v`
    Ret,
    /// the value of a `let x ← …` block: `pure v`
    Val,
}

#[derive(Clone, Copy, PartialEq, Debug)]
pub enum Mode {
    /// a pure function with early returns: `Id.run do`
    Id,
    /// a closure returning `Result<_, SemverParseError>`: `do` in `Except`
    Result,
    /// a winnow parser written as statements: `do` in `Winnow.Parser`
    Parser,
}

pub struct Line {
    pub ind: usize,
    pub text: String,
}

pub struct Fx<'a> {
    pub krate: &'a Crate,
    pub self_ty: Option<String>,
    /// Rust type head of parameters and annotated locals
    pub var_ty: HashMap<String, String>,
    /// name of the formatter in `Display::fmt`
    pub display: Option<String>,
    pub sites: Vec<Site>,
    pub calls: BTreeSet<String>,
    /// functions of the crate that are called but not configured: translated on the fly, emitted before their user
    pub auto_helpers: BTreeSet<String>,
    /// helper parsers being read in place (no recursion)
    pub inlining: Vec<String>,
    /// local variables bound to a closure (`let f = |x| ..;`), callable as `f(a)`
    pub local_closures: HashSet<String>,
    /// local variables bound to a parser (`let body = |input: &mut &str| { .. };`, `let prefix = (opt(..), space0);`)
    pub local_parsers: HashSet<String>,
    /// helper parsers that were read in place
    pub inlined: BTreeSet<String>,
    pub mode: Mode,
    /// closures of the current function that are emitted as definitions of their own: (line, column) -> reference
    pub closure_refs: HashMap<(usize, usize), String>,
    /// name of the enclosing parser function (for nested `fn parser`)
    pub enclosing: String,
    tmp: usize,
}

const LEAN_RESERVED: &[&str] = &[
    "partial", "this", "that", "from", "at", "end", "open", "show", "then", "else", "fun", "have", "local", "prefix",
    "instance", "variable", "where", "in", "do", "mut", "def", "theorem", "match", "with", "if", "let", "set", "at",
    "by", "using", "namespace", "section", "import", "export", "deriving", "structure", "class", "inductive", "some", "none",
    "true", "false", "default", "max", "min", "id",
];

pub fn ident_name(s: &str) -> String {
    let s = s.trim_start_matches("r#");
    if LEAN_RESERVED.contains(&s) {
        format!("{}_", s)
    } else {
        s.to_string()
    }
}

fn mac_name(m: &Macro) -> String {
    m.path.segments.last().map(|s| s.ident.to_string()).unwrap_or_default()
}

fn lit_chars(s: &str) -> String {
    let cs: Vec<String> = s
        .chars()
        .map(|c| match c {
            '\'' => "'\\''".to_string(),
            '\\' => "'\\\\'".to_string(),
            '\n' => "'\\n'".to_string(),
            '\t' => "'\\t'".to_string(),
            c => format!("'{}'", c),
        })
        .collect();
    format!("[{}]", cs.join(", "))
}

/// does the expression (not looking into closures) contain control flow or mutation that needs `do`?
struct NeedsDo(bool);
impl<'ast> syn::visit::Visit<'ast> for NeedsDo {
    fn visit_expr_return(&mut self, _: &'ast ExprReturn) { self.0 = true; }
    fn visit_expr_for_loop(&mut self, _: &'ast ExprForLoop) { self.0 = true; }
    fn visit_expr_while(&mut self, _: &'ast ExprWhile) { self.0 = true; }
    fn visit_expr_loop(&mut self, _: &'ast ExprLoop) { self.0 = true; }
    fn visit_expr_assign(&mut self, _: &'ast ExprAssign) { self.0 = true; }
    fn visit_expr_try(&mut self, _: &'ast ExprTry) { self.0 = true; }
    fn visit_expr_break(&mut self, _: &'ast ExprBreak) { self.0 = true; }
    fn visit_expr_continue(&mut self, _: &'ast ExprContinue) { self.0 = true; }
    fn visit_expr_closure(&mut self, _: &'ast ExprClosure) {}
    fn visit_item(&mut self, _: &'ast Item) {}
    fn visit_expr_binary(&mut self, b: &'ast ExprBinary) {
        use BinOp::*;
        if matches!(b.op, AddAssign(_) | SubAssign(_) | MulAssign(_) | DivAssign(_) | RemAssign(_) | BitXorAssign(_) | BitAndAssign(_) | BitOrAssign(_) | ShlAssign(_) | ShrAssign(_)) {
            self.0 = true;
        }
        syn::visit::visit_expr_binary(self, b);
    }
    fn visit_local(&mut self, l: &'ast Local) {
        if pat_has_mut(&l.pat) {
            self.0 = true;
        }
        syn::visit::visit_local(self, l);
    }
    fn visit_expr_method_call(&mut self, m: &'ast ExprMethodCall) {
        let n = m.method.to_string();
        if n == "parse_next" && m.args.iter().any(|a| matches!(a, Expr::Reference(r) if r.mutability.is_some())) {
            self.0 = true;
        }
        // `x.next()` advances the iterator held in the local `x`; on a temporary it only yields the first item
        if n == "next" && matches!(&*m.receiver, Expr::Path(_)) {
            self.0 = true;
        }
        if n == "push" || n == "append" || n == "hash" || n == "pop" || n == "insert" || n == "clear" || n == "sort" || n == "extend" {
            self.0 = true;
        }
        syn::visit::visit_expr_method_call(self, m);
    }
    fn visit_macro(&mut self, m: &'ast Macro) {
        let n = mac_name(m);
        if n == "write" || n == "writeln" || n == "debug_assert" || n == "assert" || n == "debug_assert_eq" || n == "assert_eq" {
            self.0 = true;
        }
    }
}

fn pat_has_mut(p: &Pat) -> bool {
    match p {
        Pat::Ident(i) => i.mutability.is_some(),
        Pat::Type(t) => pat_has_mut(&t.pat),
        Pat::Tuple(t) => t.elems.iter().any(pat_has_mut),
        _ => false,
    }
}

pub fn expr_needs_do(e: &Expr) -> bool {
    let mut v = NeedsDo(false);
    syn::visit::Visit::visit_expr(&mut v, e);
    v.0
}
pub fn block_needs_do(b: &Block) -> bool {
    let mut v = NeedsDo(false);
    syn::visit::Visit::visit_block(&mut v, b);
    v.0
}

fn is_irrefutable(p: &Pat) -> bool {
    match p {
        Pat::Wild(_) => true,
        Pat::Ident(i) => i.subpat.is_none() && variant_ctor(None, &i.ident.to_string()).is_none(),
        Pat::Tuple(t) => t.elems.iter().all(is_irrefutable),
        Pat::Reference(r) => is_irrefutable(&r.pat),
        Pat::Paren(p) => is_irrefutable(&p.pat),
        Pat::Type(t) => is_irrefutable(&t.pat),
        _ => false,
    }
}

fn render(lines: &[Line]) -> String {
    let mut o = String::new();
    for l in lines {
        let pad = "  ".repeat(l.ind);
        let mut first = true;
        for part in l.text.split('\n') {
            if first {
                o.push_str(&format!("{}{}\n", pad, part));
                first = false;
            } else {
                o.push_str(&format!("{}    {}\n", pad, part));
            }
        }
    }
    o
}

impl<'a> Fx<'a> {
    pub fn new(krate: &'a Crate, self_ty: Option<String>) -> Self {
        Fx { krate, self_ty, var_ty: HashMap::new(), display: None, sites: vec![], calls: BTreeSet::new(), auto_helpers: BTreeSet::new(), inlining: vec![], local_closures: HashSet::new(), local_parsers: HashSet::new(), inlined: BTreeSet::new(), mode: Mode::Id, closure_refs: HashMap::new(), enclosing: String::new(), tmp: 0 }
    }

    fn site(&mut self, kind: &str, sp: proc_macro2::Span, text: String) {
        self.sites.push(Site { kind: kind.into(), line: sp.start().line, text });
    }

    fn fresh(&mut self, base: &str) -> String {
        self.tmp += 1;
        format!("{}{}", base, self.tmp)
    }

    fn ty(&self, t: &Type) -> R<String> {
        lean_type(t, self.self_ty.as_deref())
    }

    // --------------------------------------------------------------------------------- functions
    pub fn function(&mut self, f: &FnInfo, lname: &str, tr: &str) -> R<String> {
        let doc = format!("/-- `{}` ({}:{}-{}) -/\n", f.qual, f.file, f.line, f.end_line);
        if tr == "Hash" {
            return self.hash_fn(f, lname, &doc);
        }
        let mut binders = vec![];
        let mut pre_lets: Vec<String> = vec![];
        let mut is_display = false;
        // `S: AsRef<str>`: a string
        let mut str_params: Vec<String> = vec![];
        for g in &f.sig.generics.params {
            if let GenericParam::Type(tp) = g {
                if tp.bounds.to_token_stream().to_string().replace(' ', "") == "AsRef<str>" {
                    str_params.push(tp.ident.to_string());
                } else {
                    return Err(format!("generic parameter `{}` is not modelled", tp.to_token_stream()));
                }
            }
        }
        for (i, a) in f.sig.inputs.iter().enumerate() {
            match a {
                FnArg::Receiver(_) => {
                    let st = self.self_ty.clone().ok_or("self outside impl")?;
                    let lt = lean_type_name(&st).ok_or("unmapped self type")?;
                    self.var_ty.insert("self".into(), st);
                    binders.push(format!("(self : {})", lt));
                }
                FnArg::Typed(pt) => {
                    if (tr == "Display" && i == 1) || (tr.is_empty() && is_formatter_type(&pt.ty) && fmt_result(&f.sig)) {
                        // the formatter: the function returns what it writes (also a helper that is handed the formatter)
                        if let Pat::Ident(id) = &*pt.pat {
                            self.display = Some(ident_name(&id.ident.to_string()));
                            is_display = true;
                            continue;
                        }
                    }
                    let unused = matches!(&*pt.pat, Pat::Ident(id) if id.ident.to_string().starts_with('_'));
                    let lt = if str_params.contains(&pt.ty.to_token_stream().to_string()) {
                        "(List Char)".to_string()
                    } else {
                        match self.ty(&pt.ty) {
                            Ok(t) => t,
                            // a parameter the function does not look at
                            Err(_) if unused => "Unit".to_string(),
                            Err(e) => return Err(e),
                        }
                    };
                    let alts = self.pat_alts(&pt.pat)?;
                    if alts.len() != 1 {
                        return Err("or-pattern in a parameter".into());
                    }
                    if let Pat::Ident(id) = &*pt.pat {
                        if let Some(h) = type_head(&pt.ty) {
                            let h = if h == "Self" { self.self_ty.clone().unwrap_or(h) } else { h };
                            self.var_ty.insert(id.ident.to_string(), h);
                        }
                        binders.push(format!("({} : {})", alts[0], lt));
                    } else {
                        // a pattern parameter: bind a fresh name and destructure
                        let n = self.fresh("arg");
                        binders.push(format!("({} : {})", n, lt));
                        pre_lets.push(format!("let {} := {}", alts[0], n));
                    }
                }
            }
        }
        let ret = if is_display {
            "(List Char)".to_string()
        } else {
            match &f.sig.output {
                ReturnType::Default => "Unit".to_string(),
                ReturnType::Type(_, t) => self.ty(t)?,
            }
        };
        let head = format!("def {} {} : {} :=", lname, binders.join(" "), ret);
        if ret.starts_with("(Except ") {
            self.mode = Mode::Result;
            let mut lines: Vec<Line> = pre_lets.iter().map(|p| Line { ind: 1, text: p.clone() }).collect();
            lines.extend(self.stmts(&f.block, 1, T::Ret)?);
            return Ok(format!("{}{} do\n{}", doc, head, render(&lines)));
        }
        let body = self.body(&f.block, is_display, &pre_lets)?;
        Ok(format!("{}{}{}", doc, head, body))
    }

    /// ` <term>\n` or ` Id.run do\n  <lines>`
    fn body(&mut self, b: &Block, is_display: bool, pre_lets: &[String]) -> R<String> {
        if !pre_lets.is_empty() {
            let mut lines: Vec<Line> = pre_lets.iter().map(|p| Line { ind: 1, text: p.clone() }).collect();
            if block_needs_do(b) {
                lines.extend(self.stmts(b, 1, T::Ret)?);
                return Ok(format!(" Id.run do\n{}", render(&lines)));
            }
            let t = self.block_term(b, true)?;
            lines.push(Line { ind: 1, text: t });
            return Ok(format!("\n{}", render(&lines)));
        }
        if is_display {
            let f = self.display.clone().unwrap();
            let mut lines = vec![Line { ind: 1, text: format!("let mut {} : List Char := []", f) }];
            lines.extend(self.stmts(b, 1, T::Ret)?);
            lines.push(Line { ind: 1, text: format!("return {}", f) });
            return Ok(format!(" Id.run do\n{}", render(&lines)));
        }
        if block_needs_do(b) {
            let lines = self.stmts(b, 1, T::Ret)?;
            Ok(format!(" Id.run do\n{}", render(&lines)))
        } else {
            let t = self.block_term(b, true)?;
            Ok(format!("\n  {}\n", t.replace('\n', "\n  ")))
        }
    }

    fn hash_fn(&mut self, f: &FnInfo, lname: &str, doc: &str) -> R<String> {
        let st = self.self_ty.clone().ok_or("self outside impl")?;
        let lt = lean_type_name(&st).ok_or("unmapped self type")?;
        let state = match f.sig.inputs.iter().nth(1) {
            Some(FnArg::Typed(p)) => p.pat.to_token_stream().to_string(),
            _ => return Err("unexpected signature of hash".into()),
        };
        let mut fed = vec![];
        for s in &f.block.stmts {
            let e = match s {
                Stmt::Expr(e, _) => e,
                _ => return Err("hash: only `x.hash(state);` statements are supported".into()),
            };
            match e {
                Expr::MethodCall(m) if m.method == "hash" && m.args.len() == 1 && m.args[0].to_token_stream().to_string() == state => {
                    fed.push(self.expr(&m.receiver)?);
                }
                _ => return Err(format!("hash: unsupported statement `{}`", e.to_token_stream())),
            }
        }
        Ok(format!(
            "{}/- the values fed to the hasher, in order -/\ndef {} (self : {}) :=\n  ({})\n",
            doc,
            lname,
            lt,
            fed.join(", ")
        ))
    }

    pub fn closure_item(&mut self, c: &ExprClosure, lean: &str, captures: &[&str], params: &[&str], ret: &str, func: &str) -> R<String> {
        if c.inputs.len() + captures.len() != params.len() {
            return Err(format!("closure takes {} parameters and {} captures, {} types given", c.inputs.len(), captures.len(), params.len()));
        }
        let mut binders = vec![];
        let mut pre = vec![];
        for (cap, t) in captures.iter().zip(params) {
            binders.push(format!("({} : {})", ident_name(cap), t));
        }
        if ret.starts_with("(Except") {
            self.mode = Mode::Result;
        }
        for (p, t) in c.inputs.iter().zip(&params[captures.len()..]) {
            let p = match p {
                Pat::Type(pt) => &*pt.pat,
                p => p,
            };
            match p {
                Pat::Ident(id) => binders.push(format!("({} : {})", ident_name(&id.ident.to_string()), t)),
                other => {
                    let alts = self.pat_alts(other)?;
                    if alts.len() != 1 {
                        return Err("or-pattern in a closure parameter".into());
                    }
                    let n = self.fresh("arg");
                    binders.push(format!("({} : {})", n, t));
                    pre.push(format!("let {} := {}", alts[0], n));
                }
            }
        }
        let doc = format!("/-- closure of `{}()` (line {}) -/\n", func, c.span().start().line);
        let head = format!("def {} {} : {} :=", lean, binders.join(" "), ret);
        let needs_do = expr_needs_do(&c.body);
        let body = if needs_do {
            let mut lines: Vec<Line> = pre.iter().map(|p| Line { ind: 1, text: p.clone() }).collect();
            match &*c.body {
                Expr::Block(b) => lines.extend(self.stmts(&b.block, 1, T::Ret)?),
                e => lines.extend(self.tail_stmt(e, 1, T::Ret)?),
            }
            format!(" {}\n{}", if self.mode == Mode::Result { "do" } else { "Id.run do" }, render(&lines))
        } else {
            let t = match &*c.body {
                Expr::Match(m) => self.match_term(m, true)?,
                e => self.expr(e)?,
            };
            let pre_s: String = pre.iter().map(|p| format!("{}; ", p)).collect();
            format!("\n  {}{}\n", pre_s, t.replace('\n', "\n  "))
        };
        Ok(format!("{}{}{}", doc, head, body))
    }


    // ----------------------------------------------------------------------------------- parsers
    /// closures of `f` that the configuration emits as definitions of their own: references to them
    pub fn register_closures(&mut self, f: &FnInfo) {
        let cls = closures_of(&f.block);
        for it in config::ITEMS {
            if let config::Item::Closure { func, idx, lean, captures, .. } = it {
                if *func == f.qual {
                    if let Some(c) = cls.get(*idx) {
                        let st = c.span().start();
                        let r = if captures.is_empty() {
                            lean.to_string()
                        } else {
                            format!("({} {})", lean, captures.iter().map(|c| ident_name(c)).collect::<Vec<_>>().join(" "))
                        };
                        self.closure_refs.insert((st.line, st.column), r);
                    }
                }
            }
        }
    }

    /// a winnow parser of the crate: `fn name(input: &mut &str) -> PResult<T, _>`
    pub fn parser_fn(&mut self, f: &FnInfo, lname: &str) -> R<String> {
        let out = parser_output(&f.sig).ok_or("not the signature of a parser: (input: &mut &str) -> PResult<T, _>")?;
        let t = self.ty(&out)?;
        self.mode = Mode::Parser;
        self.enclosing = f.qual.clone();
        let doc = format!("/-- parser `{}` ({}:{}-{}) -/\n", f.qual, f.file, f.line, f.end_line);
        // statements other than `use` and nested functions?
        for st in &f.block.stmts {
            if let Stmt::Item(Item::Use(u)) = st {
                self.check_local_use(u)?;
            }
        }
        let real: Vec<&Stmt> = f.block.stmts.iter().filter(|s| !matches!(s, Stmt::Item(_))).collect();
        if real.len() == 1 {
            if let Stmt::Expr(e, None) = real[0] {
                // one combinator expression; `input` inside it is the input at the start (closures capture it there)
                let body = self.pexpr(e)?;
                return Ok(format!("{}def {} : Winnow.Parser {} := fun input =>\n  {} input\n", doc, lname, t, body));
            }
        }
        let lines = self.stmts(&f.block, 1, T::Ret)?;
        Ok(format!("{}def {} : Winnow.Parser {} := do\n{}", doc, lname, t, render(&lines)))
    }

    /// `p.parse_next(input)` or `f(input)`: the parser that is run
    fn monadic(&mut self, e: &Expr) -> R<String> {
        match self.mode {
            Mode::Parser => match e {
                Expr::MethodCall(m) if m.method == "parse_next" && m.args.len() == 1 && is_input(&m.args[0]) => self.pexpr(&m.receiver),
                Expr::Call(c) if c.args.len() == 1 && is_input(&c.args[0]) => self.pexpr(&c.func),
                Expr::Paren(p) => self.monadic(&p.expr),
                _ => Err(format!("`?` on something other than a parser applied to `input`: `{}`", short(e))),
            },
            Mode::Result => self.expr(e),
            Mode::Id => Err("`?` in a function that is not fallible".into()),
        }
    }

    /// the value of a fallible function or closure: `Ok(v)`, `Err(e)`, or (parsers) `p.parse_next(input)`
    fn result_value(&mut self, e: &Expr, is_return: bool) -> R<String> {
        let kw = if is_return { "return" } else { "pure" };
        match e {
            Expr::Paren(p) => self.result_value(&p.expr, is_return),
            Expr::Call(c) if c.func.to_token_stream().to_string() == "Ok" && c.args.len() == 1 => {
                Ok(format!("{} {}", kw, self.expr_atom(&c.args[0])?))
            }
            Expr::Call(c) if c.func.to_token_stream().to_string() == "Err" && c.args.len() == 1 => {
                let v = self.expr_atom(&c.args[0])?;
                Ok(match self.mode {
                    Mode::Parser => format!("Winnow.fail {}", v),
                    _ => format!("throw {}", v),
                })
            }
            Expr::Try(t) => self.monadic(&t.expr),
            _ if self.mode == Mode::Parser => self.monadic(e),
            // a call of another fallible function as the last expression: its result is the result
            Expr::Call(_) | Expr::MethodCall(_) if !is_return && !expr_needs_do(e) => self.expr(e),
            _ => Err(format!("the value of a fallible function is neither `Ok(..)` nor `Err(..)`: `{}`", short(e))),
        }
    }

    /// a parser-valued expression
    pub fn pexpr(&mut self, e: &Expr) -> R<String> {
        match e {
            Expr::Paren(p) => self.pexpr(&p.expr),
            Expr::Path(p) => {
                let segs: Vec<String> = p.path.segments.iter().map(|s| s.ident.to_string()).collect();
                if segs.len() != 1 {
                    return Err(format!("unsupported parser `{}`", segs.join("::")));
                }
                let n = &segs[0];
                match n.as_str() {
                    "space0" | "space1" | "digit1" | "eof" | "any" => return Ok(format!("Winnow.{}", n)),
                    _ => {}
                }
                if self.local_parsers.contains(n.as_str()) {
                    return Ok(ident_name(n));
                }
                // nested function of the enclosing parser, then free functions
                let nested = format!("{}::{}", self.enclosing, n);
                for q in [nested, n.clone()] {
                    if let Some(f) = self.krate.fns.iter().find(|f| f.qual == q) {
                        if parser_output(&f.sig).is_some() {
                            self.calls.insert(q.clone());
                            // a parser somebody extracted: if it is one combinator expression it is read in place (the
                            // generated text is then what it was before the extraction); otherwise it is translated on
                            // the fly, before its user
                            if !config::ITEMS.iter().any(|i| matches!(i, config::Item::Parser { name } if *name == q.as_str())) {
                                let real: Vec<&Stmt> = f.block.stmts.iter().filter(|s| !matches!(s, Stmt::Item(_))).collect();
                                if real.len() == 1 && crate::tr::closures_of(&f.block).is_empty() && !self.inlining.contains(&q) {
                                    if let Stmt::Expr(body, None) = real[0] {
                                        check_block_attrs(&f.block)?;
                                        for st in &f.block.stmts {
                                            if let Stmt::Item(Item::Use(u)) = st {
                                                self.check_local_use(u)?;
                                            }
                                        }
                                        let saved = std::mem::replace(&mut self.enclosing, f.qual.clone());
                                        self.inlining.push(q.clone());
                                        let r = self.pexpr(body);
                                        self.inlining.pop();
                                        self.inlined.insert(q.clone());
                                        self.enclosing = saved;
                                        return r;
                                    }
                                }
                                self.auto_helpers.insert(q.clone());
                            }
                            return Ok(format!("Semver.Gen.{}", q.replace("::", "_")));
                        }
                    }
                }
                Err(format!("`{}` is not a parser the translator knows", n))
            }
            Expr::Tuple(t) => {
                let n = t.elems.len();
                if !(2..=6).contains(&n) {
                    return Err(format!("a sequence of {} parsers", n));
                }
                let parts: R<Vec<String>> = t.elems.iter().map(|x| self.pexpr_atom(x)).collect();
                Ok(format!("(Winnow.seq{} {})", n, parts?.join(" ")))
            }
            Expr::MethodCall(m) => {
                let name = m.method.to_string();
                if let Some((t, _)) = self.krate.crate_trait_methods.iter().find(|(_, n)| *n == name) {
                    return Err(format!("the crate's own trait `{}` declares a method `{}`", t, name));
                }
                match (name.as_str(), m.args.len()) {
                    ("parse_next", 1) if is_input(&m.args[0]) => self.pexpr(&m.receiver),
                    ("map", 1) => Ok(format!("(Winnow.map {} {})", self.pexpr_atom(&m.receiver)?, self.expr_atom(&m.args[0])?)),
                    ("try_map", 1) => Ok(format!("(Winnow.tryMap {} {})", self.pexpr_atom(&m.receiver)?, self.expr_atom(&m.args[0])?)),
                    ("take", 0) => Ok(format!("(Winnow.take {})", self.pexpr_atom(&m.receiver)?)),
                    ("context", 1) => match &m.args[0] {
                        Expr::Lit(ExprLit { lit: Lit::Str(sl), .. }) => {
                            Ok(format!("(Winnow.context {:?} {})", sl.value(), self.pexpr_atom(&m.receiver)?))
                        }
                        _ => Err("context(..) without a string literal".into()),
                    },
                    _ => Err(format!("parser method `{}` is not modelled", name)),
                }
            }
            Expr::Call(c) => {
                let Expr::Path(p) = &*c.func else { return Err("call of a computed parser".into()) };
                let segs: Vec<String> = p.path.segments.iter().map(|s| s.ident.to_string()).collect();
                let joined = segs.join("::");
                let a: Vec<&Expr> = c.args.iter().collect();
                // `helper()` where `fn helper() -> impl Parser<..> { one combinator expression }`: read in place
                if segs.len() == 1 && a.is_empty() {
                    let krate = self.krate;
                    if let Some(f) = krate.fns.iter().find(|f| f.qual == segs[0] && f.ty.is_none() && f.sig.inputs.is_empty()) {
                        let ret = match &f.sig.output {
                            ReturnType::Type(_, t) => t.to_token_stream().to_string().replace(' ', ""),
                            _ => String::new(),
                        };
                        let real: Vec<&Stmt> = f.block.stmts.iter().filter(|s| !matches!(s, Stmt::Item(_))).collect();
                        if ret.starts_with("implParser<") && real.len() == 1 && crate::tr::closures_of(&f.block).is_empty() && !self.inlining.contains(&segs[0]) {
                            if let Stmt::Expr(body, None) = real[0] {
                                check_block_attrs(&f.block)?;
                                for st in &f.block.stmts {
                                    if let Stmt::Item(Item::Use(u)) = st {
                                        self.check_local_use(u)?;
                                    }
                                }
                                let saved = std::mem::replace(&mut self.enclosing, f.qual.clone());
                                self.inlining.push(segs[0].clone());
                                let r = self.pexpr(body);
                                self.inlining.pop();
                                self.inlined.insert(segs[0].clone());
                                self.calls.insert(segs[0].clone());
                                self.enclosing = saved;
                                return r;
                            }
                        }
                    }
                }
                match (joined.as_str(), a.len()) {
                    ("literal", 1) => match a[0] {
                        Expr::Lit(ExprLit { lit: Lit::Str(sl), .. }) => Ok(format!("(Winnow.literal {})", lit_chars(&sl.value()))),
                        _ => Err("literal(..) without a string literal".into()),
                    },
                    ("opt", 1) => Ok(format!("(Winnow.opt {})", self.pexpr_atom(a[0])?)),
                    ("peek", 1) => Ok(format!("(Winnow.peek {})", self.pexpr_atom(a[0])?)),
                    ("alt", 1) => match a[0] {
                        Expr::Tuple(t) => {
                            let parts: R<Vec<String>> = t.elems.iter().map(|x| self.pexpr(x)).collect();
                            Ok(format!("(Winnow.alt [{}])", parts?.join(", ")))
                        }
                        _ => Err("alt(..) without a tuple".into()),
                    },
                    ("preceded", 2) => Ok(format!("(Winnow.preceded {} {})", self.pexpr_atom(a[0])?, self.pexpr_atom(a[1])?)),
                    ("terminated", 2) => Ok(format!("(Winnow.terminated {} {})", self.pexpr_atom(a[0])?, self.pexpr_atom(a[1])?)),
                    ("separated_pair", 3) => Ok(format!(
                        "(Winnow.separatedPair {} {} {})",
                        self.pexpr_atom(a[0])?,
                        self.pexpr_atom(a[1])?,
                        self.pexpr_atom(a[2])?
                    )),
                    ("delimited", 3) => Ok(format!(
                        "(Winnow.delimited {} {} {})",
                        self.pexpr_atom(a[0])?,
                        self.pexpr_atom(a[1])?,
                        self.pexpr_atom(a[2])?
                    )),
                    ("separated", 3) => {
                        let r = a[0].to_token_stream().to_string().replace(' ', "");
                        let f = match r.as_str() {
                            "0.." => "separated0",
                            "1.." => "separated1",
                            _ => return Err(format!("separated({}, ..) is not modelled", r)),
                        };
                        Ok(format!("(Winnow.{} {} {})", f, self.pexpr_atom(a[1])?, self.pexpr_atom(a[2])?))
                    }
                    ("repeat_till", 3) => {
                        let r = a[0].to_token_stream().to_string().replace(' ', "");
                        if r != "0.." {
                            return Err(format!("repeat_till({}, ..) is not modelled", r));
                        }
                        Ok(format!(
                            "(fun s => Winnow.repeatTill0 {} {} (s.length + 1) s)",
                            self.pexpr_atom(a[1])?,
                            self.pexpr_atom(a[2])?
                        ))
                    }
                    ("take_while", 2) => {
                        let r = a[0].to_token_stream().to_string().replace(' ', "");
                        let f = match r.as_str() {
                            "0.." => "takeWhile0",
                            "1.." => "takeWhile1",
                            _ => return Err(format!("take_while({}, ..) is not modelled", r)),
                        };
                        Ok(format!("(Winnow.{} {})", f, self.expr_atom(a[1])?))
                    }
                    ("Parser::map", 2) => Ok(format!("(Winnow.map {} {})", self.pexpr_atom(a[0])?, self.expr_atom(a[1])?)),
                    ("Parser::try_map", 2) => Ok(format!("(Winnow.tryMap {} {})", self.pexpr_atom(a[0])?, self.expr_atom(a[1])?)),
                    ("Parser::take", 1) => Ok(format!("(Winnow.take {})", self.pexpr_atom(a[0])?)),
                    _ => Err(format!("parser combinator `{}` with {} arguments is not modelled", joined, a.len())),
                }
            }
            // a closure used as a parser: `|input: &mut &str| { statements }`
            Expr::Closure(c) if c.inputs.len() == 1 && closure_param_is_input(&c.inputs[0]) => {
                let Expr::Block(b) = &*c.body else {
                    return Err("a parser closure whose body is not a block".into());
                };
                let saved_mode = self.mode;
                self.mode = Mode::Parser;
                let lines = self.stmts(&b.block, 3, T::Ret);
                self.mode = saved_mode;
                let text = render(&lines?);
                Ok(format!("(do\n{})", text.trim_end_matches('\n')))
            }
            _ => Err(format!("unsupported parser expression `{}`", short(e))),
        }
    }

    fn pexpr_atom(&mut self, e: &Expr) -> R<String> {
        let s = self.pexpr(e)?;
        if s.starts_with('(') || !s.contains(' ') {
            Ok(s)
        } else {
            Ok(format!("({})", s))
        }
    }

    /// a `use` inside a body may only bring the variants of one of the crate's enums (or of `Ordering`) into scope:
    /// a renaming import (`use Predicate::{Including as Excluding}`) would change what the names in the body mean
    fn check_local_use(&self, u: &ItemUse) -> R<()> {
        if let UseTree::Path(p) = &u.tree {
            if let UseTree::Glob(_) = &*p.tree {
                let n = p.ident.to_string();
                if n == "Ordering" || self.krate.enums.contains_key(n.as_str()) {
                    return Ok(());
                }
            }
        }
        Err(format!("a `use` inside a body other than `Enum::*`: `{}`", u.to_token_stream()))
    }

    // -------------------------------------------------------------------------------- statements
    fn stmts(&mut self, b: &Block, ind: usize, tail: T) -> R<Vec<Line>> {
        check_block_attrs(b)?;
        let mut out = vec![];
        let n = b.stmts.len();
        for (i, s) in b.stmts.iter().enumerate() {
            let last = i + 1 == n;
            match s {
                Stmt::Item(Item::Use(u)) => self.check_local_use(u)?,
                Stmt::Item(Item::Fn(_)) => {}
                Stmt::Item(other) => return Err(format!("unsupported item in a body: `{}`", other.to_token_stream())),
                Stmt::Local(l) => out.extend(self.local(l, ind)?),
                Stmt::Macro(m) => out.extend(self.macro_stmt(&m.mac, ind)?),
                Stmt::Expr(e, semi) => {
                    if last && tail != T::No && semi.is_none() {
                        out.extend(self.tail_stmt(e, ind, tail)?);
                    } else {
                        out.extend(self.expr_stmt(e, ind)?);
                    }
                }
            }
        }
        if out.is_empty() {
            out.push(Line { ind, text: "pure ()".into() });
        }
        Ok(out)
    }

    fn local(&mut self, l: &Local, ind: usize) -> R<Vec<Line>> {
        let (pat, ann) = match &l.pat {
            Pat::Type(pt) => (&*pt.pat, Some(self.ty(&pt.ty)?)),
            p => (p, None),
        };
        let init = l.init.as_ref().ok_or("let without initialiser")?;
        if let Some((_, div)) = &init.diverge {
            // `let PAT = e else { diverge };`  is Lean's  `let PAT := e | diverge`
            let alts = self.pat_alts(pat)?;
            if alts.len() != 1 || pat_has_mut(pat) {
                return Err("let-else with an or-pattern or `mut`".into());
            }
            if expr_needs_do(&init.expr) {
                return Err("let-else on a value with control flow inside".into());
            }
            let v = self.expr(&init.expr)?;
            let saved = self.display.take();
            let inner = self.tail_stmt(div, ind + 4, T::No);
            self.display = saved;
            let inner = inner?;
            let mut out = vec![Line { ind, text: format!("let {} := {}", alts[0], v) }];
            let mut first = true;
            for l in inner {
                if first {
                    out.push(Line { ind: ind + 2, text: format!("| {}", l.text) });
                    first = false;
                } else {
                    out.push(l);
                }
            }
            return Ok(out);
        }
        if let (Pat::Wild(_), Expr::Try(t)) = (pat, &*init.expr) {
            let m = self.monadic(&t.expr)?;
            return Ok(vec![Line { ind, text: format!("let _ ← {}", m) }]);
        }
        if let Pat::Wild(_) = pat {
            // `let _ = e;` with a pure `e`
            if expr_needs_do(&init.expr) {
                return Err("`let _ =` with effects".into());
            }
            let _ = self.expr(&init.expr)?;
            return Ok(vec![]);
        }
        if let (Pat::Type(pt), Pat::Ident(id)) = (&l.pat, pat) {
            if let Some(h) = type_head(&pt.ty) {
                self.var_ty.insert(id.ident.to_string(), h);
            }
        }
        let alts = self.pat_alts(pat)?;
        if alts.len() != 1 {
            return Err("or-pattern in let".into());
        }
        let mutable = pat_has_mut(pat);
        if mutable && !matches!(pat, Pat::Ident(_)) {
            return Err("`let mut` with a pattern".into());
        }
        let ann_s = ann.map(|a| format!(" : {}", a)).unwrap_or_default();
        if let Expr::Try(t) = &*init.expr {
            let m = self.monadic(&t.expr)?;
            return Ok(vec![Line { ind, text: format!("let {}{}{} ← {}", if mutable { "mut " } else { "" }, alts[0], ann_s, m) }]);
        }
        if self.mode == Mode::Parser && init.expr.to_token_stream().to_string().replace(' ', "") == "input.clone()" {
            return Ok(vec![Line { ind, text: format!("let {}{} ← Winnow.getInput", alts[0], ann_s) }]);
        }
        if expr_needs_do(&init.expr) && matches!(&*init.expr, Expr::Match(_) | Expr::If(_)) && contains_return(&init.expr) {
            // `let x ← match … with | p => return v | q => pure w`: the match is a do-element, so a `return` in an arm
            // leaves the function, as in Rust
            let saved = self.display.take();
            let inner = self.tail_stmt(&init.expr, ind + 2, T::Val);
            self.display = saved;
            let inner = inner?;
            let mut out = vec![];
            let mut it = inner.into_iter();
            if let Some(first) = it.next() {
                out.push(Line { ind, text: format!("let {}{}{} ← {}", if mutable { "mut " } else { "" }, alts[0], ann_s, first.text) });
            }
            out.extend(it);
            return Ok(out);
        }
        if expr_needs_do(&init.expr) && matches!(&*init.expr, Expr::Match(_) | Expr::If(_) | Expr::Block(_)) {
            // the value of a block with statements inside: `let x ← <do block ending in pure v>`
            let mut out = vec![Line { ind, text: format!("let {}{}{} ← (do", if mutable { "mut " } else { "" }, alts[0], ann_s) }];
            let saved = self.display.take();
            let inner = self.tail_stmt(&init.expr, ind + 2, T::Val);
            self.display = saved;
            out.extend(inner?);
            out.push(Line { ind: ind + 2, text: ")".into() });
            return Ok(out);
        }
        if self.mode == Mode::Parser && !mutable {
            if let Pat::Ident(id) = pat {
                let is_parser_value = match &*init.expr {
                    Expr::Closure(c) => c.inputs.len() == 1 && closure_param_is_input(&c.inputs[0]),
                    Expr::Tuple(t) => t.elems.len() >= 2 && t.elems.iter().all(|x| matches!(x, Expr::Call(_) | Expr::Path(_))),
                    _ => false,
                };
                if is_parser_value {
                    let pe = self.pexpr(&init.expr)?;
                    self.local_parsers.insert(id.ident.to_string());
                    let name = ident_name(&id.ident.to_string());
                    if pe.starts_with("(do\n") {
                        // a statement-style parser: the monad has to be named for the `do` block to elaborate
                        let inner = &pe[1..pe.len() - 1];
                        return Ok(vec![Line { ind, text: format!("let {} : Winnow.Parser _ := ({})", name, inner) }]);
                    }
                    return Ok(vec![Line { ind, text: format!("let {} := {}", name, pe) }]);
                }
            }
        }
        if let (Pat::Ident(id), Expr::Closure(_)) = (pat, &*init.expr) {
            if !mutable {
                self.local_closures.insert(id.ident.to_string());
            }
        }
        let mut pre = vec![];
        let v = self.value(&init.expr, ind, &mut pre)?;
        pre.push(Line { ind, text: format!("let {}{}{} := {}", if mutable { "mut " } else { "" }, alts[0], ann_s, v) });
        Ok(pre)
    }

    /// inside `Display::fmt` (or a formatter helper): `helper(f, a, b)` where `helper` is a function of the crate that is
    /// handed the formatter.  Returns the Lean term for what the call writes.
    fn formatter_helper_call(&mut self, e: &Expr) -> Option<R<String>> {
        let fvar = self.display.clone()?;
        let e = match e {
            Expr::Try(t) => &*t.expr,
            Expr::Paren(p) => &*p.expr,
            e => e,
        };
        let Expr::Call(c) = e else { return None };
        let Expr::Path(p) = &*c.func else { return None };
        let segs: Vec<String> = p.path.segments.iter().map(|s| s.ident.to_string()).collect();
        if segs.len() != 1 {
            return None;
        }
        let krate = self.krate;
        let f = krate.fns.iter().find(|f| f.qual == segs[0] && f.ty.is_none())?;
        if !fmt_result(&f.sig) {
            return None;
        }
        let mut rest = vec![];
        let mut seen_f = false;
        for (a, param) in c.args.iter().zip(f.sig.inputs.iter()) {
            let is_fmt = matches!(param, FnArg::Typed(pt) if is_formatter_type(&pt.ty));
            if is_fmt {
                if ident_name(&strip_refs(a).to_token_stream().to_string()) != fvar {
                    return Some(Err("a formatter helper is handed something other than the formatter".into()));
                }
                seen_f = true;
            } else {
                rest.push(a);
            }
        }
        if !seen_f {
            return None;
        }
        let mut args = vec![];
        for a in rest {
            match self.expr_atom(a) {
                Ok(x) => args.push(x),
                Err(e) => return Some(Err(e)),
            }
        }
        self.calls.insert(segs[0].clone());
        self.auto_helpers.insert(segs[0].clone());
        Some(Ok(format!("(Semver.Gen.auto_{} {})", segs[0], args.join(" "))))
    }

    /// inside `Display::fmt`: `iter.try_for_each(|x| write!(f, ..))` is a loop that writes
    fn try_for_each_write(&mut self, e: &Expr, ind: usize) -> Option<R<Vec<Line>>> {
        self.display.as_ref()?;
        let e = match e {
            Expr::Try(t) => &*t.expr,
            e => e,
        };
        let Expr::MethodCall(m) = e else { return None };
        if m.method != "try_for_each" || m.args.len() != 1 {
            return None;
        }
        let Expr::Closure(c) = &m.args[0] else { return None };
        if c.inputs.len() != 1 {
            return None;
        }
        Some((|| -> R<Vec<Line>> {
            let p = match &c.inputs[0] {
                Pat::Type(pt) => &*pt.pat,
                p => p,
            };
            let alts = self.pat_alts(p)?;
            if alts.len() != 1 {
                return Err("or-pattern in a closure parameter".into());
            }
            if expr_needs_do(&m.receiver) {
                return Err("loop over a value with effects".into());
            }
            let it = self.expr(&m.receiver)?;
            let mut out = vec![Line { ind, text: format!("for {} in {} do", alts[0], it) }];
            out.extend(self.tail_stmt(&c.body, ind + 1, T::No)?);
            Ok(out)
        })())
    }

    /// a value used by a statement: a pure term, or `x.next()` on a mutable iterator (which advances it)
    fn value(&mut self, e: &Expr, ind: usize, pre: &mut Vec<Line>) -> R<String> {
        if let Expr::MethodCall(m) = e {
            if m.method == "next" && m.args.is_empty() {
                if let Expr::Path(p) = &*m.receiver {
                    if let Some(id) = p.path.get_ident() {
                        let x = ident_name(&id.to_string());
                        let t = self.fresh("it");
                        pre.push(Line { ind, text: format!("let {} := Rust.next {}", t, x) });
                        pre.push(Line { ind, text: format!("{} := {}.2", x, t) });
                        return Ok(format!("{}.1", t));
                    }
                }
            }
        }
        if let Expr::MethodCall(m) = e {
            // `p.parse_next(&mut x)` on a local string: the result, and `x` advanced
            if m.method == "parse_next" && m.args.len() == 1 {
                if let Expr::Reference(r) = &m.args[0] {
                    if r.mutability.is_some() {
                        if let Expr::Path(p) = &*r.expr {
                            if let Some(id) = p.path.get_ident() {
                                let x = ident_name(&id.to_string());
                                let saved = self.mode;
                                self.mode = Mode::Parser;
                                let pe = self.pexpr_atom(&m.receiver);
                                self.mode = saved;
                                let pe = pe?;
                                let t = self.fresh("run");
                                pre.push(Line { ind, text: format!("let {} := Winnow.run {} {}", t, pe, x) });
                                pre.push(Line { ind, text: format!("{} := {}.2", x, t) });
                                return Ok(format!("{}.1", t));
                            }
                        }
                    }
                }
            }
        }
        // a method chain that starts with `x.next()` on a mutable iterator: `x.next().and_then(..).map_or_else(..)`
        if let Some((var, rebuilt)) = chain_rooted_at_next(e) {
            let x = ident_name(&var);
            let t = self.fresh("it");
            pre.push(Line { ind, text: format!("let {} := Rust.next {}", t, x) });
            pre.push(Line { ind, text: format!("{} := {}.2", x, t) });
            pre.push(Line { ind, text: format!("let next_value__ := {}.1", t) });
            if expr_needs_do_except_root(&rebuilt) {
                return Err(format!("a value with control flow or mutation inside: `{}`", short(e)));
            }
            return self.expr(&rebuilt);
        }
        if expr_needs_do(e) {
            return Err(format!("a value with control flow or mutation inside: `{}`", short(e)));
        }
        self.expr(e)
    }

    fn macro_stmt(&mut self, m: &Macro, ind: usize) -> R<Vec<Line>> {
        let n = mac_name(m);
        match n.as_str() {
            "write" => {
                let t = self.write_macro(m)?;
                let f = self.display.clone().ok_or("write! outside Display::fmt")?;
                Ok(vec![Line { ind, text: format!("{} := {} ++ {}", f, f, t) }])
            }
            "debug_assert" | "debug_assert_eq" | "debug_assert_ne" => {
                self.site("debug_assert", m.span(), m.tokens.to_string());
                Ok(vec![])
            }
            "unreachable" | "panic" | "todo" | "unimplemented" => {
                self.site("unreachable", m.span(), format!("{}!", n));
                Ok(vec![Line { ind, text: "return Rust.unreachable".into() }])
            }
            _ => Err(format!("unsupported macro `{}!`", n)),
        }
    }

    fn write_macro(&mut self, m: &Macro) -> R<String> {
        let args: Punctuated<Expr, Token![,]> =
            m.parse_body_with(Punctuated::parse_terminated).map_err(|e| format!("write!: {}", e))?;
        let mut it = args.iter();
        let f = it.next().ok_or("write! without formatter")?;
        let fname = self.display.clone().ok_or("write! outside Display::fmt")?;
        if ident_name(&f.to_token_stream().to_string()) != fname {
            return Err("write! to something other than the formatter".into());
        }
        let fmt = match it.next() {
            Some(Expr::Lit(ExprLit { lit: Lit::Str(s), .. })) => s.value(),
            _ => return Err("write! without a literal format string".into()),
        };
        let rest: Vec<&Expr> = it.collect();
        let mut parts = vec![];
        let mut cur = String::new();
        let mut k = 0;
        let cs: Vec<char> = fmt.chars().collect();
        let mut i = 0;
        while i < cs.len() {
            if cs[i] == '{' && i + 1 < cs.len() && cs[i + 1] == '{' {
                cur.push('{');
                i += 2;
            } else if cs[i] == '}' && i + 1 < cs.len() && cs[i + 1] == '}' {
                cur.push('}');
                i += 2;
            } else if cs[i] == '{' && i + 1 < cs.len() && cs[i + 1] == '}' {
                if !cur.is_empty() {
                    parts.push(lit_chars(&cur));
                    cur.clear();
                }
                let a = rest.get(k).ok_or("write!: too few arguments")?;
                k += 1;
                parts.push(format!("Rust.display {}", self.expr_atom(a)?));
                i += 2;
            } else if cs[i] == '{' || cs[i] == '}' {
                return Err(format!("write!: unsupported format string {:?}", fmt));
            } else {
                cur.push(cs[i]);
                i += 1;
            }
        }
        if !cur.is_empty() {
            parts.push(lit_chars(&cur));
        }
        if k != rest.len() {
            return Err("write!: too many arguments".into());
        }
        if parts.is_empty() {
            return Ok("([] : List Char)".into());
        }
        Ok(format!("({})", parts.join(" ++ ")))
    }

    /// an expression in statement position (its value, if any, is `()`)
    fn expr_stmt(&mut self, e: &Expr, ind: usize) -> R<Vec<Line>> {
        match e {
            Expr::Try(_) | Expr::Call(_) if self.display.is_some() && self.formatter_helper_call(e).is_some() => {
                let t = self.formatter_helper_call(e).unwrap()?;
                let f = self.display.clone().unwrap();
                Ok(vec![Line { ind, text: format!("{} := {} ++ {}", f, f, t) }])
            }
            Expr::Try(_) | Expr::MethodCall(_) if self.display.is_some() && self.try_for_each_write(e, ind).is_some() => {
                self.try_for_each_write(e, ind).unwrap()
            }
            // `f.write_str(s)?;` / `f.write_char(c)?;`
            Expr::Try(_) | Expr::MethodCall(_) if self.display.is_some() && write_str_arg(e, self.display.as_deref().unwrap()).is_some() => {
                let (arg, is_char) = write_str_arg(e, self.display.as_deref().unwrap()).unwrap();
                if expr_needs_do(arg) {
                    return Err("write_str of a value with control flow".into());
                }
                let a = self.expr_atom(arg)?;
                let f = self.display.clone().unwrap();
                let a = if is_char { format!("[{}]", a) } else { a };
                Ok(vec![Line { ind, text: format!("{} := {} ++ {}", f, f, a) }])
            }
            Expr::Return(r) if self.mode != Mode::Id => {
                // `return Ok(v)` / `return Err(e)`
                let x = r.expr.as_ref().ok_or("`return` without a value in a fallible function")?;
                Ok(vec![Line { ind, text: self.result_value(x, true)? }])
            }
            Expr::Return(r) => {
                let v = match &r.expr {
                    Some(x) => {
                        if expr_needs_do(x) {
                            return Err("return of a value with control flow".into());
                        }
                        self.expr(x)?
                    }
                    None => "()".into(),
                };
                Ok(vec![Line { ind, text: format!("return {}", v) }])
            }
            Expr::If(i) => self.if_stmt(i, ind, T::No),
            Expr::Match(m) => self.match_stmt(m, ind, T::No),
            Expr::Block(b) => self.stmts(&b.block, ind, T::No),
            Expr::ForLoop(f) => {
                if f.label.is_some() {
                    return Err("labelled loop".into());
                }
                let alts = self.pat_alts(&f.pat)?;
                if alts.len() != 1 {
                    return Err("or-pattern in for".into());
                }
                if expr_needs_do(&f.expr) {
                    return Err("loop over a value with effects".into());
                }
                let it = self.expr(&f.expr)?;
                let mut out = vec![Line { ind, text: format!("for {} in {} do", alts[0], it) }];
                out.extend(self.stmts(&f.body, ind + 1, T::No)?);
                Ok(out)
            }
            Expr::Assign(a) => {
                let mut pre = vec![];
                let v = self.value(&a.right, ind, &mut pre)?;
                let s = self.assign_place(&a.left, v)?;
                pre.push(Line { ind, text: s });
                Ok(pre)
            }
            Expr::Binary(b) => {
                use BinOp::*;
                let op = match b.op {
                    AddAssign(_) => "+",
                    SubAssign(_) => "-",
                    MulAssign(_) => "*",
                    _ => return Err(format!("unsupported statement `{}`", short(e))),
                };
                self.site("arith", b.span(), short(e));
                if op == "-" {
                    return Err("subtraction on unsigned integers is not modelled".into());
                }
                let l = self.expr(&b.left)?;
                let r = self.expr_atom(&b.right)?;
                let s = self.assign_place(&b.left, format!("({} {} {})", l, op, r))?;
                Ok(vec![Line { ind, text: s }])
            }
            Expr::MethodCall(m) => {
                let name = m.method.to_string();
                match name.as_str() {
                    "push" if m.args.len() == 1 => {
                        let recv = self.expr(&m.receiver)?;
                        let a = self.expr(&m.args[0])?;
                        let s = self.assign_place(&m.receiver, format!("({} ++ [{}])", recv, a))?;
                        Ok(vec![Line { ind, text: s }])
                    }
                    "append" if m.args.len() == 1 => {
                        let recv = self.expr(&m.receiver)?;
                        let arg = match &m.args[0] {
                            Expr::Reference(r) if r.mutability.is_some() => &*r.expr,
                            _ => return Err("append without `&mut` argument".into()),
                        };
                        let a = self.expr(arg)?;
                        let s1 = self.assign_place(&m.receiver, format!("({} ++ {})", recv, a))?;
                        let s2 = self.assign_place(arg, "[]".into())?;
                        Ok(vec![Line { ind, text: s1 }, Line { ind, text: s2 }])
                    }
                    _ => Err(format!("unsupported statement `{}`", short(e))),
                }
            }
            Expr::Macro(m) => self.macro_stmt(&m.mac, ind),
            Expr::Try(t) => match &*t.expr {
                Expr::Macro(m) if mac_name(&m.mac) == "write" => self.macro_stmt(&m.mac, ind),
                // `p.parse_next(input)?;` / `fallible(x)?;` as a statement: run it, drop the value
                _ if self.mode != Mode::Id && self.display.is_none() => {
                    let m = self.monadic(&t.expr)?;
                    Ok(vec![Line { ind, text: format!("let _ ← {}", m) }])
                }
                _ => Err(format!("unsupported `?`: `{}`", short(e))),
            },
            Expr::Paren(p) => self.expr_stmt(&p.expr, ind),
            _ => Err(format!("unsupported statement `{}`", short(e))),
        }
    }

    /// the last expression of a function body (or of a branch in tail position)
    fn tail_stmt(&mut self, e: &Expr, ind: usize, tail: T) -> R<Vec<Line>> {
        let kw = if tail == T::Val { "pure" } else { "return" };
        if self.display.is_some() {
            // Display::fmt: the value is `fmt::Result`; what matters is what has been written
            match e {
                Expr::Macro(m) if mac_name(&m.mac) == "write" => return self.macro_stmt(&m.mac, ind),
                Expr::Macro(m) if matches!(mac_name(&m.mac).as_str(), "unreachable" | "panic") => {
                    self.site("unreachable", m.span(), "unreachable!".into());
                    let f = self.display.clone().unwrap();
                    return Ok(vec![Line { ind, text: format!("{} := Rust.unreachable", f) }]);
                }
                Expr::Call(c) if c.func.to_token_stream().to_string() == "Ok" => return Ok(vec![Line { ind, text: "pure ()".into() }]),
                Expr::Call(_) | Expr::Try(_) | Expr::MethodCall(_)
                    if self.formatter_helper_call(e).is_some()
                        || self.try_for_each_write(e, ind).is_some()
                        || write_str_arg(e, self.display.as_deref().unwrap_or("")).is_some() =>
                {
                    return self.expr_stmt(e, ind);
                }
                Expr::If(i) => return self.if_stmt(i, ind, tail),
                Expr::Match(m) => return self.match_stmt(m, ind, tail),
                Expr::Block(b) => return self.stmts(&b.block, ind, tail),
                _ => return Err(format!("Display::fmt: unsupported final expression `{}`", short(e))),
            }
        }
        if self.mode != Mode::Id && tail == T::Ret {
            // the value of a fallible function: `Ok(v)`, `Err(e)`, `p.parse_next(input)`, or control flow around them
            match e {
                Expr::If(i) => return self.if_stmt(i, ind, tail),
                Expr::Match(m) if expr_needs_do(e) || true => {
                    if !m.arms.iter().any(|a| a.guard.is_some()) {
                        return self.match_stmt(m, ind, tail);
                    }
                }
                Expr::Block(b) => return self.stmts(&b.block, ind, tail),
                // `p.parse_next(&mut x).map_err(|err| ..)` as the value of the function: run the parser on the local
                // string (advancing it), then map the error
                Expr::MethodCall(m) if self.mode == Mode::Result && m.method == "map_err" && m.args.len() == 1 && is_local_parse_next(&m.receiver) => {
                    let mut pre = vec![];
                    let v = self.value(&m.receiver, ind, &mut pre)?;
                    let f = self.expr_atom(&m.args[0])?;
                    pre.push(Line { ind, text: format!("(Rust.map_err {} {})", v, f) });
                    return Ok(pre);
                }
                _ => {}
            }
            return Ok(vec![Line { ind, text: self.result_value(e, false)? }]);
        }
        if let Expr::Try(t) = e {
            // `x?` as the value of a block inside a fallible function
            let m = self.monadic(&t.expr)?;
            if tail == T::Val {
                return Ok(vec![Line { ind, text: m }]);
            }
        }
        if !expr_needs_do(e) {
            let t = match e {
                Expr::Match(m) => self.match_term(m, true)?,
                _ => self.expr(e)?,
            };
            return Ok(vec![Line { ind, text: format!("{} {}", kw, t) }]);
        }
        match e {
            Expr::If(i) => self.if_stmt(i, ind, tail),
            Expr::Match(m) => self.match_stmt(m, ind, tail),
            Expr::Block(b) => self.stmts(&b.block, ind, tail),
            Expr::Return(_) => self.expr_stmt(e, ind),
            Expr::Paren(p) => self.tail_stmt(&p.expr, ind, tail),
            _ => {
                let mut pre = vec![];
                let v = self.value(e, ind, &mut pre)?;
                pre.push(Line { ind, text: format!("{} {}", kw, v) });
                Ok(pre)
            }
        }
    }

    fn branch(&mut self, e: &Expr, ind: usize, tail: T) -> R<Vec<Line>> {
        match e {
            Expr::Block(b) => self.stmts(&b.block, ind, tail),
            other => {
                if tail != T::No {
                    self.tail_stmt(other, ind, tail)
                } else {
                    self.expr_stmt(other, ind)
                }
            }
        }
    }

    fn if_stmt(&mut self, i: &ExprIf, ind: usize, tail: T) -> R<Vec<Line>> {
        let mut out = vec![];
        let head = match &*i.cond {
            Expr::Let(l) => {
                let alts = self.pat_alts(&l.pat)?;
                if alts.len() != 1 {
                    return Err("or-pattern in if-let".into());
                }
                let v = self.value(&l.expr, ind, &mut out)?;
                format!("if let {} := {} then", alts[0], v)
            }
            c => {
                if expr_needs_do(c) {
                    return Err("condition with effects".into());
                }
                format!("if {} then", self.expr(c)?)
            }
        };
        out.push(Line { ind, text: head });
        out.extend(self.stmts(&i.then_branch, ind + 1, tail)?);
        if let Some((_, els)) = &i.else_branch {
            out.push(Line { ind, text: "else".into() });
            out.extend(self.branch(els, ind + 1, tail)?);
        } else if tail != T::No && self.display.is_none() {
            return Err("`if` without `else` as the value of a block".into());
        }
        Ok(out)
    }

    fn match_stmt(&mut self, m: &ExprMatch, ind: usize, tail: T) -> R<Vec<Line>> {
        let mut out = vec![];
        let scrut = self.value(&m.expr, ind, &mut out)?;
        out.push(Line { ind, text: format!("match {} with", scrut) });
        let mut i = 0;
        while i < m.arms.len() {
            let arm = &m.arms[i];
            let alts = self.pat_alts(&arm.pat)?;
            out.push(Line { ind, text: format!("| {} =>", alts.join(" | ")) });
            if let Some((_, g)) = &arm.guard {
                // `P if g => A, P => B` is `P => if g { A } else { B }`
                let next = m.arms.get(i + 1).ok_or("a guarded arm is the last arm")?;
                if next.guard.is_some() || next.pat.to_token_stream().to_string() != arm.pat.to_token_stream().to_string() {
                    return Err("match guard (in a match with control flow) not followed by an unguarded arm with the same pattern".into());
                }
                if expr_needs_do(g) {
                    return Err("guard with effects".into());
                }
                let gs = self.expr(g)?;
                out.push(Line { ind: ind + 1, text: format!("if {} then", gs) });
                out.extend(self.branch(&arm.body, ind + 2, tail)?);
                out.push(Line { ind: ind + 1, text: "else".into() });
                out.extend(self.branch(&next.body, ind + 2, tail)?);
                i += 2;
                continue;
            }
            out.extend(self.branch(&arm.body, ind + 1, tail)?);
            i += 1;
        }
        Ok(out)
    }

    /// `place = value` for a local or a (nested) field of a local
    fn assign_place(&mut self, place: &Expr, newval: String) -> R<String> {
        match place {
            Expr::Path(p) => {
                let id = p.path.get_ident().ok_or("assignment to a path")?;
                Ok(format!("{} := {}", ident_name(&id.to_string()), newval))
            }
            Expr::Field(f) => {
                let base = self.expr(&f.base)?;
                let fname = match &f.member {
                    Member::Named(n) => lean_field(&n.to_string()),
                    Member::Unnamed(_) => return Err("assignment to a tuple field".into()),
                };
                self.assign_place(&f.base, format!("{{ {} with {} := {} }}", base, fname, newval))
            }
            Expr::Paren(p) => self.assign_place(&p.expr, newval),
            Expr::Unary(u) if matches!(u.op, UnOp::Deref(_)) => self.assign_place(&u.expr, newval),
            _ => Err(format!("unsupported assignment target `{}`", short(place))),
        }
    }

    // ---------------------------------------------------------------------------------- patterns
    /// the alternatives of a pattern after distributing nested `|`
    pub fn pat_alts(&mut self, p: &Pat) -> R<Vec<String>> {
        match p {
            Pat::Wild(_) => Ok(vec!["_".into()]),
            Pat::Ident(i) => {
                if i.subpat.is_some() {
                    return Err("`x @ pattern` is not supported".into());
                }
                let n = i.ident.to_string();
                if let Some(c) = variant_ctor(None, &n) {
                    return Ok(vec![c]);
                }
                if n.chars().next().map_or(false, |c| c.is_uppercase()) {
                    return Err(format!("pattern `{}` looks like a constant or variant that is not mapped", n));
                }
                Ok(vec![ident_name(&n)])
            }
            Pat::Path(pp) => Ok(vec![self.path_ctor(&pp.path)?]),
            Pat::Lit(l) => match &l.lit {
                Lit::Int(n) => Ok(vec![n.base10_digits().to_string()]),
                Lit::Bool(b) => Ok(vec![b.value.to_string()]),
                _ => Err("unsupported literal pattern".into()),
            },
            Pat::Reference(r) => self.pat_alts(&r.pat),
            Pat::Paren(pp) => self.pat_alts(&pp.pat),
            Pat::Type(t) => self.pat_alts(&t.pat),
            Pat::Or(o) => {
                let mut v = vec![];
                for c in &o.cases {
                    v.extend(self.pat_alts(c)?);
                }
                Ok(v)
            }
            Pat::Tuple(t) => {
                let subs: R<Vec<Vec<String>>> = t.elems.iter().map(|e| self.pat_alts(e)).collect();
                Ok(product(&subs?).into_iter().map(|c| format!("({})", c.join(", "))).collect())
            }
            Pat::TupleStruct(ts) => {
                let ctor = self.path_ctor(&ts.path)?;
                let last = ts.path.segments.last().unwrap().ident.to_string();
                if config::NEWTYPES.contains(&last.as_str()) || (last == "Self" && self.self_ty.as_deref().map_or(false, |s| config::NEWTYPES.contains(&s))) {
                    if ts.elems.len() == 1 {
                        return self.pat_alts(&ts.elems[0]);
                    }
                }
                let subs: R<Vec<Vec<String>>> = ts.elems.iter().map(|e| self.pat_alts(e)).collect();
                Ok(product(&subs?).into_iter().map(|c| format!("({} {})", ctor, c.join(" "))).collect())
            }
            Pat::Struct(s) => {
                let name = s.path.segments.last().unwrap().ident.to_string();
                let name = if name == "Self" { self.self_ty.clone().unwrap_or(name) } else { name };
                let st = self.krate.structs.get(&name).ok_or_else(|| format!("unknown struct {} in a pattern", name))?;
                let Fields::Named(named) = &st.fields else { return Err("struct pattern on a tuple struct".into()) };
                let declared: Vec<String> = named.named.iter().map(|f| f.ident.as_ref().unwrap().to_string()).collect();
                let mut names = vec![];
                let mut subs = vec![];
                for f in &s.fields {
                    let fname = match &f.member {
                        Member::Named(n) => n.to_string(),
                        _ => return Err("tuple field in struct pattern".into()),
                    };
                    if !declared.contains(&fname) {
                        return Err(format!("struct {} has no field {}", name, fname));
                    }
                    names.push(lean_field(&fname));
                    subs.push(self.pat_alts(&f.pat)?);
                }
                let rest = s.rest.is_some();
                if !rest && names.len() != declared.len() {
                    return Err("struct pattern without `..` that does not list every field".into());
                }
                let lean_ty = lean_type_name(&name).ok_or("unmapped struct")?;
                let _ = lean_ty;
                Ok(product(&subs)
                    .into_iter()
                    .map(|c| {
                        let mut fs: Vec<String> = names.iter().zip(c.iter()).map(|(n, p)| format!("{} := {}", n, p)).collect();
                        if rest && names.len() != declared.len() {
                            fs.push("..".into());
                        }
                        format!("{{ {} }}", fs.join(", "))
                    })
                    .collect())
            }
            _ => Err(format!("unsupported pattern `{}`", p.to_token_stream())),
        }
    }

    /// a path naming an enum variant (or `Some`/`None`) -> constructor of the model
    fn path_ctor(&mut self, p: &Path) -> R<String> {
        let segs: Vec<String> = p.segments.iter().map(|s| s.ident.to_string()).collect();
        let last = segs.last().unwrap();
        let ty = if segs.len() >= 2 { Some(segs[segs.len() - 2].clone()) } else { None };
        let ty = match ty.as_deref() {
            Some("Self") => self.self_ty.clone(),
            Some("cmp") | Some("std") | Some("super") | Some("crate") => None,
            _ => ty,
        };
        if config::NEWTYPES.contains(&last.as_str()) || last == "Self" {
            return Ok(String::new());
        }
        variant_ctor(ty.as_deref(), last).ok_or_else(|| format!("`{}` is not a variant known to the model", segs.join("::")))
    }

    // ------------------------------------------------------------------------------- expressions
    /// an expression that can be used as an argument without further parentheses
    fn expr_atom(&mut self, e: &Expr) -> R<String> {
        let s = self.expr(e)?;
        if s.starts_with('(') || s.starts_with('[') || s.starts_with('{') || s.chars().all(|c| c.is_alphanumeric() || c == '_' || c == '.' || c == '\'') {
            Ok(s)
        } else {
            Ok(format!("({})", s))
        }
    }

    fn block_term(&mut self, b: &Block, root: bool) -> R<String> {
        check_block_attrs(b)?;
        let mut lets = vec![];
        let n = b.stmts.len();
        for (i, s) in b.stmts.iter().enumerate() {
            match s {
                Stmt::Item(Item::Use(u)) => self.check_local_use(u)?,
                Stmt::Item(Item::Fn(_)) => {}
                Stmt::Local(l) => {
                    let lines = self.local(l, 0)?;
                    for ln in lines {
                        lets.push(ln.text);
                    }
                }
                Stmt::Expr(e, None) if i + 1 == n => {
                    let t = match e {
                        Expr::Match(m) if root && lets.is_empty() => self.match_term(m, true)?,
                        _ => self.expr(e)?,
                    };
                    if lets.is_empty() {
                        return Ok(t);
                    }
                    let sep = if root { "\n" } else { "; " };
                    return Ok(format!("({}{}{})", lets.join(sep), sep, t));
                }
                Stmt::Macro(m) if i + 1 == n => {
                    let fake = Expr::Macro(ExprMacro { attrs: vec![], mac: m.mac.clone() });
                    let t = self.expr(&fake)?;
                    if lets.is_empty() {
                        return Ok(t);
                    }
                    return Ok(format!("({}; {})", lets.join("; "), t));
                }
                other => return Err(format!("unsupported statement in a pure block: `{}`", other.to_token_stream())),
            }
        }
        if lets.is_empty() {
            Ok("()".into())
        } else {
            Err("block without a value".into())
        }
    }

    pub fn match_term(&mut self, m: &ExprMatch, multiline: bool) -> R<String> {
        let scrut = self.expr(&m.expr)?;
        let arms: Vec<&Arm> = m.arms.iter().collect();
        self.match_arms(&scrut, &arms, multiline)
    }

    fn match_arms(&mut self, scrut: &str, arms: &[&Arm], multiline: bool) -> R<String> {
        let sep = if multiline { "\n" } else { " " };
        let mut out = format!("(match {} with", scrut);
        for (i, arm) in arms.iter().enumerate() {
            let alts = self.pat_alts(&arm.pat)?;
            if expr_needs_do(&arm.body) {
                return Err("control flow inside a match used as a value".into());
            }
            let body = self.expr(&arm.body)?;
            let pats = alts.join(" | ");
            if let Some((_, g)) = &arm.guard {
                let guard = self.expr(g)?;
                if let Some(next) = arms.get(i + 1) {
                    if next.guard.is_none() && next.pat.to_token_stream().to_string() == arm.pat.to_token_stream().to_string() {
                        // `P if g => A, P => B` is `P => if g { A } else { B }`
                        let b2 = self.expr(&next.body)?;
                        out.push_str(&format!("{}| {} => (if {} then {} else {})", sep, pats, guard, body, b2));
                        let rest: Vec<&Arm> = arms[i + 2..].to_vec();
                        if rest.is_empty() {
                            out.push(')');
                            return Ok(out);
                        }
                        // continue with the remaining arms in the same match
                        let tail = self.match_arms_tail(&rest, multiline)?;
                        out.push_str(&tail);
                        out.push(')');
                        return Ok(out);
                    }
                }
                if i + 1 == arms.len() {
                    return Err("a guarded arm is the last arm".into());
                }
                let rest = self.match_arms(scrut, &arms[i + 1..], multiline)?;
                out.push_str(&format!("{}| {} => (if {} then {} else __k ())", sep, pats, guard, body));
                if !is_irrefutable(&arm.pat) {
                    out.push_str(&format!("{}| _ => __k ()", sep));
                }
                out.push(')');
                return Ok(format!("(let __k := fun (_ : Unit) => {};{}{})", rest, sep, out));
            }
            out.push_str(&format!("{}| {} => {}", sep, pats, body));
        }
        out.push(')');
        Ok(out)
    }

    /// the arms only (no `match … with`, no closing parenthesis); guards are handled as in `match_arms`
    fn match_arms_tail(&mut self, arms: &[&Arm], multiline: bool) -> R<String> {
        let sep = if multiline { "\n" } else { " " };
        let mut out = String::new();
        let mut i = 0;
        while i < arms.len() {
            let arm = arms[i];
            let alts = self.pat_alts(&arm.pat)?;
            if expr_needs_do(&arm.body) {
                return Err("control flow inside a match used as a value".into());
            }
            let body = self.expr(&arm.body)?;
            let pats = alts.join(" | ");
            if let Some((_, g)) = &arm.guard {
                let guard = self.expr(g)?;
                let next = arms.get(i + 1).ok_or("a guarded arm is the last arm")?;
                if next.guard.is_some() || next.pat.to_token_stream().to_string() != arm.pat.to_token_stream().to_string() {
                    return Err("a match guard after a merged pair is only supported when followed by the same pattern".into());
                }
                let b2 = self.expr(&next.body)?;
                out.push_str(&format!("{}| {} => (if {} then {} else {})", sep, pats, guard, body, b2));
                i += 2;
                continue;
            }
            out.push_str(&format!("{}| {} => {}", sep, pats, body));
            i += 1;
        }
        Ok(out)
    }

    pub fn expr(&mut self, e: &Expr) -> R<String> {
        match e {
            Expr::Lit(l) => match &l.lit {
                Lit::Int(n) => Ok(n.base10_digits().to_string()),
                Lit::Bool(b) => Ok(b.value.to_string()),
                Lit::Str(s) => Ok(lit_chars(&s.value())),
                Lit::Char(c) => Ok(lit_chars(&c.value().to_string()).trim_matches(|x| x == '[' || x == ']').to_string()),
                // an ASCII byte literal: named by its character (see `Rust.byte_eq`)
                Lit::Byte(b) if b.value() < 0x80 => {
                    Ok(lit_chars(&(b.value() as char).to_string()).trim_matches(|x| x == '[' || x == ']').to_string())
                }
                _ => Err("unsupported literal".into()),
            },
            Expr::Paren(p) => self.expr(&p.expr),
            Expr::Group(g) => self.expr(&g.expr),
            Expr::Reference(r) => self.expr(&r.expr),
            Expr::Unary(u) => match u.op {
                UnOp::Deref(_) => self.expr(&u.expr),
                UnOp::Not(_) => Ok(format!("(!{})", self.expr_atom(&u.expr)?)),
                _ => Err("unsupported unary operator".into()),
            },
            Expr::Path(p) => self.path_expr(&p.path),
            Expr::Tuple(t) => {
                if t.elems.is_empty() {
                    return Ok("()".into());
                }
                let parts: R<Vec<String>> = t
                    .elems
                    .iter()
                    .map(|x| match x {
                        Expr::Lit(ExprLit { lit: Lit::Int(n), .. }) => Ok(format!("({} : Nat)", n.base10_digits())),
                        _ => self.expr(x),
                    })
                    .collect();
                Ok(format!("({})", parts?.join(", ")))
            }
            Expr::Field(f) => {
                match &f.member {
                    Member::Named(n) => Ok(format!("{}.{}", self.expr_atom(&f.base)?, lean_field(&n.to_string()))),
                    Member::Unnamed(ix) => {
                        // `.0` of a newtype the model represents by its field
                        if ix.index == 0 {
                            if let Expr::Path(p) = &*f.base {
                                if let Some(id) = p.path.get_ident() {
                                    if let Some(t) = self.var_ty.get(&id.to_string()) {
                                        if config::NEWTYPES.contains(&t.as_str()) {
                                            return self.expr(&f.base);
                                        }
                                    }
                                }
                            }
                        }
                        Ok(format!("{}.{}", self.expr_atom(&f.base)?, ix.index + 1))
                    }
                }
            }
            Expr::Binary(b) => self.binary(b),
            Expr::If(i) => {
                if let Expr::Let(l) = &*i.cond {
                    let alts = self.pat_alts(&l.pat)?;
                    let scrut = self.expr(&l.expr)?;
                    let then = self.block_term(&i.then_branch, false)?;
                    let els = match &i.else_branch {
                        Some((_, e)) => self.expr(e)?,
                        None => return Err("`if let` without else as a value".into()),
                    };
                    return Ok(format!("(match {} with | {} => {} | _ => {})", scrut, alts.join(" | "), then, els));
                }
                let c = self.expr(&i.cond)?;
                let then = self.block_term(&i.then_branch, false)?;
                let els = match &i.else_branch {
                    Some((_, e)) => self.expr(e)?,
                    None => return Err("`if` without else as a value".into()),
                };
                Ok(format!("(if {} then {} else {})", c, then, els))
            }
            Expr::Block(b) => {
                if b.label.is_some() {
                    return Err("labelled block".into());
                }
                self.block_term(&b.block, false)
            }
            Expr::Match(m) => self.match_term(m, false),
            Expr::Call(c) => self.call(c),
            Expr::MethodCall(m) => self.method_call(m),
            Expr::Macro(m) => self.macro_expr(&m.mac),
            Expr::Path(p) if p.path.segments.len() == 2 && p.path.segments[0].ident == "Vec" && p.path.segments[1].ident == "new" => {
                // `Vec::new` handed over as a function (`map_or_else(Vec::new, ..)`)
                Ok("(fun (_ : Unit) => [])".into())
            }
            Expr::Closure(c) => {
                let st = c.span().start();
                if let Some(r) = self.closure_refs.get(&(st.line, st.column)) {
                    return Ok(r.clone());
                }
                let mut ps = vec![];
                for p in &c.inputs {
                    let p = match p {
                        Pat::Type(pt) => &*pt.pat,
                        p => p,
                    };
                    let alts = self.pat_alts(p)?;
                    if alts.len() != 1 {
                        return Err("or-pattern in a closure parameter".into());
                    }
                    ps.push(alts[0].clone());
                }
                if expr_needs_do(&c.body) {
                    return Err("closure with control flow or mutation".into());
                }
                let body = self.expr(&c.body)?;
                if ps.is_empty() {
                    // `|| e`: a thunk
                    return Ok(format!("(fun (_ : Unit) => {})", body));
                }
                Ok(format!("(fun {} => {})", ps.join(" "), body))
            }
            Expr::Struct(s) => {
                let name = s.path.segments.last().unwrap().ident.to_string();
                let name = if name == "Self" { self.self_ty.clone().unwrap_or(name) } else { name };
                let lean_ty = lean_type_name(&name).ok_or_else(|| format!("unmapped struct {}", name))?;
                let mut fs = vec![];
                for f in &s.fields {
                    let fname = match &f.member {
                        Member::Named(n) => n.to_string(),
                        _ => return Err("tuple field in a struct literal".into()),
                    };
                    if let Some((mf, conv)) = struct_field_conv(&name, &fname) {
                        fs.push(format!("{} := ({} {})", mf, conv, self.expr_atom(&f.expr)?));
                    } else {
                        fs.push(format!("{} := {}", struct_field(&name, &fname), self.expr(&f.expr)?));
                    }
                }
                match &s.rest {
                    Some(r) => Ok(format!("({{ {} with {} }} : {})", self.expr(r)?, fs.join(", "), lean_ty)),
                    None => Ok(format!("({{ {} }} : {})", fs.join(", "), lean_ty)),
                }
            }
            Expr::Cast(c) => {
                let t = type_head(&c.ty).unwrap_or_default();
                self.site("cast", c.span(), short(e));
                if t == "u64" {
                    Ok(format!("(Rust.as_u64 {})", self.expr_atom(&c.expr)?))
                } else {
                    Err(format!("unsupported cast to {}", t))
                }
            }
            Expr::Index(ix) => {
                // `x[..n]` and `x[n..]`: panic sites (out of range, not a character boundary)
                if let Expr::Range(r) = &*ix.index {
                    if matches!(r.limits, RangeLimits::HalfOpen(_)) {
                        let x = self.expr_atom(&ix.expr)?;
                        match (&r.start, &r.end) {
                            (None, Some(n)) => {
                                self.site("index", ix.span(), short(e));
                                return Ok(format!("(Rust.index_to {} {})", x, self.expr_atom(n)?));
                            }
                            (Some(n), None) => {
                                self.site("index", ix.span(), short(e));
                                return Ok(format!("(Rust.index_from {} {})", x, self.expr_atom(n)?));
                            }
                            _ => {}
                        }
                    }
                }
                Err(format!("indexing is not modelled: `{}`", short(e)))
            }
            Expr::Range(_) => Err(format!("ranges are not modelled: `{}`", short(e))),
            _ => Err(format!("unsupported expression `{}`", short(e))),
        }
    }

    fn path_expr(&mut self, p: &Path) -> R<String> {
        let segs: Vec<String> = p.segments.iter().map(|s| s.ident.to_string()).collect();
        if segs.len() == 1 {
            let n = &segs[0];
            if n == "self" {
                return Ok("self".into());
            }
            if let Some((_, l)) = config::CONSTS.iter().find(|(r, _)| r == n) {
                return Ok(l.to_string());
            }
            if let Some(c) = variant_ctor(None, n) {
                return Ok(c);
            }
            if n.chars().next().map_or(false, |c| c.is_uppercase()) {
                return Err(format!("`{}` is not a constant or variant known to the model", n));
            }
            return Ok(ident_name(n));
        }
        // Type::Variant, Ordering::Equal, …
        if let Ok(c) = self.path_ctor(p) {
            if !c.is_empty() {
                return Ok(c);
            }
        }
        // `Vec::new` handed over as a function (`map_or_else(Vec::new, ..)`)
        if segs.len() == 2 && segs[0] == "Vec" && segs[1] == "new" {
            return Ok("(fun (_ : Unit) => [])".into());
        }
        // a function used as a value (`Some`, `Identifier::Numeric`, `Extras::Release`)
        Err(format!("unsupported path `{}`", segs.join("::")))
    }

    fn binary(&mut self, b: &ExprBinary) -> R<String> {
        use BinOp::*;
        if let Sub(_) = b.op {
            // `a.as_ptr() as usize - b.as_ptr() as usize`: the byte offset of the slice `a` inside the string `b`
            if let (Some(x), Some(y)) = (as_ptr_operand(&b.left), as_ptr_operand(&b.right)) {
                let xs = self.expr_atom(x)?;
                let ys = self.expr_atom(y)?;
                return Ok(format!("(Rust.ptr_diff {} {})", xs, ys));
            }
        }
        if let Eq(_) = b.op {
            // `b == b'\n'`: a byte against an ASCII byte literal
            let is_byte = |e: &Expr| matches!(e, Expr::Lit(ExprLit { lit: Lit::Byte(_), .. }));
            if is_byte(&b.right) && !is_byte(&b.left) {
                return Ok(format!("(Rust.byte_eq {} {})", self.expr_atom(&b.left)?, self.expr(&b.right)?));
            }
            if is_byte(&b.left) && !is_byte(&b.right) {
                return Ok(format!("(Rust.byte_eq {} {})", self.expr_atom(&b.right)?, self.expr(&b.left)?));
            }
        }
        let l = self.expr_atom(&b.left)?;
        let r = self.expr_atom(&b.right)?;
        let s = match b.op {
            And(_) => format!("({} && {})", l, r),
            Or(_) => format!("({} || {})", l, r),
            Eq(_) => format!("(Rust.REq.eq {} {})", l, r),
            Ne(_) => format!("(Rust.ne {} {})", l, r),
            Lt(_) => format!("(Rust.lt {} {})", l, r),
            Le(_) => format!("(Rust.le {} {})", l, r),
            Gt(_) => format!("(Rust.gt {} {})", l, r),
            Ge(_) => format!("(Rust.ge {} {})", l, r),
            Add(_) => {
                self.site("arith", b.span(), short(&Expr::Binary(b.clone())));
                format!("({} + {})", l, r)
            }
            Mul(_) => {
                self.site("arith", b.span(), short(&Expr::Binary(b.clone())));
                format!("({} * {})", l, r)
            }
            Sub(_) => {
                // on `usize`/`u64`: a panic site when it underflows (builds with overflow checks), wraps otherwise; the
                // translation truncates at 0 and lists the site
                self.site("arith", b.span(), short(&Expr::Binary(b.clone())));
                format!("({} - {})", l, r)
            }
            _ => return Err(format!("operator `{}` is not modelled", b.op.to_token_stream())),
        };
        Ok(s)
    }

    fn args(&mut self, args: &Punctuated<Expr, Token![,]>) -> R<Vec<String>> {
        args.iter().map(|a| self.expr_atom(a)).collect()
    }

    fn call(&mut self, c: &ExprCall) -> R<String> {
        let Expr::Path(p) = &*c.func else { return Err(format!("call of a computed function `{}`", short(&c.func))) };
        let segs: Vec<String> = p.path.segments.iter().map(|s| s.ident.to_string()).collect();
        let last = segs.last().unwrap().clone();
        let joined = segs.join("::");
        let args = self.args(&c.args)?;
        // a closure bound by `let` in this body
        if segs.len() == 1 && self.local_closures.contains(&last) {
            if args.is_empty() {
                return Ok(format!("({} ())", ident_name(&last)));
            }
            return Ok(format!("({} {})", ident_name(&last), args.join(" ")));
        }
        // std
        match joined.as_str() {
            "Some" => return Ok(format!("(some {})", args.join(" "))),
            "Ok" if self.mode == Mode::Result => return Ok(format!("(Except.ok {})", args.join(" "))),
            "Err" if self.mode == Mode::Result => return Ok(format!("(Except.error {})", args.join(" "))),
            "Ok" => return Err("`Ok(..)` outside Display::fmt".into()),
            "Box::new" => return Ok(args[0].clone()),
            "Vec::new" | "Vec::with_capacity" => return Ok("[]".into()),
            "std::cmp::max" | "cmp::max" => return Ok(format!("(Rust.max {})", args.join(" "))),
            "std::cmp::min" | "cmp::min" => return Ok(format!("(Rust.min {})", args.join(" "))),
            // `str::parse::<u64>(s)`; without the turbofish the crate compares the result with a `u64`
            "str::parse" => {
                let last_seg = p.path.segments.last().unwrap();
                let tf = last_seg.arguments.to_token_stream().to_string().replace(' ', "");
                if tf.is_empty() || tf == "::<u64>" {
                    return Ok(format!("(Rust.str_parse_u64 {})", args.join(" ")));
                }
                return Err(format!("str::parse{} is not modelled", tf));
            }
            "Default::default" if args.is_empty() => return Ok("default".into()),
            "bytecount::count" if args.len() == 2 => return Ok(format!("(Rust.bytecount {})", args.join(" "))),
            _ => {}
        }
        // newtype constructor
        let head_ty = if last == "Self" { self.self_ty.clone().unwrap_or_default() } else { last.clone() };
        if config::NEWTYPES.contains(&head_ty.as_str()) && segs.len() == 1 && args.len() == 1 {
            return Ok(args[0].clone());
        }
        // enum variant
        if let Ok(ctor) = self.path_ctor(&p.path) {
            if !ctor.is_empty() {
                return Ok(format!("({} {})", ctor, args.join(" ")));
            }
        }
        // Type::from(x)
        if segs.len() == 2 && last == "from" {
            let ty = if segs[0] == "Self" { self.self_ty.clone().unwrap_or_default() } else { segs[0].clone() };
            let lt = lean_type_name(&ty).ok_or_else(|| format!("unmapped type {}", ty))?;
            return Ok(format!("(Rust.into {} : {})", args[0], lt));
        }
        // associated function of a type of the crate
        if segs.len() == 2 {
            let ty = if segs[0] == "Self" { self.self_ty.clone().unwrap_or_default() } else { segs[0].clone() };
            if let Some(lt) = lean_type_name(&ty) {
                if self.krate.fns.iter().any(|f| f.ty.as_deref() == Some(ty.as_str()) && f.tr.is_empty() && f.sig.ident == last.as_str()) {
                    self.calls.insert(format!("{}::{}", ty, last));
                    if !is_configured(&ty, &last) {
                        self.auto_helpers.insert(format!("{}::{}", ty, last));
                    }
                    let name = format!("{}.rs_{}", lt, last);
                    if args.is_empty() {
                        return Ok(name);
                    }
                    return Ok(format!("({} {})", name, args.join(" ")));
                }
            }
        }
        // a free function of the crate that is not a parser: translated on the fly
        if segs.len() == 1 {
            if let Some(f) = self.krate.fns.iter().find(|f| f.qual == last && f.ty.is_none()) {
                if parser_output(&f.sig).is_none() {
                    self.calls.insert(last.clone());
                    self.auto_helpers.insert(last.clone());
                    let name = format!("Semver.Gen.auto_{}", last);
                    if args.is_empty() {
                        return Ok(name);
                    }
                    return Ok(format!("({} {})", name, args.join(" ")));
                }
            }
        }
        Err(format!("call of `{}`, which is not a function the translator knows", joined))
    }

    fn method_call(&mut self, m: &ExprMethodCall) -> R<String> {
        let name = m.method.to_string();
        if let Some((t, _)) = self.krate.crate_trait_methods.iter().find(|(_, n)| *n == name) {
            return Err(format!("the crate's own trait `{}` declares a method `{}`: the call `.{}(..)` may resolve to it", t, name, name));
        }
        let recv = self.expr_atom(&m.receiver)?;
        let args = self.args(&m.args)?;
        let a = args.join(" ");
        // erased adapters
        if matches!(name.as_str(), "iter" | "into_iter" | "clone" | "as_ref" | "to_string" | "to_owned" | "as_str" | "cloned" | "copied") && args.is_empty() {
            return Ok(recv);
        }
        // trait methods resolved by Lean's instance search; an inherent method of the same name would win in Rust
        if matches!(name.as_str(), "cmp" | "eq" | "ne" | "into" | "partial_cmp" | "max" | "min" | "clone" | "hash" | "fmt" | "to_string")
            && !self.krate.method_owners(&name).is_empty()
        {
            return Err(format!("an inherent method `{}` shadows the trait method the translation assumes", name));
        }
        match (name.as_str(), args.len()) {
            ("cmp", 1) => return Ok(format!("(Rust.ROrd.cmp {} {})", recv, a)),
            ("eq", 1) => return Ok(format!("(Rust.REq.eq {} {})", recv, a)),
            ("ne", 1) => return Ok(format!("(Rust.ne {} {})", recv, a)),
            ("into", 0) => return Ok(format!("(Rust.into {})", recv)),
            _ => {}
        }
        // methods of the crate
        let owners = self.krate.method_owners(&name);
        if !owners.is_empty() {
            for o in &owners {
                self.calls.insert(format!("{}::{}", o, name));
                if !is_configured(o, &name) {
                    self.auto_helpers.insert(format!("{}::{}", o, name));
                }
            }
            // the receiver's type decides; Lean's dot notation resolves `x.rs_name` in the namespace of x's type
            if owners.len() == 1 {
                let lt = lean_type_name(&owners[0]).ok_or_else(|| format!("unmapped type {}", owners[0]))?;
                return Ok(format!("({}.rs_{} {}{}{})", lt, name, recv, if a.is_empty() { "" } else { " " }, a));
            }
            // known receiver type?
            if let Expr::Path(p) = strip_refs(&m.receiver) {
                if let Some(id) = p.path.get_ident() {
                    if let Some(t) = self.var_ty.get(&id.to_string()) {
                        if owners.contains(t) {
                            let lt = lean_type_name(t).ok_or("unmapped type")?;
                            return Ok(format!("({}.rs_{} {}{}{})", lt, name, recv, if a.is_empty() { "" } else { " " }, a));
                        }
                    }
                }
            }
            return Ok(format!("({}.rs_{}{}{})", recv, name, if a.is_empty() { "" } else { " " }, a));
        }
        // std
        let s = match (name.as_str(), args.len()) {
            ("is_empty", 0) => format!("(Rust.is_empty {})", recv),
            ("len", 0) => format!("(Rust.len {})", recv),
            ("is_some", 0) => format!("(Rust.is_some {})", recv),
            ("is_none", 0) => format!("(Rust.is_none {})", recv),
            ("first", 0) => format!("(Rust.first {})", recv),
            ("unwrap", 0) => {
                self.site("unwrap", m.span(), short(&Expr::MethodCall(m.clone())));
                format!("(Rust.unwrap {})", recv)
            }
            ("expect", 1) => {
                self.site("unwrap", m.span(), short(&Expr::MethodCall(m.clone())));
                format!("(Rust.unwrap {})", recv)
            }
            ("unwrap_or", 1) => format!("(Rust.unwrap_or {} {})", recv, a),
            ("and", 1) => format!("(Rust.and {} {})", recv, a),
            ("flatten", 0) => format!("(Rust.flatten {})", recv),
            ("collect", 0) => format!("(Rust.collect {})", recv),
            ("filter", 1) => format!("(Rust.filter {} {})", recv, a),
            ("map", 1) => format!("(Rust.map {} {})", recv, a),
            ("filter_map", 1) => format!("(Rust.filter_map {} {})", recv, a),
            ("find", 1) => format!("(Rust.find {} {})", recv, a),
            ("any", 1) => format!("(Rust.iter_any {} {})", recv, a),
            ("all", 1) => format!("(Rust.iter_all {} {})", recv, a),
            ("max", 0) => format!("(Rust.iter_max {})", recv),
            ("min", 0) => format!("(Rust.iter_min {})", recv),
            ("max", 1) => format!("(Rust.max {} {})", recv, a),
            ("min", 1) => format!("(Rust.min {} {})", recv, a),
            ("enumerate", 0) => format!("(Rust.enumerate {})", recv),
            ("try_fold", 2) => format!("(Rust.try_fold_option {} {})", recv, a),
            ("as_bytes", 0) => format!("(Rust.as_bytes {})", recv),
            ("rev", 0) => format!("(Rust.rev {})", recv),
            ("position", 1) => format!("(Rust.position {} {})", recv, a),
            ("rposition", 1) => format!("(Rust.rposition {} {})", recv, a),
            ("lines", 0) => format!("(Rust.lines {})", recv),
            ("trim_end", 0) => format!("(Rust.trim_end {})", recv),
            ("next", 0) => format!("(Rust.iter_first {})", recv),
            ("char_indices", 0) => format!("(Rust.char_indices {})", recv),
            ("next_back", 0) => format!("(Rust.next_back {})", recv),
            ("map_or", 2) => format!("(Rust.map_or {} {})", recv, a),
            ("is_ascii_alphanumeric", 0) => format!("(Rust.is_ascii_alphanumeric {})", recv),
            ("is_ascii_digit", 0) => format!("(Rust.is_ascii_digit {})", recv),
            ("map_err", 1) => format!("(Rust.map_err {} {})", recv, a),
            ("unwrap_or_else", 1) => format!("(Rust.unwrap_or_else {} {})", recv, a),
            ("then_with", 1) => format!("(Rust.then_with {} {})", recv, a),
            // `Ordering::then(o)` takes a value, `bool::then(|| v)` a closure; Lean's type checker rejects a wrong reading
            ("then", 1) if matches!(&m.args[0], Expr::Closure(_)) => format!("(Rust.bool_then {} {})", recv, a),
            ("then", 1) => format!("(Rust.ord_then {} {})", recv, a),
            ("then_some", 1) => format!("(Rust.then_some {} {})", recv, a),
            ("is_some_and", 1) => format!("(Rust.is_some_and {} {})", recv, a),
            ("is_none_or", 1) => format!("(Rust.is_none_or {} {})", recv, a),
            ("and_then", 1) => format!("(Rust.and_then {} {})", recv, a),
            ("or", 1) => format!("(Rust.opt_or {} {})", recv, a),
            ("or_else", 1) => format!("(Rust.or_else {} {})", recv, a),
            ("map_or_else", 2) => format!("(Rust.map_or_else {} {})", recv, a),
            ("flat_map", 1) => format!("(Rust.flat_map {} {})", recv, a),
            ("find_map", 1) => format!("(Rust.find_map {} {})", recv, a),
            ("last", 0) => format!("(Rust.last {})", recv),
            ("count", 0) => format!("(Rust.iter_count {})", recv),
            ("chain", 1) => format!("(Rust.chain {} {})", recv, a),
            ("fold", 2) => format!("(Rust.fold {} {})", recv, a),
            ("zip", 1) => format!("(Rust.zip {} {})", recv, a),
            ("skip", 1) => format!("(Rust.skip {} {})", recv, a),
            ("take", 1) => format!("(Rust.take {} {})", recv, a),
            ("contains", 1) => format!("(Rust.contains {} {})", recv, a),
            _ => return Err(format!("method `{}` with {} arguments is not modelled", name, args.len())),
        };
        Ok(s)
    }

    fn macro_expr(&mut self, m: &Macro) -> R<String> {
        let n = mac_name(m);
        match n.as_str() {
            "vec" => {
                if m.tokens.to_string().contains(';') {
                    return Err("vec![x; n] is not modelled".into());
                }
                let args: Punctuated<Expr, Token![,]> =
                    m.parse_body_with(Punctuated::parse_terminated).map_err(|e| format!("vec!: {}", e))?;
                let parts: R<Vec<String>> = args.iter().map(|x| self.expr(x)).collect();
                Ok(format!("[{}]", parts?.join(", ")))
            }
            "unreachable" | "panic" | "todo" | "unimplemented" => {
                self.site("unreachable", m.span(), format!("{}!", n));
                Ok("Rust.unreachable".into())
            }
            _ => Err(format!("unsupported macro `{}!` in an expression", n)),
        }
    }
}

/// attributes other than doc comments and lints can switch code on and off (`#[cfg(..)]`): refused
fn check_attrs(attrs: &[Attribute]) -> R<()> {
    for a in attrs {
        let p = a.path();
        if p.is_ident("doc") || p.is_ident("allow") || p.is_ident("warn") || p.is_ident("inline") {
            continue;
        }
        return Err(format!("attribute `{}` inside a function body", a.to_token_stream()));
    }
    Ok(())
}

fn check_block_attrs(b: &Block) -> R<()> {
    struct V(Option<String>);
    impl<'ast> syn::visit::Visit<'ast> for V {
        fn visit_attribute(&mut self, a: &'ast Attribute) {
            if let Err(e) = check_attrs(std::slice::from_ref(a)) {
                if self.0.is_none() {
                    self.0 = Some(e);
                }
            }
        }
        fn visit_expr_unsafe(&mut self, _: &'ast ExprUnsafe) {
            if self.0.is_none() {
                self.0 = Some("unsafe block".into());
            }
        }
    }
    let mut v = V(None);
    syn::visit::Visit::visit_block(&mut v, b);
    match v.0 {
        Some(e) => Err(e),
        None => Ok(()),
    }
}

/// does the expression contain a `return` (outside closures), i.e. can it leave the enclosing function?
fn contains_return(e: &Expr) -> bool {
    struct V(bool);
    impl<'ast> syn::visit::Visit<'ast> for V {
        fn visit_expr_return(&mut self, _: &'ast ExprReturn) {
            self.0 = true;
        }
        fn visit_expr_closure(&mut self, _: &'ast ExprClosure) {}
    }
    let mut v = V(false);
    syn::visit::Visit::visit_expr(&mut v, e);
    v.0
}

fn is_configured(ty: &str, name: &str) -> bool {
    config::ITEMS.iter().any(|i| match i {
        config::Item::Method { ty: t, tr, name: n } => *t == ty && tr.is_empty() && *n == name,
        config::Item::CanonicalBody { ty: t, tr, name: n, .. } => *t == ty && tr.is_empty() && *n == name,
        _ => false,
    })
}

fn as_ptr_operand(e: &Expr) -> Option<&Expr> {
    let e = match e {
        Expr::Paren(p) => &*p.expr,
        e => e,
    };
    if let Expr::Cast(c) = e {
        if type_head(&c.ty).as_deref() == Some("usize") {
            if let Expr::MethodCall(m) = &*c.expr {
                if m.method == "as_ptr" && m.args.is_empty() {
                    return Some(&*m.receiver);
                }
            }
        }
    }
    None
}

/// `f.write_str(x)` / `f.write_char(c)` (optionally with `?`) on the formatter `f`: the argument
fn write_str_arg<'a>(e: &'a Expr, fvar: &str) -> Option<(&'a Expr, bool)> {
    let e = match e {
        Expr::Try(t) => &*t.expr,
        e => e,
    };
    if let Expr::MethodCall(m) = e {
        if (m.method == "write_str" || m.method == "write_char") && m.args.len() == 1 {
            if ident_name(&m.receiver.to_token_stream().to_string()) == fvar {
                return Some((&m.args[0], m.method == "write_char"));
            }
        }
    }
    None
}

fn is_formatter_type(t: &Type) -> bool {
    let s = t.to_token_stream().to_string().replace(' ', "");
    s == "&mutfmt::Formatter<'_>" || s == "&mutfmt::Formatter" || s == "&mutFormatter<'_>" || s == "&mutFormatter" || s == "&mutstd::fmt::Formatter<'_>"
}

fn fmt_result(sig: &Signature) -> bool {
    match &sig.output {
        ReturnType::Type(_, t) => {
            let s = t.to_token_stream().to_string().replace(' ', "");
            s == "fmt::Result" || s == "std::fmt::Result"
        }
        _ => false,
    }
}

/// `x.next().m1(..).m2(..)` (at least one method after `next()`): the variable and the chain with `x.next()` replaced
/// by the identifier `next_value__`
fn chain_rooted_at_next(e: &Expr) -> Option<(String, Expr)> {
    fn go(e: &Expr) -> Option<(String, Expr)> {
        if let Expr::MethodCall(m) = e {
            if m.method == "next" && m.args.is_empty() {
                if let Expr::Path(p) = &*m.receiver {
                    if let Some(id) = p.path.get_ident() {
                        let repl: Expr = syn::parse_str("next_value__").ok()?;
                        return Some((id.to_string(), repl));
                    }
                }
                return None;
            }
            let (v, inner) = go(&m.receiver)?;
            let mut m2 = m.clone();
            m2.receiver = Box::new(inner);
            return Some((v, Expr::MethodCall(m2)));
        }
        None
    }
    match e {
        Expr::MethodCall(m) if !(m.method == "next" && m.args.is_empty()) => go(e),
        _ => None,
    }
}

/// after the root `x.next()` has been taken out, is the rest a pure term?
fn expr_needs_do_except_root(e: &Expr) -> bool {
    expr_needs_do(e)
}

/// `p.parse_next(&mut x)` with `x` a local variable
fn is_local_parse_next(e: &Expr) -> bool {
    if let Expr::MethodCall(m) = e {
        if m.method == "parse_next" && m.args.len() == 1 {
            if let Expr::Reference(r) = &m.args[0] {
                return r.mutability.is_some() && matches!(&*r.expr, Expr::Path(p) if p.path.get_ident().is_some());
            }
        }
    }
    false
}

fn closure_param_is_input(p: &Pat) -> bool {
    let p = match p {
        Pat::Type(pt) => &*pt.pat,
        p => p,
    };
    matches!(p, Pat::Ident(id) if id.ident == "input")
}

fn is_input(e: &Expr) -> bool {
    e.to_token_stream().to_string() == "input"
}

fn strip_refs(e: &Expr) -> &Expr {
    match e {
        Expr::Reference(r) => strip_refs(&r.expr),
        Expr::Paren(p) => strip_refs(&p.expr),
        Expr::Unary(u) if matches!(u.op, UnOp::Deref(_)) => strip_refs(&u.expr),
        other => other,
    }
}

fn short<T: ToTokens>(e: &T) -> String {
    let s = e.to_token_stream().to_string();
    if s.len() > 120 {
        format!("{}…", s.chars().take(120).collect::<String>())
    } else {
        s
    }
}

fn product(subs: &[Vec<String>]) -> Vec<Vec<String>> {
    let mut out: Vec<Vec<String>> = vec![vec![]];
    for s in subs {
        let mut next = vec![];
        for pre in &out {
            for x in s {
                let mut p = pre.clone();
                p.push(x.clone());
                next.push(p);
            }
        }
        out = next;
    }
    out
}

#[allow(dead_code)]
fn unused(_: HashSet<String>) {}
