//! collection of the crate's items, JSON output, item-level translation
use std::collections::{BTreeMap, HashMap};

use quote::ToTokens;
use syn::spanned::Spanned;
use syn::*;

use crate::config::{self, Item as CItem};
pub use crate::fx::*;

pub type R<T> = std::result::Result<T, String>;

// ------------------------------------------------------------------------------------------- JSON
#[derive(Clone, Debug)]
pub enum Json {
    S(String),
    N(i64),
    B(bool),
    A(Vec<Json>),
    O(BTreeMap<String, Json>),
}

fn esc(s: &str) -> String {
    let mut o = String::new();
    for c in s.chars() {
        match c {
            '"' => o.push_str("\\\""),
            '\\' => o.push_str("\\\\"),
            '\n' => o.push_str("\\n"),
            '\t' => o.push_str("\\t"),
            c if (c as u32) < 0x20 => o.push_str(&format!("\\u{:04x}", c as u32)),
            c => o.push(c),
        }
    }
    o
}

impl Json {
    pub fn render(&self, ind: usize) -> String {
        let pad = " ".repeat(ind + 1);
        match self {
            Json::S(s) => format!("\"{}\"", esc(s)),
            Json::N(n) => n.to_string(),
            Json::B(b) => b.to_string(),
            Json::A(v) => {
                if v.is_empty() {
                    return "[]".into();
                }
                let items: Vec<String> = v.iter().map(|x| format!("{}{}", pad, x.render(ind + 1))).collect();
                format!("[\n{}\n{}]", items.join(",\n"), " ".repeat(ind))
            }
            Json::O(m) => {
                if m.is_empty() {
                    return "{}".into();
                }
                let items: Vec<String> =
                    m.iter().map(|(k, v)| format!("{}\"{}\": {}", pad, esc(k), v.render(ind + 1))).collect();
                format!("{{\n{}\n{}}}", items.join(",\n"), " ".repeat(ind))
            }
        }
    }
}

// ------------------------------------------------------------------------------------------ crate
#[derive(Clone)]
pub struct FnInfo {
    /// `Type::name` for functions of an impl, `name` for free functions, `outer::name` for nested ones
    pub qual: String,
    pub ty: Option<String>,
    /// last segment of the trait path with its generic arguments (`Ord`, `From<Partial>`), "" if inherent
    pub tr: String,
    pub sig: Signature,
    pub block: Block,
    pub file: String,
    pub line: usize,
    pub end_line: usize,
    pub hash: String,
}

#[derive(Default)]
pub struct Crate {
    pub fns: Vec<FnInfo>,
    pub enums: HashMap<String, ItemEnum>,
    pub structs: HashMap<String, ItemStruct>,
    pub consts: HashMap<String, ItemConst>,
    pub macros: Vec<(String, String)>,
    /// `macro_rules!` definitions by name (their token streams), for the item-level invocations
    pub macro_defs: HashMap<String, proc_macro2::TokenStream>,
    pub macro_notes: Vec<String>,
    /// (type, trait) -> names of the functions its impl blocks define
    pub impl_fns: HashMap<(String, String), Vec<String>>,
    /// methods of traits the crate itself declares: a call `x.name(..)` may resolve to them
    pub crate_trait_methods: Vec<(String, String)>,
    /// problems that concern every translated function (imports renamed, std names redefined)
    pub global_problems: Vec<String>,
    /// leaf imports at module level: (visible name, full path)
    pub imports: Vec<(String, String)>,
}

pub fn fnv(s: &str) -> String {
    let mut h: u64 = 0xcbf29ce484222325;
    for b in s.bytes() {
        h ^= b as u64;
        h = h.wrapping_mul(0x100000001b3);
    }
    format!("{:016x}", h)
}

/// exactly `#[cfg(test)]` (not `#[cfg(not(test))]`, which is compiled into every build *except* the test build and
/// would therefore escape both the translator and the crate's own tests)
fn is_cfg_test(attrs: &[Attribute]) -> bool {
    attrs.iter().any(|a| a.to_token_stream().to_string().replace(' ', "") == "#[cfg(test)]")
}

/// a conditional-compilation attribute other than `#[cfg(test)]` and `#[cfg(feature = "serde")]`
fn odd_cfg(attrs: &[Attribute]) -> Option<String> {
    for a in attrs {
        if a.path().is_ident("cfg") || a.path().is_ident("cfg_attr") {
            let t = a.to_token_stream().to_string().replace(' ', "");
            if t != "#[cfg(test)]" && t != "#[cfg(feature=\"serde\")]" && !t.starts_with("#[cfg_attr(feature=\"serde\",") {
                return Some(t);
            }
        }
    }
    None
}

fn item_attrs(it: &syn::Item) -> &[Attribute] {
    match it {
        syn::Item::Const(x) => &x.attrs,
        syn::Item::Enum(x) => &x.attrs,
        syn::Item::ExternCrate(x) => &x.attrs,
        syn::Item::Fn(x) => &x.attrs,
        syn::Item::ForeignMod(x) => &x.attrs,
        syn::Item::Impl(x) => &x.attrs,
        syn::Item::Macro(x) => &x.attrs,
        syn::Item::Mod(x) => &x.attrs,
        syn::Item::Static(x) => &x.attrs,
        syn::Item::Struct(x) => &x.attrs,
        syn::Item::Trait(x) => &x.attrs,
        syn::Item::TraitAlias(x) => &x.attrs,
        syn::Item::Type(x) => &x.attrs,
        syn::Item::Union(x) => &x.attrs,
        syn::Item::Use(x) => &x.attrs,
        _ => &[],
    }
}

/// items declared inside an expression (a function body, the initialiser of a `const`): `impl` blocks, traits and macros
/// declared there are visible to the whole crate although no item-level scan sees them
fn nested_items(b: &Block) -> Vec<String> {
    struct V(Vec<String>);
    impl<'ast> syn::visit::Visit<'ast> for V {
        fn visit_item(&mut self, i: &'ast syn::Item) {
            match i {
                syn::Item::Impl(im) => self.0.push(format!("impl … for {}", im.self_ty.to_token_stream())),
                syn::Item::Trait(t) => self.0.push(format!("trait {}", t.ident)),
                syn::Item::Macro(m) if m.mac.path.is_ident("macro_rules") => self.0.push("macro_rules!".into()),
                _ => {}
            }
            syn::visit::visit_item(self, i);
        }
    }
    let mut v = V(vec![]);
    syn::visit::Visit::visit_block(&mut v, b);
    v.0
}

fn trait_name(p: &Path) -> String {
    let seg = p.segments.last().unwrap();
    let mut s = seg.ident.to_string();
    if let PathArguments::AngleBracketed(a) = &seg.arguments {
        let args: Vec<String> = a.args.iter().map(|x| x.to_token_stream().to_string().replace(' ', "")).collect();
        s = format!("{}<{}>", s, args.join(","));
    }
    s
}

pub fn type_head(t: &Type) -> Option<String> {
    match t {
        Type::Path(p) => Some(p.path.segments.last()?.ident.to_string()),
        Type::Reference(r) => type_head(&r.elem),
        Type::Paren(p) => type_head(&p.elem),
        _ => None,
    }
}

impl Crate {
    pub fn add_file(&mut self, file: &str, f: &File) {
        for it in &f.items {
            self.add_item(file, it, None);
        }
    }

    fn add_fn(&mut self, file: &str, qual: String, ty: Option<String>, tr: String, sig: &Signature, block: &Block) {
        let line = sig.span().start().line;
        let end_line = block.span().end().line;
        let hash = fnv(&format!("{} {}", sig.to_token_stream(), block.to_token_stream()));
        // nested functions
        for st in &block.stmts {
            if let Stmt::Item(syn::Item::Fn(inner)) = st {
                self.add_fn(file, format!("{}::{}", qual, inner.sig.ident), None, String::new(), &inner.sig, &inner.block);
            }
        }
        self.fns.push(FnInfo { qual, ty, tr, sig: sig.clone(), block: block.clone(), file: file.into(), line, end_line, hash });
    }

    fn add_item(&mut self, file: &str, it: &syn::Item, _outer: Option<&str>) {
        if !is_cfg_test(item_attrs(it)) {
            if let Some(c) = odd_cfg(item_attrs(it)) {
                self.global_problems.push(format!("conditionally compiled item: `{}`", c));
            }
            // `impl`, `trait`, `macro_rules!` declared inside a body or an initialiser
            let nested: Vec<String> = match it {
                syn::Item::Fn(f) => nested_items(&f.block),
                syn::Item::Impl(im) => im
                    .items
                    .iter()
                    .flat_map(|ii| match ii {
                        ImplItem::Fn(f) => nested_items(&f.block),
                        _ => vec![],
                    })
                    .collect(),
                syn::Item::Const(c) => match &*c.expr {
                    Expr::Block(b) => nested_items(&b.block),
                    _ => vec![],
                },
                syn::Item::Static(c) => match &*c.expr {
                    Expr::Block(b) => nested_items(&b.block),
                    _ => vec![],
                },
                _ => vec![],
            };
            for n in nested {
                self.global_problems.push(format!("`{}` declared inside a body or an initialiser is not read as an item", n));
            }
        }
        match it {
            syn::Item::Fn(f) => {
                if is_cfg_test(&f.attrs) {
                    return;
                }
                self.check_name(&f.sig.ident.to_string(), "function");
                self.add_fn(file, f.sig.ident.to_string(), None, String::new(), &f.sig, &f.block);
            }
            syn::Item::Impl(im) => {
                if is_cfg_test(&im.attrs) {
                    return;
                }
                let ty = type_head(&im.self_ty).unwrap_or_else(|| "?".into());
                let tr = im.trait_.as_ref().map(|(_, p, _)| trait_name(p)).unwrap_or_default();
                // hand-written impls of std traits whose meaning the translation erases or assumes (`clone()` is the
                // identity, values are dropped silently, `==`/`<` between the crate's own types only, no auto-deref to
                // another type, no indexing or iteration protocol of its own)
                {
                    let head = tr.split('<').next().unwrap_or("").to_string();
                    let cross_type = (head == "PartialEq" || head == "PartialOrd") && tr.contains('<');
                    if matches!(head.as_str(), "Clone" | "Drop" | "Deref" | "DerefMut" | "Borrow" | "BorrowMut" | "AsRef" | "AsMut" | "Index" | "IndexMut" | "IntoIterator" | "Iterator" | "FromIterator" | "Extend" | "Default" | "ToOwned" | "Not" | "Neg" | "Add" | "Sub")
                        || cross_type
                    {
                        self.global_problems.push(format!("hand-written `impl {} for {}`: the translation takes the standard meaning of that trait for granted", tr, ty));
                    }
                }
                for ii in &im.items {
                    if let ImplItem::Fn(f) = ii {
                        if let Some(c) = odd_cfg(&f.attrs) {
                            self.global_problems.push(format!("conditionally compiled method `{}::{}`: `{}`", ty, f.sig.ident, c));
                        }
                        // an inherent method named like a method of a std trait the type implements wins over the trait
                        // method at every unchanged call site — inside the crate and in its users (`r.to_string()`,
                        // `a.cmp(&b)`, `v.clone()`, `"..".parse()` goes through `from_str`)
                        if tr.is_empty() {
                            let n = f.sig.ident.to_string();
                            if matches!(
                                n.as_str(),
                                "to_string" | "fmt" | "eq" | "ne" | "cmp" | "partial_cmp" | "lt" | "le" | "gt" | "ge" | "max" | "min" | "clamp"
                                    | "hash" | "clone" | "clone_from" | "from" | "into" | "try_from" | "try_into" | "from_str" | "default"
                                    | "to_owned" | "borrow" | "as_ref" | "deref" | "serialize" | "deserialize" | "source" | "description"
                            ) {
                                self.global_problems.push(format!(
                                    "inherent method `{}::{}` shadows the std trait method of that name at every call site",
                                    ty, n
                                ));
                            }
                        }
                        self.impl_fns.entry((ty.clone(), tr.clone())).or_default().push(f.sig.ident.to_string());
                        self.add_fn(file, format!("{}::{}", ty, f.sig.ident), Some(ty.clone()), tr.clone(), &f.sig, &f.block);
                    }
                }
            }
            syn::Item::Trait(t) => {
                for ti in &t.items {
                    if let TraitItem::Fn(f) = ti {
                        self.crate_trait_methods.push((t.ident.to_string(), f.sig.ident.to_string()));
                    }
                }
                self.check_name(&t.ident.to_string(), "trait");
            }
            syn::Item::Use(u) => {
                let mut leaves = vec![];
                collect_use(&u.tree, String::new(), &mut leaves);
                for (name, path) in leaves {
                    self.check_import(&name, &path);
                    self.imports.push((name, path));
                }
            }
            syn::Item::Static(st) => self.check_name(&st.ident.to_string(), "static"),
            syn::Item::Type(t) => self.check_name(&t.ident.to_string(), "type alias"),
            syn::Item::Enum(e) => {
                self.check_name(&e.ident.to_string(), "enum");
                self.enums.insert(e.ident.to_string(), e.clone());
            }
            syn::Item::Struct(s) => {
                self.check_name(&s.ident.to_string(), "struct");
                self.structs.insert(s.ident.to_string(), s.clone());
            }
            syn::Item::Const(c) => {
                self.consts.insert(c.ident.to_string(), c.clone());
            }
            syn::Item::Macro(m) => {
                if m.mac.path.is_ident("macro_rules") {
                    if let Some(id) = &m.ident {
                        self.check_name(&id.to_string(), "macro");
                        self.macros.push((id.to_string(), fnv(&m.mac.tokens.to_string())));
                        self.macro_defs.insert(id.to_string(), m.mac.tokens.clone());
                    }
                } else {
                    let mname = m.mac.path.segments.last().map(|s| s.ident.to_string()).unwrap_or_default();
                    if !self.macro_defs.contains_key(&mname) {
                        // `include!`, a macro of a dependency, …: items the translator does not see
                        self.global_problems.push(format!("item-level macro invocation `{}!` is not expanded", mname));
                    }
                    if let Some(def) = self.macro_defs.get(&mname).cloned() {
                        match expand_simple_macro(&def, &m.mac.tokens) {
                            Ok(files) => {
                                for f in files {
                                    for i in &f.items {
                                        self.add_item(file, i, None);
                                    }
                                }
                            }
                            Err(e) => {
                                if !mname.contains("test") {
                                    self.macro_notes.push(format!("{}!: {}", mname, e));
                                    // what this invocation generates (an impl, a method that unchanged call sites now
                                    // resolve to) is not seen by the translator
                                    self.global_problems.push(format!("item-level invocation of the crate's macro `{}!` cannot be expanded by the translator ({})", mname, e));
                                }
                            }
                        }
                    }
                    // an invocation at item level (the From impls, the test generators)
                    let name = m.mac.path.segments.last().map(|s| s.ident.to_string()).unwrap_or_default();
                    self.macros.push((format!("{}!(…)", name), fnv(&m.mac.tokens.to_string())));
                }
            }
            syn::Item::Mod(m) => {
                if is_cfg_test(&m.attrs) {
                    return;
                }
                if let Some((_, items)) = &m.content {
                    for i in items {
                        self.add_item(file, i, None);
                    }
                } else if !config::KNOWN_MODULES.contains(&m.ident.to_string().as_str()) {
                    self.global_problems.push(format!("module `{}` in a file of its own is not read", m.ident));
                }
            }
            _ => {}
        }
    }

    /// an item of the crate named like something the translation gives a fixed (std / winnow) meaning
    fn check_name(&mut self, name: &str, what: &str) {
        const PRIMITIVES: &[&str] = &["u8", "u16", "u32", "u64", "u128", "usize", "i8", "i16", "i32", "i64", "i128", "isize", "bool", "char", "str", "f32", "f64"];
        if PRIMITIVES.contains(&name) {
            self.global_problems.push(format!("the crate defines a {} named like the primitive type `{}`", what, name));
        }
        if config::FIXED_NAMES.contains(&name) {
            self.global_problems.push(format!("the crate defines a {} named `{}`, a name the translation takes to be the standard one", what, name));
        }
    }

    fn check_import(&mut self, name: &str, path: &str) {
        let last = path.rsplit("::").next().unwrap_or("");
        if last != "*" && last != "self" && last != name {
            self.global_problems.push(format!("import renamed: `use {} as {}`", path, name));
        }
        if let Some((_, expected)) = config::EXPECTED_IMPORTS.iter().find(|(n, _)| *n == name) {
            if !expected.split('|').any(|e| e == path) {
                self.global_problems.push(format!("`{}` is imported from `{}`, expected `{}`", name, path, expected));
            }
        }
        if last == "*" && !config::KNOWN_GLOBS.contains(&path) {
            self.global_problems.push(format!("glob import `use {}`", path));
        }
    }

    pub fn derives(&self, ty: &str) -> Vec<String> {
        let attrs: &[Attribute] = if let Some(e) = self.enums.get(ty) {
            &e.attrs
        } else if let Some(s) = self.structs.get(ty) {
            &s.attrs
        } else {
            return vec![];
        };
        let mut out = vec![];
        for a in attrs {
            if a.path().is_ident("derive") {
                let _ = a.parse_nested_meta(|m| {
                    if let Some(s) = m.path.segments.last() {
                        out.push(s.ident.to_string());
                    }
                    Ok(())
                });
            }
        }
        out
    }

    /// the impl types that define a method of this name
    pub fn method_owners(&self, name: &str) -> Vec<String> {
        let mut v: Vec<String> = self
            .fns
            .iter()
            .filter(|f| f.tr.is_empty() && f.sig.ident == name && f.ty.is_some() && f.sig.receiver().is_some())
            .map(|f| f.ty.clone().unwrap())
            .collect();
        v.sort();
        v.dedup();
        v
    }

    pub fn find_fn(&self, ty: Option<&str>, tr: &str, name: &str) -> Vec<&FnInfo> {
        self.fns
            .iter()
            .filter(|f| f.ty.as_deref() == ty && f.tr == tr && f.sig.ident == name && !f.qual.contains("::parser"))
            .collect()
    }

    // ------------------------------------------------------------------------------ shape checks
    /// the body of a type declaration without attributes and comments, blanks removed
    fn decl_text(&self, name: &str) -> Option<String> {
        fn strip(fields: &Fields) -> Fields {
            let mut f = fields.clone();
            for fld in f.iter_mut() {
                fld.attrs.clear();
            }
            f
        }
        if let Some(e) = self.enums.get(name) {
            let mut e = e.clone();
            for v in e.variants.iter_mut() {
                v.attrs.clear();
                v.fields = strip(&v.fields);
            }
            let mut s = e.variants.to_token_stream().to_string().replace(' ', "");
            if !s.ends_with(',') {
                s.push(',');
            }
            return Some(format!("{{{}}}", s));
        }
        if let Some(st) = self.structs.get(name) {
            let f = strip(&st.fields);
            let mut s = f.to_token_stream().to_string().replace(' ', "");
            if s.ends_with('}') && !s.ends_with(",}") {
                s.insert(s.len() - 1, ',');
            }
            return Some(s);
        }
        None
    }

    pub fn shape_checks(&self) -> String {
        let mut o = String::new();
        o.push_str("/-! ### The crate's data types have the shape of the model's types -/\n");
        let mut bad = vec![];
        for (name, expected) in config::EXPECTED_DECLS {
            match self.decl_text(name) {
                Some(t) if t == *expected => {}
                Some(t) => bad.push(format!("declaration of `{}` is `{}`, expected `{}`", name, t, expected)),
                None => bad.push(format!("type `{}` not found", name)),
            }
        }
        if bad.is_empty() {
            o.push_str("/-- every data type is declared as the translation expects, token for token (field and payload types, integer widths, order) -/\ntheorem Semver.Gen.declarations_as_expected : True := trivial\n");
        } else {
            for b in &bad {
                o.push_str(&format!("-- UNTRANSLATABLE Semver.Gen.declarations_as_expected : {}\n", b));
            }
        }
        let mut names: Vec<&String> = self.enums.keys().chain(self.structs.keys()).collect();
        names.sort();
        for n in names {
            let Some(lean) = lean_type_name(n) else { continue };
            if config::NO_SHAPE.contains(&n.as_str()) {
                continue;
            }
            if let Some(e) = self.enums.get(n) {
                o.push_str(&format!("-- enum {} ({} variants)\n", n, e.variants.len()));
                let mut arms = String::new();
                let mut ok = true;
                for v in &e.variants {
                    let Some(ctor) = variant_ctor(Some(n), &v.ident.to_string()) else {
                        o.push_str(&format!("-- UNTRANSLATABLE shape {}: variant {} has no counterpart in the model\n", n, v.ident));
                        ok = false;
                        break;
                    };
                    let mut args = String::new();
                    match &v.fields {
                        Fields::Unit => {}
                        Fields::Unnamed(u) => {
                            for f in &u.unnamed {
                                match lean_type(&f.ty, Some(n)) {
                                    Ok(t) => args.push_str(&format!(" (_ : {})", t)),
                                    Err(e) => {
                                        o.push_str(&format!("-- UNTRANSLATABLE shape {}: {}\n", n, e));
                                        ok = false;
                                    }
                                }
                            }
                        }
                        Fields::Named(_) => {
                            o.push_str(&format!("-- UNTRANSLATABLE shape {}: variant with named fields\n", n));
                            ok = false;
                        }
                    }
                    arms.push_str(&format!("  | {}{} => ()\n", ctor, args));
                }
                if ok {
                    o.push_str(&format!("def Semver.Gen.shape_{} : {} → Unit\n{}", n, lean, arms));
                }
            } else if let Some(s) = self.structs.get(n) {
                if config::NEWTYPES.contains(&n.as_str()) {
                    if let Fields::Unnamed(u) = &s.fields {
                        if u.unnamed.len() == 1 {
                            if let Ok(t) = lean_type(&u.unnamed[0].ty, Some(n)) {
                                o.push_str(&format!("-- struct {}(…): represented by its only field\n", n));
                                o.push_str(&format!("def Semver.Gen.shape_{} (x : {}) : {} := x\n", n, lean, t));
                                continue;
                            }
                        }
                    }
                    o.push_str(&format!("-- UNTRANSLATABLE shape {}: not a one-field tuple struct any more\n", n));
                    continue;
                }
                if let Fields::Named(named) = &s.fields {
                    let mut tys = vec![];
                    let mut projs = vec![];
                    let mut inits = vec![];
                    let mut ok = true;
                    for f in &named.named {
                        let fname = f.ident.as_ref().unwrap().to_string();
                        match lean_type(&f.ty, Some(n)) {
                            Ok(t) => {
                                tys.push(t);
                                projs.push(format!("x.{}", lean_field(&fname)));
                                inits.push(format!("{} := x{}", lean_field(&fname), inits.len()));
                            }
                            Err(e) => {
                                o.push_str(&format!("-- UNTRANSLATABLE shape {}: {}\n", n, e));
                                ok = false;
                            }
                        }
                    }
                    if ok {
                        o.push_str(&format!("-- struct {} ({} fields)\n", n, tys.len()));
                        o.push_str(&format!(
                            "def Semver.Gen.shape_{} (x : {}) : {} := ({})\n",
                            n,
                            lean,
                            tys.join(" × "),
                            projs.join(", ")
                        ));
                        let binders: Vec<String> = tys.iter().enumerate().map(|(i, t)| format!("(x{} : {})", i, t)).collect();
                        o.push_str(&format!(
                            "def Semver.Gen.build_{} {} : {} := {{ {} }}\n",
                            n,
                            binders.join(" "),
                            lean,
                            inits.join(", ")
                        ));
                    }
                }
            }
        }
        o.push('\n');
        o
    }

    // ------------------------------------------------------------------------------------ items
    pub fn translate_item(&self, item: &CItem) -> (String, BTreeMap<String, Json>) {
        let mut entry = BTreeMap::new();
        let res = self.translate_item_inner(item, &mut entry);
        match res {
            Ok(text) => {
                entry.insert("status".into(), Json::S("translated".into()));
                (text, entry)
            }
            Err(e) => {
                entry.insert("status".into(), Json::S("untranslatable".into()));
                entry.insert("reason".into(), Json::S(e.clone()));
                let what = entry.get("lean").map(|j| if let Json::S(s) = j { s.clone() } else { String::new() }).unwrap_or_default();
                (format!("-- UNTRANSLATABLE {} : {}\n", what, e.replace('\n', " ")), entry)
            }
        }
    }

    fn translate_item_inner(&self, item: &CItem, entry: &mut BTreeMap<String, Json>) -> R<String> {
        match item {
            CItem::Const { name } => {
                entry.insert("kind".into(), Json::S("const".into()));
                entry.insert("rust".into(), Json::S(format!("const {}", name)));
                entry.insert("lean".into(), Json::S(format!("Semver.Gen.{}", name)));
                let c = self.consts.get(*name).ok_or_else(|| format!("const {} not found", name))?;
                let t = lean_type(&c.ty, None)?;
                let mut fx = Fx::new(self, None);
                let v = fx.expr(&c.expr)?;
                Ok(format!("/-- `const {}` -/\ndef Semver.Gen.{} : {} := {}\n", name, name, t, v))
            }
            CItem::Derive { ty, tr } => {
                let lean_ty = lean_type_name(ty).ok_or("unmapped type")?;
                let suffix = if *tr == "PartialEq" { "rs_eq" } else { "rs_cmp" };
                let lname = format!("{}.{}", lean_ty, suffix);
                entry.insert("kind".into(), Json::S("derive".into()));
                entry.insert("rust".into(), Json::S(format!("#[derive({})] {}", tr, ty)));
                entry.insert("lean".into(), Json::S(lname.clone()));
                let ds = self.derives(ty);
                if !ds.iter().any(|d| d == tr) {
                    return Err(format!("{} no longer derives {}", ty, tr));
                }
                if *tr == "Ord" && !ds.iter().any(|d| d == "PartialOrd") {
                    return Err(format!("{} derives Ord but not PartialOrd", ty));
                }
                self.derive_impl(ty, lean_ty, tr, &lname)
            }
            CItem::CanonicalPartialCmp { ty } => {
                let lname = format!("Semver.Gen.partial_cmp_is_cmp_{}", ty);
                entry.insert("kind".into(), Json::S("partial_cmp".into()));
                entry.insert("rust".into(), Json::S(format!("{}::partial_cmp", ty)));
                entry.insert("lean".into(), Json::S(lname.clone()));
                let fs = self.find_fn(Some(ty), "PartialOrd", "partial_cmp");
                if fs.len() != 1 {
                    return Err(format!("expected one impl PartialOrd for {}, found {}", ty, fs.len()));
                }
                let defined = self.impl_fns.get(&(ty.to_string(), "PartialOrd".to_string())).cloned().unwrap_or_default();
                if defined.len() != 1 {
                    return Err(format!("impl PartialOrd for {} overrides {}", ty, defined.join(", ")));
                }
                let body = fs[0].block.to_token_stream().to_string().replace(' ', "");
                let other = match fs[0].sig.inputs.iter().nth(1) {
                    Some(FnArg::Typed(p)) => p.pat.to_token_stream().to_string(),
                    _ => return Err("unexpected signature".into()),
                };
                if body != format!("{{Some(self.cmp({}))}}", other) {
                    return Err(format!("partial_cmp is not `Some(self.cmp({}))`: {}", other, body));
                }
                Ok(format!(
                    "/-- `impl PartialOrd for {}` is `Some(self.cmp(other))`: `<`, `<=`, `>`, `>=` are those of `cmp` -/\ntheorem {} : True := trivial\n",
                    ty, lname
                ))
            }
            CItem::Method { ty, tr, name } => {
                let lean_ty = lean_type_name(ty).ok_or("unmapped type")?;
                let lname = method_lean_name(lean_ty, tr, name);
                entry.insert("kind".into(), Json::S("fn".into()));
                entry.insert("rust".into(), Json::S(format!("{}::{}", ty, name)));
                entry.insert("trait".into(), Json::S(tr.to_string()));
                entry.insert("lean".into(), Json::S(lname.clone()));
                let fs = self.find_fn(Some(ty), tr, name);
                if fs.len() != 1 {
                    return Err(format!("expected exactly one `{}::{}` ({}), found {}", ty, name, tr, fs.len()));
                }
                let f = fs[0];
                entry.insert("file".into(), Json::S(f.file.clone()));
                entry.insert("line".into(), Json::N(f.line as i64));
                entry.insert("end_line".into(), Json::N(f.end_line as i64));
                entry.insert("body_hash".into(), Json::S(f.hash.clone()));
                if !tr.is_empty() {
                    // an impl of PartialEq / Ord / Display / Hash / From that overrides a provided method (`ne`, `max`,
                    // `lt`, …) changes the meaning of operators and std functions the translation takes as given
                    let defined = self.impl_fns.get(&(ty.to_string(), tr.to_string())).cloned().unwrap_or_default();
                    let configured: Vec<&str> = config::ITEMS
                        .iter()
                        .filter_map(|i| match i {
                            CItem::Method { ty: t2, tr: r2, name: n2 } if t2 == ty && r2 == tr => Some(*n2),
                            _ => None,
                        })
                        .collect();
                    let extra: Vec<String> = defined.into_iter().filter(|n| !configured.contains(&n.as_str())).collect();
                    if !extra.is_empty() {
                        return Err(format!("impl {} for {} also defines {}", tr, ty, extra.join(", ")));
                    }
                }
                let mut fx = Fx::new(self, Some(ty.to_string()));
                let text = fx.function(f, &lname, tr);
                entry.insert("sites".into(), Json::A(fx.sites.iter().map(|s| s.json()).collect()));
                entry.insert("calls".into(), Json::A(fx.calls.iter().map(|s| Json::S(s.clone())).collect()));
                entry.insert("auto_helpers".into(), Json::A(fx.auto_helpers.iter().map(|s| Json::S(s.clone())).collect()));
                entry.insert("inlined_helpers".into(), Json::A(fx.inlined.iter().map(|s| Json::S(s.clone())).collect()));
                let mut text = text?;
                // trait instances
                let inst = match *tr {
                    "PartialEq" => Some(format!("instance : Rust.REq {} := ⟨{}⟩\n", lean_ty, lname)),
                    "Ord" => Some(format!("instance : Rust.ROrd {} := ⟨{}⟩\n", lean_ty, lname)),
                    "Display" => Some(format!("instance : Rust.RDisplay {} := ⟨{}⟩\n", lean_ty, lname)),
                    t if t.starts_with("From<(") => {
                        // the tuple conversions: `.into()` on integer literals and `u64` values uses the u64 one
                        let inner = &t[6..t.len() - 2];
                        let parts: Vec<&str> = inner.split(',').collect();
                        if parts[0] == "u64" || parts[0] == "i64" {
                            let lt = lean_type_name(parts[0]).ok_or("unmapped integer type")?;
                            Some(format!("instance : Rust.RInto ({}) {} := ⟨{}⟩\n", vec![lt; parts.len()].join(" × "), lean_ty, lname))
                        } else {
                            None
                        }
                    }
                    t if t.starts_with("From<") => {
                        let from = &t[5..t.len() - 1];
                        let from_lean = lean_type_name(from).ok_or("unmapped From type")?;
                        Some(format!("instance : Rust.RInto {} {} := ⟨{}⟩\n", from_lean, lean_ty, lname))
                    }
                    _ => None,
                };
                if let Some(i) = inst {
                    text.push_str(&i);
                }
                Ok(text)
            }
            CItem::CanonicalBody { ty, tr, name, body } => {
                let lname = format!("Semver.Gen.canonical_{}_{}", ty, name);
                entry.insert("kind".into(), Json::S("canonical_body".into()));
                entry.insert("rust".into(), Json::S(format!("{}::{}", ty, name)));
                entry.insert("lean".into(), Json::S(lname.clone()));
                let fs = self.find_fn(Some(ty), tr, name);
                if fs.len() != 1 {
                    return Err(format!("expected exactly one `impl {} for {}` with `{}`, found {}", tr, ty, name, fs.len()));
                }
                let defined = self.impl_fns.get(&(ty.to_string(), tr.to_string())).cloned().unwrap_or_default();
                // the impl defines exactly the functions that are held to a canonical body
                let mut expected: Vec<String> = config::ITEMS
                    .iter()
                    .filter_map(|i| match i {
                        CItem::CanonicalBody { ty: t2, tr: tr2, name: n2, .. } if t2 == ty && tr2 == tr => Some(n2.to_string()),
                        _ => None,
                    })
                    .collect();
                expected.sort();
                let mut def_sorted = defined.clone();
                def_sorted.sort();
                if !tr.is_empty() && def_sorted != expected {
                    return Err(format!("impl {} for {} defines {}", tr, ty, defined.join(", ")));
                }
                let got = fs[0].block.to_token_stream().to_string().replace(' ', "");
                if got != *body {
                    return Err(format!("body of {}::{} is `{}`, expected `{}`", ty, name, got, body));
                }
                Ok(format!("/-- `{}::{}` ({}) is still `{}` -/\ntheorem {} : True := trivial\n", ty, name, tr, body, lname))
            }
            CItem::GenType { name } => {
                let lean = lean_type_name(name).ok_or("unmapped generated type")?;
                entry.insert("kind".into(), Json::S("type".into()));
                entry.insert("rust".into(), Json::S(format!("enum {}", name)));
                entry.insert("lean".into(), Json::S(lean.to_string()));
                let e = self.enums.get(*name).ok_or_else(|| format!("enum {} not found", name))?;
                let mut o = format!("/-- `enum {}`: no counterpart in the model; generated as it is declared -/\ninductive {} where\n", name, lean);
                for v in &e.variants {
                    let ctor = variant_ctor(Some(name), &v.ident.to_string()).ok_or_else(|| format!("variant {} is not listed", v.ident))?;
                    let short = ctor.rsplit('.').next().unwrap().to_string();
                    let mut args = String::new();
                    match &v.fields {
                        Fields::Unit => {}
                        Fields::Unnamed(u) => {
                            for (i, f) in u.unnamed.iter().enumerate() {
                                args.push_str(&format!(" (x{} : {})", i, lean_type(&f.ty, Some(name))?));
                            }
                        }
                        Fields::Named(_) => return Err("variant with named fields".into()),
                    }
                    o.push_str(&format!("  | {}{}\n", short, args));
                }
                Ok(o)
            }
            CItem::Parser { name } => {
                let lname = format!("Semver.Gen.{}", name.replace("::", "_"));
                entry.insert("kind".into(), Json::S("parser".into()));
                entry.insert("rust".into(), Json::S(name.to_string()));
                entry.insert("lean".into(), Json::S(lname.clone()));
                let fs: Vec<&FnInfo> = self.fns.iter().filter(|f| f.qual == *name).collect();
                if fs.len() != 1 {
                    return Err(format!("expected exactly one function `{}`, found {}", name, fs.len()));
                }
                let f = fs[0];
                entry.insert("file".into(), Json::S(f.file.clone()));
                entry.insert("line".into(), Json::N(f.line as i64));
                entry.insert("end_line".into(), Json::N(f.end_line as i64));
                entry.insert("body_hash".into(), Json::S(f.hash.clone()));
                let mut fx = Fx::new(self, None);
                fx.register_closures(f);
                let text = fx.parser_fn(f, &lname);
                entry.insert("sites".into(), Json::A(fx.sites.iter().map(|s| s.json()).collect()));
                entry.insert("calls".into(), Json::A(fx.calls.iter().map(|s| Json::S(s.clone())).collect()));
                entry.insert("auto_helpers".into(), Json::A(fx.auto_helpers.iter().map(|s| Json::S(s.clone())).collect()));
                entry.insert("inlined_helpers".into(), Json::A(fx.inlined.iter().map(|s| Json::S(s.clone())).collect()));
                text
            }
            CItem::Closure { func, idx, lean, captures, params, ret } => {
                entry.insert("kind".into(), Json::S("closure".into()));
                entry.insert("rust".into(), Json::S(format!("{}#closure{}", func, idx)));
                entry.insert("lean".into(), Json::S(lean.to_string()));
                let fs: Vec<&FnInfo> = self.fns.iter().filter(|f| f.qual == *func).collect();
                if fs.len() != 1 {
                    return Err(format!("expected exactly one free function `{}`, found {}", func, fs.len()));
                }
                let f = fs[0];
                entry.insert("file".into(), Json::S(f.file.clone()));
                entry.insert("line".into(), Json::N(f.line as i64));
                let cls = closures_of(&f.block);
                // the combinator expression around the closure is not translated; its text is recorded so that
                // the report shows when it changes
                entry.insert("enclosing_fn_hash".into(), Json::S(f.hash.clone()));
                entry.insert("closures_in_fn".into(), Json::N(cls.len() as i64));
                let c = cls.get(*idx).ok_or_else(|| format!("`{}` has only {} closures", func, cls.len()))?;
                let mut fx = Fx::new(self, None);
                let text = fx.closure_item(c, lean, captures, params, ret, func);
                entry.insert("sites".into(), Json::A(fx.sites.iter().map(|s| s.json()).collect()));
                entry.insert("calls".into(), Json::A(fx.calls.iter().map(|s| Json::S(s.clone())).collect()));
                entry.insert("auto_helpers".into(), Json::A(fx.auto_helpers.iter().map(|s| Json::S(s.clone())).collect()));
                entry.insert("inlined_helpers".into(), Json::A(fx.inlined.iter().map(|s| Json::S(s.clone())).collect()));
                text
            }
        }
    }

    /// a function of the crate that translated code calls but that is not configured (a helper someone extracted):
    /// translated like any other and marked `@[simp]`, so that proofs by simplification see through it
    pub fn translate_helper(&self, qual: &str) -> (String, BTreeMap<String, Json>) {
        let mut entry = BTreeMap::new();
        entry.insert("kind".into(), Json::S("auto_helper".into()));
        entry.insert("rust".into(), Json::S(qual.to_string()));
        let res = (|| -> R<String> {
            let fs: Vec<&FnInfo> = self.fns.iter().filter(|f| f.qual == qual && f.tr.is_empty()).collect();
            if fs.len() != 1 {
                return Err(format!("expected exactly one function `{}`, found {}", qual, fs.len()));
            }
            let f = fs[0];
            let is_parser = f.ty.is_none() && parser_output(&f.sig).is_some();
            let lname = match &f.ty {
                Some(t) => format!("{}.rs_{}", lean_type_name(t).ok_or("unmapped type")?, f.sig.ident),
                None if is_parser => format!("Semver.Gen.{}", qual.replace("::", "_")),
                None => format!("Semver.Gen.auto_{}", f.sig.ident),
            };
            entry.insert("lean".into(), Json::S(lname.clone()));
            entry.insert("file".into(), Json::S(f.file.clone()));
            entry.insert("line".into(), Json::N(f.line as i64));
            let mut fx = Fx::new(self, f.ty.clone());
            let text = if is_parser {
                fx.register_closures(f);
                fx.parser_fn(f, &lname)
            } else {
                fx.function(f, &lname, "")
            };
            entry.insert("sites".into(), Json::A(fx.sites.iter().map(|s| s.json()).collect()));
            entry.insert("calls".into(), Json::A(fx.calls.iter().map(|s| Json::S(s.clone())).collect()));
            entry.insert("auto_helpers".into(), Json::A(fx.auto_helpers.iter().map(|s| Json::S(s.clone())).collect()));
                entry.insert("inlined_helpers".into(), Json::A(fx.inlined.iter().map(|s| Json::S(s.clone())).collect()));
            let text = text?;
            Ok(text.replacen("\ndef ", "\n@[simp] def ", 1))
        })();
        match res {
            Ok(t) => {
                entry.insert("status".into(), Json::S("translated".into()));
                (t, entry)
            }
            Err(e) => {
                entry.insert("status".into(), Json::S("untranslatable".into()));
                entry.insert("reason".into(), Json::S(e.clone()));
                (format!("-- UNTRANSLATABLE helper {} : {}\n", qual, e.replace('\n', " ")), entry)
            }
        }
    }

    fn derive_impl(&self, ty: &str, lean_ty: &str, tr: &str, lname: &str) -> R<String> {
        let mut o = String::new();
        if let Some(e) = self.enums.get(ty) {
            let mut vs: Vec<(String, usize)> = vec![];
            for v in &e.variants {
                let ctor = variant_ctor(Some(ty), &v.ident.to_string()).ok_or("unmapped variant")?;
                let n = match &v.fields {
                    Fields::Unit => 0,
                    Fields::Unnamed(u) => u.unnamed.len(),
                    Fields::Named(_) => return Err("variant with named fields".into()),
                };
                vs.push((ctor, n));
            }
            let binders = |p: &str, n: usize| -> String { (0..n).map(|i| format!(" {}{}", p, i)).collect() };
            if tr == "PartialEq" {
                o.push_str(&format!("/-- `#[derive(PartialEq)]` on `{}`: same variant and equal fields -/\n", ty));
                o.push_str(&format!("def {} (a b : {}) : Bool :=\n  match a, b with\n", lname, lean_ty));
                for (c, n) in &vs {
                    let body = if *n == 0 {
                        "true".to_string()
                    } else {
                        (0..*n).map(|i| format!("Rust.REq.eq x{} y{}", i, i)).collect::<Vec<_>>().join(" && ")
                    };
                    o.push_str(&format!("  | {}{}, {}{} => {}\n", c, binders("x", *n), c, binders("y", *n), body));
                }
                if vs.len() > 1 {
                    o.push_str("  | _, _ => false\n");
                }
                o.push_str(&format!("instance : Rust.REq {} := ⟨{}⟩\n", lean_ty, lname));
            } else {
                o.push_str(&format!(
                    "/-- `#[derive(PartialOrd, Ord)]` on `{}`: variants in declaration order, then fields lexicographically -/\n",
                    ty
                ));
                o.push_str(&format!("def {} (a b : {}) : Ordering :=\n  match a, b with\n", lname, lean_ty));
                for (i, (c, n)) in vs.iter().enumerate() {
                    for (j, (d, m)) in vs.iter().enumerate() {
                        let wild = |k: usize| -> String { " _".repeat(k) };
                        if i == j {
                            let mut body = "Ordering.eq".to_string();
                            for k in (0..*n).rev() {
                                body = if body == "Ordering.eq" {
                                    format!("Rust.ROrd.cmp x{} y{}", k, k)
                                } else {
                                    format!("(match Rust.ROrd.cmp x{} y{} with | Ordering.eq => {} | o => o)", k, k, body)
                                };
                            }
                            o.push_str(&format!("  | {}{}, {}{} => {}\n", c, binders("x", *n), d, binders("y", *m), body));
                        } else {
                            o.push_str(&format!(
                                "  | {}{}, {}{} => {}\n",
                                c,
                                wild(*n),
                                d,
                                wild(*m),
                                if i < j { "Ordering.lt" } else { "Ordering.gt" }
                            ));
                        }
                    }
                }
                o.push_str(&format!("instance : Rust.ROrd {} := ⟨{}⟩\n", lean_ty, lname));
            }
            Ok(o)
        } else if let Some(s) = self.structs.get(ty) {
            if tr != "PartialEq" {
                return Err("derive(Ord) on a struct is not supported".into());
            }
            let Fields::Named(named) = &s.fields else { return Err("derive on a tuple struct".into()) };
            let conj: Vec<String> = named
                .named
                .iter()
                .map(|f| {
                    let n = lean_field(&f.ident.as_ref().unwrap().to_string());
                    format!("Rust.REq.eq a.{} b.{}", n, n)
                })
                .collect();
            o.push_str(&format!("/-- `#[derive(PartialEq)]` on `{}`: field by field, in declaration order -/\n", ty));
            o.push_str(&format!("def {} (a b : {}) : Bool :=\n  {}\n", lname, lean_ty, conj.join(" && ")));
            o.push_str(&format!("instance : Rust.REq {} := ⟨{}⟩\n", lean_ty, lname));
            Ok(o)
        } else {
            Err(format!("type {} not found", ty))
        }
    }
}

pub fn method_lean_name(lean_ty: &str, tr: &str, name: &str) -> String {
    if tr.starts_with("From<(") {
        let inner = &tr[6..tr.len() - 2];
        let parts: Vec<&str> = inner.split(',').collect();
        format!("{}.rs_from_{}x{}", lean_ty, parts[0], parts.len())
    } else if tr.starts_with("From<") {
        format!("{}.rs_from_{}", lean_ty, &tr[5..tr.len() - 1])
    } else {
        format!("{}.rs_{}", lean_ty, name)
    }
}

pub fn lean_type_name(rust: &str) -> Option<&'static str> {
    config::TYPES.iter().find(|t| t.rust == rust).map(|t| t.lean)
}

pub fn lean_field(rust: &str) -> String {
    config::FIELDS.iter().find(|(r, _)| *r == rust).map(|(_, l)| l.to_string()).unwrap_or_else(|| rust.to_string())
}

/// constructor of the model for a variant; `ty` = enum name if the path gives one
pub fn variant_ctor(ty: Option<&str>, variant: &str) -> Option<String> {
    let hits: Vec<&(&str, &str, &str)> =
        config::VARIANTS.iter().filter(|(t, v, _)| *v == variant && ty.map_or(true, |x| x == *t)).collect();
    if hits.len() == 1 {
        Some(hits[0].2.to_string())
    } else {
        None
    }
}

pub fn lean_type(t: &Type, self_ty: Option<&str>) -> R<String> {
    match t {
        Type::Reference(r) if r.lifetime.as_ref().map_or(false, |l| l.ident == "static") && r.elem.to_token_stream().to_string() == "str" => {
            Ok("String".into())
        }
        Type::Reference(r) => lean_type(&r.elem, self_ty),
        Type::Paren(p) => lean_type(&p.elem, self_ty),
        Type::Slice(s) => Ok(format!("(List {})", lean_type(&s.elem, self_ty)?)),
        Type::Tuple(tp) => {
            if tp.elems.is_empty() {
                return Ok("Unit".into());
            }
            let parts: R<Vec<String>> = tp.elems.iter().map(|e| lean_type(e, self_ty)).collect();
            Ok(format!("({})", parts?.join(" × ")))
        }
        Type::Path(p) => {
            let seg = p.path.segments.last().ok_or("empty type path")?;
            let name = seg.ident.to_string();
            let arg = |i: usize| -> R<String> {
                if let PathArguments::AngleBracketed(a) = &seg.arguments {
                    let tys: Vec<&Type> = a.args.iter().filter_map(|g| if let GenericArgument::Type(t) = g { Some(t) } else { None }).collect();
                    if let Some(t) = tys.get(i) {
                        return lean_type(t, self_ty);
                    }
                }
                Err(format!("type {} needs an argument", name))
            };
            match name.as_str() {
                "Result" => {
                    let ok = arg(0)?;
                    let err = arg(1)?;
                    return Ok(format!("(Except {} {})", err, ok));
                }
                "Self" => {
                    let s = self_ty.ok_or("Self outside an impl")?;
                    lean_type_name(s).map(|x| x.to_string()).ok_or_else(|| format!("unmapped type {}", s))
                }
                "Option" => Ok(format!("(Option {})", arg(0)?)),
                "Vec" => Ok(format!("(List {})", arg(0)?)),
                "Box" => arg(0),
                n => lean_type_name(n).map(|x| x.to_string()).ok_or_else(|| format!("unmapped type {}", n)),
            }
        }
        _ => Err(format!("unsupported type `{}`", t.to_token_stream())),
    }
}

/// closures of a block in source order (not descending into nested closures)
pub fn closures_of(b: &Block) -> Vec<ExprClosure> {
    struct V(Vec<ExprClosure>);
    impl<'ast> syn::visit::Visit<'ast> for V {
        fn visit_expr_closure(&mut self, c: &'ast ExprClosure) {
            self.0.push(c.clone());
        }
        fn visit_item(&mut self, _i: &'ast syn::Item) {}
    }
    let mut v = V(vec![]);
    syn::visit::Visit::visit_block(&mut v, b);
    v.0
}


/// expansion of `macro_rules! m { ($($t:ident),+) => { $( ITEMS )+ } }` invoked as `m!(a, b, c)`:
/// ITEMS once per argument with `$t` replaced.  Any other shape is refused.
pub fn expand_simple_macro(def: &proc_macro2::TokenStream, call: &proc_macro2::TokenStream) -> R<Vec<File>> {
    use proc_macro2::{Delimiter, TokenStream, TokenTree};
    let toks: Vec<TokenTree> = def.clone().into_iter().collect();
    if toks.len() < 4 {
        return Err("unexpected macro_rules shape".into());
    }
    let matcher = match &toks[0] {
        TokenTree::Group(g) if g.delimiter() == Delimiter::Parenthesis => g.stream().to_string().replace(' ', ""),
        _ => return Err("unexpected matcher".into()),
    };
    let var = if let Some(rest) = matcher.strip_prefix("$($") {
        match rest.strip_suffix(":ident),+") {
            Some(v) => v.to_string(),
            None => return Err(format!("unsupported matcher `{}`", matcher)),
        }
    } else {
        return Err(format!("unsupported matcher `{}`", matcher));
    };
    let is_arrow = matches!((&toks[1], &toks[2]), (TokenTree::Punct(a), TokenTree::Punct(b)) if a.as_char() == '=' && b.as_char() == '>');
    if !is_arrow {
        return Err("unexpected macro_rules shape".into());
    }
    if toks.len() > 5 {
        return Err("macro with several rules".into());
    }
    let body = match &toks[3] {
        TokenTree::Group(g) if g.delimiter() == Delimiter::Brace => g.stream(),
        _ => return Err("unexpected transcriber".into()),
    };
    let bt: Vec<TokenTree> = body.into_iter().collect();
    let ok = bt.len() == 3
        && matches!(&bt[0], TokenTree::Punct(p) if p.as_char() == '$')
        && matches!(&bt[2], TokenTree::Punct(p) if p.as_char() == '+');
    if !ok {
        return Err("transcriber is not `$( … )+`".into());
    }
    let inner = match &bt[1] {
        TokenTree::Group(g) if g.delimiter() == Delimiter::Parenthesis => g.stream(),
        _ => return Err("transcriber is not `$( … )+`".into()),
    };
    fn subst(ts: TokenStream, var: &str, with: &proc_macro2::Ident) -> R<TokenStream> {
        let mut out = Vec::new();
        let v: Vec<TokenTree> = ts.into_iter().collect();
        let mut i = 0;
        while i < v.len() {
            match &v[i] {
                TokenTree::Punct(p) if p.as_char() == '$' => match v.get(i + 1) {
                    Some(TokenTree::Ident(id)) if id == var => {
                        out.push(TokenTree::Ident(with.clone()));
                        i += 2;
                    }
                    _ => return Err("`$` followed by something other than the macro variable".into()),
                },
                TokenTree::Group(g) => {
                    let mut ng = proc_macro2::Group::new(g.delimiter(), subst(g.stream(), var, with)?);
                    ng.set_span(g.span());
                    out.push(TokenTree::Group(ng));
                    i += 1;
                }
                t => {
                    out.push(t.clone());
                    i += 1;
                }
            }
        }
        Ok(out.into_iter().collect())
    }
    let mut files = vec![];
    for t in call.clone().into_iter() {
        match t {
            TokenTree::Ident(id) => {
                let ts = subst(inner.clone(), &var, &id)?;
                let f: File = syn::parse2(ts).map_err(|e| format!("expansion does not parse: {}", e))?;
                files.push(f);
            }
            TokenTree::Punct(p) if p.as_char() == ',' => {}
            _ => return Err("unexpected argument in macro invocation".into()),
        }
    }
    Ok(files)
}


pub fn struct_field(struct_name: &str, field: &str) -> String {
    if let Some((_, _, l)) = config::STRUCT_FIELDS.iter().find(|(s, f, _)| *s == struct_name && *f == field) {
        return l.to_string();
    }
    lean_field(field)
}

/// is this the signature of a winnow parser of the crate: `(input: &mut &str) -> PResult<T, _>`?
pub fn parser_output(sig: &Signature) -> Option<Type> {
    if sig.inputs.len() != 1 {
        return None;
    }
    let FnArg::Typed(pt) = &sig.inputs[0] else { return None };
    if pt.ty.to_token_stream().to_string().replace(' ', "") != "&mut&'sstr" && pt.ty.to_token_stream().to_string().replace(' ', "") != "&mut&str" {
        return None;
    }
    let ReturnType::Type(_, t) = &sig.output else { return None };
    let Type::Path(p) = &**t else { return None };
    let seg = p.path.segments.last()?;
    if seg.ident != "PResult" {
        return None;
    }
    if let PathArguments::AngleBracketed(a) = &seg.arguments {
        if let Some(GenericArgument::Type(t)) = a.args.first() {
            return Some(t.clone());
        }
    }
    None
}


pub fn struct_field_conv(struct_name: &str, field: &str) -> Option<(&'static str, &'static str)> {
    config::STRUCT_FIELD_CONV.iter().find(|(s, f, _, _)| *s == struct_name && *f == field).map(|(_, _, m, c)| (*m, *c))
}


fn collect_use(t: &UseTree, prefix: String, out: &mut Vec<(String, String)>) {
    let join = |p: &str, s: &str| if p.is_empty() { s.to_string() } else { format!("{}::{}", p, s) };
    match t {
        UseTree::Path(p) => collect_use(&p.tree, join(&prefix, &p.ident.to_string()), out),
        UseTree::Name(n) => {
            let name = n.ident.to_string();
            if name == "self" {
                let last = prefix.rsplit("::").next().unwrap_or("").to_string();
                out.push((last, prefix.clone()));
            } else {
                out.push((name.clone(), join(&prefix, &name)));
            }
        }
        UseTree::Rename(r) => out.push((r.rename.to_string(), join(&prefix, &r.ident.to_string()))),
        UseTree::Glob(_) => out.push(("*".into(), join(&prefix, "*"))),
        UseTree::Group(g) => {
            for i in &g.items {
                collect_use(i, prefix.clone(), out);
            }
        }
    }
}
