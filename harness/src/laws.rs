//! Large-scale law checks on the implementation alone: operands with thousands of alternatives, far
//! beyond what is sent through the Lean model, judged pointwise with the crate's own `satisfies` on
//! release versions (where satisfaction is bounds membership).  An algorithm that switches at some
//! operand size and gets an answer wrong there breaks one of these laws.  Support for finding failing
//! inputs; the theorems are about the model, which has no size thresholds at all.

use crate::gen::Rng;
use nodejs_semver::{Range, Version};

pub struct Violation {
    pub property: &'static str,
    pub law: String,
    pub a: String,
    pub b: String,
    pub at: String,
}

fn rel(a: u64, b: u64, c: u64) -> Version {
    Version::from((a, b, c))
}

/// a range with `n` alternatives over majors `0..span`, in one of several layouts
fn big_range(rng: &mut Rng, n: usize, span: u64, layout: usize) -> (String, Vec<Version>) {
    let mut alts: Vec<String> = Vec::with_capacity(n + 1);
    let mut probes: Vec<Version> = Vec::new();
    for k in 0..n as u64 {
        let m = match layout % 3 {
            0 => k * span / n as u64,
            1 => (k * 7919) % span,
            _ => span - 1 - (k * span / n as u64),
        };
        let t = match rng.below(5) {
            0 => format!("{}.{}.{}", m, k % 11, k % 5),
            1 => format!(">={}.{}.0 <{}.{}.0", m, k % 7, m, k % 7 + 2),
            2 => format!(">{}.1.0 <={}.4.0", m, m),
            3 => format!("~{}.{}", m, k % 9),
            _ => format!(">={}.0.0 <={}.0.0", m, m + 1 + k % 3),
        };
        alts.push(t);
        if k % (1 + n as u64 / 60) == 0 {
            for (b, c) in [(0u64, 0u64), (1, 0), (2, 0), (4, 0), (4, 1), (k % 7, 0), (k % 7 + 2, 0), (k % 11, k % 5), (k % 9, 3)] {
                probes.push(rel(m, b, c));
            }
            probes.push(rel(m + 1, 0, 0));
        }
    }
    if layout % 2 == 1 {
        // a wide alternative that contains many of the others
        alts.insert(rng.below(n), format!(">={}.0.0 <{}.0.0", span / 5, span / 2));
        probes.push(rel(span / 3, 9, 9));
    }
    (alts.join("||"), probes)
}

pub fn run(thorough: bool, seed: u64) -> Vec<Violation> {
    let mut rng = Rng::new(seed ^ 0x1a57);
    let mut out = Vec::new();
    let sizes: &[(usize, usize)] = if thorough { &[(300, 300), (2000, 2000), (8000, 800), (800, 8000), (30000, 30)] } else { &[(300, 300), (1500, 1500), (6000, 60)] };
    for (round, &(n, m)) in sizes.iter().enumerate() {
        let span = (n.max(m) as u64) * 2 + 10;
        let (ta, pa) = big_range(&mut rng, n, span, round);
        let (tb, pb) = big_range(&mut rng, m, span, round + 1);
        let (Ok(a), Ok(b)) = (Range::parse(&ta), Range::parse(&tb)) else { continue };
        let mut probes = pa;
        probes.extend(pb);
        let short = |t: &String| if t.len() > 120 { format!("{}… ({} alternatives, {} bytes)", &t[..120], t.matches("||").count() + 1, t.len()) } else { t.clone() };
        let mut report = |property: &'static str, law: String, at: String| {
            out.push(Violation { property, law, a: short(&ta), b: short(&tb), at });
        };
        let isect = a.intersect(&b);
        let isect_rev = b.intersect(&a);
        let diff = a.difference(&b);
        let in_opt = |r: &Option<Range>, v: &Version| r.as_ref().map(|r| r.satisfies(v)).unwrap_or(false);
        let mut both_somewhere = false;
        for v in &probes {
            let (sa, sb) = (a.satisfies(v), b.satisfies(v));
            both_somewhere |= sa && sb;
            if in_opt(&isect, v) != (sa && sb) {
                report("C07", "a release satisfies A.intersect(B) exactly when it satisfies both".into(), v.to_string());
                break;
            }
            if in_opt(&isect_rev, v) != (sa && sb) {
                report("C07", "B.intersect(A) admits the same releases as A.intersect(B)".into(), v.to_string());
                break;
            }
            if in_opt(&diff, v) != (sa && !sb) {
                report("C08", "a release satisfies A.difference(B) exactly when it satisfies A and not B".into(), v.to_string());
                break;
            }
        }
        // C15: A minus (A minus B) is A intersect B
        let back = match &diff {
            Some(d) => a.difference(d),
            None => Some(a.clone()),
        };
        for v in &probes {
            if in_opt(&back, v) != in_opt(&isect, v) {
                report("C15", "A.difference(A.difference(B)) admits the same releases as A.intersect(B)".into(), v.to_string());
                break;
            }
        }
        // C09
        let (any_ab, any_ba) = (a.allows_any(&b), b.allows_any(&a));
        if any_ab != isect.is_some() || any_ab != any_ba {
            report("C09", format!("allows_any = {} , reverse = {}, intersect.is_some() = {}", any_ab, any_ba, isect.is_some()), String::new());
        } else if both_somewhere && !any_ab {
            report("C09", "a version satisfies both but allows_any is false".into(), String::new());
        }
        // C10: single alternatives of B against A
        for alt in tb.split("||").step_by(1 + m / 40) {
            if let Ok(single) = Range::parse(alt) {
                if a.allows_all(&single) {
                    if !a.allows_any(&single) {
                        report("C10", format!("allows_all without allows_any for B = {}", alt), String::new());
                        break;
                    }
                    if let Some(v) = probes.iter().find(|v| single.satisfies(v) && !a.satisfies(v)) {
                        report("C10", format!("allows_all is true for B = {} but a version of B is outside A", alt), v.to_string());
                        break;
                    }
                }
            }
        }
        if !a.allows_all(&a) {
            report("C10", "a range does not allow all of itself".into(), String::new());
        }
        // C11 / C14
        for (r, t) in [(&a, &ta), (&b, &tb)] {
            let _ = t;
            match r.min_version() {
                Some(mv) => {
                    if !r.satisfies(&mv) {
                        report("C11", "min_version does not satisfy the range".into(), mv.to_string());
                    } else if let Some(v) = probes.iter().find(|v| **v < mv && r.satisfies(v)) {
                        report("C11", format!("a version below min_version {} satisfies", mv), v.to_string());
                    }
                }
                None => {
                    if let Some(v) = probes.iter().find(|v| r.satisfies(v)) {
                        report("C11", "min_version is None but a version satisfies".into(), v.to_string());
                    }
                }
            }
            let want_max = probes.iter().filter(|v| r.satisfies(v)).max();
            let want_min = probes.iter().filter(|v| r.satisfies(v)).min();
            let got_max = r.max_satisfying(&probes);
            let got_min = r.min_satisfying(&probes);
            if got_max.map(|v| v.to_string()) != want_max.map(|v| v.to_string()) {
                report("C14", format!("max_satisfying over {} versions: {:?}, the greatest satisfying element is {:?}", probes.len(), got_max.map(|v| v.to_string()), want_max.map(|v| v.to_string())), String::new());
            }
            if got_min.map(|v| v.to_string()) != want_min.map(|v| v.to_string()) {
                report("C14", format!("min_satisfying over {} versions: {:?}, the least satisfying element is {:?}", probes.len(), got_min.map(|v| v.to_string()), want_min.map(|v| v.to_string())), String::new());
            }
        }
        // C13: the printed form parses back to a range admitting the same releases
        for r in [Some(a.clone()), isect.clone(), diff.clone()].into_iter().flatten() {
            match Range::parse(r.to_string()) {
                Ok(back) => {
                    if let Some(v) = probes.iter().find(|v| back.satisfies(v) != r.satisfies(v)) {
                        report("C13", "the printed range parses back to a range admitting different versions".into(), v.to_string());
                    }
                }
                Err(_) => report("C13", "the printed range does not parse".into(), String::new()),
            }
        }
    }
    resolver_laws_small(&mut out);
    out
}

/// C11 and C14 on small ranges whose bounds carry prerelease tags and build metadata, judged with the crate's own
/// `satisfies` and `<` on the neighbourhood of every bound (including the same version with other build metadata):
/// `min_version` / `max_satisfying` can be right by the specification while `satisfies` itself has moved.
fn resolver_laws_small(out: &mut Vec<Violation>) {
    let versions = ["1.2.3", "1.2.3+build.5", "1.0.0+a", "1.2.3-rc.1", "1.2.3-rc.1+b", "0.0.0+x", "2.0.0-0+z"];
    let lowers = ["", ">", ">="];
    let uppers = ["", "<", "<="];
    let mut texts: Vec<String> = Vec::new();
    for lo in versions {
        for l in lowers {
            for hi in versions {
                for u in uppers {
                    let t = match (l.is_empty(), u.is_empty()) {
                        (true, true) => continue,
                        (false, true) => format!("{}{}", l, lo),
                        (true, false) => format!("{}{}", u, hi),
                        (false, false) => format!("{}{} {}{}", l, lo, u, hi),
                    };
                    texts.push(t);
                }
            }
        }
    }
    texts.sort();
    texts.dedup();
    let mut probes: Vec<Version> = Vec::new();
    for v in versions {
        let Ok(v) = Version::parse(v) else { continue };
        for n in crate::gen::neighbours(&v) {
            for b in [vec![], vec![nodejs_semver::Identifier::AlphaNumeric("a".into())], vec![nodejs_semver::Identifier::AlphaNumeric("build".into()), nodejs_semver::Identifier::Numeric(6)]] {
                let mut w = n.clone();
                w.build = b;
                probes.push(w);
            }
        }
    }
    for t in &texts {
        let Ok(r) = Range::parse(t) else { continue };
        let mut report = |prop: &'static str, law: String, at: String| {
            if out.iter().filter(|v| v.property == prop).count() < 5 {
                out.push(Violation { property: prop, law, a: t.clone(), b: String::new(), at });
            }
        };
        match r.min_version() {
            Some(mv) => {
                if !r.satisfies(&mv) {
                    report("C11", "min_version does not satisfy the range".into(), mv.to_string());
                } else if let Some(v) = probes.iter().find(|v| v.cmp(&&mv) == std::cmp::Ordering::Less && r.satisfies(v)) {
                    report("C11", format!("a version below min_version {} satisfies", mv), v.to_string());
                }
            }
            None => {
                if let Some(v) = probes.iter().find(|v| r.satisfies(v)) {
                    report("C11", "min_version is None but a version satisfies".into(), v.to_string());
                }
            }
        }
        let sat: Vec<&Version> = probes.iter().filter(|v| r.satisfies(v)).collect();
        let got_max = r.max_satisfying(&probes);
        let got_min = r.min_satisfying(&probes);
        if let Some(g) = got_max {
            if !r.satisfies(g) || sat.iter().any(|v| (*v).cmp(g) == std::cmp::Ordering::Greater) {
                report("C14", "max_satisfying is not the greatest satisfying element".into(), g.to_string());
            }
        } else if !sat.is_empty() {
            report("C14", "max_satisfying is None but an element satisfies".into(), sat[0].to_string());
        }
        if let Some(g) = got_min {
            if !r.satisfies(g) || sat.iter().any(|v| (*v).cmp(g) == std::cmp::Ordering::Less) {
                report("C14", "min_satisfying is not the least satisfying element".into(), g.to_string());
            }
        } else if !sat.is_empty() {
            report("C14", "min_satisfying is None but an element satisfies".into(), sat[0].to_string());
        }
    }
}

pub fn to_json(vs: &[Violation]) -> String {
    let esc = |s: &str| s.replace('\\', "\\\\").replace('"', "\\\"").replace('\n', "\\n").replace('\t', "\\t");
    let items: Vec<String> = vs
        .iter()
        .map(|v| format!("{{\"property\":\"{}\",\"law\":\"{}\",\"A\":\"{}\",\"B\":\"{}\",\"at\":\"{}\"}}", v.property, esc(&v.law), esc(&v.a), esc(&v.b), esc(&v.at)))
        .collect();
    format!("[{}]", items.join(","))
}
