//! C06, runtime half: very large operands through every public operation, each family in its own
//! child process on a thread with the default spawned-thread stack (2 MiB), so that a stack
//! overflow (an abort `catch_unwind` cannot catch), a panic or a hang is observed and attributed.

use nodejs_semver::{Range, Version};
use std::time::{Duration, Instant};

pub const FAMILIES: &[&str] = &[
    "alts", "alts_square", "comparators", "hyphens", "garbage", "idents", "newlines", "peel", "nested_or",
];

/// operand size for a family
pub fn size(family: &str, thorough: bool) -> usize {
    let q = match family {
        "alts" => 20_000,
        "alts_square" => 700,
        "comparators" => 20_000,
        "hyphens" => 20_000,
        "garbage" => 50_000,
        "idents" => 50_000,
        "newlines" => 50_000,
        "peel" => 600,
        "nested_or" => 20_000,
        _ => 1000,
    };
    if thorough {
        match family {
            "alts_square" | "peel" => q * 2,
            _ => q * 10,
        }
    } else {
        q
    }
}

/// the large input of a family (also written next to a replay)
pub fn input(family: &str, n: usize) -> String {
    match family {
        "alts" | "alts_square" => (1..=n).map(|i| format!("0.0.{}", i)).collect::<Vec<_>>().join("||"),
        "comparators" => (1..=n).map(|i| format!(">=0.0.{}", i)).collect::<Vec<_>>().join(" "),
        "hyphens" => "1 - 2 ".repeat(n),
        "garbage" => "foo ".repeat(n),
        // two bounds sharing a long common prefix of identifiers
        "idents" => format!(">=1.2.3-{}.a <1.2.3-{}.b", vec!["a"; n].join("."), vec!["a"; n].join(".")),
        "newlines" => format!("{}blerg", "\n".repeat(n)),
        "peel" => ">=0.0.0".to_string(),
        "nested_or" => format!("{}1.2.3", "|| ".repeat(n)),
        _ => String::new(),
    }
}

fn use_range(r: &Range, probes: &[Version]) {
    let s = r.to_string();
    let back = Range::parse(&s);
    std::hint::black_box(&back);
    for v in probes {
        std::hint::black_box(r.satisfies(v));
    }
    std::hint::black_box(r.min_version());
    std::hint::black_box(r.max_satisfying(probes));
    std::hint::black_box(r.min_satisfying(probes));
    let c = r.clone();
    std::hint::black_box(c == *r);
}

fn use_error(text: &str) {
    if let Err(e) = Range::parse(text) {
        std::hint::black_box(e.input().len());
        std::hint::black_box(e.offset());
        std::hint::black_box(e.location());
        std::hint::black_box(e.to_string());
        std::hint::black_box(format!("{:?}", e.kind()));
    }
    if let Err(e) = Version::parse(text) {
        std::hint::black_box(e.input().len());
        std::hint::black_box(e.offset());
        std::hint::black_box(e.location());
        std::hint::black_box(e.to_string());
    }
}

/// everything the property lists, on the family's operands
pub fn exercise(family: &str, n: usize) {
    let text = input(family, n);
    let probes: Vec<Version> = ["0.0.0", "0.0.7", "1.2.3", "1.2.3-a", "1.5.0", "0.0.1-0", "99.0.0"]
        .iter()
        .map(|s| Version::parse(s).unwrap())
        .collect();
    let small: Vec<Range> = ["0.0.0", ">=0.0.5 <0.0.9", "*", "<0.0.3 || >1.0.0", "1.2.3-a", "^1.2.0"]
        .iter()
        .map(|s| Range::parse(s).unwrap())
        .collect();
    use_error(&text);
    match family {
        "peel" => {
            // a composition n deep: peel exact versions off `>=0.0.0`, then intersect back
            let mut r = Range::parse(&text).unwrap();
            for i in 0..n {
                let x = Range::parse(&format!("0.{}.0", i)).unwrap();
                if let Some(d) = r.difference(&x) {
                    r = d;
                }
            }
            use_range(&r, &probes);
            let mut acc = r.clone();
            for s in &small {
                if let Some(x) = acc.intersect(s) {
                    acc = x;
                }
            }
            use_range(&acc, &probes);
            std::hint::black_box(r.allows_all(&r));
        }
        _ => {
            let big = match Range::parse(&text) {
                Ok(b) => b,
                Err(_) => return,
            };
            use_range(&big, &probes);
            for s in &small {
                // `*` minus n exact versions has n+1 pieces and takes n^2/2 interval operations by
                // construction: only on the family sized for quadratic work
                if s.to_string() == ">=0.0.0" && family != "alts_square" {
                    continue;
                }
                std::hint::black_box(s.difference(&big).map(|r| r.to_string().len()));
                std::hint::black_box(big.difference(s).map(|r| r.to_string().len()));
                std::hint::black_box(s.intersect(&big).map(|r| r.to_string().len()));
                std::hint::black_box(big.intersect(s).map(|r| r.to_string().len()));
                std::hint::black_box(s.allows_any(&big));
                std::hint::black_box(big.allows_any(s));
                std::hint::black_box(s.allows_all(&big));
                std::hint::black_box(big.allows_all(s));
            }
            if let Some(m) = big.min_version() {
                std::hint::black_box(m.to_string().len());
                std::hint::black_box(m.cmp(&m.clone()));
                std::hint::black_box(m.diff(&probes[2]));
                std::hint::black_box(m == m.clone());
                use std::hash::{Hash, Hasher};
                let mut h = std::collections::hash_map::DefaultHasher::new();
                m.hash(&mut h);
                std::hint::black_box(h.finish());
            }
            if family != "alts" && family != "alts_square" && family != "nested_or" {
                // a value against itself (equal long prefixes everywhere)
                std::hint::black_box(big.intersect(&big).map(|r| r.to_string().len()));
                std::hint::black_box(big.difference(&big).is_none());
                std::hint::black_box(big.allows_all(&big));
                std::hint::black_box(big.allows_any(&big));
            }
            if family == "alts_square" {
                std::hint::black_box(big.difference(&big).is_none());
                std::hint::black_box(big.intersect(&big).map(|r| r.to_string().len()));
                std::hint::black_box(big.allows_all(&big));
                std::hint::black_box(big.allows_any(&big));
            }
        }
    }
}

/// child mode: run one family on a 2 MiB thread; exit 0 = returned normally, 3 = panicked
pub fn run_child(family: &str, n: usize) -> i32 {
    let fam = family.to_string();
    let h = std::thread::Builder::new()
        .stack_size(2 * 1024 * 1024)
        .spawn(move || std::panic::catch_unwind(|| exercise(&fam, n)).is_ok())
        .expect("spawn");
    match h.join() {
        Ok(true) => 0,
        _ => 3,
    }
}

/// parent mode: one child process per family, with a time limit
pub fn run_all(thorough: bool, limit: Duration) -> String {
    let exe = std::env::current_exe().expect("exe");
    let mut out = String::from("[");
    for (i, fam) in FAMILIES.iter().enumerate() {
        let n = size(fam, thorough);
        let t = Instant::now();
        let mut child = std::process::Command::new(&exe)
            .args(["deep-one", fam, &n.to_string()])
            .stdout(std::process::Stdio::null())
            .stderr(std::process::Stdio::null())
            .spawn()
            .expect("spawn child");
        let status;
        loop {
            match child.try_wait().expect("wait") {
                Some(s) => {
                    status = if s.success() {
                        "ok".to_string()
                    } else if s.code() == Some(3) {
                        "panic".to_string()
                    } else {
                        use std::os::unix::process::ExitStatusExt;
                        match s.signal() {
                            Some(sig) => format!("killed by signal {} (stack overflow aborts with SIGABRT=6, SIGSEGV=11)", sig),
                            None => format!("exit code {:?}", s.code()),
                        }
                    };
                    break;
                }
                None => {
                    if t.elapsed() > limit {
                        let _ = child.kill();
                        let _ = child.wait();
                        status = format!("timeout after {}s", limit.as_secs());
                        break;
                    }
                    std::thread::sleep(Duration::from_millis(20));
                }
            }
        }
        if i > 0 {
            out.push(',');
        }
        out.push_str(&format!(
            "{{\"family\":\"{}\",\"n\":{},\"input_bytes\":{},\"status\":\"{}\",\"seconds\":{:.3}}}",
            fam,
            n,
            input(fam, n).len(),
            status,
            t.elapsed().as_secs_f64()
        ));
    }
    out.push(']');
    out
}
