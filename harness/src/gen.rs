//! Generators.  Every random choice derives from one splitmix64 state seeded from VERIF_SEED and
//! the stream name, so a disagreement replays exactly.

use crate::{enc_version, Expr, Out, MAX};
use nodejs_semver::{Identifier, Range, Version};

/// the crate may panic on a generated text (that is what C06 looks for): generator-side calls go
/// through these wrappers so that the harness survives and the panic is reported by the op itself
thread_local! {
    /// the last text the generator handed to the crate (for attributing a panic inside generator-side crate calls)
    pub static LAST_TEXT: std::cell::RefCell<(char, String)> = std::cell::RefCell::new((' ', String::new()));
}

pub fn try_range(t: &str) -> Result<Range, ()> {
    LAST_TEXT.with(|l| *l.borrow_mut() = ('r', t.to_string()));
    if t == crate::ANY {
        return std::panic::catch_unwind(Range::any).map_err(|_| ());
    }
    match std::panic::catch_unwind(|| Range::parse(t)) {
        Ok(Ok(r)) => Ok(r),
        _ => Err(()),
    }
}

pub fn try_version(t: &str) -> Result<Version, ()> {
    LAST_TEXT.with(|l| *l.borrow_mut() = ('v', t.to_string()));
    match std::panic::catch_unwind(|| Version::parse(t)) {
        Ok(Ok(v)) => Ok(v),
        _ => Err(()),
    }
}

/// splitmix64 plus a short memory of numbers handed out recently, so that "the same value in two
/// places" and "a value next to another value" occur far more often than independent draws allow
pub struct Rng {
    s: u64,
    recent: [u64; 6],
    at: usize,
}

impl Rng {
    pub fn new(seed: u64) -> Self {
        Rng { s: seed.wrapping_mul(0x9E3779B97F4A7C15) ^ 0xD1B54A32D192ED03, recent: [0, 1, 2, 10, 255, 65536], at: 0 }
    }
    /// remember a number that went into the current case
    pub fn note(&mut self, v: u64) -> u64 {
        self.recent[self.at % 6] = v;
        self.at += 1;
        v
    }
    /// a recently used number, or one of its neighbours
    pub fn echo(&mut self) -> u64 {
        let v = self.recent[self.below(6)];
        match self.below(6) {
            0 => v.saturating_add(1),
            1 => v.saturating_sub(1),
            _ => v,
        }
    }
    pub fn next(&mut self) -> u64 {
        self.s = self.s.wrapping_add(0x9E3779B97F4A7C15);
        let mut z = self.s;
        z = (z ^ (z >> 30)).wrapping_mul(0xBF58476D1CE4E5B9);
        z = (z ^ (z >> 27)).wrapping_mul(0x94D049BB133111EB);
        z ^ (z >> 31)
    }
    pub fn below(&mut self, n: usize) -> usize {
        (self.next() % (n as u64)) as usize
    }
    pub fn pick<'a, T>(&mut self, xs: &'a [T]) -> &'a T {
        &xs[self.below(xs.len())]
    }
    pub fn chance(&mut self, num: usize, den: usize) -> bool {
        self.below(den) < num
    }
}

pub fn hash_str(s: &str) -> u64 {
    let mut h: u64 = 0xcbf29ce484222325;
    for b in s.bytes() {
        h ^= b as u64;
        h = h.wrapping_mul(0x100000001b3);
    }
    h
}

// ---------------------------------------------------------------- versions

fn num(n: u64) -> Identifier {
    Identifier::Numeric(n)
}
fn al(s: &str) -> Identifier {
    Identifier::AlphaNumeric(s.to_string())
}

/// identifiers covering every comparison class (canonical ones only: what the parser can return)
fn canon_idents() -> Vec<Identifier> {
    vec![
        num(0),
        num(1),
        num(2),
        num(10),
        num(u64::MAX),
        al("a"),
        al("A"),
        al("Z"),
        al("z"),
        al("alpha"),
        al("beta"),
        al("rc"),
        al("-"),
        al("--"),
        al("0a"),
        al("a0"),
        al("1-"),
        al("a-b"),
        al("-1"),
        al("18446744073709551616"),
        al("00018446744073709551616"),
        // digit-count boundaries of u64
        num(9_999_999_999_999_999_999),
        num(10_000_000_000_000_000_000),
        num(999_999_999_999_999_999),
        num(1_000_000_000_000_000_000),
        al("99999999999999999999"),
        al("100000000000000000000"),
        al("10a"),
        al("--1"),
    ]
}

/// identifiers only constructible through the pub fields
fn wild_idents() -> Vec<Identifier> {
    vec![al(""), al("é"), al("ı"), al("日本"), al("a.b"), al("00"), al("7"), al("a b"), al("😀"), al("\u{7f}")]
}

/// a number of uniformly random *magnitude*: bit length first, then the bits (so that three-digit,
/// seven-digit and fifteen-digit values are as likely as one-digit ones), capped at `cap`
pub fn log_uniform(rng: &mut Rng, cap: u64) -> u64 {
    let bits = rng.below(64) as u32;
    let v = if bits == 0 { 0 } else { (rng.next() >> (64 - bits)) | (1u64 << (bits - 1)) };
    v.min(cap)
}

/// values at a power of two (or of ten) and its neighbours: where packed keys, fast paths and digit
/// counts change
pub fn boundary_value(rng: &mut Rng, cap: u64) -> u64 {
    if rng.chance(1, 3) {
        // a * 2^k + b with small a and b: where a division, a shift or a narrowing cast of a
        // multiple of the value wraps
        let a = 1 + rng.below(12) as u64;
        let k = rng.below(64) as u32;
        let b = rng.below(13) as u64;
        let v = a.checked_shl(k).filter(|x| x >> k == a).unwrap_or(u64::MAX);
        let v = if rng.chance(1, 4) { v.saturating_sub(b) } else { v.saturating_add(b) };
        return v.min(cap);
    }
    let base: u64 = if rng.chance(1, 2) {
        1u64 << rng.below(64)
    } else {
        10u64.pow(rng.below(20) as u32)
    };
    let v = match rng.below(3) {
        0 => base.saturating_sub(1),
        1 => base,
        _ => base.saturating_add(1),
    };
    v.min(cap)
}

fn gen_component(rng: &mut Rng, wide: bool) -> u64 {
    let small = [0u64, 0, 1, 1, 2, 3, 9, 10, 11];
    if rng.chance(1, 6) {
        let v = rng.echo();
        return if wide { v } else { v.min(MAX) };
    }
    let v = gen_component_fresh(rng, wide, &small);
    rng.note(v)
}

fn gen_component_fresh(rng: &mut Rng, wide: bool, small: &[u64]) -> u64 {
    match rng.below(20) {
        0 | 1 => *rng.pick(&[MAX - 1, MAX]),
        2 | 3 if wide => *rng.pick(&[MAX + 1, u64::MAX, u64::MAX - 1, 1 << 32, (1 << 53) + 1]),
        4 | 5 => rng.next() % 1000,
        6 | 7 | 8 => log_uniform(rng, if wide { u64::MAX } else { MAX }),
        9 => boundary_value(rng, if wide { u64::MAX } else { MAX }),
        _ => *rng.pick(small),
    }
}

fn gen_idents(rng: &mut Rng, wild: bool) -> Vec<Identifier> {
    let pool = canon_idents();
    let wpool = wild_idents();
    let n = *rng.pick(&[0usize, 0, 0, 1, 1, 1, 2, 2, 3, 4, 6, 9]);
    (0..n)
        .map(|_| {
            if wild && rng.chance(1, 6) {
                rng.pick(&wpool).clone()
            } else if rng.chance(1, 10) {
                let v = log_uniform(rng, u64::MAX);
                num(rng.note(v))
            } else if rng.chance(1, 15) {
                let v = boundary_value(rng, u64::MAX);
                num(rng.note(v))
            } else if rng.chance(1, 12) {
                // the same numeric identifier again, or its neighbour (adjacent values above 2^53 included)
                num(rng.echo())
            } else {
                rng.pick(&pool).clone()
            }
        })
        .collect()
}

pub fn gen_version(rng: &mut Rng, wild: bool) -> Version {
    Version {
        major: gen_component(rng, wild),
        minor: gen_component(rng, wild),
        patch: gen_component(rng, wild),
        pre_release: gen_idents(rng, wild),
        build: if rng.chance(1, 4) { gen_idents(rng, wild) } else { vec![] },
    }
}

/// a version close to `v` in the order: the points immediately around every cut
pub fn neighbours(v: &Version) -> Vec<Version> {
    let mut out = vec![v.clone()];
    let rel = |a: u64, b: u64, c: u64| Version { major: a, minor: b, patch: c, pre_release: vec![], build: vec![] };
    let pre0 = |a: u64, b: u64, c: u64| Version { major: a, minor: b, patch: c, pre_release: vec![num(0)], build: vec![] };
    let (a, b, c) = (v.major, v.minor, v.patch);
    out.push(rel(a, b, c));
    out.push(pre0(a, b, c));
    out.push(rel(a, b, c.saturating_add(1)));
    out.push(pre0(a, b, c.saturating_add(1)));
    if c > 0 {
        out.push(rel(a, b, c - 1));
        out.push(Version { pre_release: vec![al("zz")], ..rel(a, b, c - 1) });
    }
    out.push(rel(a, b.saturating_add(1), 0));
    out.push(pre0(a, b.saturating_add(1), 0));
    out.push(rel(a.saturating_add(1), 0, 0));
    out.push(pre0(a.saturating_add(1), 0, 0));
    if b > 0 {
        out.push(rel(a, b - 1, MAX));
    }
    if a > 0 {
        out.push(rel(a - 1, MAX, MAX));
    }
    if !v.pre_release.is_empty() {
        let mut w = v.clone();
        w.pre_release.push(num(0));
        out.push(w.clone());
        w.pre_release.push(num(1));
        out.push(w);
        let mut w = v.clone();
        w.pre_release.pop();
        if !w.pre_release.is_empty() {
            out.push(w);
        }
        let mut w = v.clone();
        w.pre_release = vec![al("alpha")];
        out.push(w);
        let mut w = v.clone();
        w.pre_release = vec![al("zz"), num(1)];
        out.push(w);
    } else {
        out.push(Version { pre_release: vec![al("alpha")], ..rel(a, b, c) });
        out.push(Version { pre_release: vec![al("rc"), num(1)], ..rel(a, b, c) });
    }
    let mut w = v.clone();
    w.build = vec![al("build"), num(7)];
    out.push(w);
    out
}

/// every version that occurs in a printed range
fn versions_in(text: &str) -> Vec<Version> {
    text.split(|c: char| c == ' ' || c == '|' || c == '<' || c == '>' || c == '=' || c == '*')
        .filter(|t| !t.is_empty())
        .filter_map(|t| try_version(t).ok())
        .collect()
}

fn version_grid(rng: &mut Rng, printed: &str, extra: usize) -> Vec<Version> {
    let mut out = Vec::new();
    for v in versions_in(printed) {
        out.extend(neighbours(&v));
    }
    out.push(Version::from((0u64, 0, 0)));
    out.push(Version::from((0u64, 0, 0, 0)));
    for _ in 0..extra {
        out.push(gen_version(rng, false));
    }
    let mut seen = std::collections::HashSet::new();
    out.retain(|v| seen.insert(enc_version(v)));
    out
}

// ---------------------------------------------------------------- version texts

const TAGS: &[&str] = &[
    "alpha", "beta.1", "0", "1", "rc.1", "a", "-", "0a", "a-b", "x", "7.8", "alpha.0", "0.0", "a.a", "rc.1.rc", "1.x.1", "-.-",
    // numeric identifiers at the digit-count and 64-bit boundaries, next to hyphen/digit-initial alphanumerics
    "9999999999999999999", "10000000000000000000", "18446744073709551615", "18446744073709551616", "99999999999999999999",
    "10000000000000000000.-", "--", "10a", "1-", "--1", "000000000000000000001", "alpha.beta.gamma.delta.1.2.3.4.5",
    "1048576", "16777216.4294967296", "9007199254740992", "9007199254740993", "18446744073709551614", "9223372036854775807",
    "9223372036854775808", "Z", "zZ9", "ABCXYZ", "20240101T000000Z", "Q.W.E.R.T.Y", "k-l-m",
];
const BUILDS: &[&str] = &["build", "1", "b.7", "-", "exp.sha.5114f85", "7.7", "b.b", "b.1.b", "20240101T000000Z", "XYZ.0.Z"];

/// a number text of random magnitude, sometimes zero-padded (also to more than 20 digits)
fn wide_num_text(rng: &mut Rng) -> String {
    let v = if rng.chance(1, 3) { boundary_value(rng, u64::MAX) } else { log_uniform(rng, u64::MAX) };
    let mut t = v.to_string();
    if rng.chance(1, 5) {
        let pad = *rng.pick(&[1usize, 2, 5, 12, 20, 25]);
        t = format!("{}{}", "0".repeat(pad), t);
    }
    t
}

fn gen_num_text(rng: &mut Rng) -> String {
    match rng.below(16) {
        12 | 13 | 14 | 15 => wide_num_text(rng),
        0 => MAX.to_string(),
        1 => (MAX + 1).to_string(),
        2 => "18446744073709551615".into(),
        3 => "18446744073709551616".into(),
        4 => format!("0{}", rng.below(20)),
        5 => "00".into(),
        6 => (rng.next() % 100000).to_string(),
        _ => rng.pick(&["0", "1", "2", "3", "9", "10", "11"]).to_string(),
    }
}

fn gen_version_text(rng: &mut Rng) -> String {
    let mut s = String::new();
    match rng.below(10) {
        0 => s.push('v'),
        1 => s.push('V'),
        2 => s.push_str("v "),
        3 => s.push(' '),
        4 => s.push('\t'),
        _ => {}
    }
    s.push_str(&format!("{}.{}.{}", gen_num_text(rng), gen_num_text(rng), gen_num_text(rng)));
    if rng.chance(1, 2) {
        if rng.chance(4, 5) {
            s.push('-');
        }
        s.push_str(*rng.pick(TAGS));
    }
    if rng.chance(1, 3) {
        s.push('+');
        s.push_str(*rng.pick(BUILDS));
    }
    match rng.below(8) {
        0 => s.push(' '),
        1 => s.push_str(" \t"),
        _ => {}
    }
    s
}

fn edits(rng: &mut Rng, s: &str, n: usize) -> Vec<String> {
    let alphabet: Vec<char> = "019.-+avVxX \té😀*<>=~^|\n\rZzA_²٣½３Ⅷ".chars().collect();
    let chars: Vec<char> = s.chars().collect();
    let mut out = Vec::new();
    for _ in 0..n {
        let mut c = chars.clone();
        match rng.below(4) {
            0 => {
                let i = rng.below(c.len() + 1);
                c.insert(i, *rng.pick(&alphabet));
            }
            1 if !c.is_empty() => {
                let i = rng.below(c.len());
                c.remove(i);
            }
            2 if !c.is_empty() => {
                let i = rng.below(c.len());
                c[i] = *rng.pick(&alphabet);
            }
            _ => c.push(*rng.pick(&alphabet)),
        }
        out.push(c.into_iter().collect());
    }
    out
}

fn exhaustive(alphabet: &str, max_len: usize, f: &mut dyn FnMut(&str)) {
    let chars: Vec<char> = alphabet.chars().collect();
    let mut idx: Vec<usize> = Vec::new();
    f("");
    for len in 1..=max_len {
        idx.clear();
        idx.resize(len, 0);
        loop {
            let s: String = idx.iter().map(|&i| chars[i]).collect();
            f(&s);
            let mut k = len;
            loop {
                if k == 0 {
                    break;
                }
                k -= 1;
                idx[k] += 1;
                if idx[k] < chars.len() {
                    break;
                }
                idx[k] = 0;
                if k == 0 {
                    k = usize::MAX;
                    break;
                }
            }
            if k == usize::MAX {
                break;
            }
        }
    }
}

// ---------------------------------------------------------------- range texts

fn gen_small(rng: &mut Rng) -> String {
    if rng.chance(1, 8) {
        return rng.echo().min(MAX).to_string();
    }
    let t = gen_small_fresh(rng);
    if let Ok(v) = t.parse::<u64>() {
        rng.note(v);
    }
    t
}

fn gen_small_fresh(rng: &mut Rng) -> String {
    match rng.below(48) {
        40 | 41 | 42 | 43 | 44 | 45 => {
            let v = if rng.chance(1, 3) { boundary_value(rng, MAX) } else { log_uniform(rng, MAX) };
            if rng.chance(1, 8) { format!("{}{}", "0".repeat(*rng.pick(&[1usize, 4, 12, 22])), v) } else { v.to_string() }
        }
        46 | 47 => wide_num_text(rng),
        0 | 1 | 2 => MAX.to_string(),
        3 | 4 | 5 => format!("0{}", rng.below(4)),
        6 => rng.pick(&["900719925474100", "18446744073709551615", "18446744073709551614", "18446744073709551616", "00018446744073709551615"]).to_string(),
        _ => rng.pick(&["0", "0", "1", "1", "2", "3", "10"]).to_string(),
    }
}

fn gen_xr(rng: &mut Rng) -> String {
    rng.pick(&["x", "X", "*"]).to_string()
}

/// a partial version in one of its shapes
pub fn gen_partial(rng: &mut Rng) -> String {
    let mut s = String::new();
    if rng.chance(1, 12) {
        s.push('v');
    }
    match rng.below(16) {
        0 => s.push_str(&gen_xr(rng)),
        1 | 2 => s.push_str(&gen_small(rng)),
        3 => s.push_str(&format!("{}.{}", gen_small(rng), gen_xr(rng))),
        4 | 5 => s.push_str(&format!("{}.{}", gen_small(rng), gen_small(rng))),
        6 => s.push_str(&format!("{}.{}.{}", gen_small(rng), gen_small(rng), gen_xr(rng))),
        7 => s.push_str(&format!("{}.{}.{}", gen_small(rng), gen_xr(rng), gen_small(rng))),
        8 => s.push_str(&format!("{}.{}.{}", gen_xr(rng), gen_small(rng), gen_small(rng))),
        9 => s.push_str(&format!("{}.{}.{}-{}", gen_small(rng), gen_small(rng), gen_xr(rng), rng.pick(TAGS))),
        _ => {
            s.push_str(&format!("{}.{}.{}", gen_small(rng), gen_small(rng), gen_small(rng)));
            if rng.chance(2, 5) {
                if rng.chance(5, 6) {
                    s.push('-');
                }
                s.push_str(*rng.pick(TAGS));
            }
            if rng.chance(1, 8) {
                s.push('+');
                s.push_str(*rng.pick(BUILDS));
            }
        }
    }
    s
}

const OPS: &[&str] = &["", "", "=", ">", ">=", "<", "<=", "~", "~>", "^"];

pub fn gen_comparator(rng: &mut Rng) -> String {
    let op = *rng.pick(OPS);
    let gap = if !op.is_empty() && rng.chance(1, 6) { rng.pick(&[" ", "  ", "\t"]).to_string() } else { String::new() };
    format!("{}{}{}", op, gap, gen_partial(rng))
}

const GARBAGE: &[&str] = &[
    "foo", "1.y", ">=1.y", "1.2.3.4", ">", "<=", "-", "~", "^", "1.2beta4", "é", "=", "v", "||x", "1.2.3-", ">>1", "<>1", "^^1",
    "~~1", "1.2.3+", ".1", "1.", "900719925474100", ">=99999999999999999999",
];

/// one alternative (a `range` of the grammar)
pub fn gen_alternative(rng: &mut Rng, garbage: bool) -> String {
    if rng.chance(1, 6) {
        let sep = rng.pick(&[" - ", "  -  ", " -\t", "\t- "]).to_string();
        return format!("{}{}{}", gen_partial(rng), sep, gen_partial(rng));
    }
    let n = *rng.pick(&[1usize, 1, 1, 1, 2, 2, 2, 3, 3, 4, 6]);
    let mut parts = Vec::new();
    for _ in 0..n {
        if garbage && rng.chance(1, 8) {
            parts.push(rng.pick(GARBAGE).to_string());
        }
        parts.push(gen_comparator(rng));
    }
    if garbage && rng.chance(1, 10) {
        parts.push(rng.pick(GARBAGE).to_string());
    }
    let mut s = String::new();
    for (i, p) in parts.iter().enumerate() {
        if i > 0 {
            s.push_str(*rng.pick(&[" ", " ", " ", "  ", "\t"]));
        }
        s.push_str(p);
    }
    s
}

/// comparators joined by blanks, without the hyphen form and with only "closed" garbage tokens
/// (tokens whose classification does not depend on what follows them)
pub fn gen_comparator_list(rng: &mut Rng) -> String {
    const CLOSED: &[&str] = &["foo", "1.y", ">=1.y", "1.2.3.4", "1.2beta4", ">>1", "1."];
    let n = *rng.pick(&[1usize, 1, 2, 2, 3, 5]);
    let mut parts = Vec::new();
    for _ in 0..n {
        if rng.chance(1, 10) {
            parts.push(rng.pick(CLOSED).to_string());
        }
        // no blank inside a comparator: `>= 1` would be one comparator but `a b` with a = `>=` is not closed
        let op = *rng.pick(OPS);
        parts.push(format!("{}{}", op, gen_partial(rng)));
    }
    parts.join(" ")
}

pub fn gen_range_text(rng: &mut Rng, garbage: bool) -> String {
    let n = *rng.pick(&[1usize, 1, 1, 1, 2, 2, 2, 3, 3, 5, 9]);
    let mut s = String::new();
    if rng.chance(1, 15) {
        s.push(' ');
    }
    for i in 0..n {
        if i > 0 {
            s.push_str(*rng.pick(&["||", " || ", " ||", "|| ", "  ||\t"]));
        }
        s.push_str(&gen_alternative(rng, garbage));
    }
    if rng.chance(1, 15) {
        s.push(' ');
    }
    s
}

fn no_hyphen(rng: &mut Rng, fam: &[String]) -> String {
    loop {
        let f = rng.pick(fam);
        if !f.contains(" - ") && !f.contains("||") {
            return f.clone();
        }
    }
}

/// a range text with `n` alternatives in one of four styles (bare `||` as `Display` prints it, spaced,
/// two-sided alternatives, mixed operators)
fn long_range_text(rng: &mut Rng, n: usize, style: usize) -> String {
    let sep = match style {
        0 => "||",
        1 => " || ",
        _ => *rng.pick(&["||", " || ", " ||"]),
    };
    (0..n)
        .map(|k| match style {
            0 | 1 => format!("1.0.{}", k),
            2 => format!(">={}.0.0 <{}.0.0-{}", k * 2, k * 2 + 1, rng.pick(TAGS)),
            _ => gen_alternative(rng, false),
        })
        .collect::<Vec<_>>()
        .join(sep)
}

/// `n` comparators that all hold around `5.x` (so the conjunction is not empty), 100-250 bytes
fn long_comparator_list(rng: &mut Rng, n: usize, lower: bool) -> String {
    (0..n)
        .map(|k| if lower == (k % 3 != 2) { format!(">=0.{}.{}", k, rng.below(30)) } else { format!("<{}.0.{}", 100 + k, rng.below(30)) })
        .collect::<Vec<_>>()
        .join(" ")
}

/// chain of versions in which neighbours are immediate successors or share a cut
fn chain_small() -> Vec<&'static str> {
    vec!["1.0.0-a", "1.0.0-a.0", "1.0.0-a.0.1", "1.0.0", "1.0.1-0", "1.0.1", "2.0.0"]
}

fn chain_big() -> Vec<&'static str> {
    vec![
        "0.0.0-0",
        "0.0.0",
        "1.0.0-0",
        "1.0.0-9007199254740992",
        "1.0.0-9007199254740993",
        // all-digit identifiers beyond u64 are alphanumeric: ASCII order, leading zeros count
        "1.0.0-0100000000000000000000",
        "1.0.0-100000000000000000000",
        "1.0.0-a",
        "1.0.0-a.0",
        "1.0.0-a.0.0",
        "1.0.0-a.0.1",
        "1.0.0-a.1",
        "1.0.0",
        "1.0.0+b",
        "1.0.1-0",
        "1.0.1",
        "1.2.3-alpha",
        "1.2.3",
        "1.2.4-0",
        "2.0.0-0",
        "2.0.0",
        "900719925474099.900719925474099.900719925474099",
    ]
}

/// all canonical single-interval texts over a chain (including empty ones, which fail to parse)
fn intervals(chain: &[&str]) -> Vec<String> {
    let mut lowers: Vec<String> = vec![String::new()];
    let mut uppers: Vec<String> = vec![String::new()];
    for v in chain {
        lowers.push(format!(">={}", v));
        lowers.push(format!(">{}", v));
        uppers.push(format!("<={}", v));
        uppers.push(format!("<{}", v));
    }
    let mut out = Vec::new();
    for l in &lowers {
        for u in &uppers {
            let t = match (l.is_empty(), u.is_empty()) {
                (true, true) => "*".to_string(),
                (true, false) => u.clone(),
                (false, true) => l.clone(),
                (false, false) => format!("{} {}", l, u),
            };
            out.push(t);
        }
    }
    for v in chain {
        out.push(v.to_string());
    }
    out
}

fn parsed(texts: Vec<String>) -> Vec<(String, Range)> {
    texts.into_iter().filter_map(|t| try_range(&t).ok().map(|r| (t, r))).collect()
}

fn gen_multi(rng: &mut Rng, base: &[(String, Range)]) -> (String, Range) {
    loop {
        let n = *rng.pick(&[1usize, 2, 2, 2, 3, 3, 5, 8]);
        let t = (0..n).map(|_| rng.pick(base).0.clone()).collect::<Vec<_>>().join("||");
        if let Ok(r) = try_range(&t) {
            return (t, r);
        }
    }
}

/// pairs of prerelease versions on one tuple whose first differing identifier is a word of n bytes against a proper
/// extension of it, or two words of n+1 bytes differing in the last byte — for every n around the sizes a chunked or
/// packed string comparison would use (4, 8, 16, 24 bytes)
pub fn word_boundary_pairs() -> Vec<(Version, Version)> {
    let alphabet = "snapshotunstablereleasecandidate";
    let mut out = Vec::new();
    for n in [1usize, 2, 3, 4, 5, 7, 8, 9, 15, 16, 17, 23, 24, 25] {
        let w = &alphabet[..n];
        let mk = |tags: Vec<Identifier>| Version { major: 1, minor: 0, patch: 0, pre_release: tags, build: vec![] };
        for (x, y) in [
            (vec![al(w)], vec![al(&format!("{}2", w))]),
            (vec![al(w)], vec![al(&format!("{}-1", w))]),
            (vec![al(&format!("{}a", w))], vec![al(&format!("{}b", w))]),
            (vec![al(w), num(1)], vec![al(&format!("{}0", w))]),
            (vec![al("rc"), al(w)], vec![al("rc"), al(&format!("{}x", w))]),
        ] {
            out.push((mk(x.clone()), mk(y.clone())));
            out.push((mk(y), mk(x)));
        }
    }
    out
}

// ---------------------------------------------------------------- streams

pub fn run_stream(name: &str, thorough: bool, rng: &mut Rng, o: &mut Out) {
    let scale = if thorough { 10 } else { 1 };
    match name {
        "const" => o.consts(),
        // the tuple conversions on the quick tier's lattice whatever the tier (C06 does not need C18's exhaustive run)
        "vfrom_lattice" => run_stream("vfrom", false, rng, o),
        "vcmp_pool" => {
            for (a, b) in word_boundary_pairs() {
                o.vcmp(&a, &b);
            }
            // curated pool: all ordered pairs
            let mut pool: Vec<Version> = Vec::new();
            let tuples = [(0u64, 0u64, 0u64), (1, 0, 0), (1, 2, 3), (1, 2, 4), (1, 3, 0), (2, 0, 0), (MAX, MAX, MAX), (u64::MAX, 0, u64::MAX)];
            let pres: Vec<Vec<Identifier>> = vec![
                vec![],
                vec![num(0)],
                vec![num(1)],
                vec![num(10)],
                vec![num(2)],
                vec![num(u64::MAX)],
                vec![al("a")],
                vec![al("A")],
                vec![al("alpha")],
                vec![al("alpha"), num(1)],
                vec![al("alpha"), al("beta")],
                vec![al("alpha"), num(0)],
                vec![al("beta")],
                vec![al("-")],
                vec![al("0a")],
                vec![al("a0")],
                vec![num(0), num(0)],
                vec![al("é")],
                vec![al("")],
                vec![al("Z")],
                vec![al("z")],
                vec![al("18446744073709551616")],
            ];
            for (i, t) in tuples.iter().enumerate() {
                for (j, p) in pres.iter().enumerate() {
                    if i >= 3 && j >= 8 {
                        continue;
                    }
                    pool.push(Version { major: t.0, minor: t.1, patch: t.2, pre_release: p.clone(), build: vec![] });
                }
            }
            pool.push(Version { build: vec![al("b")], ..Version::from((1u64, 2, 3)) });
            pool.push(Version { build: vec![num(1)], pre_release: vec![al("alpha")], ..Version::from((1u64, 2, 3)) });
            for a in &pool {
                for b in &pool {
                    o.vcmp(a, b);
                }
            }
        }
        "vcmp_rand" => {
            for _ in 0..20000 * scale {
                let a = gen_version(rng, true);
                let b = if rng.chance(1, 3) {
                    let n = neighbours(&a);
                    rng.pick(&n).clone()
                } else {
                    gen_version(rng, true)
                };
                o.vcmp(&a, &b);
            }
        }
        "vsort" => {
            // lists with precedence-equal elements that differ in build metadata (stability is observable)
            for _ in 0..6000 * scale {
                let n = rng.below(9);
                let mut vs: Vec<Version> = Vec::new();
                let seed = gen_version(rng, true);
                let near = neighbours(&seed);
                for _ in 0..n {
                    let mut v = match rng.below(4) {
                        0 => gen_version(rng, true),
                        1 => seed.clone(),
                        _ => rng.pick(&near).clone(),
                    };
                    if rng.chance(1, 3) {
                        v.build = vec![al(*rng.pick(&["b1", "b2", "zz"]))];
                    }
                    vs.push(v);
                }
                o.vsort(&vs);
            }
        }
        "vfmt" => {
            for _ in 0..5000 * scale {
                let a = gen_version(rng, true);
                o.vfmt(&a);
            }
        }
        "vparse_exh" => {
            let len = if thorough { 7 } else { 5 };
            exhaustive("019.-+av ", len, &mut |s| o.vparse(s));
        }
        "vparse_edit" => {
            for _ in 0..3000 * scale {
                let t = gen_version_text(rng);
                o.vparse(&t);
                for e in edits(rng, &t, 6) {
                    o.vparse(&e);
                }
            }
            for t in ["1.2.3.4", "1.2.3 foo", "1.2.3-", "1.2.3+", "1.2.3-a..b", "1.2.3-a+b+c", "1.2.3-ı", "1.2.3\n", "1.2.3-é", "1.2", "1", "", "v", "1.2.3-a+", "1.2.3+a-", "1.2.3+a+b", " v1.2.3", "vv1.2.3", "v V1.2.3"] {
                o.vparse(t);
            }
        }
        "vparse_long" => {
            // lengths around MAX_LENGTH, ASCII and multi-byte tails, numbers around the limits
            for total in 250..=262usize {
                for tail in ["", "é", "😀", "\n", " "] {
                    let head = "1.2.3-";
                    let fill = total.saturating_sub(head.len() + tail.len());
                    let t = format!("{}{}{}", head, "a".repeat(fill), tail);
                    o.vparse(&t);
                    let t2 = format!("{}{}{}", "1.2.3", "b".repeat(total.saturating_sub(5 + tail.len())), tail);
                    o.vparse(&t2);
                    let t3 = format!("{}{}.2.3{}", "0".repeat(total.saturating_sub(5 + tail.len())), 1, tail);
                    o.vparse(&t3);
                }
            }
            for n in [MAX - 1, MAX, MAX + 1, u64::MAX - 1, u64::MAX] {
                for pos in 0..3 {
                    let mut parts = vec!["1".to_string(), "2".to_string(), "3".to_string()];
                    parts[pos] = n.to_string();
                    o.vparse(&parts.join("."));
                    parts[pos] = format!("000{}", n);
                    o.vparse(&parts.join("."));
                }
            }
            for big in ["18446744073709551616", "99999999999999999999999999", "184467440737095516150"] {
                for pos in 0..3 {
                    let mut parts = vec!["1".to_string(), "2".to_string(), "3".to_string()];
                    parts[pos] = big.to_string();
                    o.vparse(&parts.join("."));
                    o.vparse(&format!(" \n{}", parts.join(".")));
                    o.vparse(&format!("v {}-é", parts.join(".")));
                }
                o.vparse(&format!("1.2.3-{}", big));
                o.vparse(&format!("1.2.3-{}.{}", big, big));
            }
            // multi-line inputs for location()
            for t in ["1.2\n.3", "\n1.2.3", "1.\n\n2.3", "é\n1.2.x", "1.2.3\n\n", "v\n", "\t\n 1.2", "1.2.3-a\n+b", "😀", "1.2.😀", "1.2.3-😀", "1.2.3 \n x",
                "1.2\r\n.3", "\r\n1.2.3", "1.2.3\r", "\r1.2.3", "1.2.3\u{2028}x", "1.2.3\u{85}", "1.2.3\u{b}4", "1.2.3\u{c}"] {
                o.vparse(t);
            }
            for _ in 0..500 * scale {
                let n = rng.below(600);
                let s: String = (0..n).map(|_| *rng.pick(&['1', '.', '-', 'a', 'é', ' ', '\n', '+', '0', '\r', '\n'])).collect();
                o.vparse(&s);
            }
            // over-long inputs whose error offset lies on a later line, with every kind of line break in front
            for brk in ["\n", "\r\n", "\r", "\n\r", "\r\n\r\n", "\u{2028}", "\u{85}", "\n\n"] {
                for lines in 1..4usize {
                    for tail in [250usize, 256, 257, 300] {
                        let t = format!("{}{}", format!("1.2.3{}", brk).repeat(lines), "a".repeat(tail));
                        o.vparse(&t);
                        o.vparse(&format!("{}é", t));
                    }
                }
            }
        }
        "vround" => {
            for _ in 0..6000 * scale {
                let t = gen_version_text(rng);
                o.vround(&t);
                o.serdev(&t);
            }
            for total in 240..=256usize {
                // hyphen-less tag at the length limit: the printed form is one byte longer
                let t = format!("1.2.3{}", "a".repeat(total - 5));
                o.vround(&t);
                let t = format!("1.2.3-{}", "a".repeat(total - 6));
                o.vround(&t);
                let t = format!("v1.2.3-{}", "a".repeat(total - 7));
                o.vround(&t);
            }
        }
        "vfround" => {
            // versions built from canonical identifiers (not through the parser), incl. repeated ones
            let reps: Vec<Vec<Identifier>> = vec![
                vec![num(0), num(0)], vec![al("a"), al("a")], vec![al("rc"), num(1), al("rc")], vec![num(7), num(7)],
                vec![al("x"), num(1), al("x")], vec![al("-"), al("-")], vec![num(1), al("x"), num(1)],
            ];
            for _ in 0..6000 * scale {
                let mut v = gen_version(rng, false);
                v.major %= MAX + 1;
                v.minor %= MAX + 1;
                v.patch %= MAX + 1;
                if rng.chance(1, 5) {
                    v.pre_release = rng.pick(&reps).clone();
                }
                if rng.chance(1, 8) {
                    v.build = rng.pick(&reps).clone();
                }
                o.vfround(&v);
            }
        }
        "rparse_limits" => {
            // every operator x partial shape with a component at / around the numeric limits
            let lim = ["900719925474099", "900719925474100", "18446744073709551614", "18446744073709551615", "18446744073709551616", "000900719925474099"];
            let ops = ["", "=", ">", ">=", "<", "<=", "~", "~>", "^", "> ", "^ "];
            for l in lim {
                let shapes = [
                    format!("{}", l), format!("{}.1", l), format!("1.{}", l), format!("{}.1.2", l), format!("1.{}.2", l), format!("1.2.{}", l),
                    format!("0.0.{}", l), format!("0.{}.1", l), format!("{}.x", l), format!("1.{}.x", l), format!("1.2.{}-rc", l), format!("{}.{}.{}", l, l, l),
                ];
                for sh in &shapes {
                    for op in ops {
                        o.rparse(&format!("{}{}", op, sh));
                        o.rparse(&format!("1.2.3 || {}{}", op, sh));
                    }
                    o.rparse(&format!("1 - {}", sh));
                    o.rparse(&format!("{} - 2", sh));
                    if let Ok(r) = try_range(sh) {
                        o.minv(sh, &r);
                        o.rround(sh);
                    }
                }
            }
        }
        "vdiff" => {
            for (a, b) in word_boundary_pairs() {
                o.vdiff(&a, &b);
            }
            let nums = [0u64, 1, 2];
            let pres: Vec<Vec<Identifier>> = vec![vec![], vec![num(0)], vec![al("alpha")], vec![al("alpha"), num(1)]];
            let mut grid = Vec::new();
            for a in nums {
                for b in nums {
                    for c in nums {
                        for p in &pres {
                            grid.push(Version { major: a, minor: b, patch: c, pre_release: p.clone(), build: vec![] });
                        }
                    }
                }
            }
            if thorough {
                for a in &grid {
                    for b in &grid {
                        o.vdiff(a, b);
                    }
                }
            } else {
                for _ in 0..6000 {
                    let a = rng.pick(&grid).clone();
                    let b = rng.pick(&grid).clone();
                    o.vdiff(&a, &b);
                }
            }
            for _ in 0..3000 * scale {
                let a = gen_version(rng, true);
                let n = neighbours(&a);
                let b = if rng.chance(1, 2) { rng.pick(&n).clone() } else { gen_version(rng, true) };
                o.vdiff(&a, &b);
                o.vdiff(&b, &a);
            }
        }
        "vfrom" => {
            // u8/i8 lattice (exhaustive in thorough), boundaries and random values for the wider types
            let step = if thorough { 1 } else { 17 };
            let mut a = 0u64;
            while a < 256 {
                let mut b = 0u64;
                while b < 256 {
                    let mut c = 0u64;
                    while c < 256 {
                        o.vfrom3(a, b, c);
                        c += step;
                    }
                    b += step;
                }
                a += step;
            }
            let edge = [0u64, 1, 127, 128, 255, 256, 32767, 32768, 65535, 65536, (1 << 31) - 1, 1 << 31, (1 << 32) - 1, 1 << 32, MAX - 1, MAX];
            for &a in &edge {
                for &b in &edge {
                    o.vfrom3(a, b, *rng.pick(&edge));
                    o.vfrom4(a, b, *rng.pick(&edge), *rng.pick(&edge));
                    o.vfrom4(*rng.pick(&edge), a, b, 0);
                }
            }
            for _ in 0..3000 * scale {
                let m = [255u64, 65535, u32::MAX as u64, MAX];
                let lim = *rng.pick(&m);
                o.vfrom3(rng.next() % (lim + 1), rng.next() % (lim + 1), rng.next() % (lim + 1));
                o.vfrom4(rng.next() % (lim + 1), rng.next() % (lim + 1), rng.next() % (lim + 1), rng.next() % (lim + 1));
            }
            // random magnitudes, power-of-two/ten boundaries, repeated and neighbouring values
            for _ in 0..3000 * scale {
                let (a, b, c, d) = (gen_component(rng, false), gen_component(rng, false), gen_component(rng, false), gen_component(rng, false));
                o.vfrom3(a, b, c);
                o.vfrom4(a, b, c, d);
            }
        }
        "rparse_exh" => {
            let len = if thorough { 6 } else { 4 };
            exhaustive("12x.- |<>=~^", len, &mut |s| o.rparse(s));
        }
        "rparse_single" => {
            // every operator x every partial shape over {x,0,1,2} with and without tag
            let comps = ["x", "0", "1", "2"];
            let ops = ["", "=", ">", ">=", "<", "<=", "~", "~>", "^", "> ", "~ ", "^ ", "v", "=v", ">= v"];
            let mut partials: Vec<String> = Vec::new();
            for a in comps {
                partials.push(a.to_string());
                for b in comps {
                    partials.push(format!("{}.{}", a, b));
                    for c in comps {
                        partials.push(format!("{}.{}.{}", a, b, c));
                        partials.push(format!("{}.{}.{}-0", a, b, c));
                        partials.push(format!("{}.{}.{}-alpha.1", a, b, c));
                        partials.push(format!("{}.{}.{}beta", a, b, c));
                        partials.push(format!("{}.{}.{}+b", a, b, c));
                    }
                }
            }
            for op in ops {
                for p in &partials {
                    o.rparse(&format!("{}{}", op, p));
                }
            }
            for p in &partials {
                for q in ["x", "1", "1.2", "2.0.0", "2.0.0-rc", "1.x.x"] {
                    o.rparse(&format!("{} - {}", p, q));
                    o.rparse(&format!("{} - {}", q, p));
                }
            }
        }
        "rparse_gram" => {
            for _ in 0..30000 * scale {
                let t = gen_range_text(rng, true);
                o.rparse(&t);
            }
            for t in [" - 10", "- 10", "1 ||  - 10", "  1.2.3  ", " ", "", "1 - x", " - x", ">x", "<=x", "=x", "^x", "~x", "~>x", ">1.x.3", ">=1.2.x-alpha", ">=1.2.3 <1.0.0", "1.2.3\n", "\t1.2.3", "*", "||", "1 ||", "|| 1", "1 || || 2", "<1", "<1 >=1.0.0-0", "1.2.3 foo 4.5.6", "1.2.3.4", "foo", "1.2beta4", "01.02.03", "1.2.3alpha", "v 1.2.3", "=1.2.3"] {
                o.rparse(t);
            }
        }
        "rparse_pairs" => {
            // pairs of comparators joined by a blank and by `||`
            let n = 15000 * scale;
            for _ in 0..n {
                let a = gen_comparator(rng);
                let b = gen_comparator(rng);
                o.rparse(&format!("{} {}", a, b));
                o.rparse(&format!("{}||{}", a, b));
                o.rparse(&a);
            }
        }
        "rparse_edit" => {
            for _ in 0..4000 * scale {
                let t = gen_range_text(rng, false);
                for e in edits(rng, &t, 4) {
                    o.rparse(&e);
                }
            }
        }
        "rround" => {
            for _ in 0..15000 * scale {
                let t = gen_range_text(rng, true);
                o.rround(&t);
                if rng.chance(1, 4) {
                    o.serder(&t);
                }
            }
            for t in intervals(&chain_big()) {
                o.rround(&t);
            }
            // unions of intervals around the cuts of the chain (lowest versions, empty-looking alternatives such as
            // `<0.0.0`, neighbours): what a printer that prunes or merges alternatives gets wrong
            let base = parsed(intervals(&chain_big()));
            for _ in 0..3000 * scale {
                let (t, _) = gen_multi(rng, &base);
                o.rround(&t);
            }
        }
        "c02" => {
            // pairs of comparator lists (no hyphen form) for the AND law, arbitrary texts for the OR law
            for i in 0..5000 * scale {
                let (a, b) = if i % 3 == 0 {
                    (gen_range_text(rng, true), gen_range_text(rng, true))
                } else {
                    (gen_comparator_list(rng), gen_comparator_list(rng))
                };
                let joined = format!("{} || {}", a, b);
                let printed = try_range(&joined).map(|r| r.to_string()).unwrap_or_default();
                let grid = version_grid(rng, &printed, 2);
                for _ in 0..6 {
                    let v = rng.pick(&grid).clone();
                    o.c02(&a, &b, &v);
                }
            }
            for (a, b) in [(">=1.2.3", "<1.0.0"), (" - 1", "2"), ("1", " - 2"), ("foo", "1.2.3"), ("foo", "bar"), (">=1.0.0-0", "<1"), ("^0", ">=0.0.0-0"), ("1.2.3 foo", "4.5.6")] {
                for v in ["0.5.0", "1.0.0", "1.2.3", "1.0.0-alpha", "0.0.0-0", "2.0.0", "4.5.6"] {
                    o.c02(a, b, &try_version(v).unwrap());
                }
            }
        }
        "sat_gram" => {
            for _ in 0..4000 * scale {
                let t = gen_range_text(rng, true);
                if let Ok(r) = try_range(&t) {
                    let printed = r.to_string();
                    for v in version_grid(rng, &printed, 3) {
                        o.sat(&t, &r, &v);
                    }
                }
            }
        }
        "sat_table" => {
            let base = parsed(intervals(&chain_big()));
            let pts: Vec<Version> = {
                let mut p = Vec::new();
                for c in chain_big() {
                    p.extend(neighbours(&try_version(c).unwrap()));
                }
                let mut seen = std::collections::HashSet::new();
                p.retain(|v| seen.insert(enc_version(v)));
                p
            };
            for (t, r) in &base {
                for _ in 0..(if thorough { 40 } else { 6 }) {
                    o.sat(t, r, rng.pick(&pts));
                }
            }
        }
        "setops_table" => {
            // exhaustive: every ordered pair of single-interval ranges over the small chain
            let base = parsed(intervals(&chain_small()));
            for (ta, a) in &base {
                for (tb, b) in &base {
                    o.setops(ta, a, tb, b);
                }
            }
        }
        "any_ops" => {
            // `Range::any()` (the one public constructor besides parse) against every single interval
            // of the small chain and random unions, in both operand positions
            let any = try_range(crate::ANY).unwrap();
            let probes: Vec<Version> = ["0.0.0", "0.0.0-0", "0.0.0-alpha", "1.2.3", "1.2.3-0", "1.2.3-rc.1+b", "900719925474099.0.0-x"]
                .iter()
                .map(|t| try_version(t).unwrap())
                .collect();
            for v in &probes {
                o.sat(crate::ANY, &any, v);
            }
            o.minv(crate::ANY, &any);
            o.maxmin(crate::ANY, &any, &probes);
            let base = parsed(intervals(&chain_small()));
            for (t, r) in &base {
                o.setops(crate::ANY, &any, t, r);
                o.setops(t, r, crate::ANY, &any);
            }
            let big = parsed(intervals(&chain_big()));
            for _ in 0..300 * scale {
                let (t, r) = gen_multi(rng, &big);
                o.setops(crate::ANY, &any, &t, &r);
                o.setops(&t, &r, crate::ANY, &any);
            }
        }
        "long_texts" => {
            // range texts well beyond MAX_LENGTH bytes and with many alternatives / comparators: parse,
            // round trip, serde; AND/OR laws on long sides; satisfaction on the neighbourhood
            for i in 0..60 * scale {
                let n = *rng.pick(&[9usize, 12, 17, 36, 40, 64, 150]);
                let t = long_range_text(rng, n, i % 4);
                o.rparse(&t);
                o.rround(&t);
                if i % 5 == 0 {
                    o.serder(&t);
                }
                if let Ok(r) = try_range(&t) {
                    let printed = r.to_string();
                    o.rround(&printed);
                    o.minv(&t, &r);
                    let grid = version_grid(rng, &printed, 2);
                    for _ in 0..12 {
                        o.sat(&t, &r, rng.pick(&grid));
                    }
                    let vs: Vec<Version> = (0..7).map(|_| rng.pick(&grid).clone()).collect();
                    o.maxmin(&t, &r, &vs);
                }
            }
            // a comparator whose version text is right at MAX_LENGTH, with and without the hyphen
            for total in [250usize, 254, 255, 256, 257, 258, 300] {
                for (pre, post) in [("", ""), (">=", " <2.0.0"), ("<=", ".1 || 2.x"), ("^", ""), ("~", " || 3"), ("1.0.0 - ", "")] {
                    for hy in ["", "-"] {
                        let v = format!("1.2.3{}{}", hy, "a".repeat(total.saturating_sub(5 + hy.len())));
                        let t = format!("{}{}{}", pre, v, post);
                        o.rparse(&t);
                        o.rround(&t);
                        o.serder(&t);
                        if let Ok(r) = try_range(&t) {
                            o.minv(&t, &r);
                            for p in ["1.2.3", "1.2.4", "0.0.0", "2.5.0"] {
                                o.sat(&t, &r, &try_version(p).unwrap());
                            }
                            if let Ok(v2) = try_range(">=1.0.0 <3.0.0") {
                                o.setops(&t, &r, ">=1.0.0 <3.0.0", &v2);
                            }
                        }
                    }
                }
            }
            for i in 0..40 * scale {
                // two comparator lists of 100-250 bytes each: the joined text exceeds 256 bytes
                let (na, nb) = (*rng.pick(&[8usize, 14, 22]), *rng.pick(&[8usize, 14, 22]));
                let a = long_comparator_list(rng, na, i % 2 == 0);
                let b = long_comparator_list(rng, nb, i % 2 == 1);
                let joined = format!("{} || {}", a, b);
                let printed = try_range(&joined).map(|r| r.to_string()).unwrap_or_default();
                let grid = version_grid(rng, &printed, 2);
                for _ in 0..8 {
                    o.c02(&a, &b, rng.pick(&grid));
                }
            }
        }
        "related" => {
            // carry neighbours: a component that is exactly a power of ten or two (the radix of a packed or
            // positional key) against the version in which the next component has moved on — `1.2.R` and `1.3.0`
            let mut radixes: Vec<u64> = (1..=15).map(|k| 10u64.pow(k)).collect();
            radixes.extend((1..=49).map(|k| 1u64 << k));
            for r in radixes {
                if r > MAX - 2 {
                    continue;
                }
                let m = 1 + rng.below(3);
                for (lo, hi) in [
                    (format!("{}.2.{}", m, r), format!("{}.3.0", m)),
                    (format!("{}.{}.0", m, r), format!("{}.0.0", m + 1)),
                    (format!("{}.2.{}", m, r - 1), format!("{}.3.0", m)),
                ] {
                    let pairs = [
                        (format!(">={}", lo), format!("<{}", hi)),
                        (format!(">{}", lo), format!("<={}-0", hi)),
                        (format!("<={}", lo), format!(">={}", hi)),
                        (format!(">={} <{}", lo, hi), format!("{}", lo)),
                    ];
                    for (tx, ty) in pairs {
                        if let (Ok(rx), Ok(ry)) = (try_range(&tx), try_range(&ty)) {
                            o.setops(&tx, &rx, &ty, &ry);
                            o.setops(&ty, &ry, &tx, &rx);
                        }
                    }
                }
            }
            // semantic coincidences: comparators written differently whose bounds meet after desugaring
            // (`~1.2` / `<1.3.0-0` / `1.2.x` / `>=1.2.0` / `1.2.3 - 1.3` …), paired with each other
            for _ in 0..700 * (if thorough { 5 } else { 1 }) {
                let (a, b, c) = (gen_component(rng, false).min(MAX - 2), gen_component(rng, false).min(MAX - 2), gen_component(rng, false).min(MAX - 2));
                let tags = ["", "", "-0", "-alpha", "-alpha.0", "-rc.1", "-1"];
                let tag = *rng.pick(&tags);
                let tag2 = *rng.pick(&tags);
                let fam: Vec<String> = vec![
                    format!("~{}.{}", a, b), format!("^{}.{}.{}", a, b, c), format!("{}.{}.x", a, b), format!("{}.x", a),
                    format!("<{}.{}.0-0", a, b + 1), format!("<{}.0.0-0", a + 1), format!(">={}.{}.0", a, b), format!(">={}.{}.{}{}", a, b, c, tag),
                    format!("<={}.{}", a, b), format!(">{}.{}", a, b), format!("<{}.{}.{}{}", a, b, c + 1, tag2), format!("={}.{}.{}{}", a, b, c, tag),
                    format!("{}.{}.{} - {}.{}", a, b, c, a, b + 1), format!("{}.{} - {}", a, b, a), format!(">{}.{}.{}{}", a, b, c, tag),
                    format!("<={}.{}.{}{}", a, b, c, tag2), format!("~{}.{}.{}{}", a, b, c, tag), format!("^{}.{}", a, b), format!("<{}.{}.{}", a, b, c),
                    format!(">={}.{}.{}-0", a, b, c), format!("<{}", a + 1), format!(">={}", a), format!("{}.{}.{}{} || {}.{}.{}", a, b, c, tag, a, b, c + 1),
                    "*".to_string(), "x".to_string(), format!(">{}.{}.{}", a, b, c), format!("<={}.{}.{}{}", a, b, c + 1, tag2),
                    format!("<{}.{}.{}{}", a, b, c, tag2), format!(">={}.{}.{}{}", a, b, c, tag2), format!("^{}.{}.x", a, b), format!("~{}", a),
                ];
                // the same lower (or upper) bound in two alternatives with different other sides, both orders
                let lowers = [format!(">{}.{}.{}", a, b, c), format!(">={}.{}.{}{}", a, b, c, tag), format!(">{}.{}.{}{}", a, b, c, tag), format!(">={}.{}", a, b)];
                let uppers = [format!("<{}.{}.{}{}", a, b, c + 1, tag2), format!("<={}.{}.{}{}", a, b, c + 1, tag2), format!("<{}.{}.0", a, b + 1), format!("<{}.0.0-0", a + 1), format!("<={}.{}.{}", a, b, c + 1)];
                for _ in 0..2 {
                    let (l1, l2) = (rng.pick(&lowers).clone(), rng.pick(&lowers).clone());
                    let (u1, u2) = (rng.pick(&uppers).clone(), rng.pick(&uppers).clone());
                    for t in [
                        format!("{} {} || {}", l1, u1, l1), format!("{} || {} {}", l1, l1, u1), format!("{} {} || {} {}", l1, u1, l1, u2),
                        format!("{} {} || {} {}", l1, u1, l2, u1), format!("{} || {} {}", u1, l1, u1), format!("{} {} || {}", l1, u1, l2),
                    ] {
                        if let Ok(r) = try_range(&t) {
                            o.minv(&t, &r);
                            let grid = version_grid(rng, &r.to_string(), 0);
                            let vs: Vec<Version> = (0..7).map(|_| rng.pick(&grid).clone()).collect();
                            o.maxmin(&t, &r, &vs);
                            o.sat(&t, &r, rng.pick(&grid));
                        }
                    }
                }
                for _ in 0..6 {
                    let x = rng.pick(&fam).clone();
                    let y = rng.pick(&fam).clone();
                    let (tx, ty) = match rng.below(7) {
                        0 => (format!("{} || {}", x, rng.pick(&fam)), y.clone()),
                        1 => (x.clone(), format!("{} || {}", rng.pick(&fam), y)),
                        2 if !x.contains(" - ") && !x.contains("||") => (format!("{} {} || {}", x, no_hyphen(rng, &fam), rng.pick(&fam)), y.clone()),
                        3 if !y.contains(" - ") && !y.contains("||") => (x.clone(), format!("{} || {} {}", rng.pick(&fam), y, no_hyphen(rng, &fam))),
                        4 if !x.contains(" - ") && !x.contains("||") => (format!("{} {}", x, no_hyphen(rng, &fam)), y.clone()),
                        _ => (x.clone(), y.clone()),
                    };
                    if let (Ok(rx), Ok(ry)) = (try_range(&tx), try_range(&ty)) {
                        o.setops(&tx, &rx, &ty, &ry);
                        o.minv(&tx, &rx);
                        let printed = format!("{} {}", rx, ry);
                        let grid = version_grid(rng, &printed, 0);
                        for _ in 0..4 {
                            let v = rng.pick(&grid).clone();
                            o.sat(&tx, &rx, &v);
                            if !x.contains(" - ") && !y.contains(" - ") && !x.contains("||") && !y.contains("||") {
                                o.c02(&x, &y, &v);
                            }
                        }
                        let vs: Vec<Version> = (0..6).map(|_| rng.pick(&grid).clone()).collect();
                        o.maxmin(&tx, &rx, &vs);
                    }
                }
            }
        }
        "setops_huge" => {
            // operands with 33-80 alternatives each (more than 1024 pairs): chains of intervals that touch
            // at inclusive/exclusive endpoints, nest, or leave gaps, the second operand shifted against the first
            for i in 0..24 * scale {
                let n = 33 + rng.below(48);
                let m = 33 + rng.below(48);
                let chain = |rng: &mut Rng, n: usize, off: u64, stride: u64| -> String {
                    (0..n as u64)
                        .map(|k| {
                            let lo = off + k * stride;
                            let hi = lo + 1 + rng.below(stride as usize + 1) as u64;
                            let (l, u) = (*rng.pick(&[">=", ">"]), *rng.pick(&["<=", "<"]));
                            format!("{}{}.0.0 {}{}.0.0", l, lo, u, hi)
                        })
                        .collect::<Vec<_>>()
                        .join("||")
                };
                let stride = 2 + rng.below(3) as u64;
                let ta = chain(rng, n, 0, stride);
                // far above, touching the top of A at one endpoint, interleaved, or identical
                let off = match i % 4 {
                    0 => n as u64 * stride - stride + 1 + rng.below(2) as u64,
                    1 => 1,
                    2 => n as u64 * stride + 50,
                    _ => 0,
                };
                let tb = chain(rng, m, off, stride);
                if let (Ok(a), Ok(b)) = (try_range(&ta), try_range(&tb)) {
                    o.setops(&ta, &a, &tb, &b);
                    o.setops(&tb, &b, &ta, &a);
                    // a single interval against the long union: below it, inside one alternative, in a
                    // gap, spanning two alternatives, above it
                    let top = n as u64 * stride;
                    let k = rng.below(n) as u64 * stride;
                    for t1 in [
                        "0.0.0-0".to_string(),
                        format!("{}.0.0", k),
                        format!(">={}.2.0 <{}.3.0", k, k),
                        format!(">{}.9.0 <{}.0.0-0", k + 1, k + stride),
                        format!(">={}.0.0 <={}.0.0", k, k + stride),
                        format!(">={}.0.0", top + 60),
                        format!("<{}.0.0", k + 1),
                    ] {
                        if let Ok(b1) = try_range(&t1) {
                            o.setops(&ta, &a, &t1, &b1);
                            o.setops(&t1, &b1, &ta, &a);
                        }
                    }
                }
            }
        }
        "setops_giant" => {
            // one operand with thousands of alternatives against small operands, with the *answers* judged
            // (model + oracle on a sample of the bounds), not only the absence of a crash
            for i in 0..(if thorough { 4 } else { 1 }) {
                let n = if thorough { *rng.pick(&[3000usize, 5000, 8000]) } else { 1100 + rng.below(300) };
                let stride = 2 + (i % 2) as u64;
                let ta = (0..n as u64)
                    .map(|k| {
                        let lo = k * stride;
                        match k % 5 {
                            0 => format!("{}.0.0", lo),
                            1 => format!(">={}.0.0 <{}.0.0", lo, lo + 1),
                            2 => format!(">{}.0.0-rc <={}.5.0", lo, lo),
                            3 => format!("~{}.3", lo),
                            _ => format!(">={}.0.0 <={}.0.0", lo, lo + stride),
                        }
                    })
                    .collect::<Vec<_>>();
                let mut alts = ta;
                // sometimes a wide alternative that covers many of the others, and not always ascending
                if i == 0 || rng.chance(1, 2) {
                    alts.push(format!(">={}.0.0 <{}.0.0", stride * 3, (n as u64 * stride) / 2));
                }
                match rng.below(3) {
                    0 => alts.reverse(),
                    1 => {
                        for j in (1..alts.len()).rev() {
                            let k = rng.below(j + 1);
                            alts.swap(j, k);
                        }
                    }
                    _ => {}
                }
                let ta = alts.join("||");
                let Ok(a) = try_range(&ta) else { continue };
                let top = n as u64 * stride;
                let k = (rng.below(n) as u64) * stride;
                for tb in [
                    "*".to_string(),
                    format!(">={}.0.0", top + 5),
                    format!("<{}.0.0", k),
                    format!(">={}.0.0 <{}.0.0", k, k + 3 * stride),
                    format!(">={}.7.0 <{}.8.0", stride * 5, stride * 5),
                    format!("{}.0.0 || {}.0.0-rc.1 || >{}.2.0 <{}.4.0", k, k + stride, k, k),
                    format!("<=0.0.0 || >={}.0.0", top - stride),
                ] {
                    if let Ok(b) = try_range(&tb) {
                        o.setops(&ta, &a, &tb, &b);
                        o.setops(&tb, &b, &ta, &a);
                    }
                }
                // both operands large (quick: about 10^5 pairs of alternatives, thorough: about 10^6), one of
                // them with a wide alternative that covers many narrow ones of the other
                let m = if thorough { 1000 } else { 300 };
                // (the narrow alternatives of the two operands never coincide: minor 1 against minor 0)
                let tc = std::iter::once(format!(">={}.0.0 <{}.0.0", stride, top / 2))
                    .chain((1..m as u64).map(|j| format!("{}.1.{}", top / 4 + (j % 7), j)))
                    .collect::<Vec<_>>()
                    .join("||");
                // … and every narrow alternative of the first lies below every alternative of the second, so that
                // only the wide one overlaps them
                let td = (1..=m as u64).map(|j| format!("{}.0.{}", top / 4 + 10 + (j % 5), j)).collect::<Vec<_>>().join("||");
                if let (Ok(c), Ok(d)) = (try_range(&tc), try_range(&td)) {
                    o.setops(&tc, &c, &td, &d);
                    o.setops(&td, &d, &tc, &c);
                }
                o.minv(&ta, &a);
                let vs: Vec<Version> = [k, k + 1, top, 0, top + 9].iter().map(|m| Version::from((*m, 2u64, 0u64))).collect();
                o.maxmin(&ta, &a, &vs);
                for v in &vs {
                    o.sat(&ta, &a, v);
                }
            }
        }
        "setops_many" => {
            // one operand with many (up to 16) alternatives, all touching one alternative of the other
            let big = parsed(intervals(&chain_big()));
            for i in 0..400 * scale {
                let n = 2 + rng.below(15);
                let start = rng.below(4) as u64;
                let many = (0..n)
                    .map(|k| {
                        let m = start + k as u64;
                        match rng.below(4) {
                            0 => format!("{}.1.0", m),
                            1 => format!(">={}.2.0 <{}.5.0", m, m),
                            2 => format!(">{}.0.0-rc <={}.0.7", m, m),
                            _ => format!("~{}.3", m),
                        }
                    })
                    .collect::<Vec<_>>();
                let mut order = many.clone();
                if i % 2 == 1 {
                    order.reverse();
                }
                let tb = order.join(" || ");
                let ta = match rng.below(4) {
                    0 => format!(">={}.0.0 <{}.0.0", start, start + n as u64 + 2),
                    1 => "*".to_string(),
                    2 => format!(">{}.1.0", start),
                    _ => rng.pick(&big).0.clone(),
                };
                if let (Ok(a), Ok(b)) = (try_range(&ta), try_range(&tb)) {
                    o.setops(&ta, &a, &tb, &b);
                    o.setops(&tb, &b, &ta, &a);
                }
            }
        }
        "vcmp_text" => {
            // precedence of versions as the *parser* returns them: texts with numeric identifiers at
            // the digit-count and 64-bit boundaries next to hyphen/digit-initial alphanumerics
            for _ in 0..6000 * scale {
                let core = format!("{}.{}.{}", gen_num_text(rng), gen_num_text(rng), gen_num_text(rng));
                let a = format!("{}-{}", core, rng.pick(TAGS));
                let b = if rng.chance(2, 3) { format!("{}-{}", core, rng.pick(TAGS)) } else { gen_version_text(rng) };
                o.vcmpt(&a, &b);
            }
        }
        "setops_big" => {
            let base = parsed(intervals(&chain_big()));
            let n = if thorough { 200000 } else { 12000 };
            for _ in 0..n {
                let (ta, a) = rng.pick(&base);
                let (tb, b) = rng.pick(&base);
                o.setops(ta, a, tb, b);
            }
        }
        "setops_multi" => {
            let base = parsed(intervals(&chain_big()));
            for _ in 0..8000 * scale {
                let (ta, a) = gen_multi(rng, &base);
                let (tb, b) = gen_multi(rng, &base);
                o.setops(&ta, &a, &tb, &b);
            }
        }
        "setops_gram" => {
            for _ in 0..5000 * scale {
                let ta = gen_range_text(rng, false);
                let tb = gen_range_text(rng, false);
                if let (Ok(a), Ok(b)) = (try_range(&ta), try_range(&tb)) {
                    o.setops(&ta, &a, &tb, &b);
                }
            }
        }
        "minv" => {
            let base = parsed(intervals(&chain_big()));
            for (t, r) in &base {
                o.minv(t, r);
            }
            for _ in 0..6000 * scale {
                let (t, r) = gen_multi(rng, &base);
                o.minv(&t, &r);
            }
            for _ in 0..6000 * scale {
                let t = gen_range_text(rng, false);
                if let Ok(r) = try_range(&t) {
                    o.minv(&t, &r);
                }
            }
            for t in [">1.0.0 <1.0.1", "<0.0.0-0 || >=2.0.0", ">1.0.0 || >=1.0.1-0", "<0.0.0", "<0.0.1-0", "<=0.0.0-0", ">1.0.0-a <1.0.0-a.0", ">1.0.0 <1.0.1-0", ">1.0.0 <=1.0.1-0", "*", "<1"] {
                if let Ok(r) = try_range(t) {
                    o.minv(t, &r);
                }
            }
        }
        "maxmin" => {
            let base = parsed(intervals(&chain_big()));
            for _ in 0..6000 * scale {
                let (t, r) = if rng.chance(1, 2) {
                    gen_multi(rng, &base)
                } else {
                    let t = gen_range_text(rng, false);
                    match try_range(&t) {
                        Ok(r) => (t, r),
                        Err(_) => continue,
                    }
                };
                let printed = r.to_string();
                let grid = version_grid(rng, &printed, 4);
                let n = if rng.chance(1, 8) { *rng.pick(&[16usize, 17, 25, 40, 64]) } else { rng.below(9) };
                let mut vs: Vec<Version> = (0..n).map(|_| rng.pick(&grid).clone()).collect();
                if !vs.is_empty() && rng.chance(1, 3) {
                    // duplicates up to build metadata
                    let mut d = vs[0].clone();
                    d.build = vec![al("dup")];
                    vs.push(d);
                }
                if !vs.is_empty() && rng.chance(1, 6) {
                    // components beyond what the parser produces, built through the public fields: neighbours above
                    // 2^53 (equal as f64), around 2^63 and 2^64, in both orders
                    let big: [u64; 6] = [9007199254740992, 9007199254740993, 9223372036854775807, 9223372036854775808, u64::MAX - 1, u64::MAX];
                    let i = rng.below(5);
                    let field = rng.below(3);
                    let mut a = vs[0].clone();
                    let mut b = vs[0].clone();
                    a.pre_release = vec![];
                    b.pre_release = vec![];
                    match field {
                        0 => { a.major = big[i]; b.major = big[i + 1]; }
                        1 => { a.minor = big[i]; b.minor = big[i + 1]; }
                        _ => { a.patch = big[i]; b.patch = big[i + 1]; }
                    }
                    if rng.chance(1, 2) { vs.push(a); vs.push(b); } else { vs.push(b); vs.push(a); }
                    let star = "*".to_string();
                    if let Ok(rs) = try_range(&star) {
                        o.maxmin(&star, &rs, &vs);
                    }
                }
                o.maxmin(&t, &r, &vs);
            }
        }
        "expr" => {
            let base = parsed(intervals(&chain_big()));
            let depth = if thorough { 6 } else { 4 };
            for _ in 0..6000 * scale {
                let d = rng.below(depth) + 1;
                let e = gen_expr(rng, &base, d);
                o.expr(&e);
            }
        }
        "malformed" => {
            for _ in 0..2000 * scale {
                let n = rng.below(64);
                let bytes: Vec<u8> = (0..n).map(|_| (rng.next() & 0xff) as u8).collect();
                let s = String::from_utf8_lossy(&bytes).to_string();
                o.vparse(&s);
                o.rparse(&s);
            }
            for c in ['1', '.', ' ', '|', '-', 'x', '>', '~', '^', 'a', 'é', '\n', '\t', '0'] {
                for n in [1usize, 2, 255, 256, 257, 1000, 10000] {
                    let s: String = std::iter::repeat(c).take(n).collect();
                    o.vparse(&s);
                    o.rparse(&s);
                }
            }
            for n in [10usize, 100, 1000] {
                o.rparse(&"1.2.3 ".repeat(n));
                o.rparse(&">=1 ||".repeat(n));
                o.rparse(&"1 - 2 ".repeat(n));
                o.rparse(&"^".repeat(n));
            }
        }
        other => {
            eprintln!("unknown stream {}", other);
            std::process::exit(2);
        }
    }
}

fn gen_expr(rng: &mut Rng, base: &[(String, Range)], depth: usize) -> Expr {
    if depth == 0 || rng.chance(1, 4) {
        let (t, _) = if rng.chance(1, 3) { gen_multi(rng, base) } else { rng.pick(base).clone() };
        return Expr::Leaf(t);
    }
    let a = Box::new(gen_expr(rng, base, depth - 1));
    let b = Box::new(gen_expr(rng, base, depth - 1));
    if rng.chance(1, 2) {
        Expr::Isect(a, b)
    } else {
        Expr::Diff(a, b)
    }
}

// ---------------------------------------------------------------- replay of stored request lines

fn unhex(s: &str) -> Option<String> {
    if s == "_" {
        return Some(String::new());
    }
    if s.len() % 2 != 0 {
        return None;
    }
    let mut bytes = Vec::new();
    for i in (0..s.len()).step_by(2) {
        bytes.push(u8::from_str_radix(&s[i..i + 2], 16).ok()?);
    }
    String::from_utf8(bytes).ok()
}

fn dec_idents(s: &str) -> Option<Vec<Identifier>> {
    if s.is_empty() {
        return Some(vec![]);
    }
    s.split(';')
        .map(|f| {
            if let Some(n) = f.strip_prefix('n') {
                n.parse().ok().map(Identifier::Numeric)
            } else if let Some(a) = f.strip_prefix('a') {
                unhex(a).map(Identifier::AlphaNumeric)
            } else {
                None
            }
        })
        .collect()
}

fn dec_version(s: &str) -> Option<Version> {
    let f: Vec<&str> = s.split(',').collect();
    if f.len() != 5 {
        return None;
    }
    Some(Version {
        major: f[0].parse().ok()?,
        minor: f[1].parse().ok()?,
        patch: f[2].parse().ok()?,
        pre_release: dec_idents(f[3])?,
        build: dec_idents(f[4])?,
    })
}

fn dec_expr(toks: &mut std::slice::Iter<&str>) -> Option<Expr> {
    let t = toks.next()?;
    match *t {
        "I" => Some(Expr::Isect(Box::new(dec_expr(toks)?), Box::new(dec_expr(toks)?))),
        "D" => Some(Expr::Diff(Box::new(dec_expr(toks)?), Box::new(dec_expr(toks)?))),
        l => Some(Expr::Leaf(unhex(l.strip_prefix('L')?)?)),
    }
}

/// `op<TAB>args…[<TAB>old answer]`: evaluate the request again on the current crate.
/// `nargs` per op tells where the arguments end.
/// one fuzzer-found input through every operation it can feed
pub fn corpus_case(kind: &str, s: &str, o: &mut Out) {
    if kind == "version" {
        let mut parts = s.splitn(2, '\n');
        let ta = parts.next().unwrap_or("");
        let tb = parts.next().unwrap_or("1.2.3");
        o.vparse(ta);
        o.vparse(tb);
        o.vround(ta);
        o.vcmpt(ta, tb);
        if let (Ok(a), Ok(b)) = (try_version(ta), try_version(tb)) {
            o.vcmp(&a, &b);
            o.vdiff(&a, &b);
            o.vdiff(&b, &a);
            o.vfmt(&a);
            o.vsort(&[a.clone(), b.clone(), a]);
        }
        return;
    }
    let mut parts = s.splitn(3, '\n');
    let ta = parts.next().unwrap_or("");
    let tb = parts.next().unwrap_or("*");
    let tv = parts.next().unwrap_or("1.2.3");
    o.rparse(ta);
    o.rround(ta);
    o.vparse(tv);
    let v = try_version(tv).ok();
    if let Ok(a) = try_range(ta) {
        o.minv(ta, &a);
        let printed = a.to_string();
        let mut vs: Vec<Version> = versions_in(&printed).iter().flat_map(|x| neighbours(x)).take(24).collect();
        if let Some(v) = &v {
            vs.push(v.clone());
        }
        for x in &vs {
            o.sat(ta, &a, x);
        }
        o.maxmin(ta, &a, &vs[..vs.len().min(9)]);
        if let Ok(b) = try_range(tb) {
            o.setops(ta, &a, tb, &b);
        }
    }
    // (the AND law of op `c02` presupposes closed comparator lists, which arbitrary inputs are not)
    let _ = tb;
}

pub fn replay_line(line: &str, o: &mut Out) {
    let f: Vec<&str> = line.split('\t').collect();
    let op = f[0];
    let bad = |o: &mut Out| {
        eprintln!("cannot replay line: {}", line);
        let _ = o;
    };
    match op {
        "const" => o.consts(),
        "vcmp" | "vdiff" => match (f.get(1).and_then(|x| dec_version(x)), f.get(2).and_then(|x| dec_version(x))) {
            (Some(a), Some(b)) => {
                if op == "vcmp" {
                    o.vcmp(&a, &b)
                } else {
                    o.vdiff(&a, &b)
                }
            }
            _ => bad(o),
        },
        "vfmt" => match f.get(1).and_then(|x| dec_version(x)) {
            Some(a) => o.vfmt(&a),
            None => bad(o),
        },
        "vfround" => match f.get(1).and_then(|x| dec_version(x)) {
            Some(a) => o.vfround(&a),
            None => bad(o),
        },
        "vparse" | "vround" | "serdev" | "rparse" | "rround" | "serder" | "minv" => match f.get(1).and_then(|x| unhex(x)) {
            Some(t) => match op {
                "vparse" => o.vparse(&t),
                "vround" => o.vround(&t),
                "serdev" => o.serdev(&t),
                "rparse" => o.rparse(&t),
                "rround" => o.rround(&t),
                "serder" => o.serder(&t),
                _ => match try_range(&t) {
                    Ok(r) => o.minv(&t, &r),
                    Err(_) => bad(o),
                },
            },
            None => bad(o),
        },
        "vfrom3" => {
            let n: Vec<u64> = f[1..4].iter().filter_map(|x| x.parse().ok()).collect();
            if n.len() == 3 {
                o.vfrom3(n[0], n[1], n[2])
            } else {
                bad(o)
            }
        }
        "vfrom4" => {
            let n: Vec<u64> = f[1..5].iter().filter_map(|x| x.parse().ok()).collect();
            if n.len() == 4 {
                o.vfrom4(n[0], n[1], n[2], n[3])
            } else {
                bad(o)
            }
        }
        "sat" => match (f.get(1).and_then(|x| unhex(x)), f.get(3).and_then(|x| dec_version(x))) {
            (Some(t), Some(v)) => match try_range(&t) {
                Ok(r) => o.sat(&t, &r, &v),
                Err(_) => bad(o),
            },
            _ => bad(o),
        },
        "c02" => match (f.get(1).and_then(|x| unhex(x)), f.get(2).and_then(|x| unhex(x)), f.get(3).and_then(|x| dec_version(x))) {
            (Some(a), Some(b), Some(v)) => o.c02(&a, &b, &v),
            _ => bad(o),
        },
        "npm" => match (f.get(2).and_then(|x| unhex(x)), f.get(3).and_then(|x| dec_version(x))) {
            (Some(t), Some(v)) => o.npm(f[1], &t, &v),
            _ => bad(o),
        },
        "isect" | "rdiff" | "any" | "all" => match (f.get(1).and_then(|x| unhex(x)), f.get(2).and_then(|x| unhex(x))) {
            (Some(ta), Some(tb)) => match (try_range(&ta), try_range(&tb)) {
                // the four set operations are always emitted together; replay emits all four
                (Ok(a), Ok(b)) => o.setops(&ta, &a, &tb, &b),
                _ => bad(o),
            },
            _ => bad(o),
        },
        "vcmpt" => match (f.get(1).and_then(|x| unhex(x)), f.get(2).and_then(|x| unhex(x))) {
            (Some(a), Some(b)) => o.vcmpt(&a, &b),
            _ => bad(o),
        },
        "vsort" => {
            let mut vs = Vec::new();
            for x in f.iter().skip(1) {
                if *x == "?" {
                    break;
                }
                match dec_version(x) {
                    Some(v) => vs.push(v),
                    None => break,
                }
            }
            o.vsort(&vs);
        }
        "maxsat" | "minsat" => {
            // arguments: range text, then versions, then (possibly) the old answer
            let t = f.get(1).and_then(|x| unhex(x));
            let mut vs = Vec::new();
            for x in f.iter().skip(3) {
                // the old answer is `none` or a version; a trailing version-shaped answer would be
                // mistaken for an element, so stored lines keep the answer field as `?`
                if *x == "?" || *x == "none" {
                    break;
                }
                match dec_version(x) {
                    Some(v) => vs.push(v),
                    None => break,
                }
            }
            match t.and_then(|t| try_range(&t).ok().map(|r| (t, r))) {
                Some((t, r)) => o.maxmin(&t, &r, &vs),
                None => bad(o),
            }
        }
        "expr" => {
            let toks: Vec<&str> = f.get(1).map(|s| s.split(' ').collect()).unwrap_or_default();
            match dec_expr(&mut toks.iter()) {
                Some(e) => o.expr(&e),
                None => bad(o),
            }
        }
        _ => bad(o),
    }
}

// ---------------------------------------------------------------- timing (C06, empirical)

/// crate time at n, 2n, 4n, 8n for several input families; reports the growth exponent
pub fn timing() -> String {
    use std::time::Instant;
    let families: Vec<(&str, Box<dyn Fn(usize) -> String>, bool)> = vec![
        ("range: `1.2.3 ` repeated", Box::new(|n| "1.2.3 ".repeat(n)), true),
        ("range: `>=1 ||` repeated", Box::new(|n| ">=1 ||".repeat(n)), true),
        ("range: `1 - 2 ` repeated", Box::new(|n| "1 - 2 ".repeat(n)), true),
        ("range: garbage `^` repeated", Box::new(|n| "^".repeat(n * 4)), true),
        ("range: blanks", Box::new(|n| " ".repeat(n * 4)), true),
        ("range: long tag", Box::new(|n| format!("1.2.3-{}", "a.".repeat(n * 2))), true),
        ("range: digits", Box::new(|n| "1".repeat(n * 4)), true),
        ("version: over-long", Box::new(|n| format!("1.2.3-{}", "a".repeat(n * 4))), false),
    ];
    let mut out = String::from("[");
    for (i, (name, f, is_range)) in families.iter().enumerate() {
        let base = 2000usize;
        let mut times = Vec::new();
        for k in 0..4 {
            let input = f(base << k);
            let reps = 5;
            let mut best = f64::MAX;
            for _ in 0..reps {
                let t = Instant::now();
                if *is_range {
                    let _ = std::hint::black_box(Range::parse(&input));
                } else {
                    let _ = std::hint::black_box(Version::parse(&input));
                }
                best = best.min(t.elapsed().as_secs_f64());
            }
            times.push((input.len(), best));
        }
        let (n0, t0) = times[0];
        let (n3, t3) = times[3];
        let exponent = if t0 > 0.0 && t3 > 0.0 { (t3 / t0).ln() / ((n3 as f64) / (n0 as f64)).ln() } else { 0.0 };
        if i > 0 {
            out.push(',');
        }
        out.push_str(&format!(
            "{{\"family\":\"{}\",\"sizes\":[{}],\"seconds\":[{}],\"exponent\":{:.3}}}",
            name,
            times.iter().map(|x| x.0.to_string()).collect::<Vec<_>>().join(","),
            times.iter().map(|x| format!("{:.6}", x.1)).collect::<Vec<_>>().join(","),
            exponent
        ));
    }
    // operations on a range with n alternatives / n comparators against small operands: linear too
    let op_families: Vec<(&str, Box<dyn Fn(usize) -> String>)> = vec![
        ("ops on n alternatives", Box::new(|n| (1..=n).map(|i| format!("0.0.{}", i)).collect::<Vec<_>>().join("||"))),
        ("ops on n comparators", Box::new(|n| (1..=n).map(|i| format!(">=0.0.{}", i)).collect::<Vec<_>>().join(" "))),
    ];
    let smalls: Vec<Range> = ["0.0.0", ">=0.0.5 <0.0.9", "<0.0.3 || >1.0.0", "^1.2.0"].iter().map(|s| Range::parse(s).unwrap()).collect();
    let probe = Version::parse("0.0.7").unwrap();
    for (name, f) in op_families.iter() {
        let base = 2000usize;
        let mut times = Vec::new();
        for k in 0..4 {
            let input = f(base << k);
            let big = Range::parse(&input).unwrap();
            let mut best = f64::MAX;
            for _ in 0..5 {
                let t = Instant::now();
                std::hint::black_box(big.to_string().len());
                std::hint::black_box(big.satisfies(&probe));
                std::hint::black_box(big.min_version());
                for s in &smalls {
                    std::hint::black_box(s.difference(&big));
                    std::hint::black_box(big.difference(s));
                    std::hint::black_box(big.intersect(s));
                    std::hint::black_box(s.allows_any(&big));
                    std::hint::black_box(big.allows_all(s));
                }
                best = best.min(t.elapsed().as_secs_f64());
            }
            times.push((input.len(), best));
        }
        let (n0, t0) = times[0];
        let (n3, t3) = times[3];
        let exponent = if t0 > 0.0 && t3 > 0.0 { (t3 / t0).ln() / ((n3 as f64) / (n0 as f64)).ln() } else { 0.0 };
        out.push_str(&format!(
            ",{{\"family\":\"{}\",\"sizes\":[{}],\"seconds\":[{}],\"exponent\":{:.3}}}",
            name,
            times.iter().map(|x| x.0.to_string()).collect::<Vec<_>>().join(","),
            times.iter().map(|x| format!("{:.6}", x.1)).collect::<Vec<_>>().join(","),
            exponent
        ));
    }
    out.push(']');
    out
}
