//! Correspondence harness: runs the real crate (path dependency on /repo) on generated inputs
//! and writes one line per case: `op<TAB>args…<TAB>answer`.  The same lines are then fed to the
//! Lean driver, which recomputes every answer with the model and evaluates the spec oracles.
//!
//! All text payloads are hex-encoded UTF-8 (`_` = empty).  Versions travel structurally:
//! `major,minor,patch,pre,build` with identifiers `n<decimal>` / `a<hex>` joined by `;`.

use nodejs_semver::{Identifier, Range, SemverError, SemverErrorKind, Version};
use std::fmt::Write as _;
use std::io::Write as _;
use std::panic::{catch_unwind, AssertUnwindSafe};

mod deep;
mod gen;
mod laws;
use gen::*;

pub const MAX: u64 = nodejs_semver::MAX_SAFE_INTEGER;

// ---------------------------------------------------------------- encoding

pub fn hex(s: &str) -> String {
    if s.is_empty() {
        return "_".into();
    }
    let mut o = String::with_capacity(s.len() * 2);
    for b in s.bytes() {
        let _ = write!(o, "{:02x}", b);
    }
    o
}

fn enc_ident(i: &Identifier) -> String {
    match i {
        Identifier::Numeric(n) => format!("n{}", n),
        Identifier::AlphaNumeric(s) => format!("a{}", hex(s)),
    }
}

fn enc_idents(v: &[Identifier]) -> String {
    v.iter().map(enc_ident).collect::<Vec<_>>().join(";")
}

pub fn enc_version(v: &Version) -> String {
    format!(
        "{},{},{},{},{}",
        v.major,
        v.minor,
        v.patch,
        enc_idents(&v.pre_release),
        enc_idents(&v.build)
    )
}

fn enc_kind(k: &SemverErrorKind) -> String {
    match k {
        SemverErrorKind::MaxLengthError => "MaxLength".into(),
        SemverErrorKind::IncompleteInput => "Incomplete".into(),
        SemverErrorKind::ParseIntError(e) => {
            // only overflow can be produced from an all-digit text
            match e.kind() {
                std::num::IntErrorKind::PosOverflow => "ParseInt".into(),
                other => format!("ParseInt?{:?}", other),
            }
        }
        SemverErrorKind::MaxIntError(n) => format!("MaxInt:{}", n),
        SemverErrorKind::Context(c) => format!("Context:{}", hex(c)),
        SemverErrorKind::NoValidRanges => "NoValidRanges".into(),
        SemverErrorKind::Other => "Other".into(),
    }
}

/// every accessor and every `Diagnostic` method of an error, under catch_unwind
fn enc_error(e: &SemverError) -> String {
    let loc = match catch_unwind(AssertUnwindSafe(|| e.location())) {
        Ok((l, c)) => format!("{}:{}", l, c),
        Err(_) => "panic".into(),
    };
    format!("err {} {} {} {}", enc_kind(e.kind()), e.offset(), loc, hex(e.input()))
}

/// renders the diagnostic through miette's handlers that read the labelled span
fn diag_renders(e: &SemverError) -> bool {
    use miette::{Diagnostic, JSONReportHandler, NarratableReportHandler};
    catch_unwind(AssertUnwindSafe(|| {
        let mut out = String::new();
        let d: &dyn Diagnostic = e;
        let _ = d.code().map(|c| c.to_string());
        let _ = d.help().map(|c| c.to_string());
        let _ = d.url().map(|c| c.to_string());
        let _ = d.severity();
        let _ = d.labels().map(|l| l.count());
        let _ = e.span();
        let _ = e.to_string();
        let _ = format!("{:?}", e);
        let _ = NarratableReportHandler::new().render_report(&mut out, d);
        let _ = JSONReportHandler::new().render_report(&mut out, d);
        let _ = format!("{:?}", miette::Report::new(e.clone()));
        // the label must be inside the source
        let span = e.span();
        assert!(span.offset() + span.len() <= e.input().len());
    }))
    .is_ok()
}

/// the answer of an op, or `panic` if the crate panicked while computing it
/// operand text standing for `Range::any()`
pub const ANY: &str = "@any";

fn guarded(f: impl FnOnce() -> String) -> String {
    quiet(f).unwrap_or_else(|_| "panic".into())
}

fn quiet<T>(f: impl FnOnce() -> T) -> Result<T, ()> {
    catch_unwind(AssertUnwindSafe(f)).map_err(|_| ())
}

fn show_range_opt(r: Result<Option<Range>, ()>) -> String {
    match r {
        Err(()) => "panic".into(),
        Ok(None) => "none".into(),
        Ok(Some(r)) => match quiet(|| r.to_string()) {
            Ok(s) => format!("some {}", hex(&s)),
            Err(()) => "panic".into(),
        },
    }
}

fn show_version_opt(v: Option<&Version>) -> String {
    match v {
        None => "none".into(),
        Some(v) => enc_version(v),
    }
}

fn b01(b: bool) -> &'static str {
    if b {
        "1"
    } else {
        "0"
    }
}

// ---------------------------------------------------------------- ops on the real crate

pub struct Out {
    pub w: std::io::BufWriter<std::fs::File>,
    pub lines: u64,
    pub per_op: std::collections::BTreeMap<&'static str, u64>,
    pub diag_failures: Vec<String>,
}

impl Out {
    fn emit(&mut self, op: &'static str, args: &[String], answer: String) {
        let _ = write!(self.w, "{}", op);
        for a in args {
            let _ = write!(self.w, "\t{}", a);
        }
        let _ = writeln!(self.w, "\t{}", answer);
        self.lines += 1;
        *self.per_op.entry(op).or_insert(0) += 1;
    }

    /// precedence of two versions given as texts (so that the parser's classification of identifiers
    /// takes part)
    pub fn vcmpt(&mut self, a: &str, b: &str) {
        let ans = guarded(|| match (Version::parse(a), Version::parse(b)) {
            (Ok(x), Ok(y)) => {
                let ord = match x.cmp(&y) {
                    std::cmp::Ordering::Less => "lt",
                    std::cmp::Ordering::Equal => "eq",
                    std::cmp::Ordering::Greater => "gt",
                };
                format!("{} beq={}", ord, b01(x == y))
            }
            _ => "perr".to_string(),
        });
        self.emit("vcmpt", &[hex(a), hex(b)], ans);
    }

    /// `slice::sort` (stable), `Iterator::max` (last maximal), `Iterator::min` (first minimal),
    /// `BTreeSet` (one representative per precedence class: the first inserted)
    pub fn vsort(&mut self, vs: &[Version]) {
        let args: Vec<String> = vs.iter().map(enc_version).collect();
        let ans = guarded(|| {
            let mut l = vs.to_vec();
            l.sort();
            let mut u = vs.to_vec();
            u.sort_unstable();
            let unstable_ok = l.len() == u.len() && l.iter().zip(u.iter()).all(|(a, b)| a == b);
            // element-wise `insert` (documented: an equal element already present is kept); `collect()`
            // bulk-builds and keeps the last of equal elements instead
            let mut set: std::collections::BTreeSet<Version> = Default::default();
            for v in vs {
                set.insert(v.clone());
            }
            format!(
                "{} max={} min={} unstable={} set={}",
                if l.is_empty() { "-".to_string() } else { l.iter().map(enc_version).collect::<Vec<_>>().join("|") },
                show_version_opt(vs.iter().max()),
                show_version_opt(vs.iter().min()),
                b01(unstable_ok),
                if set.is_empty() { "-".to_string() } else { set.iter().map(enc_version).collect::<Vec<_>>().join("|") }
            )
        });
        self.emit("vsort", &args, ans);
    }

    pub fn vcmp(&mut self, a: &Version, b: &Version) {
        use std::collections::hash_map::DefaultHasher;
        use std::hash::{Hash, Hasher};
        let h = |v: &Version| {
            let mut s = DefaultHasher::new();
            v.hash(&mut s);
            s.finish()
        };
        let ord = match a.cmp(b) {
            std::cmp::Ordering::Less => "lt",
            std::cmp::Ordering::Equal => "eq",
            std::cmp::Ordering::Greater => "gt",
        };
        // PartialOrd and the comparison operators must say the same
        let consistent = a.partial_cmp(b) == Some(a.cmp(b))
            && (a < b) == (ord == "lt")
            && (a > b) == (ord == "gt")
            && (a <= b) == (ord != "gt")
            && (a >= b) == (ord != "lt")
            && (a != b) == !(a == b);
        let ans = if consistent {
            format!("{} beq={} hash={}", ord, b01(a == b), b01(h(a) == h(b)))
        } else {
            "inconsistent-operators".to_string()
        };
        self.emit("vcmp", &[enc_version(a), enc_version(b)], ans);
    }

    pub fn vfmt(&mut self, a: &Version) {
        self.emit("vfmt", &[enc_version(a)], format!("{} pre={}", hex(&a.to_string()), b01(a.is_prerelease())));
    }

    pub fn vparse(&mut self, t: &str) {
        let ans = match quiet(|| Version::parse(t)) {
            Err(()) => "panic".into(),
            Ok(Ok(v)) => {
                // FromStr must agree with parse
                let same = t.parse::<Version>().map(|w| enc_version(&w)).ok() == Some(enc_version(&v));
                if same {
                    format!("ok {} {}", enc_version(&v), hex(&v.to_string()))
                } else {
                    "fromstr-differs".into()
                }
            }
            Ok(Err(e)) => {
                if !diag_renders(&e) {
                    self.diag_failures.push(format!("vparse {}", hex(t)));
                }
                enc_error(&e)
            }
        };
        self.emit("vparse", &[hex(t)], ans);
    }

    pub fn vdiff(&mut self, a: &Version, b: &Version) {
        let ans = guarded(|| match a.diff(b) {
            None => "none".to_string(),
            Some(d) => d.to_string(),
        });
        self.emit("vdiff", &[enc_version(a), enc_version(b)], ans);
    }

    pub fn vround(&mut self, t: &str) {
        let ans = guarded(|| match Version::parse(t) {
            Err(_) => "perr".to_string(),
            Ok(v) => {
                let printed = v.to_string();
                match Version::parse(&printed) {
                    Ok(w) => format!(
                        "ok same={} fixed={}",
                        b01(enc_version(&v) == enc_version(&w)),
                        b01(w.to_string() == printed)
                    ),
                    Err(e) => format!("reparse-{} printed_len={}", enc_kind(e.kind()), printed.len()),
                }
            }
        });
        self.emit("vround", &[hex(t)], ans);
    }

    /// a version built from identifiers: print, parse back, compare all five fields, print again
    pub fn vfround(&mut self, v: &Version) {
        let printed = v.to_string();
        let ans = guarded(|| match Version::parse(&printed) {
            Ok(w) => format!(
                "ok {} same={} fixed={}",
                hex(&printed),
                b01(enc_version(v) == enc_version(&w)),
                b01(w.to_string() == printed)
            ),
            Err(e) => format!("reparse-{} printed_len={} {}", enc_kind(e.kind()), printed.len(), hex(&printed)),
        });
        self.emit("vfround", &[enc_version(v)], ans);
    }

    pub fn serdev(&mut self, t: &str) {
        #[allow(dead_code)]
        fn _doc() {}
        let ans = guarded(|| match Version::parse(t) {
            Err(_) => "perr".to_string(),
            Ok(v) => match serde_json::to_string(&v) {
                Err(_) => "ser-fail".into(),
                Ok(j) => match serde_json::from_str::<Version>(&j) {
                    Ok(w) => {
                        // the other ways back from JSON: a `Value`, a reader, and the same string spelled with an escape
                        let via_value = serde_json::to_value(&v).ok().and_then(|x| serde_json::from_value::<Version>(x).ok());
                        let via_reader = serde_json::from_reader::<_, Version>(j.as_bytes()).ok();
                        let via_escape = serde_json::from_str::<Version>(&json_with_escape(&j)).ok();
                        let all = [via_value, via_reader, via_escape];
                        if all.iter().all(|x| x.as_ref().map(enc_version) == Some(enc_version(&w))) {
                            format!("ok {} same={}", hex(&j), b01(enc_version(&v) == enc_version(&w)))
                        } else {
                            "deser-fail".into()
                        }
                    }
                    Err(_) => "deser-fail".into(),
                },
            },
        });
        self.emit("serdev", &[hex(t)], ans);
    }

    pub fn rparse(&mut self, t: &str) {
        let ans = match quiet(|| Range::parse(t)) {
            Err(()) => "panic".into(),
            Ok(Ok(r)) => match quiet(|| r.to_string()) {
                Ok(s) => {
                    let same = t.parse::<Range>().map(|w| w.to_string()).ok() == Some(s.clone());
                    if same {
                        format!("ok {}", hex(&s))
                    } else {
                        "fromstr-differs".into()
                    }
                }
                Err(()) => "panic".into(),
            },
            Ok(Err(e)) => {
                if !diag_renders(&e) {
                    self.diag_failures.push(format!("rparse {}", hex(t)));
                }
                enc_error(&e)
            }
        };
        self.emit("rparse", &[hex(t)], ans);
    }

    pub fn rround(&mut self, t: &str) {
        let ans = guarded(|| match Range::parse(t) {
            Err(_) => "perr".to_string(),
            Ok(r) => match quiet(|| r.to_string()) {
                Err(()) => "panic".into(),
                Ok(printed) => match Range::parse(&printed) {
                    Ok(w) => format!("ok eq={} fixed={}", b01(r == w), b01(w.to_string() == printed)),
                    Err(e) => format!("reparse-{}", enc_kind(e.kind())),
                },
            },
        });
        self.emit("rround", &[hex(t)], ans);
    }

    pub fn serder(&mut self, t: &str) {
        let ans = guarded(|| match Range::parse(t) {
            Err(_) => "perr".to_string(),
            Ok(r) => match quiet(|| serde_json::to_string(&r)) {
                Err(()) => "panic".into(),
                Ok(Err(_)) => "ser-fail".into(),
                Ok(Ok(j)) => match serde_json::from_str::<Range>(&j) {
                    Ok(w) => {
                        let via_value = serde_json::to_value(&r).ok().and_then(|x| serde_json::from_value::<Range>(x).ok());
                        let via_reader = serde_json::from_reader::<_, Range>(j.as_bytes()).ok();
                        let via_escape = serde_json::from_str::<Range>(&json_with_escape(&j)).ok();
                        let all = [via_value, via_reader, via_escape];
                        if all.iter().all(|x| x.as_ref() == Some(&w)) {
                            format!("ok {} eq={}", hex(&j), b01(r == w))
                        } else {
                            "deser-fail".into()
                        }
                    }
                    Err(_) => "deser-fail".into(),
                },
            },
        });
        self.emit("serder", &[hex(t)], ans);
    }

    /// `npm <tree> <text rendered from the tree> <version>`: does the parsed text admit the version?
    pub fn npm(&mut self, tree: &str, t: &str, v: &Version) {
        let ans = match quiet(|| Range::parse(t).map(|r| r.satisfies(v))) {
            Ok(Ok(b)) => b01(b).to_string(),
            Ok(Err(_)) => "perr".into(),
            Err(()) => "panic".into(),
        };
        self.emit("npm", &[tree.to_string(), hex(t), enc_version(v)], ans);
    }

    /// C02: `a`, `b`, `a || b`, `a b`, `b a` on one version; the printed forms of `a` and `b` let the
    /// oracle compute bounds membership independently
    pub fn c02(&mut self, a: &str, b: &str, v: &Version) {
        let sat = |t: &str| -> String {
            match quiet(|| Range::parse(t).map(|r| r.satisfies(v))) {
                Ok(Ok(x)) => b01(x).to_string(),
                Ok(Err(_)) => "e".into(),
                Err(()) => "panic".into(),
            }
        };
        let printed = |t: &str| -> String {
            guarded(|| match Range::parse(t) {
                Ok(r) => hex(&r.to_string()),
                Err(_) => "e".into(),
            })
        };
        let ans = format!(
            "a={} b={} or={} ro={} and={} dna={} pa={} pb={}",
            sat(a),
            sat(b),
            sat(&format!("{} || {}", a, b)),
            sat(&format!("{} || {}", b, a)),
            sat(&format!("{} {}", a, b)),
            sat(&format!("{} {}", b, a)),
            printed(a),
            printed(b)
        );
        self.emit("c02", &[hex(a), hex(b), enc_version(v)], ans);
    }

    /// `sat <text> <printed form of the parsed range> <version>`
    pub fn sat(&mut self, t: &str, r: &Range, v: &Version) {
        let ans = match quiet(|| (r.satisfies(v), v.satisfies(r))) {
            Ok((a, b)) if a == b => b01(a).to_string(),
            Ok(_) => "version-and-range-disagree".into(),
            Err(()) => "panic".into(),
        };
        let printed = quiet(|| r.to_string()).unwrap_or_else(|_| "!panic".into());
        self.emit("sat", &[hex(t), hex(&printed), enc_version(v)], ans);
    }

    /// the four binary operations on the *printed* forms of the operands (canonical texts)
    pub fn setops(&mut self, _ta: &str, a0: &Range, _tb: &str, b0: &Range) {
        let (mut ta, mut tb) = match (quiet(|| a0.to_string()), quiet(|| b0.to_string())) {
            (Ok(x), Ok(y)) => (x, y),
            _ => return,
        };
        // `Range::any()` has no text that parses back to it (`*` reads as `>=0.0.0`): it travels as `@any`
        if _ta == ANY {
            ta = ANY.into();
        }
        if _tb == ANY {
            tb = ANY.into();
        }
        let (a, b) = match (try_range(&ta), try_range(&tb)) {
            (Ok(x), Ok(y)) => (x, y),
            // a printed range that does not parse back is reported by the round-trip stream
            _ => {
                self.emit("rround", &[hex(&ta)], "reparse-fail-in-setops".into());
                return;
            }
        };
        let args = [hex(&ta), hex(&tb)];
        let isect = quiet(|| a.intersect(&b));
        let isect_some = isect.as_ref().map(|x| x.is_some()).unwrap_or(false);
        self.emit("isect", &args, show_range_opt(isect));
        self.emit("rdiff", &args, show_range_opt(quiet(|| a.difference(&b))));
        let any = quiet(|| a.allows_any(&b));
        let rev = quiet(|| b.allows_any(&a));
        let ans = match (any, rev) {
            (Ok(x), Ok(y)) => format!("{} isect={} rev={}", b01(x), b01(isect_some), b01(y)),
            _ => "panic".into(),
        };
        self.emit("any", &args, ans);
        let all = quiet(|| (a.allows_all(&b), a.allows_any(&b), a.allows_all(&a), b.difference(&a).is_none()));
        let ans = match all {
            Ok((x, y, z, w)) => format!("{} any={} self={} diffnone={}", b01(x), b01(y), b01(z), b01(w)),
            Err(()) => "panic".into(),
        };
        self.emit("all", &args, ans);
    }

    pub fn minv(&mut self, t: &str, r: &Range) {
        let ans = match quiet(|| r.min_version()) {
            Ok(v) => show_version_opt(v.as_ref()),
            Err(()) => "panic".into(),
        };
        let printed = quiet(|| r.to_string()).unwrap_or_else(|_| "!panic".into());
        self.emit("minv", &[hex(t), hex(&printed)], ans);
    }

    pub fn maxmin(&mut self, t: &str, r: &Range, vs: &[Version]) {
        let printed = quiet(|| r.to_string()).unwrap_or_else(|_| "!panic".into());
        let mut args = vec![hex(t), hex(&printed)];
        args.extend(vs.iter().map(enc_version));
        let in_slice = |x: Option<&Version>| match x {
            None => true,
            Some(p) => vs.iter().any(|e| std::ptr::eq(e, p)),
        };
        let a1 = guarded(|| {
            let mx = r.max_satisfying(vs);
            if in_slice(mx) { show_version_opt(mx) } else { "not-an-element".into() }
        });
        let a2 = guarded(|| {
            let mn = r.min_satisfying(vs);
            if in_slice(mn) { show_version_opt(mn) } else { "not-an-element".into() }
        });
        self.emit("maxsat", &args, a1);
        self.emit("minsat", &args, a2);
    }

    pub fn expr(&mut self, e: &Expr) {
        let mut toks = Vec::new();
        e.tokens(&mut toks);
        let ans = show_range_opt(quiet(|| e.eval()).and_then(|x| x.ok_or(())));
        self.emit("expr", &[toks.join(" ")], ans);
    }

    pub fn vfrom3(&mut self, a: u64, b: u64, c: u64) {
        let ans = from3(a, b, c);
        self.emit("vfrom3", &[a.to_string(), b.to_string(), c.to_string()], ans);
    }

    pub fn vfrom4(&mut self, a: u64, b: u64, c: u64, d: u64) {
        let ans = from4(a, b, c, d);
        self.emit("vfrom4", &[a.to_string(), b.to_string(), c.to_string(), d.to_string()], ans);
    }

    pub fn consts(&mut self) {
        // deserialising anything but a JSON string is an error (never a panic), for both types
        let de = guarded(|| {
            let bad = ["123", "null", "[\"1.2.3\"]", "{}", "\"not a version\"", "\"\""];
            let all_err = bad.iter().all(|j| serde_json::from_str::<Version>(j).is_err())
                && bad.iter().all(|j| serde_json::from_str::<Range>(j).is_err());
            b01(all_err).to_string()
        });
        self.emit(
            "const",
            &[],
            format!("{} {} deser_rejects={}", nodejs_semver::MAX_SAFE_INTEGER, nodejs_semver::MAX_LENGTH, de),
        );
    }
}

macro_rules! try_types3 {
    ($a:expr, $b:expr, $c:expr, $acc:expr, $($t:ty),+) => {
        $(
            if let (Ok(x), Ok(y), Ok(z)) = (<$t>::try_from($a), <$t>::try_from($b), <$t>::try_from($c)) {
                // a conversion that panics (e.g. a debug assertion) is an answer of its own, per type
                match quiet(|| Version::from((x, y, z))) {
                    Ok(v) => {
                        let p = Version::parse(format!("{}.{}.{}", $a, $b, $c)).map(|w| enc_version(&w)).unwrap_or("perr".into());
                        $acc.push(format!("{} {} parse={}", enc_version(&v), hex(&v.to_string()), p));
                    }
                    Err(()) => $acc.push(format!("panic-in-{}", stringify!($t))),
                }
            }
        )+
    };
}
macro_rules! try_types4 {
    ($a:expr, $b:expr, $c:expr, $d:expr, $acc:expr, $($t:ty),+) => {
        $(
            if let (Ok(x), Ok(y), Ok(z), Ok(w)) = (<$t>::try_from($a), <$t>::try_from($b), <$t>::try_from($c), <$t>::try_from($d)) {
                match quiet(|| Version::from((x, y, z, w))) {
                    Ok(v) => {
                        let p = Version::parse(format!("{}.{}.{}-{}", $a, $b, $c, $d)).map(|w| enc_version(&w)).unwrap_or("perr".into());
                        $acc.push(format!("{} {} parse={}", enc_version(&v), hex(&v.to_string()), p));
                    }
                    Err(()) => $acc.push(format!("panic-in-{}", stringify!($t))),
                }
            }
        )+
    };
}

/// converts through every integer type the values fit in; all must agree
fn from3(a: u64, b: u64, c: u64) -> String {
    let mut acc: Vec<String> = Vec::new();
    try_types3!(a, b, c, acc, u8, u16, u32, u64, usize, i8, i16, i32, i64, isize);
    acc.dedup();
    if acc.len() == 1 {
        acc.pop().unwrap()
    } else {
        format!("types-disagree {}", acc.join("|"))
    }
}

fn from4(a: u64, b: u64, c: u64, d: u64) -> String {
    let mut acc: Vec<String> = Vec::new();
    try_types4!(a, b, c, d, acc, u8, u16, u32, u64, usize, i8, i16, i32, i64, isize);
    acc.dedup();
    if acc.len() == 1 {
        acc.pop().unwrap()
    } else {
        format!("types-disagree {}", acc.join("|"))
    }
}

// ---------------------------------------------------------------- expression trees (C15)

pub enum Expr {
    Leaf(String),
    Isect(Box<Expr>, Box<Expr>),
    Diff(Box<Expr>, Box<Expr>),
}

impl Expr {
    fn tokens(&self, out: &mut Vec<String>) {
        match self {
            Expr::Leaf(t) => out.push(format!("L{}", hex(t))),
            Expr::Isect(a, b) => {
                out.push("I".into());
                a.tokens(out);
                b.tokens(out);
            }
            Expr::Diff(a, b) => {
                out.push("D".into());
                a.tokens(out);
                b.tokens(out);
            }
        }
    }

    /// None = a leaf does not parse (treated like a panic: generator bug)
    fn eval(&self) -> Option<Option<Range>> {
        Some(match self {
            Expr::Leaf(t) => Some(Range::parse(t).ok()?),
            Expr::Isect(a, b) => match (a.eval()?, b.eval()?) {
                (Some(x), Some(y)) => x.intersect(&y),
                _ => None,
            },
            Expr::Diff(a, b) => match (a.eval()?, b.eval()?) {
                (Some(x), Some(y)) => x.difference(&y),
                (Some(x), None) => Some(x),
                (None, _) => None,
            },
        })
    }
}

// ---------------------------------------------------------------- main

fn usage() -> ! {
    eprintln!("usage: harness gen --streams a,b,c --tier quick|thorough --seed N --out FILE [--summary FILE]");
    eprintln!("       harness lines --in FILE --out FILE     (re-evaluate the request part of stored lines)");
    eprintln!("       harness timing --out FILE");
    eprintln!("       harness corpus --dir DIR --kind range|version --out FILE [--limit N]   (replay a fuzzer corpus)");
    eprintln!("       harness laws --out FILE [--tier quick|thorough] [--seed N]   (pointwise laws on operands with thousands of alternatives)");
    eprintln!("       harness deep --out FILE [--tier quick|thorough] [--limit SECS]   (large operands, one child per family)");
    eprintln!("       harness deep-one FAMILY N | deep-input FAMILY N");
    std::process::exit(2)
}

fn main() {
    std::panic::set_hook(Box::new(|_| {}));
    let args: Vec<String> = std::env::args().collect();
    if args.len() < 2 {
        usage();
    }
    let get = |name: &str| -> Option<String> {
        args.iter().position(|a| a == name).and_then(|i| args.get(i + 1).cloned())
    };
    match args[1].as_str() {
        "gen" => {
            let streams = get("--streams").unwrap_or_else(|| usage());
            let tier = get("--tier").unwrap_or("quick".into());
            let seed: u64 = get("--seed").and_then(|s| s.parse().ok()).unwrap_or(1);
            let out = get("--out").unwrap_or_else(|| usage());
            let f = std::fs::File::create(&out).expect("create out");
            let mut o = Out {
                w: std::io::BufWriter::with_capacity(1 << 20, f),
                lines: 0,
                per_op: Default::default(),
                diag_failures: vec![],
            };
            let thorough = tier == "thorough";
            let mut dist = std::collections::BTreeMap::new();
            let mut stream_panics: Vec<String> = vec![];
            for s in streams.split(',') {
                let before = o.lines;
                let mut rng = Rng::new(seed ^ gen::hash_str(s));
                // generator code also calls the crate (printing a parsed range, building grids): a panic there ends
                // the stream, and the text that was last handed to the crate is re-evaluated under guard so that the
                // panic is recorded as the crate's answer to a concrete request
                let r = catch_unwind(AssertUnwindSafe(|| gen::run_stream(s, thorough, &mut rng, &mut o)));
                if r.is_err() {
                    let (kind, text) = gen::LAST_TEXT.with(|l| l.borrow().clone());
                    eprintln!("stream {} panicked inside generator-side crate code; last text: {:?}", s, text);
                    stream_panics.push(s.to_string());
                    match kind {
                        'r' => {
                            o.rround(&text);
                            o.rparse(&text);
                        }
                        'v' => {
                            o.vparse(&text);
                            o.vround(&text);
                        }
                        _ => {}
                    }
                }
                dist.insert(s.to_string(), o.lines - before);
            }
            o.w.flush().unwrap();
            if let Some(p) = get("--summary") {
                let mut s = String::from("{\"streams\":{");
                s.push_str(&dist.iter().map(|(k, v)| format!("\"{}\":{}", k, v)).collect::<Vec<_>>().join(","));
                s.push_str("},\"ops\":{");
                s.push_str(&o.per_op.iter().map(|(k, v)| format!("\"{}\":{}", k, v)).collect::<Vec<_>>().join(","));
                s.push_str("},\"diag_failures\":[");
                s.push_str(&o.diag_failures.iter().take(20).map(|x| format!("\"{}\"", x)).collect::<Vec<_>>().join(","));
                s.push_str("],\"stream_panics\":[");
                s.push_str(&stream_panics.iter().map(|x| format!("\"{}\"", x)).collect::<Vec<_>>().join(","));
                let _ = write!(s, "],\"lines\":{}}}", o.lines);
                std::fs::write(p, s).unwrap();
            }
        }
        "lines" => {
            let inp = get("--in").unwrap_or_else(|| usage());
            let out = get("--out").unwrap_or_else(|| usage());
            let f = std::fs::File::create(&out).expect("create out");
            let mut o = Out {
                w: std::io::BufWriter::new(f),
                lines: 0,
                per_op: Default::default(),
                diag_failures: vec![],
            };
            let text = std::fs::read_to_string(inp).expect("read in");
            for line in text.lines() {
                if line.trim().is_empty() || line.starts_with('#') {
                    continue;
                }
                gen::replay_line(line, &mut o);
            }
            o.w.flush().unwrap();
            if !o.diag_failures.is_empty() {
                eprintln!("diag failures: {:?}", o.diag_failures);
            }
        }
        "timing" => {
            let out = get("--out").unwrap_or_else(|| usage());
            let s = gen::timing();
            std::fs::write(out, s).unwrap();
        }
        "corpus" => {
            // replay a libFuzzer corpus (inputs that reach distinct code of the crate as it is now)
            // through the protocol: `--kind range`: `<range a>\n<range b>\n<version>`; `--kind version`:
            // `<version a>\n<version b>`
            let dir = get("--dir").unwrap_or_else(|| usage());
            let kind = get("--kind").unwrap_or("range".into());
            let out = get("--out").unwrap_or_else(|| usage());
            let limit: usize = get("--limit").and_then(|s| s.parse().ok()).unwrap_or(4000);
            let f = std::fs::File::create(&out).expect("create out");
            let mut o = Out { w: std::io::BufWriter::new(f), lines: 0, per_op: Default::default(), diag_failures: vec![] };
            let mut files: Vec<_> = std::fs::read_dir(&dir).map(|d| d.filter_map(|e| e.ok()).map(|e| e.path()).collect()).unwrap_or_default();
            files.sort();
            let mut used = 0usize;
            for p in files {
                if used >= limit {
                    break;
                }
                let Ok(bytes) = std::fs::read(&p) else { continue };
                let Ok(s) = String::from_utf8(bytes) else { continue };
                if s.contains('\t') && s.len() > 4000 {
                    continue;
                }
                used += 1;
                gen::corpus_case(&kind, &s, &mut o);
            }
            o.w.flush().unwrap();
            eprintln!("corpus: {} inputs, {} lines", used, o.lines);
        }
        "laws" => {
            // large-scale laws on the implementation alone (thousands of alternatives)
            let out = get("--out").unwrap_or_else(|| usage());
            let tier = get("--tier").unwrap_or("quick".into());
            let seed: u64 = get("--seed").and_then(|s| s.parse().ok()).unwrap_or(1);
            let t = std::time::Instant::now();
            let r = std::panic::catch_unwind(|| laws::run(tier == "thorough", seed));
            let body = match r {
                Ok(vs) => format!("{{\"seconds\":{:.2},\"violations\":{}}}", t.elapsed().as_secs_f64(), laws::to_json(&vs)),
                Err(_) => format!("{{\"seconds\":{:.2},\"panicked\":true,\"violations\":[]}}", t.elapsed().as_secs_f64()),
            };
            std::fs::write(out, body).unwrap();
        }
        "deep" => {
            let out = get("--out").unwrap_or_else(|| usage());
            let tier = get("--tier").unwrap_or("quick".into());
            let limit: u64 = get("--limit").and_then(|s| s.parse().ok()).unwrap_or(120);
            let s = deep::run_all(tier == "thorough", std::time::Duration::from_secs(limit));
            std::fs::write(out, s).unwrap();
        }
        "deep-one" => {
            let fam = args.get(2).cloned().unwrap_or_else(|| usage());
            let n: usize = args.get(3).and_then(|s| s.parse().ok()).unwrap_or_else(|| usage());
            std::process::exit(deep::run_child(&fam, n));
        }
        "deep-input" => {
            let fam = args.get(2).cloned().unwrap_or_else(|| usage());
            let n: usize = args.get(3).and_then(|s| s.parse().ok()).unwrap_or_else(|| usage());
            print!("{}", deep::input(&fam, n));
        }
        _ => usage(),
    }
}


/// the same JSON string with its first character written as a `\uXXXX` escape (a deserializer then has to
/// build an owned string)
fn json_with_escape(j: &str) -> String {
    let mut cs = j.chars();
    match (cs.next(), cs.next()) {
        (Some('"'), Some(c)) if c != '"' && c != '\\' && (c as u32) < 0x10000 => {
            format!("\"\\u{:04x}{}", c as u32, cs.collect::<String>())
        }
        _ => j.to_string(),
    }
}
