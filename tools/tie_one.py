#!/usr/bin/env python3
"""development aid: apply ONE diff (or none) to a scratch worktree of /repo, run the translator, elaborate the generated
definitions with all equivalence theorems as one file, print every broken declaration with Lean's message.
usage: tools/tie_one.py [file.diff]   (worktree /tmp/hw1 is kept between calls; remove it with --clean)"""
import subprocess, sys, os, json, importlib.machinery, importlib.util
WT = "/tmp/hw1"
if "--clean" in sys.argv:
    subprocess.run(["git", "-C", "/repo", "worktree", "remove", "--force", WT]); sys.exit(0)
if not os.path.isdir(WT):
    subprocess.run(["git", "-C", "/repo", "worktree", "add", "-q", "--detach", WT, "HEAD"])
loader = importlib.machinery.SourceFileLoader("check", "/verif/check")
spec = importlib.util.spec_from_loader("check", loader); check = importlib.util.module_from_spec(spec); loader.exec_module(check)
subprocess.run(["git", "checkout", "--", "."], cwd=WT)
if len(sys.argv) > 1:
    subprocess.run(["git", "apply", os.path.abspath(sys.argv[1])], cwd=WT, check=True)
rc, out = check.translator_build()
if rc != 0:
    print(out[-3000:]); sys.exit(1)
ext = os.path.join(check.WORK, "Extracted_h.lean"); rep = os.path.join(check.WORK, "report_h.json")
subprocess.run([check.RS2LEAN, "--src", WT + "/src", "--out", ext, "--report", rep])
r = json.load(open(rep))
for i in r["items"]:
    if i["status"] != "translated":
        print("UNTRANSLATABLE", i["rust"], "::", i.get("reason"))
print("new_functions:", r["new_functions"])
broken = check.attribute_broken(os.path.relpath(ext, check.LEAN))
for k, v in broken.items():
    print("BROKEN", k, "::", v)
print("broken:", len(broken))
