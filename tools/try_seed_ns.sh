#!/bin/bash
# usage: try_seed_ns.sh <seed-name> <agent-worktree> <prop> [more props...]
# like tools/try_seed.sh, but the checks run from the development copy ${VDEV} inside a mount namespace in which
# /repo is a private clone with the patch applied: the real /repo is never touched.
set -u
# VDEV: a copy of /verif with its build output (cp -r /verif /tmp/vdev), so that /verif itself stays free for other work
VDEV=${VDEV:-/tmp/vdev}
name=$1; wt=$2; shift 2
out=/verif/seeded/$name
mkdir -p $out
cp $wt/_seed/patch.diff $out/patch.diff
cp $wt/_seed/seed_demo.rs $out/seed_demo.rs
cp $wt/_seed/NOTES.md $out/NOTES.md 2>/dev/null
chk=/tmp/seedcheck_$$
git -C /repo worktree add -q --detach $chk HEAD
cd $chk
cp $out/seed_demo.rs examples/seed_demo.rs
CARGO_NET_OFFLINE=true cargo run --offline -q --example seed_demo >/dev/null 2>&1; without_rc=$?
if git apply $out/patch.diff; then
  suite=$(CARGO_NET_OFFLINE=true cargo test --offline 2>&1 | grep "test result" | tr '\n' ' ')
  CARGO_NET_OFFLINE=true cargo run --offline -q --example seed_demo >/dev/null 2>&1; with_rc=$?
else
  suite="PATCH DOES NOT APPLY"; with_rc=-1
fi
cd /tmp
git -C /repo worktree remove --force $chk
echo "suite: $suite"
echo "demo with change rc=$with_rc (want != 0), without rc=$without_rc (want 0)"
clone=/tmp/repoclone_$$
rm -rf $clone; cp -r /repo $clone; rm -rf $clone/target
( cd $clone && git checkout -q -- . && git apply $out/patch.diff ) || { echo "patch does not apply to clone"; exit 2; }
results=""
for p in "$@"; do
  line=$(unshare -m bash -c "mount --bind $clone /repo && cd ${VDEV} && ./check $p 2>&1" | grep -E "^(VIOLATION|OK)" | head -2 | tr '\n' ' ' | sed 's#${VDEV}/##g')
  echo "$p: $line"
  results="$results$p: $line\n"
done
rm -rf $clone
printf "$results" > $out/check_results.txt
echo "suite=$suite" >> $out/check_results.txt
echo "demo_with=$with_rc demo_without=$without_rc" >> $out/check_results.txt
