#!/bin/bash
# usage: tools/try_seed.sh <seed-name> <agent-worktree> <prop> [more props...]
# Confirms the seeded change independently in a fresh scratch worktree of /repo (suite passes with the
# change, demo fails with it and passes without), applies it to /repo, runs the given checks, undoes it,
# and stores patch + demo + results under seeded/<name>. (No `git stash`: the stash is shared by all
# worktrees of a repository.)
set -u
VROOT=${VROOT:-/verif}
name=$1; wt=$2; shift 2
out=${VROOT}/seeded/$name
mkdir -p $out
cp $wt/_seed/patch.diff $out/patch.diff
cp $wt/_seed/seed_demo.rs $out/seed_demo.rs 2>/dev/null || cp $wt/examples/seed_demo.rs $out/seed_demo.rs
sed -i "s|${VROOT}/||g" $out/check_results.txt 2>/dev/null; cp $wt/_seed/NOTES.md $out/NOTES.md 2>/dev/null
chk=/tmp/seedcheck_$$
git -C /repo worktree add -q $chk HEAD
cd $chk
cp $out/seed_demo.rs examples/seed_demo.rs
CARGO_NET_OFFLINE=true cargo run --offline -q --example seed_demo >/dev/null 2>&1; without_rc=$?
if git apply $out/patch.diff; then
  suite=$(CARGO_NET_OFFLINE=true cargo test --offline 2>&1 | grep "test result" | tr '\n' ' ')
  CARGO_NET_OFFLINE=true cargo run --offline -q --example seed_demo >/dev/null 2>&1; with_rc=$?
else
  suite="PATCH DOES NOT APPLY"; with_rc=-1
fi
cd ${VROOT}
git -C /repo worktree remove --force $chk
echo "suite: $suite"
echo "demo with change rc=$with_rc (want != 0), without rc=$without_rc (want 0)"
cd /repo && git apply $out/patch.diff || { echo "patch does not apply to /repo"; exit 2; }
cd ${VROOT}
results=""
for p in "$@"; do
  line=$(./check $p 2>&1 | grep -E "^(VIOLATION|OK)" | head -2 | tr '\n' ' ')
  echo "$p: $line"
  results="$results$p: $line\n"
done
git -C /repo checkout -- .
git -C /repo status --short
printf "$results" > $out/check_results.txt
echo "suite=$suite" >> $out/check_results.txt
echo "demo_with=$with_rc demo_without=$without_rc" >> $out/check_results.txt
