#!/bin/bash
# usage: tools/coverage.sh [quick|thorough]
# Measures which lines/regions of /repo/src the correspondence streams of every property execute:
# builds the harness with -C instrument-coverage (nightly toolchain, offline), runs the union of all
# streams of the given tier, the corpus, an npm stream and the large-operand families, and writes
# coverage/summary.txt + coverage/uncovered.txt.  A measure of generator quality, not a check.
set -eu
tier=${1:-quick}
ROOT=$(cd "$(dirname "$0")/.." && pwd)
T=$(mktemp -d /tmp/semver-cov.XXXXXX)
trap 'rm -rf "$T"' EXIT
BIN=/root/.rustup/toolchains/nightly-x86_64-unknown-linux-gnu/lib/rustlib/x86_64-unknown-linux-gnu/bin
cd "$ROOT/harness"
# build scripts and proc-macros of the instrumented build write profiles too: keep them out of /repo
export LLVM_PROFILE_FILE="$T/build-%p-%m.profraw"
CARGO_NET_OFFLINE=true RUSTFLAGS="-C instrument-coverage" CARGO_TARGET_DIR=$T/target cargo +nightly build --offline --release --quiet 2>/dev/null
H=$T/target/release/semver-harness
export LLVM_PROFILE_FILE="$T/prof-%p-%m.profraw"
streams=$(python3 - "$ROOT" "$tier" <<'PY'
import json,sys
c=json.load(open(sys.argv[1]+'/properties.config.json'))
key='streams_quick' if sys.argv[2]=='quick' else 'streams_thorough'
s=set()
for p in c['properties'].values():
    for x in p.get(key,p['streams_quick']):
        if not x.startswith('npm'): s.add(x)
print(",".join(sorted(s)))
PY
)
$H gen --streams "$streams" --tier "$tier" --seed 1 --out $T/lines.txt --summary $T/summary.json
for f in "$ROOT"/corpus/*.txt; do $H lines --in "$f" --out $T/c.txt 2>/dev/null || true; done
"$ROOT/lean/.lake/build/bin/driver" gen-npm 7 6000 > $T/npm.q
$H lines --in $T/npm.q --out $T/npm.lines
$H deep --out $T/deep.json --tier quick
$H timing --out $T/timing.json
rm -f /repo/*.profraw "$ROOT"/harness/*.profraw
$BIN/llvm-profdata merge -sparse $T/prof-*.profraw -o $T/all.profdata
mkdir -p "$ROOT/coverage"
$BIN/llvm-cov report $H -instr-profile=$T/all.profdata /repo/src/lib.rs /repo/src/range.rs > "$ROOT/coverage/summary.txt" 2>/dev/null
# uncovered lines (count 0) of the crate's sources, tests excluded by line range of `mod tests`
$BIN/llvm-cov show $H -instr-profile=$T/all.profdata /repo/src/lib.rs /repo/src/range.rs -show-line-counts-or-regions 2>/dev/null \
  | python3 "$ROOT/tools/cov_uncovered.py" > "$ROOT/coverage/uncovered.txt"
echo "streams: $streams" >> "$ROOT/coverage/summary.txt"
cat "$ROOT/coverage/summary.txt"
wc -l "$ROOT/coverage/uncovered.txt"
