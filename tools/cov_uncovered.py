#!/usr/bin/env python3
"""filters `llvm-cov show` output: prints executable lines with count 0 outside #[cfg(test)] modules"""
import sys, re
cur = None
in_tests = False
for line in sys.stdin:
    m = re.match(r'^(/.*\.rs):$', line.strip())
    if m:
        cur = m.group(1); in_tests = False
        continue
    m = re.match(r'^\s*(\d+)\|\s*([0-9.kKM]*)\|(.*)$', line.rstrip('\n'))
    if not m or cur is None:
        continue
    no, cnt, src = int(m.group(1)), m.group(2), m.group(3)
    if re.search(r'mod tests|mod test\b|#\[cfg\(test\)\]', src):
        in_tests = True
    if in_tests:
        continue
    if cnt == '0':
        print("%s:%d: %s" % (cur, no, src))
