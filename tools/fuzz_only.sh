#!/bin/bash
# usage: tools/fuzz_only.sh <seed-name> <seconds> <target:kind> [...]
# applies a seeded change, runs only the coverage-guided stage, replays its corpus through harness and
# driver, and reports how many replayed lines disagree or fail an oracle (evaluation of the stage alone)
set -u
name=$1; secs=$2; shift 2
cd /repo && git apply /verif/seeded/$name/patch.diff || { echo "patch does not apply"; exit 2; }
cd /verif/harness && CARGO_NET_OFFLINE=true cargo build --offline --release --quiet 2>/dev/null
cd /verif/fuzz && CARGO_NET_OFFLINE=true cargo +nightly fuzz build --fuzz-dir . >/dev/null 2>&1
W=$(mktemp -d /tmp/fuzzonly.XXXXXX)
for tk in "$@"; do
  t=${tk%%:*}; k=${tk##*:}
  mkdir -p $W/$t $W/art_$t
  cp /verif/fuzz/seeds/$t/* $W/$t/
  CARGO_NET_OFFLINE=true cargo +nightly fuzz run --fuzz-dir . $t $W/$t -- -max_total_time=$secs -max_len=600 -use_value_profile=1 -fork=8 -ignore_crashes=1 -dict=/verif/fuzz/seeds/dict.txt -artifact_prefix=$W/art_$t/ >/dev/null 2>&1
  /verif/harness/target/release/semver-harness corpus --dir $W/$t --kind $k --out $W/$t.lines 2>/dev/null
  /verif/lean/.lake/build/bin/driver < $W/$t.lines > $W/$t.res
  echo "$name $t: corpus=$(ls $W/$t | wc -l) lines=$(wc -l < $W/$t.lines) not-OK=$(grep -vc '^OK$' $W/$t.res) crashes=$(ls $W/art_$t | wc -l)"
done
rm -rf $W
git -C /repo checkout -- .
cd /verif/harness && CARGO_NET_OFFLINE=true cargo build --offline --release --quiet 2>/dev/null
