#!/usr/bin/env python3
"""Behaviour-preserving rewrites of the crate (seeded_harmless/*.diff: renamed locals, reordered arms, a loop turned
into an iterator chain, De Morgan, an extracted helper function, ...): does the source tie still check?  Each should
print `broken: {}`.  Uses a scratch worktree of /repo under /tmp, removed afterwards."""
import subprocess
subprocess.run(["git","-C","/repo","worktree","remove","--force","/tmp/hw"],stdout=subprocess.DEVNULL,stderr=subprocess.DEVNULL)
subprocess.run(["git","-C","/repo","worktree","add","-q","--detach","/tmp/hw","HEAD"])
import importlib.machinery, importlib.util, json, os, subprocess, sys, glob
loader = importlib.machinery.SourceFileLoader("check", "/verif/check")
spec = importlib.util.spec_from_loader("check", loader); check = importlib.util.module_from_spec(spec); loader.exec_module(check)
WT="/tmp/hw"
for f in sorted(glob.glob("/verif/seeded_harmless/*.diff")):
    subprocess.run(["git","checkout","--","."],cwd=WT)
    subprocess.run(["git","apply",f],cwd=WT)
    ext=os.path.join(check.WORK,"Extracted_h.lean"); rep=os.path.join(check.WORK,"report_h.json")
    if os.path.exists(ext): os.remove(ext)
    subprocess.run([check.RS2LEAN,"--src",WT+"/src","--out",ext,"--report",rep])
    r=json.load(open(rep))
    un=[(i['rust'],i.get('reason')) for i in r['items'] if i['status']!='translated']
    broken=check.attribute_broken(os.path.relpath(ext,check.LEAN))
    print(os.path.basename(f), "untranslatable:",un, "broken:", {k.split('.')[-1]:v[:60] for k,v in broken.items()}, "new_fns:", r['new_functions'])
    sys.stdout.flush()
subprocess.run(["git","checkout","--","."],cwd=WT)

subprocess.run(["git","-C","/repo","worktree","remove","--force","/tmp/hw"])
