#!/usr/bin/env python3
"""regenerates seeded/README.md and the table at the end of DESIGN.md section 12.5 from seeded/*/meta.json"""
import json, os, glob
ROOT = os.path.dirname(os.path.dirname(os.path.abspath(__file__)))
rows = []
for d in sorted(glob.glob(os.path.join(ROOT, 'seeded', '*', ''))):
    m = json.load(open(d + 'meta.json'))
    name = os.path.basename(d.rstrip('/'))
    rows.append((name, m))
out = ["# Seeded changes", "",
"Each directory holds one change to `cijiugechu/nodejs-semver` written by an independent sub-agent that was given",
"only the text of one property and its own scratch worktree (nothing from `/verif`): `patch.diff` (applies to",
"`/repo` at the pinned+repaired HEAD), `seed_demo.rs` (passes without the change, fails with it), `NOTES.md`",
"(the author's account), `check_results.txt` and `meta.json` (what I ran and what happened).",
"Every change compiles and passes the crate's whole test suite (133 unit + 5 doc tests).",
"None is committed to `/repo`; to run the checks against one: `tools/try_seed.sh <name> <worktree> <ids…>` or",
"`git -C /repo apply seeded/<name>/patch.diff; ./check <id>; git -C /repo checkout -- .`", "",
"%d changes; caught by the quick check of the target property: %d." % (len(rows), sum(1 for _, m in rows if m.get('caught_by_target_property_check'))), "",
"| change | breaks | what it needs to manifest | quick checks run → result |", "|---|---|---|---|"]
table = []
for name, m in rows:
    res = ", ".join("%s: %s" % kv for kv in m.get('quick_check_results', {}).items())
    table.append("| `%s` — %s | %s | %s | %s |" % (name, m['what_changed'], m['breaks_property'], m['needs_to_manifest'], res))
out += table
out += ["", "## Changes the first version of a check missed or reported without a concrete input, and what was strengthened", ""]
for name, m in rows:
    h = m.get('history') or m.get('note')
    if h:
        out.append("* `%s` (%s): %s" % (name, m['breaks_property'], h))
open(os.path.join(ROOT, 'seeded', 'README.md'), 'w').write("\n".join(out) + "\n")
p = os.path.join(ROOT, 'DESIGN.md')
s = open(p).read()
marker = "| change | breaks | what it needs to manifest | quick checks run → result |\n|---|---|---|---|\n"
i = s.rindex(marker)
j = i + len(marker)
rest = s[j:].split("\n")
k = 0
while k < len(rest) and rest[k].startswith("|"):
    k += 1
s = s[:j] + "\n".join(table) + "\n" + "\n".join(rest[k:])
open(p, 'w').write(s)
print(len(rows), "seeded changes")
