#!/bin/bash
# usage: tools/rerun_seed.sh <seed-name> <prop> [more props...]
# applies seeded/<name>/patch.diff to /repo, runs the given quick checks, undoes the change
set -u
name=$1; shift
cd /repo && git apply /verif/seeded/$name/patch.diff || { echo "patch does not apply"; exit 2; }
cd /verif
for p in "$@"; do
  line=$(./check $p 2>&1 | grep -E "^(VIOLATION|OK)" | head -2 | tr '\n' ' ')
  echo "$name $p: $line"
done
git -C /repo checkout -- .
git -C /repo status --short
