#!/usr/bin/env python3
"""For every seeded change: which equivalence theorems of the source tie break?  (The tie alone, without the
correspondence run: translator on a scratch worktree with the patch applied, then one Lean elaboration.)
usage: tools/tie_seeds.py [name-prefix ...]   -> prints one line per seed, writes seeded/tie_results.json"""
import importlib.machinery, importlib.util, json, os, subprocess, sys
ROOT = os.path.dirname(os.path.dirname(os.path.abspath(__file__)))
loader = importlib.machinery.SourceFileLoader("check", os.path.join(ROOT, "check"))
spec = importlib.util.spec_from_loader("check", loader)
check = importlib.util.module_from_spec(spec)
loader.exec_module(check)

WT = "/tmp/tie_wt"
def sh(cmd, cwd=None):
    p = subprocess.run(cmd, cwd=cwd, stdout=subprocess.PIPE, stderr=subprocess.STDOUT)
    return p.returncode, p.stdout.decode("utf-8", "replace")

def main():
    cfg = check.load_config()
    names = sorted(d for d in os.listdir(os.path.join(ROOT, "seeded")) if os.path.isdir(os.path.join(ROOT, "seeded", d)))
    if len(sys.argv) > 1:
        names = [n for n in names if any(n.startswith(a) for a in sys.argv[1:])]
    check.translator_build()
    sh([check.RS2LEAN, "--src", "/repo/src", "--out", check.EXTRACTED, "--report", os.path.join(check.WORK, "report_base.json")])
    results = {}
    sh(["git", "-C", "/repo", "worktree", "remove", "--force", WT])
    rc, out = sh(["git", "-C", "/repo", "worktree", "add", "--detach", WT, "HEAD"])
    if rc != 0:
        print(out); return 1
    try:
        for n in names:
            sh(["git", "checkout", "--", "."], cwd=WT)
            sh(["git", "clean", "-fdq"], cwd=WT)
            rc, out = sh(["git", "apply", os.path.join(ROOT, "seeded", n, "patch.diff")], cwd=WT)
            if rc != 0:
                print("%s: patch does not apply" % n); continue
            ext = os.path.join(check.WORK, "Extracted_seed.lean")
            rep = os.path.join(check.WORK, "report_seed.json")
            os.makedirs(check.WORK, exist_ok=True)
            if os.path.exists(ext):
                os.remove(ext)
            sh([check.RS2LEAN, "--src", os.path.join(WT, "src"), "--out", ext, "--report", rep])
            with open(os.path.join(check.LEAN, "SemverGen", "Extracted.lean")) as f:
                same = f.read() == open(ext).read()
            report = json.load(open(rep))
            broken = {} if same else check.attribute_broken(os.path.relpath(ext, check.LEAN))
            meta = json.load(open(os.path.join(ROOT, "seeded", n, "meta.json")))
            pid = meta.get("breaks_property", n[:3])
            wanted = cfg["properties"].get(pid, {}).get("source_tie", [])
            mine = sorted(b.split(".")[-1] for b in broken if b.split(".")[-1] in wanted)
            exp = check.load_expected_sites() or []
            from collections import Counter
            new_sites = sorted((Counter(check.collect_sites(report)) - Counter(exp)).elements())
            fns = set()
            for t in wanted:
                fns.update(check.theorem_functions(t))
            new_sites = [s for s in new_sites if pid == "C06" or s.split("|")[0] in fns]
            results[n] = {"property": pid, "generated_text_changed": not same, "broken_for_property": mine,
                          "broken_all": sorted(b.split(".")[-1] for b in broken), "new_sites": new_sites,
                          "new_functions": report.get("new_functions", [])}
            print("%-45s %s changed=%s broken(%s)=%s%s" % (n, pid, not same, pid, mine or "-", (" new_sites=%d" % len(new_sites)) if new_sites else ""))
            sys.stdout.flush()
    finally:
        sh(["git", "-C", "/repo", "worktree", "remove", "--force", WT])
    with open(os.path.join(ROOT, "seeded", "tie_results.json"), "w") as f:
        json.dump(results, f, indent=1)
    caught = sum(1 for r in results.values() if r["broken_for_property"] or r["new_sites"])
    print("%d of %d seeded changes break an equivalence theorem of the property they target" % (caught, len(results)))
    return 0

if __name__ == "__main__":
    sys.exit(main())
