#!/usr/bin/env python3
"""translator/guard_tests/*.diff: each puts code where a syntactic reading of the function bodies does not look; each must
break the source tie.  Prints `caught` / `MISSED` per patch.  Uses a scratch worktree of /repo under /tmp, removed afterwards."""
import subprocess, sys, os, json, glob, importlib.machinery, importlib.util
ROOT = os.path.dirname(os.path.dirname(os.path.abspath(__file__)))
WT = "/tmp/hw_guards"
subprocess.run(["git", "-C", "/repo", "worktree", "remove", "--force", WT], stdout=subprocess.DEVNULL, stderr=subprocess.DEVNULL)
subprocess.run(["git", "-C", "/repo", "worktree", "add", "-q", "--detach", WT, "HEAD"])
loader = importlib.machinery.SourceFileLoader("check", os.path.join(ROOT, "check"))
spec = importlib.util.spec_from_loader("check", loader); check = importlib.util.module_from_spec(spec); loader.exec_module(check)
check.translator_build()
missed = 0
for f in sorted(glob.glob(os.path.join(ROOT, "translator", "guard_tests", "*.diff"))):
    subprocess.run(["git", "checkout", "--", "."], cwd=WT)
    subprocess.run(["git", "apply", f], cwd=WT, check=True)
    ext = os.path.join(check.WORK, "Extracted_g.lean"); rep = os.path.join(check.WORK, "report_g.json")
    subprocess.run([check.RS2LEAN, "--src", WT + "/src", "--out", ext, "--report", rep])
    r = json.load(open(rep))
    broken = check.attribute_broken(os.path.relpath(ext, check.LEAN))
    ok = bool(broken)
    missed += 0 if ok else 1
    print("%-45s %s  (%d declarations broken; global: %s)" % (os.path.basename(f), "caught" if ok else "MISSED", len(broken), "; ".join(r.get("global_problems", []))[:140]))
    sys.stdout.flush()
subprocess.run(["git", "-C", "/repo", "worktree", "remove", "--force", WT])
sys.exit(1 if missed else 0)
