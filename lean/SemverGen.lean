import SemverGen.RustPrelude
import SemverGen.Extracted
