import SemverSpec.Precedence
import SemverSpec.NpmDiff
import SemverSpec.Sets
import SemverSpec.VersionLang
import SemverSpec.VersionGrammar
import SemverSpec.Location
import SemverSpec.NpmRender
import SemverSpec.NpmText
