import Lean
/-!
# A tactic for the equivalence proofs: unfold the helper functions the translator generated on the fly

When somebody extracts a helper function from a function of the crate, the translator emits it as
`Semver.Gen.auto_<name>` before its user.  Its name is not known when the equivalence proofs are written, so they
cannot mention it; `unfold_auto_helpers` unfolds whatever such helpers occur in the goal.  Plain metaprogramming: no
axioms, nothing is added to the environment.
-/
open Lean Elab Tactic Meta in
elab "unfold_auto_helpers" : tactic => do
  let g ← getMainGoal
  let t ← instantiateMVars (← g.getType)
  let consts := t.getUsedConstants.filter (fun n => match n with
    | .str p s => p == `Semver.Gen && s.startsWith "auto_"
    | _ => false)
  if consts.isEmpty then throwError "no generated helper in the goal"
  for c in consts do
    evalTactic (← `(tactic| unfold $(mkIdent c):ident))
