import SemverGen.RustPrelude
import SemverModel.VersionParse
/-!
# Meaning of the winnow 0.6.26 combinators the crate's parsers are written with

A parser is a function from the remaining input to a value with the new remaining input, or to what the
crate's `SemverParseError` keeps of a winnow failure (`Semver.PErr`: the input at the point of failure, the
outermost context, an explicit kind).  Every error of the crate is a `Backtrack` (no `cut_err` is used).
Read from `winnow-0.6.26/src/combinator/{branch,core,multi,sequence}.rs`, `src/parser.rs`, `src/token`,
`src/ascii` and from the crate's `impl ParserError / AddContext / FromExternalError for SemverParseError`:

* a primitive that fails does not consume and reports at its start (`from_error_kind`: no context, no kind);
* `alt` tries the branches from the same start; if all fail the error is the last branch's with the input reset
  to the start (`or` keeps the later error, `append` stores the current input);
* `opt` turns a failure into `None` at the start; `peek` never consumes;
* `.context(c)` overwrites the context of a failure and keeps its input and kind (`add_context`);
* `try_map` fails with exactly the error its closure returns (`from_external_error` is the identity);
* `separated(0.., p, sep)` stops (successfully, at the position before the separator) when `sep` or the following
  `p` fails; a separator that succeeds without consuming is an assertion failure (a listed panic site in builds
  with debug assertions; here: a failure at that position);
* `repeat_till(0.., f, g)` tries `g` first, then `f`; an `f` that does not consume is an assertion failure.
Loops carry the length of the input as fuel: every round consumes at least one character.
-/
namespace Winnow
open Semver

abbrev Parser (α : Type) := List Char → PRes α

instance : Monad Parser where
  pure a := fun s => .ok a s
  bind p f := fun s =>
    match p s with
    | .ok a r => f a r
    | .err e => .err e

/-- `ParserError::from_error_kind(input, _)` -/
def errAt (s : List Char) : PErr := ⟨s, none, none⟩

/-- `*input` / `input.clone()`: the remaining input -/
def getInput : Parser (List Char) := fun s => .ok s s

/-- `Err(ErrMode::Backtrack(e))` -/
def fail {α : Type} (e : PErr) : Parser α := fun _ => .err e

def isPrefix : List Char → List Char → Bool
  | [], _ => true
  | _ :: _, [] => false
  | a :: as, b :: bs => a == b && isPrefix as bs

/-- `literal(t)` -/
def literal (t : List Char) : Parser (List Char) := fun s =>
  if isPrefix t s then .ok t (s.drop t.length) else .err (errAt s)

/-- `take_while(0.., p)` -/
def takeWhile0 (p : Char → Bool) : Parser (List Char) := fun s =>
  let r := span p s
  .ok r.1 r.2

/-- `take_while(1.., p)` -/
def takeWhile1 (p : Char → Bool) : Parser (List Char) := fun s =>
  let r := span p s
  if r.1.isEmpty then .err (errAt s) else .ok r.1 r.2

/-- `AsChar::is_dec_digit` -/
def isDecDigit (c : Char) : Bool := '0' ≤ c && c ≤ '9'
/-- `AsChar::is_space`: space or tab -/
def isSpace (c : Char) : Bool := c == ' ' || c == '\t'

def digit1 : Parser (List Char) := takeWhile1 isDecDigit
def space0 : Parser (List Char) := takeWhile0 isSpace
def space1 : Parser (List Char) := takeWhile1 isSpace

/-- `eof` -/
def eof : Parser (List Char) := fun s =>
  match s with
  | [] => .ok [] []
  | _ :: _ => .err (errAt s)

/-- `any` -/
def any : Parser Char := fun s =>
  match s with
  | c :: cs => .ok c cs
  | [] => .err (errAt s)

def opt {α : Type} (p : Parser α) : Parser (Option α) := fun s =>
  match p s with
  | .ok a r => .ok (some a) r
  | .err _ => .ok none s

def peek {α : Type} (p : Parser α) : Parser α := fun s =>
  match p s with
  | .ok a _ => .ok a s
  | .err e => .err e

def map {α β : Type} (p : Parser α) (f : α → β) : Parser β := fun s =>
  match p s with
  | .ok a r => .ok (f a) r
  | .err e => .err e

/-- `Parser::try_map(p, f)` with a closure returning `Result<_, SemverParseError>` -/
def tryMap {α β : Type} (p : Parser α) (f : α → Except PErr β) : Parser β := fun s =>
  match p s with
  | .ok a r =>
    match f a with
    | .ok b => .ok b r
    | .error e => .err e
  | .err e => .err e

/-- `Parser::take(p)`: the consumed slice -/
def take {α : Type} (p : Parser α) : Parser (List Char) := fun s =>
  match p s with
  | .ok _ r => .ok (s.take (s.length - r.length)) r
  | .err e => .err e

/-- `.context(c)` -/
def context {α : Type} (c : String) (p : Parser α) : Parser α := fun s =>
  match p s with
  | .ok a r => .ok a r
  | .err e => .err (e.withCtx c)

def altFrom {α : Type} (start : List Char) : List (Parser α) → PErr → PRes α
  | [], last => .err { last with rest := start }
  | p :: ps, _ =>
    match p start with
    | .ok a r => .ok a r
    | .err e => altFrom start ps e

/-- `alt((p1, …, pn))` -/
def alt {α : Type} (ps : List (Parser α)) : Parser α := fun s => altFrom s ps (errAt s)

def preceded {α β : Type} (a : Parser α) (b : Parser β) : Parser β := do let _ ← a; b
def terminated {α β : Type} (a : Parser α) (b : Parser β) : Parser α := do let x ← a; let _ ← b; pure x
def delimited {α β γ : Type} (a : Parser α) (b : Parser β) (c : Parser γ) : Parser β := do
  let _ ← a; let x ← b; let _ ← c; pure x
/-- `separated_pair(a, sep, b)`: `a`, then `sep` (dropped), then `b` (winnow 0.6.26 `combinator/sequence.rs`) -/
def separatedPair {α β γ : Type} (a : Parser α) (sep : Parser β) (b : Parser γ) : Parser (α × γ) := do
  let x ← a; let _ ← sep; let y ← b; pure (x, y)

def seq2 {α β : Type} (a : Parser α) (b : Parser β) : Parser (α × β) := do
  let x ← a; let y ← b; pure (x, y)
def seq3 {α β γ : Type} (a : Parser α) (b : Parser β) (c : Parser γ) : Parser (α × β × γ) := do
  let x ← a; let y ← b; let z ← c; pure (x, y, z)
def seq4 {α β γ δ : Type} (a : Parser α) (b : Parser β) (c : Parser γ) (d : Parser δ) : Parser (α × β × γ × δ) := do
  let x ← a; let y ← b; let z ← c; let w ← d; pure (x, y, z, w)
def seq5 {α β γ δ ε : Type} (a : Parser α) (b : Parser β) (c : Parser γ) (d : Parser δ) (e : Parser ε) :
    Parser (α × β × γ × δ × ε) := do
  let x ← a; let y ← b; let z ← c; let w ← d; let v ← e; pure (x, y, z, w, v)
def seq6 {α β γ δ ε ζ : Type} (a : Parser α) (b : Parser β) (c : Parser γ) (d : Parser δ) (e : Parser ε)
    (f : Parser ζ) : Parser (α × β × γ × δ × ε × ζ) := do
  let x ← a; let y ← b; let z ← c; let w ← d; let v ← e; let u ← f; pure (x, y, z, w, v, u)

/-- the loop of `separated`: after an element, `sep` then `p`, as long as both succeed -/
def separatedLoop {α β : Type} (p : Parser α) (sep : Parser β) : Nat → List Char → PRes (List α)
  | 0, s => .ok [] s
  | fuel + 1, s =>
    match sep s with
    | .err _ => .ok [] s
    | .ok _ r =>
      if r.length == s.length then .err (errAt r)   -- assertion: the separator must consume
      else
        match p r with
        | .err _ => .ok [] s
        | .ok a r' =>
          match separatedLoop p sep fuel r' with
          | .ok as r'' => .ok (a :: as) r''
          | .err e => .err e

/-- `separated(0.., p, sep)` -/
def separated0 {α β : Type} (p : Parser α) (sep : Parser β) : Parser (List α) := fun s =>
  match p s with
  | .err _ => .ok [] s
  | .ok a r =>
    match separatedLoop p sep (r.length + 1) r with
    | .ok as r' => .ok (a :: as) r'
    | .err e => .err e

/-- `separated(1.., p, sep)` -/
def separated1 {α β : Type} (p : Parser α) (sep : Parser β) : Parser (List α) := fun s =>
  match p s with
  | .err e => .err e
  | .ok a r =>
    match separatedLoop p sep (r.length + 1) r with
    | .ok as r' => .ok (a :: as) r'
    | .err e => .err e

/-- `repeat_till(0.., f, g)` collecting into `()` -/
def repeatTill0 {α β : Type} (f : Parser α) (g : Parser β) : Nat → Parser (Unit × β)
  | 0, s => .err (errAt s)
  | fuel + 1, s =>
    match g s with
    | .ok b r => .ok ((), b) r
    | .err _ =>
      match f s with
      | .err e => .err { e with rest := s }     -- `e.append(i, &start, Many)`: `i` is where `f` left it; see note
      | .ok _ r =>
        if r.length == s.length then .err (errAt r)   -- assertion: the parser must consume
        else repeatTill0 f g fuel r

/-! ### running a parser from ordinary code: `p.parse_next(&mut x)` -/

/-- `winnow::error::ErrMode`; the crate's parsers only ever produce `Backtrack` -/
inductive ErrMode where
  | Backtrack (e : PErr)
  | Cut (e : PErr)
  | Incomplete (n : Unit)

/-- the result of `p.parse_next(&mut x)` and the new value of `x`.  After a failure `x` is where the error
says: primitives fail without consuming, `alt` and `try_map` reset to their start, which is also the input
their errors carry, and every other combinator leaves the input where its failing part left it. -/
def run {α : Type} (p : Parser α) (s : List Char) : Except ErrMode α × List Char :=
  match p s with
  | .ok a r => (.ok a, r)
  | .err e => (.error (.Backtrack e), e.rest)

end Winnow

namespace Semver
/-- the crate's field names of `SemverParseError` -/
def PErr.input (e : PErr) : List Char := e.rest
def PErr.context (e : PErr) : Option String := e.ctx
end Semver
