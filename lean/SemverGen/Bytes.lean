import SemverGen.RustPrelude
import SemverModel.Error
/-!
# Strings as bytes and as sub-slices (for `SemverError::location`)

`location()` is the one function of the crate that looks at a string as bytes and compares the addresses of
two sub-slices of the same string.  Its operations are given their meaning here.

* A **byte** of a string is identified by the character it belongs to and its index inside that character's
  UTF-8 encoding.  The only thing the crate asks of a byte is whether it equals an ASCII byte literal
  (`b == b'\n'`); by the design of UTF-8 (every byte of a multi-byte encoding is ≥ 0x80) that is the case
  exactly for the single byte of that ASCII character — this fact is the content of `byte_eq`, and it is
  trusted, not derived from a bit-level encoding.
* A **sub-slice** `&s[a..]` is its start offset (in bytes, relative to `s`) and its characters; `as_ptr` of
  sub-slices of the same string compares start offsets.  Slicing at an offset that is not a character boundary
  (or beyond the end) is a listed panic site; in the logic it gives `default`.
-/
namespace Rust

structure Byte where
  c : Char
  k : Nat
deriving Repr, Inhabited

def bytesOf (c : Char) : List Byte := (List.range c.utf8Size).map (fun k => ⟨c, k⟩)
/-- `str::as_bytes` -/
def as_bytes (s : List Char) : List Byte := s.flatMap bytesOf
/-- `b == b'a'` for an ASCII literal `a` -/
def byte_eq (b : Byte) (a : Char) : Bool := b.k == 0 && b.c == a
/-- `bytecount::count(bytes, b'a')` -/
def bytecount (l : List Byte) (a : Char) : Nat := (l.filter (fun b => byte_eq b a)).length
/-- `Iterator::rev` -/
def rev {α : Type} (l : List α) : List α := l.reverse
/-- `Iterator::position` -/
def position {α : Type} (l : List α) (p : α → Bool) : Option Nat := l.findIdx? p
/-- `Iterator::rposition` (on an exact-size double-ended iterator such as `slice::Iter`): the index of the last match -/
def rposition {α : Type} (l : List α) (p : α → Bool) : Option Nat :=
  (l.reverse.findIdx? p).map (fun pos => l.length - 1 - pos)

structure StrSlice where
  start : Nat
  chars : List Char
deriving Repr, Inhabited

class RIndexTo (c : Type) where
  index_to : c → Nat → c
/-- `&bytes[..n]` (panics if `n > len`: a listed site) -/
instance : RIndexTo (List Byte) := ⟨fun l n => l.take n⟩
def index_to {c : Type} [RIndexTo c] (x : c) (n : Nat) : c := RIndexTo.index_to x n

class RIndexFrom (c : Type) (r : outParam Type) where
  index_from : c → Nat → r
/-- `&s[n..]` on a string (panics unless `n` is a character boundary of `s`: a listed site) -/
instance : RIndexFrom (List Char) StrSlice :=
  ⟨fun s n => match Semver.splitAtByte s n with
    | some (_, r) => ⟨n, r⟩
    | none => default⟩
def index_from {c r : Type} [RIndexFrom c r] (x : c) (n : Nat) : r := RIndexFrom.index_from x n

/-- one line off the front: the text up to the first `\n` (without a `\r` just before it), and what follows the `\n` -/
def splitLine : List Char → List Char × Option (List Char)
  | [] => ([], none)
  | '\n' :: t => ([], some t)
  | c :: t =>
    let r := splitLine t
    (c :: r.1, r.2)

def stripCr (l : List Char) : List Char :=
  match l.reverse with
  | '\r' :: t => t.reverse
  | _ => l

def linesFrom (fuel start : Nat) (s : List Char) : List StrSlice :=
  match fuel with
  | 0 => []
  | fuel + 1 =>
    match s with
    | [] => []
    | _ =>
      let r := splitLine s
      match r.2 with
      | none => [⟨start, r.1⟩]           -- the last line, without a final newline (a trailing `\r` is kept)
      | some t => ⟨start, stripCr r.1⟩ :: linesFrom fuel (start + Semver.utf8Len r.1 + 1) t

/-- `str::lines` on a sub-slice: every line is a sub-slice of the same string -/
def lines (x : StrSlice) : List StrSlice := linesFrom (x.chars.length + 1) x.start x.chars
/-- `Iterator::next` on a fresh iterator -/
def iter_first {α : Type} (l : List α) : Option α := l.head?
/-- `str::trim_end`: trailing white space removed, the start stays -/
def trim_end (x : StrSlice) : StrSlice := ⟨x.start, (x.chars.reverse.dropWhile Char.isWhitespace).reverse⟩

/-- `a.as_ptr() as usize - b.as_ptr() as usize` for sub-slices of one string: the difference of their start offsets -/
instance : RPtrDiff StrSlice := ⟨fun a b => a.start - b.start⟩

end Rust

namespace Semver
/-- `SemverError::offset` is `self.span.offset()` (held to that text by the translator): the model's field -/
def SemverError.rs_offset (e : SemverError) : Nat := e.offset
end Semver
