import SemverGen.RustPrelude
import SemverGen.Winnow
import SemverGen.Bytes
/-!
# Definitions extracted from the Rust source by `translator/` (rs2lean)

GENERATED FILE — regenerated from /repo/src on every run of ./check; do not edit.
Each definition is the body of one function of the crate, construct for construct, over the
model's data types; `SemverProofs/GenEquiv*.lean` proves each equal to the model function.
-/
set_option linter.unusedVariables false
-- an arm the Rust compiler accepts although earlier arms cover it is not an error here either
set_option match.ignoreUnusedAlts true

/-- no import is renamed or redirected, no item of the crate is named like a std / winnow item the translation gives a fixed meaning -/
theorem Semver.Gen.names_as_expected : True := trivial

/-! ### The crate's data types have the shape of the model's types -/
/-- every data type is declared as the translation expects, token for token (field and payload types, integer widths, order) -/
theorem Semver.Gen.declarations_as_expected : True := trivial
-- enum Bound (2 variants)
def Semver.Gen.shape_Bound : Semver.Bound → Unit
  | Semver.Bound.lo (_ : Semver.Pred) => ()
  | Semver.Bound.up (_ : Semver.Pred) => ()
-- struct BoundSet (2 fields)
def Semver.Gen.shape_BoundSet (x : Semver.BoundSet) : Semver.Bound × Semver.Bound := (x.upper, x.lower)
def Semver.Gen.build_BoundSet (x0 : Semver.Bound) (x1 : Semver.Bound) : Semver.BoundSet := { upper := x0, lower := x1 }
-- enum Identifier (2 variants)
def Semver.Gen.shape_Identifier : Semver.Ident → Unit
  | Semver.Ident.num (_ : Nat) => ()
  | Semver.Ident.alpha (_ : (List Char)) => ()
-- enum Operation (5 variants)
def Semver.Gen.shape_Operation : Semver.Operation → Unit
  | Semver.Operation.exact => ()
  | Semver.Operation.gt => ()
  | Semver.Operation.ge => ()
  | Semver.Operation.lt => ()
  | Semver.Operation.le => ()
-- struct Partial (5 fields)
def Semver.Gen.shape_Partial (x : Semver.Partial) : (Option Nat) × (Option Nat) × (Option Nat) × (List Semver.Ident) × (List Semver.Ident) := (x.major, x.minor, x.patch, x.pre, x.build)
def Semver.Gen.build_Partial (x0 : (Option Nat)) (x1 : (Option Nat)) (x2 : (Option Nat)) (x3 : (List Semver.Ident)) (x4 : (List Semver.Ident)) : Semver.Partial := { major := x0, minor := x1, patch := x2, pre := x3, build := x4 }
-- enum Predicate (3 variants)
def Semver.Gen.shape_Predicate : Semver.Pred → Unit
  | Semver.Pred.exc (_ : Semver.Version) => ()
  | Semver.Pred.inc (_ : Semver.Version) => ()
  | Semver.Pred.unb => ()
-- struct Range(…): represented by its only field
def Semver.Gen.shape_Range (x : Semver.Range) : (List Semver.BoundSet) := x
-- struct Version (5 fields)
def Semver.Gen.shape_Version (x : Semver.Version) : Nat × Nat × Nat × (List Semver.Ident) × (List Semver.Ident) := (x.major, x.minor, x.patch, x.build, x.pre)
def Semver.Gen.build_Version (x0 : Nat) (x1 : Nat) (x2 : Nat) (x3 : (List Semver.Ident)) (x4 : (List Semver.Ident)) : Semver.Version := { major := x0, minor := x1, patch := x2, build := x3, pre := x4 }
-- enum VersionDiff (7 variants)
def Semver.Gen.shape_VersionDiff : Semver.VersionDiff → Unit
  | Semver.VersionDiff.major => ()
  | Semver.VersionDiff.minor => ()
  | Semver.VersionDiff.patch => ()
  | Semver.VersionDiff.preMajor => ()
  | Semver.VersionDiff.preMinor => ()
  | Semver.VersionDiff.prePatch => ()
  | Semver.VersionDiff.preRelease => ()

/-- `const MAX_SAFE_INTEGER` -/
def Semver.Gen.MAX_SAFE_INTEGER : Nat := 900719925474099

/-- `const MAX_LENGTH` -/
def Semver.Gen.MAX_LENGTH : Nat := 256

/-- `#[derive(PartialEq)]` on `Identifier`: same variant and equal fields -/
def Semver.Ident.rs_eq (a b : Semver.Ident) : Bool :=
  match a, b with
  | Semver.Ident.num x0, Semver.Ident.num y0 => Rust.REq.eq x0 y0
  | Semver.Ident.alpha x0, Semver.Ident.alpha y0 => Rust.REq.eq x0 y0
  | _, _ => false
instance : Rust.REq Semver.Ident := ⟨Semver.Ident.rs_eq⟩

/-- `#[derive(PartialOrd, Ord)]` on `Identifier`: variants in declaration order, then fields lexicographically -/
def Semver.Ident.rs_cmp (a b : Semver.Ident) : Ordering :=
  match a, b with
  | Semver.Ident.num x0, Semver.Ident.num y0 => Rust.ROrd.cmp x0 y0
  | Semver.Ident.num _, Semver.Ident.alpha _ => Ordering.lt
  | Semver.Ident.alpha _, Semver.Ident.num _ => Ordering.gt
  | Semver.Ident.alpha x0, Semver.Ident.alpha y0 => Rust.ROrd.cmp x0 y0
instance : Rust.ROrd Semver.Ident := ⟨Semver.Ident.rs_cmp⟩

/-- `Identifier::fmt` (lib.rs:259-264) -/
def Semver.Ident.rs_fmt (self : Semver.Ident) : (List Char) := Id.run do
  let mut f : List Char := []
  match self with
  | (Semver.Ident.num n) =>
    f := f ++ (Rust.display n)
  | (Semver.Ident.alpha s) =>
    f := f ++ (Rust.display s)
  return f
instance : Rust.RDisplay Semver.Ident := ⟨Semver.Ident.rs_fmt⟩

/-- `Version::is_prerelease` (lib.rs:330-332) -/
def Semver.Version.rs_is_prerelease (self : Semver.Version) : Bool :=
  (!(Rust.is_empty self.pre))

/-- `Version::eq` (lib.rs:454-459) -/
def Semver.Version.rs_eq (self : Semver.Version) (other : Semver.Version) : Bool :=
  ((((Rust.REq.eq self.major other.major) && (Rust.REq.eq self.minor other.minor)) && (Rust.REq.eq self.patch other.patch)) && (Rust.REq.eq self.pre other.pre))
instance : Rust.REq Semver.Version := ⟨Semver.Version.rs_eq⟩

/-- `Version::cmp` (lib.rs:585-614) -/
def Semver.Version.rs_cmp (self : Semver.Version) (other : Semver.Version) : Ordering := Id.run do
  match (Rust.ROrd.cmp self.major other.major) with
  | Ordering.eq =>
    pure ()
  | order_result =>
    return order_result
  match (Rust.ROrd.cmp self.minor other.minor) with
  | Ordering.eq =>
    pure ()
  | order_result =>
    return order_result
  match (Rust.ROrd.cmp self.patch other.patch) with
  | Ordering.eq =>
    pure ()
  | order_result =>
    return order_result
  return (match ((Rust.len self.pre), (Rust.len other.pre)) with
      | (0, 0) => Ordering.eq
      | (0, _) => Ordering.gt
      | (_, 0) => Ordering.lt
      | (_, _) => (Rust.ROrd.cmp self.pre other.pre))
instance : Rust.ROrd Semver.Version := ⟨Semver.Version.rs_cmp⟩

/-- `impl PartialOrd for Version` is `Some(self.cmp(other))`: `<`, `<=`, `>`, `>=` are those of `cmp` -/
theorem Semver.Gen.partial_cmp_is_cmp_Version : True := trivial

/-- `Version::hash` (lib.rs:465-470) -/
/- the values fed to the hasher, in order -/
def Semver.Version.rs_hash (self : Semver.Version) :=
  (self.major, self.minor, self.patch, self.pre)

/-- `Version::diff` (lib.rs:384-450) -/
def Semver.Version.rs_diff (self : Semver.Version) (other : Semver.Version) : (Option Semver.VersionDiff) := Id.run do
  let cmp_result := (Rust.ROrd.cmp self other)
  if (Rust.REq.eq cmp_result Ordering.eq) then
    return none
  let self_higher := (Rust.REq.eq cmp_result Ordering.gt)
  let high_version := (if self_higher then self else other)
  let low_version := (if self_higher then other else self)
  let high_has_pre := (Semver.Version.rs_is_prerelease high_version)
  let low_has_pre := (Semver.Version.rs_is_prerelease low_version)
  if (low_has_pre && (!high_has_pre)) then
    if ((Rust.REq.eq low_version.patch 0) && (Rust.REq.eq low_version.minor 0)) then
      return (some Semver.VersionDiff.major)
    if (Rust.ne high_version.patch 0) then
      return (some Semver.VersionDiff.patch)
    if (Rust.ne high_version.minor 0) then
      return (some Semver.VersionDiff.minor)
    return (some Semver.VersionDiff.major)
  if (Rust.ne self.major other.major) then
    if high_has_pre then
      return (some Semver.VersionDiff.preMajor)
    return (some Semver.VersionDiff.major)
  if (Rust.ne self.minor other.minor) then
    if high_has_pre then
      return (some Semver.VersionDiff.preMinor)
    return (some Semver.VersionDiff.minor)
  if (Rust.ne self.patch other.patch) then
    if high_has_pre then
      return (some Semver.VersionDiff.prePatch)
    return (some Semver.VersionDiff.patch)
  return (some Semver.VersionDiff.preRelease)

/-- `VersionDiff::fmt` (lib.rs:283-293) -/
def Semver.VersionDiff.rs_fmt (self : Semver.VersionDiff) : (List Char) := Id.run do
  let mut f : List Char := []
  match self with
  | Semver.VersionDiff.major =>
    f := f ++ (['m', 'a', 'j', 'o', 'r'])
  | Semver.VersionDiff.minor =>
    f := f ++ (['m', 'i', 'n', 'o', 'r'])
  | Semver.VersionDiff.patch =>
    f := f ++ (['p', 'a', 't', 'c', 'h'])
  | Semver.VersionDiff.preMajor =>
    f := f ++ (['p', 'r', 'e', 'm', 'a', 'j', 'o', 'r'])
  | Semver.VersionDiff.preMinor =>
    f := f ++ (['p', 'r', 'e', 'm', 'i', 'n', 'o', 'r'])
  | Semver.VersionDiff.prePatch =>
    f := f ++ (['p', 'r', 'e', 'p', 'a', 't', 'c', 'h'])
  | Semver.VersionDiff.preRelease =>
    f := f ++ (['p', 'r', 'e', 'r', 'e', 'l', 'e', 'a', 's', 'e'])
  return f
instance : Rust.RDisplay Semver.VersionDiff := ⟨Semver.VersionDiff.rs_fmt⟩

/-- `Version::fmt` (lib.rs:474-496) -/
def Semver.Version.rs_fmt (self : Semver.Version) : (List Char) := Id.run do
  let mut f : List Char := []
  f := f ++ (Rust.display self.major ++ ['.'] ++ Rust.display self.minor ++ ['.'] ++ Rust.display self.patch)
  for (i, ident) in (Rust.enumerate self.pre) do
    if (Rust.REq.eq i 0) then
      f := f ++ (['-'])
    else
      f := f ++ (['.'])
    f := f ++ (Rust.display ident)
  for (i, ident) in (Rust.enumerate self.build) do
    if (Rust.REq.eq i 0) then
      f := f ++ (['+'])
    else
      f := f ++ (['.'])
    f := f ++ (Rust.display ident)
  pure ()
  return f
instance : Rust.RDisplay Semver.Version := ⟨Semver.Version.rs_fmt⟩

/-- `Version::from` (lib.rs:503-511) -/
def Semver.Version.rs_from_u64x3 (arg1 : (Nat × Nat × Nat)) : Semver.Version :=
  let (major, minor, patch) := arg1
  ({ major := (Rust.as_u64 major), minor := (Rust.as_u64 minor), patch := (Rust.as_u64 patch), build := [], pre := [] } : Semver.Version)
instance : Rust.RInto (Nat × Nat × Nat) Semver.Version := ⟨Semver.Version.rs_from_u64x3⟩

/-- `Version::from` (lib.rs:515-523) -/
def Semver.Version.rs_from_u64x4 (arg1 : (Nat × Nat × Nat × Nat)) : Semver.Version :=
  let (major, minor, patch, pre_release) := arg1
  ({ major := (Rust.as_u64 major), minor := (Rust.as_u64 minor), patch := (Rust.as_u64 patch), build := [], pre := [(Semver.Ident.num (Rust.as_u64 pre_release))] } : Semver.Version)
instance : Rust.RInto (Nat × Nat × Nat × Nat) Semver.Version := ⟨Semver.Version.rs_from_u64x4⟩

/-- `Version::from` (lib.rs:503-511) -/
def Semver.Version.rs_from_u8x3 (arg1 : (Nat × Nat × Nat)) : Semver.Version :=
  let (major, minor, patch) := arg1
  ({ major := (Rust.as_u64 major), minor := (Rust.as_u64 minor), patch := (Rust.as_u64 patch), build := [], pre := [] } : Semver.Version)

/-- `Version::from` (lib.rs:515-523) -/
def Semver.Version.rs_from_u8x4 (arg1 : (Nat × Nat × Nat × Nat)) : Semver.Version :=
  let (major, minor, patch, pre_release) := arg1
  ({ major := (Rust.as_u64 major), minor := (Rust.as_u64 minor), patch := (Rust.as_u64 patch), build := [], pre := [(Semver.Ident.num (Rust.as_u64 pre_release))] } : Semver.Version)

/-- `Version::from` (lib.rs:503-511) -/
def Semver.Version.rs_from_u16x3 (arg1 : (Nat × Nat × Nat)) : Semver.Version :=
  let (major, minor, patch) := arg1
  ({ major := (Rust.as_u64 major), minor := (Rust.as_u64 minor), patch := (Rust.as_u64 patch), build := [], pre := [] } : Semver.Version)

/-- `Version::from` (lib.rs:515-523) -/
def Semver.Version.rs_from_u16x4 (arg1 : (Nat × Nat × Nat × Nat)) : Semver.Version :=
  let (major, minor, patch, pre_release) := arg1
  ({ major := (Rust.as_u64 major), minor := (Rust.as_u64 minor), patch := (Rust.as_u64 patch), build := [], pre := [(Semver.Ident.num (Rust.as_u64 pre_release))] } : Semver.Version)

/-- `Version::from` (lib.rs:503-511) -/
def Semver.Version.rs_from_u32x3 (arg1 : (Nat × Nat × Nat)) : Semver.Version :=
  let (major, minor, patch) := arg1
  ({ major := (Rust.as_u64 major), minor := (Rust.as_u64 minor), patch := (Rust.as_u64 patch), build := [], pre := [] } : Semver.Version)

/-- `Version::from` (lib.rs:515-523) -/
def Semver.Version.rs_from_u32x4 (arg1 : (Nat × Nat × Nat × Nat)) : Semver.Version :=
  let (major, minor, patch, pre_release) := arg1
  ({ major := (Rust.as_u64 major), minor := (Rust.as_u64 minor), patch := (Rust.as_u64 patch), build := [], pre := [(Semver.Ident.num (Rust.as_u64 pre_release))] } : Semver.Version)

/-- `Version::from` (lib.rs:503-511) -/
def Semver.Version.rs_from_usizex3 (arg1 : (Nat × Nat × Nat)) : Semver.Version :=
  let (major, minor, patch) := arg1
  ({ major := (Rust.as_u64 major), minor := (Rust.as_u64 minor), patch := (Rust.as_u64 patch), build := [], pre := [] } : Semver.Version)

/-- `Version::from` (lib.rs:515-523) -/
def Semver.Version.rs_from_usizex4 (arg1 : (Nat × Nat × Nat × Nat)) : Semver.Version :=
  let (major, minor, patch, pre_release) := arg1
  ({ major := (Rust.as_u64 major), minor := (Rust.as_u64 minor), patch := (Rust.as_u64 patch), build := [], pre := [(Semver.Ident.num (Rust.as_u64 pre_release))] } : Semver.Version)

/-- `Version::from` (lib.rs:533-545) -/
def Semver.Version.rs_from_i64x3 (arg1 : (Int × Int × Int)) : Semver.Version := Id.run do
  let (major, minor, patch) := arg1
  return ({ major := (Rust.as_u64 major), minor := (Rust.as_u64 minor), patch := (Rust.as_u64 patch), build := [], pre := [] } : Semver.Version)
instance : Rust.RInto (Int × Int × Int) Semver.Version := ⟨Semver.Version.rs_from_i64x3⟩

/-- `Version::from` (lib.rs:549-562) -/
def Semver.Version.rs_from_i64x4 (arg1 : (Int × Int × Int × Int)) : Semver.Version := Id.run do
  let (major, minor, patch, pre_release) := arg1
  return ({ major := (Rust.as_u64 major), minor := (Rust.as_u64 minor), patch := (Rust.as_u64 patch), build := [], pre := [(Semver.Ident.num (Rust.as_u64 pre_release))] } : Semver.Version)
instance : Rust.RInto (Int × Int × Int × Int) Semver.Version := ⟨Semver.Version.rs_from_i64x4⟩

/-- `Version::from` (lib.rs:533-545) -/
def Semver.Version.rs_from_i8x3 (arg1 : (Int × Int × Int)) : Semver.Version := Id.run do
  let (major, minor, patch) := arg1
  return ({ major := (Rust.as_u64 major), minor := (Rust.as_u64 minor), patch := (Rust.as_u64 patch), build := [], pre := [] } : Semver.Version)

/-- `Version::from` (lib.rs:549-562) -/
def Semver.Version.rs_from_i8x4 (arg1 : (Int × Int × Int × Int)) : Semver.Version := Id.run do
  let (major, minor, patch, pre_release) := arg1
  return ({ major := (Rust.as_u64 major), minor := (Rust.as_u64 minor), patch := (Rust.as_u64 patch), build := [], pre := [(Semver.Ident.num (Rust.as_u64 pre_release))] } : Semver.Version)

/-- `Version::from` (lib.rs:533-545) -/
def Semver.Version.rs_from_i16x3 (arg1 : (Int × Int × Int)) : Semver.Version := Id.run do
  let (major, minor, patch) := arg1
  return ({ major := (Rust.as_u64 major), minor := (Rust.as_u64 minor), patch := (Rust.as_u64 patch), build := [], pre := [] } : Semver.Version)

/-- `Version::from` (lib.rs:549-562) -/
def Semver.Version.rs_from_i16x4 (arg1 : (Int × Int × Int × Int)) : Semver.Version := Id.run do
  let (major, minor, patch, pre_release) := arg1
  return ({ major := (Rust.as_u64 major), minor := (Rust.as_u64 minor), patch := (Rust.as_u64 patch), build := [], pre := [(Semver.Ident.num (Rust.as_u64 pre_release))] } : Semver.Version)

/-- `Version::from` (lib.rs:533-545) -/
def Semver.Version.rs_from_i32x3 (arg1 : (Int × Int × Int)) : Semver.Version := Id.run do
  let (major, minor, patch) := arg1
  return ({ major := (Rust.as_u64 major), minor := (Rust.as_u64 minor), patch := (Rust.as_u64 patch), build := [], pre := [] } : Semver.Version)

/-- `Version::from` (lib.rs:549-562) -/
def Semver.Version.rs_from_i32x4 (arg1 : (Int × Int × Int × Int)) : Semver.Version := Id.run do
  let (major, minor, patch, pre_release) := arg1
  return ({ major := (Rust.as_u64 major), minor := (Rust.as_u64 minor), patch := (Rust.as_u64 patch), build := [], pre := [(Semver.Ident.num (Rust.as_u64 pre_release))] } : Semver.Version)

/-- `Version::from` (lib.rs:533-545) -/
def Semver.Version.rs_from_isizex3 (arg1 : (Int × Int × Int)) : Semver.Version := Id.run do
  let (major, minor, patch) := arg1
  return ({ major := (Rust.as_u64 major), minor := (Rust.as_u64 minor), patch := (Rust.as_u64 patch), build := [], pre := [] } : Semver.Version)

/-- `Version::from` (lib.rs:549-562) -/
def Semver.Version.rs_from_isizex4 (arg1 : (Int × Int × Int × Int)) : Semver.Version := Id.run do
  let (major, minor, patch, pre_release) := arg1
  return ({ major := (Rust.as_u64 major), minor := (Rust.as_u64 minor), patch := (Rust.as_u64 patch), build := [], pre := [(Semver.Ident.num (Rust.as_u64 pre_release))] } : Semver.Version)

/-- `#[derive(PartialEq)]` on `Predicate`: same variant and equal fields -/
def Semver.Pred.rs_eq (a b : Semver.Pred) : Bool :=
  match a, b with
  | Semver.Pred.exc x0, Semver.Pred.exc y0 => Rust.REq.eq x0 y0
  | Semver.Pred.inc x0, Semver.Pred.inc y0 => Rust.REq.eq x0 y0
  | Semver.Pred.unb, Semver.Pred.unb => true
  | _, _ => false
instance : Rust.REq Semver.Pred := ⟨Semver.Pred.rs_eq⟩

/-- `#[derive(PartialEq)]` on `Bound`: same variant and equal fields -/
def Semver.Bound.rs_eq (a b : Semver.Bound) : Bool :=
  match a, b with
  | Semver.Bound.lo x0, Semver.Bound.lo y0 => Rust.REq.eq x0 y0
  | Semver.Bound.up x0, Semver.Bound.up y0 => Rust.REq.eq x0 y0
  | _, _ => false
instance : Rust.REq Semver.Bound := ⟨Semver.Bound.rs_eq⟩

/-- `#[derive(PartialEq)]` on `BoundSet`: field by field, in declaration order -/
def Semver.BoundSet.rs_eq (a b : Semver.BoundSet) : Bool :=
  Rust.REq.eq a.upper b.upper && Rust.REq.eq a.lower b.lower
instance : Rust.REq Semver.BoundSet := ⟨Semver.BoundSet.rs_eq⟩

/-- `Predicate::flip` (range.rs:254-261) -/
def Semver.Pred.rs_flip (self : Semver.Pred) : Semver.Pred :=
  (match self with
  | (Semver.Pred.exc v) => (Semver.Pred.inc v)
  | (Semver.Pred.inc v) => (Semver.Pred.exc v)
  | Semver.Pred.unb => Semver.Pred.unb)

/-- `Bound::upper` (range.rs:271-273) -/
def Semver.Bound.rs_upper  : Semver.Bound :=
  (Semver.Bound.up Semver.Pred.unb)

/-- `Bound::lower` (range.rs:275-277) -/
def Semver.Bound.rs_lower  : Semver.Bound :=
  (Semver.Bound.lo Semver.Pred.unb)

/-- `Bound::is_valid` (range.rs:279-289) -/
def Semver.Bound.rs_is_valid (self : Semver.Bound) : Bool :=
  (match self with
  | (Semver.Bound.lo (Semver.Pred.inc v)) | (Semver.Bound.lo (Semver.Pred.exc v)) | (Semver.Bound.up (Semver.Pred.inc v)) | (Semver.Bound.up (Semver.Pred.exc v)) => (((Rust.le v.major Semver.MAX_SAFE_INTEGER) && (Rust.le v.minor Semver.MAX_SAFE_INTEGER)) && (Rust.le v.patch Semver.MAX_SAFE_INTEGER))
  | _ => true)

/-- `Bound::predicate` (range.rs:291-298) -/
def Semver.Bound.rs_predicate (self : Semver.Bound) : Semver.Pred :=
  (match self with
  | (Semver.Bound.lo p) => p
  | (Semver.Bound.up p) => p)

/-- `Bound::cmp` (range.rs:302-355) -/
def Semver.Bound.rs_cmp (self : Semver.Bound) (other : Semver.Bound) : Ordering :=
  (match (self, other) with
  | ((Semver.Bound.lo Semver.Pred.unb), (Semver.Bound.lo Semver.Pred.unb)) | ((Semver.Bound.up Semver.Pred.unb), (Semver.Bound.up Semver.Pred.unb)) => Ordering.eq
  | ((Semver.Bound.up Semver.Pred.unb), _) | (_, (Semver.Bound.lo Semver.Pred.unb)) => Ordering.gt
  | ((Semver.Bound.lo Semver.Pred.unb), _) | (_, (Semver.Bound.up Semver.Pred.unb)) => Ordering.lt
  | ((Semver.Bound.up (Semver.Pred.inc v1)), (Semver.Bound.up (Semver.Pred.inc v2))) | ((Semver.Bound.up (Semver.Pred.inc v1)), (Semver.Bound.lo (Semver.Pred.inc v2))) | ((Semver.Bound.up (Semver.Pred.exc v1)), (Semver.Bound.up (Semver.Pred.exc v2))) | ((Semver.Bound.lo (Semver.Pred.inc v1)), (Semver.Bound.up (Semver.Pred.inc v2))) | ((Semver.Bound.lo (Semver.Pred.inc v1)), (Semver.Bound.lo (Semver.Pred.inc v2))) | ((Semver.Bound.lo (Semver.Pred.exc v1)), (Semver.Bound.lo (Semver.Pred.exc v2))) => (Rust.ROrd.cmp v1 v2)
  | ((Semver.Bound.lo (Semver.Pred.exc v1)), (Semver.Bound.up (Semver.Pred.exc v2))) | ((Semver.Bound.lo (Semver.Pred.inc v1)), (Semver.Bound.up (Semver.Pred.exc v2))) => (if (Rust.le v2 v1) then Ordering.gt else Ordering.lt)
  | ((Semver.Bound.up (Semver.Pred.inc v1)), (Semver.Bound.lo (Semver.Pred.exc v2))) | ((Semver.Bound.lo (Semver.Pred.exc v1)), (Semver.Bound.up (Semver.Pred.inc v2))) => (if (Rust.lt v2 v1) then Ordering.gt else Ordering.lt)
  | ((Semver.Bound.lo (Semver.Pred.exc v1)), (Semver.Bound.lo (Semver.Pred.inc v2))) | ((Semver.Bound.up (Semver.Pred.inc v1)), (Semver.Bound.up (Semver.Pred.exc v2))) => (if (Rust.lt v1 v2) then Ordering.lt else Ordering.gt)
  | ((Semver.Bound.lo (Semver.Pred.inc v1)), (Semver.Bound.lo (Semver.Pred.exc v2))) | ((Semver.Bound.up (Semver.Pred.exc v1)), (Semver.Bound.lo (Semver.Pred.exc v2))) | ((Semver.Bound.up (Semver.Pred.exc v1)), (Semver.Bound.lo (Semver.Pred.inc v2))) | ((Semver.Bound.up (Semver.Pred.exc v1)), (Semver.Bound.up (Semver.Pred.inc v2))) => (if (Rust.le v1 v2) then Ordering.lt else Ordering.gt))
instance : Rust.ROrd Semver.Bound := ⟨Semver.Bound.rs_cmp⟩

/-- `impl PartialOrd for Bound` is `Some(self.cmp(other))`: `<`, `<=`, `>`, `>=` are those of `cmp` -/
theorem Semver.Gen.partial_cmp_is_cmp_Bound : True := trivial

/-- `BoundSet::new` (range.rs:27-55) -/
def Semver.BoundSet.rs_new (lower : Semver.Bound) (upper : Semver.Bound) : (Option Semver.BoundSet) := Id.run do
  if ((!(Semver.Bound.rs_is_valid lower)) || (!(Semver.Bound.rs_is_valid upper))) then
    return none
  return (let __k := fun (_ : Unit) => (let __k := fun (_ : Unit) => (let __k := fun (_ : Unit) => (match (lower, upper) with
      | _ => none);
      (match (lower, upper) with
      | (lower, upper) => (if (Rust.lt lower upper) then (some ({ lower := lower, upper := upper } : Semver.BoundSet)) else __k ())));
      (match (lower, upper) with
      | ((Semver.Bound.lo (Semver.Pred.inc v1)), (Semver.Bound.up (Semver.Pred.inc v2))) => (if (Rust.REq.eq v1 v2) then (some ({ lower := (Semver.Bound.lo (Semver.Pred.inc v1)), upper := (Semver.Bound.up (Semver.Pred.inc v2)) } : Semver.BoundSet)) else __k ())
      | _ => __k ()));
      (match (lower, upper) with
      | ((Semver.Bound.lo (Semver.Pred.exc v1)), (Semver.Bound.up (Semver.Pred.inc v2))) | ((Semver.Bound.lo (Semver.Pred.inc v1)), (Semver.Bound.up (Semver.Pred.exc v2))) => (if (Rust.REq.eq v1 v2) then none else __k ())
      | _ => __k ()))

/-- `BoundSet::at_least` (range.rs:57-59) -/
def Semver.BoundSet.rs_at_least (p : Semver.Pred) : (Option Semver.BoundSet) :=
  (Semver.BoundSet.rs_new (Semver.Bound.lo p) Semver.Bound.rs_upper)

/-- `BoundSet::at_most` (range.rs:61-63) -/
def Semver.BoundSet.rs_at_most (p : Semver.Pred) : (Option Semver.BoundSet) :=
  (Semver.BoundSet.rs_new Semver.Bound.rs_lower (Semver.Bound.up p))

/-- `BoundSet::exact` (range.rs:65-70) -/
def Semver.BoundSet.rs_exact (version : Semver.Version) : (Option Semver.BoundSet) :=
  (Semver.BoundSet.rs_new (Semver.Bound.lo (Semver.Pred.inc version)) (Semver.Bound.up (Semver.Pred.inc version)))

/-- `BoundSet::satisfies` (range.rs:72-135) -/
def Semver.BoundSet.rs_satisfies (self : Semver.BoundSet) (version : Semver.Version) : Bool := Id.run do
  let lower_bound := (match self.lower with | (Semver.Bound.lo (Semver.Pred.inc lower)) => (Rust.le lower version) | (Semver.Bound.lo (Semver.Pred.exc lower)) => (Rust.lt lower version) | (Semver.Bound.lo Semver.Pred.unb) => true | _ => Rust.unreachable)
  let upper_bound := (match self.upper with | (Semver.Bound.up (Semver.Pred.inc upper)) => (Rust.le version upper) | (Semver.Bound.up (Semver.Pred.exc upper)) => (Rust.lt version upper) | (Semver.Bound.up Semver.Pred.unb) => true | _ => Rust.unreachable)
  if ((!lower_bound) || (!upper_bound)) then
    return false
  if (Semver.Version.rs_is_prerelease version) then
    let lower_version := (match self.lower with | (Semver.Bound.lo (Semver.Pred.inc v)) => (some v) | (Semver.Bound.lo (Semver.Pred.exc v)) => (some v) | _ => none)
    if let (some lower_version) := lower_version then
      if ((((Semver.Version.rs_is_prerelease lower_version) && (Rust.REq.eq version.major lower_version.major)) && (Rust.REq.eq version.minor lower_version.minor)) && (Rust.REq.eq version.patch lower_version.patch)) then
        return true
    let upper_version := (match self.upper with | (Semver.Bound.up (Semver.Pred.inc v)) => (some v) | (Semver.Bound.up (Semver.Pred.exc v)) => (some v) | _ => none)
    if let (some upper_version) := upper_version then
      if ((((Semver.Version.rs_is_prerelease upper_version) && (Rust.REq.eq version.major upper_version.major)) && (Rust.REq.eq version.minor upper_version.minor)) && (Rust.REq.eq version.patch upper_version.patch)) then
        return true
    return false
  return true

/-- `BoundSet::min_version` (range.rs:139-162) -/
def Semver.BoundSet.rs_min_version (self : Semver.BoundSet) : (Option Semver.Version) := Id.run do
  let candidates ← (do
      match self.lower with
      | (Semver.Bound.lo (Semver.Pred.inc v)) =>
        pure [v]
      | (Semver.Bound.lo (Semver.Pred.exc v)) =>
        if (Semver.Version.rs_is_prerelease v) then
          let mut next := v
          next := { next with pre := (next.pre ++ [(Semver.Ident.num 0)]) }
          pure [next]
        else
          let mut next := v
          next := { next with patch := (next.patch + 1) }
          let mut next_pre := next
          next_pre := { next_pre with pre := (next_pre.pre ++ [(Semver.Ident.num 0)]) }
          pure [next_pre, next]
      | (Semver.Bound.lo Semver.Pred.unb) =>
        pure [(Rust.into ((0 : Nat), (0 : Nat), (0 : Nat), (0 : Nat)) : Semver.Version), (Rust.into ((0 : Nat), (0 : Nat), (0 : Nat)) : Semver.Version)]
      | (Semver.Bound.up _) =>
        pure []
      )
  return (Rust.find candidates (fun v => (Semver.BoundSet.rs_satisfies self v)))

/-- `BoundSet::allows_all` (range.rs:164-166) -/
def Semver.BoundSet.rs_allows_all (self : Semver.BoundSet) (other : Semver.BoundSet) : Bool :=
  ((Rust.le self.lower other.lower) && (Rust.le other.upper self.upper))

/-- `BoundSet::allows_any` (range.rs:168-178) -/
def Semver.BoundSet.rs_allows_any (self : Semver.BoundSet) (other : Semver.BoundSet) : Bool := Id.run do
  if (Rust.lt other.upper self.lower) then
    return false
  if (Rust.lt self.upper other.lower) then
    return false
  return true

/-- `BoundSet::intersect` (range.rs:180-185) -/
def Semver.BoundSet.rs_intersect (self : Semver.BoundSet) (other : Semver.BoundSet) : (Option Semver.BoundSet) :=
  (let lower : Semver.Bound := (Rust.max self.lower other.lower)
  let upper : Semver.Bound := (Rust.min self.upper other.upper)
  (Semver.BoundSet.rs_new lower upper))

/-- `BoundSet::difference` (range.rs:187-214) -/
def Semver.BoundSet.rs_difference (self : Semver.BoundSet) (other : Semver.BoundSet) : (Option (List Semver.BoundSet)) := Id.run do
  if let (some overlap) := (Semver.BoundSet.rs_intersect self other) then
    if (Rust.REq.eq overlap self) then
      return none
    if ((Rust.lt self.lower overlap.lower) && (Rust.lt overlap.upper self.upper)) then
      return (some [(Rust.unwrap (Semver.BoundSet.rs_new self.lower (Semver.Bound.up (Semver.Pred.rs_flip (Semver.Bound.rs_predicate overlap.lower))))), (Rust.unwrap (Semver.BoundSet.rs_new (Semver.Bound.lo (Semver.Pred.rs_flip (Semver.Bound.rs_predicate overlap.upper))) self.upper))])
    if (Rust.lt self.lower overlap.lower) then
      return (Rust.map (Semver.BoundSet.rs_new self.lower (Semver.Bound.up (Semver.Pred.rs_flip (Semver.Bound.rs_predicate overlap.lower)))) (fun f => [f]))
    return (Rust.map (Semver.BoundSet.rs_new (Semver.Bound.lo (Semver.Pred.rs_flip (Semver.Bound.rs_predicate overlap.upper))) self.upper) (fun f => [f]))
  else
    return (some [self])

/-- `BoundSet::fmt` (range.rs:218-234) -/
def Semver.BoundSet.rs_fmt (self : Semver.BoundSet) : (List Char) := Id.run do
  let mut f : List Char := []
  match (self.lower, self.upper) with
  | ((Semver.Bound.lo Semver.Pred.unb), (Semver.Bound.up Semver.Pred.unb)) =>
    f := f ++ (['*'])
  | ((Semver.Bound.lo Semver.Pred.unb), (Semver.Bound.up (Semver.Pred.inc v))) =>
    f := f ++ (['<', '='] ++ Rust.display v)
  | ((Semver.Bound.lo Semver.Pred.unb), (Semver.Bound.up (Semver.Pred.exc v))) =>
    f := f ++ (['<'] ++ Rust.display v)
  | ((Semver.Bound.lo (Semver.Pred.inc v)), (Semver.Bound.up Semver.Pred.unb)) =>
    f := f ++ (['>', '='] ++ Rust.display v)
  | ((Semver.Bound.lo (Semver.Pred.exc v)), (Semver.Bound.up Semver.Pred.unb)) =>
    f := f ++ (['>'] ++ Rust.display v)
  | ((Semver.Bound.lo (Semver.Pred.inc v)), (Semver.Bound.up (Semver.Pred.inc v2))) =>
    if (Rust.REq.eq v v2) then
      f := f ++ (Rust.display v)
    else
      f := f ++ (['>', '='] ++ Rust.display v ++ [' ', '<', '='] ++ Rust.display v2)
  | ((Semver.Bound.lo (Semver.Pred.inc v)), (Semver.Bound.up (Semver.Pred.exc v2))) =>
    f := f ++ (['>', '='] ++ Rust.display v ++ [' ', '<'] ++ Rust.display v2)
  | ((Semver.Bound.lo (Semver.Pred.exc v)), (Semver.Bound.up (Semver.Pred.inc v2))) =>
    f := f ++ (['>'] ++ Rust.display v ++ [' ', '<', '='] ++ Rust.display v2)
  | ((Semver.Bound.lo (Semver.Pred.exc v)), (Semver.Bound.up (Semver.Pred.exc v2))) =>
    f := f ++ (['>'] ++ Rust.display v ++ [' ', '<'] ++ Rust.display v2)
  | _ =>
    f := Rust.unreachable
  return f
instance : Rust.RDisplay Semver.BoundSet := ⟨Semver.BoundSet.rs_fmt⟩

/-- `Range::any` (range.rs:436-438) -/
def Semver.Range.rs_any  : Semver.Range :=
  [(Rust.unwrap (Semver.BoundSet.rs_new Semver.Bound.rs_lower Semver.Bound.rs_upper))]

/-- `Range::satisfies` (range.rs:443-451) -/
def Semver.Range.rs_satisfies (self : Semver.Range) (version : Semver.Version) : Bool := Id.run do
  for range in self do
    if (range.rs_satisfies version) then
      return true
  return false

/-- `Range::allows_all` (range.rs:456-466) -/
def Semver.Range.rs_allows_all (self : Semver.Range) (other : Semver.Range) : Bool := Id.run do
  for this_ in self do
    for that_ in other do
      if (this_.rs_allows_all that_) then
        return true
  return false

/-- `Range::allows_any` (range.rs:471-481) -/
def Semver.Range.rs_allows_any (self : Semver.Range) (other : Semver.Range) : Bool := Id.run do
  for this_ in self do
    for that_ in other do
      if (this_.rs_allows_any that_) then
        return true
  return false

/-- `Range::intersect` (range.rs:486-502) -/
def Semver.Range.rs_intersect (self : Semver.Range) (other : Semver.Range) : (Option Semver.Range) := Id.run do
  let mut sets := []
  for lefty in self do
    for righty in other do
      if let (some set_) := (lefty.rs_intersect righty) then
        sets := (sets ++ [set_])
  return (if (Rust.is_empty sets) then none else (some sets))

/-- `Range::difference` (range.rs:507-529) -/
def Semver.Range.rs_difference (self : Semver.Range) (other : Semver.Range) : (Option Semver.Range) := Id.run do
  let mut predicates := []
  for lefty in self do
    let mut remaining := [lefty]
    for righty in other do
      remaining := (Rust.collect (Rust.flatten (Rust.filter_map remaining (fun piece => (piece.rs_difference righty)))))
    predicates := (predicates ++ remaining)
    remaining := []
  return (if (Rust.is_empty predicates) then none else (some predicates))

/-- `Range::max_satisfying` (range.rs:537-539) -/
def Semver.Range.rs_max_satisfying (self : Semver.Range) (versions : (List Semver.Version)) : (Option Semver.Version) :=
  (Rust.iter_max (Rust.filter versions (fun v => (Semver.Range.rs_satisfies self v))))

/-- `Range::min_satisfying` (range.rs:547-549) -/
def Semver.Range.rs_min_satisfying (self : Semver.Range) (versions : (List Semver.Version)) : (Option Semver.Version) :=
  (Rust.iter_min (Rust.filter versions (fun v => (Semver.Range.rs_satisfies self v))))

/-- `Range::min_version` (range.rs:554-556) -/
def Semver.Range.rs_min_version (self : Semver.Range) : (Option Semver.Version) :=
  (Rust.iter_min (Rust.filter_map self (fun set_ => (set_.rs_min_version))))

/-- `Range::fmt` (range.rs:560-568) -/
def Semver.Range.rs_fmt (self : Semver.Range) : (List Char) := Id.run do
  let mut f : List Char := []
  for (i, range) in (Rust.enumerate self) do
    if (Rust.gt i 0) then
      f := f ++ (['|', '|'])
    f := f ++ (Rust.display range)
  pure ()
  return f
instance : Rust.RDisplay Semver.Range := ⟨Semver.Range.rs_fmt⟩

/-- `Version::satisfies` (lib.rs:325-327) -/
def Semver.Version.rs_satisfies (self : Semver.Version) (range : Semver.Range) : Bool :=
  (Semver.Range.rs_satisfies range self)

/-- `Version::from` (range.rs:887-895) -/
def Semver.Version.rs_from_Partial (partial_ : Semver.Partial) : Semver.Version :=
  ({ major := (Rust.unwrap_or partial_.major 0), minor := (Rust.unwrap_or partial_.minor 0), patch := (Rust.unwrap_or partial_.patch 0), pre := partial_.pre, build := partial_.build } : Semver.Version)
instance : Rust.RInto Semver.Partial Semver.Version := ⟨Semver.Version.rs_from_Partial⟩

/-- closure of `range()` (line 649) -/
def Semver.Gen.range_fold (bs : (List (Option Semver.BoundSet))) : (List Semver.BoundSet) := Id.run do
  let mut sets := (Rust.flatten bs)
  let it1 := Rust.next sets
  sets := it1.2
  match it1.1 with
  | (some first) =>
    return (Rust.collect (Rust.try_fold_option sets first (fun acc bs => (acc.rs_intersect bs))))
  | none =>
    return []

/-- closure of `bound_sets()` (line 636) -/
def Semver.Gen.bound_sets_flatten (sets : (List (List Semver.BoundSet))) : (List Semver.BoundSet) :=
  (Rust.collect (Rust.flatten sets))

/-- closure of `primitive()` (line 692) -/
def Semver.Gen.primitive_table (parsed : (Semver.Operation × Semver.Partial)) : (Option Semver.BoundSet) :=
  (match parsed with
  | (Semver.Operation.gt, { major := none, .. }) | (Semver.Operation.lt, { major := none, .. }) => (Semver.BoundSet.rs_at_most (Semver.Pred.exc (Rust.into ((0 : Nat), (0 : Nat), (0 : Nat), (0 : Nat)))))
  | (_, { major := none, .. }) => (Semver.BoundSet.rs_at_least (Semver.Pred.inc (Rust.into ((0 : Nat), (0 : Nat), (0 : Nat)))))
  | (Semver.Operation.ge, partial_) => (Semver.BoundSet.rs_at_least (Semver.Pred.inc (Rust.into partial_)))
  | (Semver.Operation.gt, { major := (some major), minor := (some minor), patch := none, .. }) => (Semver.BoundSet.rs_at_least (Semver.Pred.inc (Rust.into (major, (minor + 1), (0 : Nat)))))
  | (Semver.Operation.gt, { major := (some major), minor := none, patch := none, .. }) => (Semver.BoundSet.rs_at_least (Semver.Pred.inc (Rust.into ((major + 1), (0 : Nat), (0 : Nat)))))
  | (Semver.Operation.gt, partial_) => (Semver.BoundSet.rs_at_least (Semver.Pred.exc (Rust.into partial_)))
  | (Semver.Operation.lt, { major := (some major), minor := (some minor), patch := none, .. }) => (Semver.BoundSet.rs_at_most (Semver.Pred.exc (Rust.into (major, minor, (0 : Nat), (0 : Nat)))))
  | (Semver.Operation.lt, { major := major, minor := minor, patch := patch, pre := pre_release, build := build }) => (Semver.BoundSet.rs_at_most (Semver.Pred.exc ({ major := (Rust.unwrap_or major 0), minor := (Rust.unwrap_or minor 0), patch := (Rust.unwrap_or patch 0), build := build, pre := pre_release } : Semver.Version)))
  | (Semver.Operation.le, { major := major, minor := none, patch := none, .. }) => (Semver.BoundSet.rs_at_most (Semver.Pred.inc (Rust.into ((Rust.unwrap_or major 0), Semver.MAX_SAFE_INTEGER, Semver.MAX_SAFE_INTEGER))))
  | (Semver.Operation.le, { major := major, minor := minor, patch := none, .. }) => (Semver.BoundSet.rs_at_most (Semver.Pred.inc (Rust.into ((Rust.unwrap_or major 0), (Rust.unwrap_or minor 0), Semver.MAX_SAFE_INTEGER))))
  | (Semver.Operation.le, partial_) => (Semver.BoundSet.rs_at_most (Semver.Pred.inc (Rust.into partial_)))
  | (Semver.Operation.exact, { major := (some major), minor := (some minor), patch := (some patch), pre := pre_release, .. }) => (Semver.BoundSet.rs_exact ({ major := major, minor := minor, patch := patch, pre := pre_release, build := [] } : Semver.Version))
  | (Semver.Operation.exact, { major := (some major), minor := (some minor), .. }) => (Semver.BoundSet.rs_new (Semver.Bound.lo (Semver.Pred.inc (Rust.into (major, minor, (0 : Nat))))) (Semver.Bound.up (Semver.Pred.exc ({ major := major, minor := (minor + 1), patch := 0, pre := [(Semver.Ident.num 0)], build := [] } : Semver.Version))))
  | (Semver.Operation.exact, { major := (some major), .. }) => (Semver.BoundSet.rs_new (Semver.Bound.lo (Semver.Pred.inc (Rust.into (major, (0 : Nat), (0 : Nat))))) (Semver.Bound.up (Semver.Pred.exc ({ major := (major + 1), minor := 0, patch := 0, pre := [(Semver.Ident.num 0)], build := [] } : Semver.Version))))
  | _ => none)

/-- closure of `partial()` (line 840) -/
def Semver.Gen.partial_table (partial_ : Semver.Partial) : (Option Semver.BoundSet) :=
  (match partial_ with
  | { major := none, .. } => (Semver.BoundSet.rs_at_least (Semver.Pred.inc (Rust.into ((0 : Nat), (0 : Nat), (0 : Nat)))))
  | { major := (some major), minor := none, .. } => (Semver.BoundSet.rs_new (Semver.Bound.lo (Semver.Pred.inc (Rust.into (major, (0 : Nat), (0 : Nat))))) (Semver.Bound.up (Semver.Pred.exc ({ major := (major + 1), minor := 0, patch := 0, pre := [(Semver.Ident.num 0)], build := [] } : Semver.Version))))
  | { major := (some major), minor := (some minor), patch := none, .. } => (Semver.BoundSet.rs_new (Semver.Bound.lo (Semver.Pred.inc (Rust.into (major, minor, (0 : Nat))))) (Semver.Bound.up (Semver.Pred.exc ({ major := major, minor := (minor + 1), patch := 0, pre := [(Semver.Ident.num 0)], build := [] } : Semver.Version))))
  | partial_ => (Semver.BoundSet.rs_exact (Rust.into partial_)))

/-- closure of `tilde()` (line 952) -/
def Semver.Gen.tilde_table (parsed : (Option (List Char) × Semver.Partial)) : (Option Semver.BoundSet) :=
  (match parsed with
  | (_, { major := none, .. }) => (Semver.BoundSet.rs_at_least (Semver.Pred.inc (Rust.into ((0 : Nat), (0 : Nat), (0 : Nat)))))
  | ((some _gt), { major := (some major), minor := none, patch := none, .. }) => (Semver.BoundSet.rs_new (Semver.Bound.lo (Semver.Pred.inc (Rust.into (major, (0 : Nat), (0 : Nat))))) (Semver.Bound.up (Semver.Pred.exc (Rust.into ((major + 1), (0 : Nat), (0 : Nat), (0 : Nat))))))
  | ((some _gt), { major := (some major), minor := (some minor), patch := patch, pre := pre_release, .. }) => (Semver.BoundSet.rs_new (Semver.Bound.lo (Semver.Pred.inc ({ major := major, minor := minor, patch := (Rust.unwrap_or patch 0), pre := pre_release, build := [] } : Semver.Version))) (Semver.Bound.up (Semver.Pred.exc (Rust.into (major, (minor + 1), (0 : Nat), (0 : Nat))))))
  | (none, { major := (some major), minor := (some minor), patch := (some patch), pre := pre_release, .. }) => (Semver.BoundSet.rs_new (Semver.Bound.lo (Semver.Pred.inc ({ major := major, minor := minor, patch := patch, pre := pre_release, build := [] } : Semver.Version))) (Semver.Bound.up (Semver.Pred.exc (Rust.into (major, (minor + 1), (0 : Nat), (0 : Nat))))))
  | (none, { major := (some major), minor := (some minor), patch := none, .. }) => (Semver.BoundSet.rs_new (Semver.Bound.lo (Semver.Pred.inc (Rust.into (major, minor, (0 : Nat))))) (Semver.Bound.up (Semver.Pred.exc (Rust.into (major, (minor + 1), (0 : Nat), (0 : Nat))))))
  | (none, { major := (some major), minor := none, patch := none, .. }) => (Semver.BoundSet.rs_new (Semver.Bound.lo (Semver.Pred.inc (Rust.into (major, (0 : Nat), (0 : Nat))))) (Semver.Bound.up (Semver.Pred.exc (Rust.into ((major + 1), (0 : Nat), (0 : Nat), (0 : Nat))))))
  | _ => none)

/-- closure of `caret()` (line 1039) -/
def Semver.Gen.caret_table (parsed : Semver.Partial) : (Option Semver.BoundSet) :=
  (match parsed with
  | { major := none, .. } => (Semver.BoundSet.rs_at_least (Semver.Pred.inc (Rust.into ((0 : Nat), (0 : Nat), (0 : Nat)))))
  | { major := (some 0), minor := none, patch := none, .. } => (Semver.BoundSet.rs_at_most (Semver.Pred.exc (Rust.into ((1 : Nat), (0 : Nat), (0 : Nat), (0 : Nat)))))
  | { major := (some 0), minor := (some minor), patch := none, .. } => (Semver.BoundSet.rs_new (Semver.Bound.lo (Semver.Pred.inc (Rust.into ((0 : Nat), minor, (0 : Nat))))) (Semver.Bound.up (Semver.Pred.exc (Rust.into ((0 : Nat), (minor + 1), (0 : Nat), (0 : Nat))))))
  | { major := (some major), minor := none, patch := none, .. } => (Semver.BoundSet.rs_new (Semver.Bound.lo (Semver.Pred.inc (Rust.into (major, (0 : Nat), (0 : Nat))))) (Semver.Bound.up (Semver.Pred.exc (Rust.into ((major + 1), (0 : Nat), (0 : Nat), (0 : Nat))))))
  | { major := (some major), minor := (some minor), patch := none, .. } => (Semver.BoundSet.rs_new (Semver.Bound.lo (Semver.Pred.inc (Rust.into (major, minor, (0 : Nat))))) (Semver.Bound.up (Semver.Pred.exc (Rust.into ((major + 1), (0 : Nat), (0 : Nat), (0 : Nat))))))
  | { major := (some major), minor := (some minor), patch := (some patch), pre := pre_release, .. } => (Semver.BoundSet.rs_new (Semver.Bound.lo (Semver.Pred.inc ({ major := major, minor := minor, patch := patch, pre := pre_release, build := [] } : Semver.Version))) (Semver.Bound.up (Semver.Pred.exc (match (major, minor, patch) with | (0, 0, n) => (Rust.into ((0 : Nat), (0 : Nat), (n + 1), (0 : Nat)) : Semver.Version) | (0, n, _) => (Rust.into ((0 : Nat), (n + 1), (0 : Nat), (0 : Nat)) : Semver.Version) | (n, _, _) => (Rust.into ((n + 1), (0 : Nat), (0 : Nat), (0 : Nat)) : Semver.Version)))))
  | _ => none)

/-- `SemverParseError::from_error_kind` (lib.rs:200-206) -/
def Semver.PErr.rs_from_error_kind (input : (List Char)) (_kind : Unit) : Semver.PErr :=
  ({ rest := input, ctx := none, kind := none } : Semver.PErr)

/-- `SemverParseError::append` (lib.rs:208-219) -/
def Semver.PErr.rs_append (self : Semver.PErr) (input : (List Char)) (_token_start : Unit) (_kind : Unit) : Semver.PErr :=
  ({ rest := input, ctx := self.context, kind := self.kind } : Semver.PErr)

/-- `SemverParseError::add_context` (lib.rs:223-234) -/
def Semver.PErr.rs_add_context (self : Semver.PErr) (_input : (List Char)) (_token_start : Unit) (ctx : String) : Semver.PErr :=
  ({ rest := self.input, ctx := (some ctx), kind := self.kind } : Semver.PErr)

/-- `SemverParseError::from_external_error` (lib.rs:238-244) -/
def Semver.PErr.rs_from_external_error (_input : (List Char)) (_kind : Unit) (e : Semver.PErr) : Semver.PErr :=
  e

/-- closure of `number()` (line 715) -/
def Semver.Gen.number_check (copied : (List Char)) (raw : (List Char)) : (Except Semver.PErr Nat) := do
  let value ← (Rust.map_err (Rust.str_parse_u64 raw) (fun e => ({ rest := copied, ctx := none, kind := (some (Rust.parse_int_error_kind e)) } : Semver.PErr)))
  if (Rust.gt value Semver.MAX_SAFE_INTEGER) then
    throw ({ rest := copied, ctx := none, kind := (some (Semver.EKind.maxInt value)) } : Semver.PErr)
  pure value

/-- parser `number` (lib.rs:711-734) -/
def Semver.Gen.number : Winnow.Parser Nat := do
  let copied ← Winnow.getInput
  (Winnow.context "number component" (Winnow.tryMap (Winnow.take Winnow.digit1) (Semver.Gen.number_check copied)))

/-- closure of `identifier()` (line 701) -/
def Semver.Gen.identifier_classify (s : (List Char)) : Semver.Ident :=
  (Rust.unwrap_or_else (Rust.map (Rust.str_parse_u64 s) Semver.Ident.num) (fun _err => (Semver.Ident.alpha s)))

/-- parser `identifier` (lib.rs:698-709) -/
def Semver.Gen.identifier : Winnow.Parser Semver.Ident := fun input =>
  (Winnow.context "identifier" (Winnow.map (Winnow.takeWhile1 (fun x => ((Rust.is_ascii_alphanumeric x) || (Rust.REq.eq x ('-'))))) Semver.Gen.identifier_classify)) input

/-- parser `pre_release` (lib.rs:692-696) -/
def Semver.Gen.pre_release : Winnow.Parser (List Semver.Ident) := fun input =>
  (Winnow.context "pre_release version" (Winnow.preceded (Winnow.opt (Winnow.literal ['-'])) (Winnow.separated1 Semver.Gen.identifier (Winnow.literal ['.'])))) input

/-- parser `build` (lib.rs:686-690) -/
def Semver.Gen.build : Winnow.Parser (List Semver.Ident) := fun input =>
  (Winnow.context "build version" (Winnow.preceded (Winnow.literal ['+']) (Winnow.separated1 Semver.Gen.identifier (Winnow.literal ['.'])))) input

/-- `enum Extras`: no counterpart in the model; generated as it is declared -/
inductive Semver.Gen.Extras where
  | Build (x0 : (List Semver.Ident))
  | Release (x0 : (List Semver.Ident))
  | ReleaseAndBuild (x0 : ((List Semver.Ident) × (List Semver.Ident)))

/-- `Extras::values` (lib.rs:624-631) -/
def Semver.Gen.Extras.rs_values (self : Semver.Gen.Extras) : ((List Semver.Ident) × (List Semver.Ident)) :=
  (match self with
  | (Semver.Gen.Extras.Release ident) => (ident, [])
  | (Semver.Gen.Extras.Build ident) => ([], ident)
  | (Semver.Gen.Extras.ReleaseAndBuild ident) => ident)

/-- parser `extras` (lib.rs:660-675) -/
def Semver.Gen.extras : Winnow.Parser ((List Semver.Ident) × (List Semver.Ident)) := fun input =>
  (Winnow.map (Winnow.opt (Winnow.alt [(Winnow.map (Winnow.seq2 Semver.Gen.pre_release Semver.Gen.build) Semver.Gen.Extras.ReleaseAndBuild), (Winnow.map Semver.Gen.pre_release Semver.Gen.Extras.Release), (Winnow.map Semver.Gen.build Semver.Gen.Extras.Build)])) (fun extras => (match extras with | (some extras) => (Semver.Gen.Extras.rs_values extras) | _ => default))) input

/-- parser `version_core` (lib.rs:678-683) -/
def Semver.Gen.version_core : Winnow.Parser (Nat × Nat × Nat) := fun input =>
  (Winnow.context "version core" (Winnow.map (Winnow.seq5 Semver.Gen.number (Winnow.literal ['.']) Semver.Gen.number (Winnow.literal ['.']) Semver.Gen.number) (fun (major, _, minor, _, patch) => (major, minor, patch)))) input

/-- parser `version` (lib.rs:638-658) -/
def Semver.Gen.version : Winnow.Parser Semver.Version := fun input =>
  (Winnow.context "version" (Winnow.map (Winnow.seq6 (Winnow.opt (Winnow.alt [(Winnow.literal ['v']), (Winnow.literal ['V'])])) Winnow.space0 Semver.Gen.version_core Semver.Gen.extras Winnow.space0 Winnow.eof) (fun (_, _, (major, minor, patch), (pre_release, build), _, _) => ({ major := major, minor := minor, patch := patch, pre := pre_release, build := build } : Semver.Version)))) input

/-- parser `x_or_asterisk` (range.rs:939-941) -/
def Semver.Gen.x_or_asterisk : Winnow.Parser Unit := fun input =>
  (Winnow.map (Winnow.alt [(Winnow.literal ['x']), (Winnow.literal ['X']), (Winnow.literal ['*'])]) (fun _ => ())) input

/-- parser `component` (range.rs:931-937) -/
def Semver.Gen.component : Winnow.Parser (Option Nat) := fun input =>
  (Winnow.alt [(Winnow.map Semver.Gen.x_or_asterisk (fun _ => none)), (Winnow.map Semver.Gen.number some)]) input

/-- parser `partial_version` (range.rs:902-929) -/
def Semver.Gen.partial_version : Winnow.Parser Semver.Partial := do
  let _ ← (Winnow.opt (Winnow.literal ['v']))
  let _ ← Winnow.space0
  let major ← Semver.Gen.component
  let minor ← (Winnow.opt (Winnow.preceded (Winnow.literal ['.']) Semver.Gen.component))
  let patch ← (Winnow.opt (Winnow.preceded (Winnow.literal ['.']) Semver.Gen.component))
  let (pre, build) ← (do
      if (Rust.is_some patch) then
        Semver.Gen.extras
      else
        pure ([], [])
      )
  let minor := (Rust.and major (Rust.flatten minor))
  let patch := (Rust.and minor (Rust.flatten patch))
  let (pre, build) := (if (Rust.is_some patch) then (pre, build) else ([], []))
  pure ({ major := major, minor := minor, patch := patch, pre := pre, build := build } : Semver.Partial)

/-- parser `operation` (range.rs:827-837) -/
def Semver.Gen.operation : Winnow.Parser Semver.Operation := fun input =>
  (Winnow.alt [(Winnow.map (Winnow.literal ['>', '=']) (fun _ => Semver.Operation.ge)), (Winnow.map (Winnow.literal ['>']) (fun _ => Semver.Operation.gt)), (Winnow.map (Winnow.literal ['=']) (fun _ => Semver.Operation.exact)), (Winnow.map (Winnow.literal ['<', '=']) (fun _ => Semver.Operation.le)), (Winnow.map (Winnow.literal ['<']) (fun _ => Semver.Operation.lt))]) input

/-- parser `primitive` (range.rs:687-825) -/
def Semver.Gen.primitive : Winnow.Parser (Option Semver.BoundSet) := fun input =>
  (Winnow.context "operation range (ex: >= 1.2.3)" (Winnow.map (Winnow.seq2 Semver.Gen.operation (Winnow.preceded Winnow.space0 Semver.Gen.partial_version)) Semver.Gen.primitive_table)) input

/-- parser `partial` (range.rs:839-875) -/
def Semver.Gen.partial : Winnow.Parser (Option Semver.BoundSet) := fun input =>
  (Winnow.context "plain version range (ex: 1.2)" (Winnow.map Semver.Gen.partial_version Semver.Gen.partial_table)) input

/-- parser `tilde_gt` (range.rs:943-949) -/
def Semver.Gen.tilde_gt : Winnow.Parser (Option (List Char)) := fun input =>
  (Winnow.map (Winnow.seq4 (Winnow.literal ['~']) Winnow.space0 (Winnow.opt (Winnow.literal ['>'])) Winnow.space0) (fun (_, _, gt, _) => gt)) input

/-- parser `tilde` (range.rs:951-1034) -/
def Semver.Gen.tilde : Winnow.Parser (Option Semver.BoundSet) := fun input =>
  (Winnow.context "tilde version range (ex: ~1.2.3)" (Winnow.map (Winnow.seq2 Semver.Gen.tilde_gt Semver.Gen.partial_version) Semver.Gen.tilde_table)) input

/-- parser `caret` (range.rs:1036-1102) -/
def Semver.Gen.caret : Winnow.Parser (Option Semver.BoundSet) := fun input =>
  (Winnow.context "caret version range (ex: ^1.2.3)" (Winnow.map (Winnow.preceded (Winnow.seq2 (Winnow.literal ['^']) Winnow.space0) Semver.Gen.partial_version) Semver.Gen.caret_table)) input

/-- parser `hyphen::parser` (range.rs:1106-1154) -/
def Semver.Gen.hyphen_parser : Winnow.Parser (Option Semver.BoundSet) := do
  let lower ← (Winnow.opt Semver.Gen.partial_version)
  let _ ← Winnow.space1
  let _ ← (Winnow.literal ['-'])
  let _ ← Winnow.space1
  let upper ← Semver.Gen.partial_version
  let upper := (match upper with | { major := none, .. } => Semver.Pred.unb | { major := (some major), minor := none, patch := none, .. } => (Semver.Pred.exc ({ major := (major + 1), minor := 0, patch := 0, pre := [(Semver.Ident.num 0)], build := [] } : Semver.Version)) | { major := (some major), minor := (some minor), patch := none, .. } => (Semver.Pred.exc ({ major := major, minor := (minor + 1), patch := 0, pre := [(Semver.Ident.num 0)], build := [] } : Semver.Version)) | partial_ => (Semver.Pred.inc (Rust.into partial_)))
  let lower := (Rust.filter lower (fun partial_ => (Rust.is_some partial_.major)))
  let bounds := (match lower with | (some lower) => (Semver.BoundSet.rs_new (Semver.Bound.lo (Semver.Pred.inc (Rust.into lower))) (Semver.Bound.up upper)) | _ => (if (Rust.REq.eq upper Semver.Pred.unb) then (Semver.BoundSet.rs_at_least (Semver.Pred.inc (Rust.into ((0 : Nat), (0 : Nat), (0 : Nat))))) else (Semver.BoundSet.rs_at_most upper)))
  pure bounds

/-- parser `hyphen` (range.rs:1105-1159) -/
def Semver.Gen.hyphen : Winnow.Parser (Option Semver.BoundSet) := fun input =>
  (Winnow.context "hyphenated version range (ex: 1.2 - 2)" Semver.Gen.hyphen_parser) input

/-- parser `garbage` (range.rs:678-684) -/
def Semver.Gen.garbage : Winnow.Parser (Option Semver.BoundSet) := fun input =>
  (Winnow.map (fun s => Winnow.repeatTill0 Winnow.any (Winnow.alt [(Winnow.peek Winnow.space1), (Winnow.peek (Winnow.literal ['|', '|'])), Winnow.eof]) (s.length + 1) s) (fun _ => none)) input

/-- parser `simple` (range.rs:666-676) -/
def Semver.Gen.simple : Winnow.Parser (Option Semver.BoundSet) := fun input =>
  (Winnow.alt [(Winnow.terminated Semver.Gen.hyphen (Winnow.peek (Winnow.alt [Winnow.space1, (Winnow.literal ['|', '|']), Winnow.eof]))), (Winnow.terminated Semver.Gen.primitive (Winnow.peek (Winnow.alt [Winnow.space1, (Winnow.literal ['|', '|']), Winnow.eof]))), (Winnow.terminated Semver.Gen.partial (Winnow.peek (Winnow.alt [Winnow.space1, (Winnow.literal ['|', '|']), Winnow.eof]))), (Winnow.terminated Semver.Gen.tilde (Winnow.peek (Winnow.alt [Winnow.space1, (Winnow.literal ['|', '|']), Winnow.eof]))), (Winnow.terminated Semver.Gen.caret (Winnow.peek (Winnow.alt [Winnow.space1, (Winnow.literal ['|', '|']), Winnow.eof]))), Semver.Gen.garbage]) input

/-- parser `range` (range.rs:644-663) -/
def Semver.Gen.range : Winnow.Parser (List Semver.BoundSet) := fun input =>
  (Winnow.map (Winnow.separated0 Semver.Gen.simple Winnow.space1) Semver.Gen.range_fold) input

/-- parser `logical_or` (range.rs:640-642) -/
def Semver.Gen.logical_or : Winnow.Parser Unit := fun input =>
  (Winnow.map (Winnow.delimited Winnow.space0 (Winnow.literal ['|', '|']) Winnow.space0) (fun _ => ())) input

/-- parser `bound_sets` (range.rs:633-639) -/
def Semver.Gen.bound_sets : Winnow.Parser (List Semver.BoundSet) := fun input =>
  (Winnow.map (Winnow.separated0 Semver.Gen.range Semver.Gen.logical_or) Semver.Gen.bound_sets_flatten) input

/-- closure of `range_set()` (line 618) -/
def Semver.Gen.range_set_check (input : (List Char)) (sets : (List Semver.BoundSet)) : (Except Semver.PErr Semver.Range) :=
  (if (Rust.is_empty sets) then (Except.error ({ rest := input, kind := (some Semver.EKind.noValidRanges), ctx := none } : Semver.PErr)) else (Except.ok sets))

/-- parser `range_set` (range.rs:616-630) -/
def Semver.Gen.range_set : Winnow.Parser Semver.Range := fun input =>
  (Winnow.tryMap (Winnow.preceded Winnow.space0 Semver.Gen.bound_sets) (Semver.Gen.range_set_check input)) input

/-- `Version::serialize` (Serialize) is still `{s.collect_str(self)}` -/
theorem Semver.Gen.canonical_Version_serialize : True := trivial

/-- `Version::deserialize` (Deserialize<'de>) is still `{lets=String::deserialize(d)?;s.parse().map_err(serde::de::Error::custom)}` -/
theorem Semver.Gen.canonical_Version_deserialize : True := trivial

/-- `Range::serialize` (Serialize) is still `{s.collect_str(self)}` -/
theorem Semver.Gen.canonical_Range_serialize : True := trivial

/-- `Range::deserialize` (Deserialize<'de>) is still `{lets=String::deserialize(d)?;s.parse().map_err(serde::de::Error::custom)}` -/
theorem Semver.Gen.canonical_Range_deserialize : True := trivial

/-- `SemverError::offset` () is still `{self.span.offset()}` -/
theorem Semver.Gen.canonical_SemverError_offset : True := trivial

/-- `SemverError::input` () is still `{&self.input}` -/
theorem Semver.Gen.canonical_SemverError_input : True := trivial

/-- `SemverError::span` () is still `{&self.span}` -/
theorem Semver.Gen.canonical_SemverError_span : True := trivial

/-- `SemverError::kind` () is still `{&self.kind}` -/
theorem Semver.Gen.canonical_SemverError_kind : True := trivial

/-- `SemverError::code` (Diagnostic) is still `{self.kind().code()}` -/
theorem Semver.Gen.canonical_SemverError_code : True := trivial

/-- `SemverError::severity` (Diagnostic) is still `{self.kind().severity()}` -/
theorem Semver.Gen.canonical_SemverError_severity : True := trivial

/-- `SemverError::help` (Diagnostic) is still `{self.kind().help()}` -/
theorem Semver.Gen.canonical_SemverError_help : True := trivial

/-- `SemverError::url` (Diagnostic) is still `{self.kind().url()}` -/
theorem Semver.Gen.canonical_SemverError_url : True := trivial

/-- `SemverError::source_code` (Diagnostic) is still `{Some(&self.input)}` -/
theorem Semver.Gen.canonical_SemverError_source_code : True := trivial

/-- `SemverError::labels` (Diagnostic) is still `{Some(Box::new(std::iter::once(miette::LabeledSpan::new_with_span(Some("here".into()),*self.span()),)))}` -/
theorem Semver.Gen.canonical_SemverError_labels : True := trivial

/-- `SemverError::location` (lib.rs:101-128) -/
def Semver.SemverError.rs_location (self : Semver.SemverError) : (Nat × Nat) :=
  (let prefix_ := (Rust.index_to (Rust.as_bytes self.input) (Semver.SemverError.rs_offset self))
  let line_number := (Rust.bytecount prefix_ ('\n'))
  let line_begin := (Rust.unwrap_or (Rust.map (Rust.position (Rust.rev prefix_) (fun b => (Rust.byte_eq b '\n'))) (fun pos => ((Semver.SemverError.rs_offset self) - pos))) 0)
  let line := (Rust.trim_end (Rust.unwrap_or (Rust.iter_first (Rust.lines (Rust.index_from self.input line_begin))) (Rust.index_from self.input line_begin)))
  let column_number := (Rust.ptr_diff (Rust.index_from self.input (Semver.SemverError.rs_offset self)) line)
  (line_number, column_number))

/-- `Version::parse` (lib.rs:339-376) -/
def Semver.Version.rs_parse (input : (List Char)) : (Except Semver.SemverError Semver.Version) := do
  let original := input
  let mut input := original
  if (Rust.gt (Rust.len input) Semver.MAX_LENGTH) then
    let last_char := (Rust.map_or (Rust.next_back (Rust.char_indices input)) 0 (fun (i, _) => i))
    throw ({ input := (Rust.into input), offset := (Rust.span_offset (Rust.into (last_char, (0 : Nat)))), kind := Semver.EKind.maxLength } : Semver.SemverError)
  let run1 := Winnow.run Semver.Gen.version input
  input := run1.2
  match run1.1 with
  | (Except.ok arg) =>
    pure arg
  | (Except.error err) =>
    throw (match err with | (Winnow.ErrMode.Backtrack e) | (Winnow.ErrMode.Cut e) => ({ input := (Rust.into original), offset := (Rust.span_offset (Rust.into ((Rust.ptr_diff e.input original), (0 : Nat)))), kind := (match e.kind with | (some kind) => kind | _ => (match e.context with | (some ctx) => (Semver.EKind.context ctx) | _ => Semver.EKind.other)) } : Semver.SemverError) | (Winnow.ErrMode.Incomplete _) => ({ input := (Rust.into input), offset := (Rust.span_offset (Rust.into (((Rust.len input) - 1), (0 : Nat)))), kind := Semver.EKind.incompleteInput } : Semver.SemverError))

/-- `Range::parse` (range.rs:407-431) -/
def Semver.Range.rs_parse (input : (List Char)) : (Except Semver.SemverError Semver.Range) := do
  let mut input := input
  let run1 := Winnow.run Semver.Gen.range_set input
  input := run1.2
  match run1.1 with
  | (Except.ok range) =>
    pure range
  | (Except.error err) =>
    throw (match err with | (Winnow.ErrMode.Backtrack e) | (Winnow.ErrMode.Cut e) => ({ input := (Rust.into input), offset := (Rust.span_offset (Rust.into ((Rust.ptr_diff e.input input), (0 : Nat)))), kind := (match e.kind with | (some kind) => kind | _ => (match e.context with | (some ctx) => (Semver.EKind.context ctx) | _ => Semver.EKind.other)) } : Semver.SemverError) | (Winnow.ErrMode.Incomplete _) => ({ input := (Rust.into input), offset := (Rust.span_offset (Rust.into (((Rust.len input) - 1), (0 : Nat)))), kind := Semver.EKind.incompleteInput } : Semver.SemverError))

/-- `Version::from_str` (lib.rs:573-575) -/
def Semver.Version.rs_from_str (s : (List Char)) : (Except Semver.SemverError Semver.Version) := do
  (Semver.Version.rs_parse s)

/-- `Range::from_str` (range.rs:573-575) -/
def Semver.Range.rs_from_str (s : (List Char)) : (Except Semver.SemverError Semver.Range) := do
  (Semver.Range.rs_parse s)

