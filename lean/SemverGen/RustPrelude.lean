import SemverModel.RangeParse
import SemverModel.Diff
import SemverModel.VersionFmt
/-!
# Meaning of the Rust standard-library operations the translator emits

`translator/` (rs2lean) turns the bodies of the crate's functions into Lean terms over the model's data
types.  Every operation of `core`/`std` those bodies use is given its meaning *here*, once, as a plain
Lean definition; this file is therefore the whole of the "reading of Rust" the generated definitions
rest on (DESIGN.md §13.3).  Nothing in it mentions the crate's own functions.

* `REq` / `ROrd` — `PartialEq::eq` and `Ord::cmp`; `<`, `<=`, `>`, `>=` are the `PartialOrd` defaults for a
  type whose `partial_cmp` is `Some(self.cmp(other))` (the translator checks that it is).
* `u64`/`usize` are `Nat` (no wrap-around; every `+` site is listed in the translator's report and the
  model's invariants bound the operands), `String`/`&str` are `List Char` compared by code point
  (= by UTF-8 byte for well-formed strings), `Vec<T>`, slices and iterators are `List T`, `Box<T>` and
  references are `T`.
* `unwrap()` on `None` and `unreachable!()` evaluate to `default`; each such site is listed in the
  translator's report and has to be accounted for by a panic-freedom theorem (C06).
-/
namespace Rust

class REq (α : Type) where
  eq : α → α → Bool

class ROrd (α : Type) where
  cmp : α → α → Ordering

def ne [REq α] (a b : α) : Bool := !(REq.eq a b)
def lt [ROrd α] (a b : α) : Bool := ROrd.cmp a b == .lt
def le [ROrd α] (a b : α) : Bool := ROrd.cmp a b != .gt
def gt [ROrd α] (a b : α) : Bool := ROrd.cmp a b == .gt
def ge [ROrd α] (a b : α) : Bool := ROrd.cmp a b != .lt

instance : REq Nat := ⟨fun a b => a == b⟩
instance : ROrd Nat := ⟨fun a b => compare a b⟩
instance : REq Bool := ⟨fun a b => a == b⟩
instance : REq Ordering := ⟨fun a b => a == b⟩
instance : REq Char := ⟨fun a b => a == b⟩
instance : ROrd Char := ⟨compareOn Char.toNat⟩

/-- `==` on `Vec<T>` / slices / `String`: same length and equal element by element -/
def listEq [REq α] : List α → List α → Bool
  | [], [] => true
  | a :: as, b :: bs => REq.eq a b && listEq as bs
  | _, _ => false

instance [REq α] : REq (List α) := ⟨listEq⟩
/-- `Ord` on `Vec<T>` / slices / `String`: lexicographic, a proper prefix is smaller -/
instance [ROrd α] : ROrd (List α) := ⟨List.compareLex ROrd.cmp⟩

/-- `==` on tuples: component by component -/
instance [REq α] [REq β] : REq (α × β) := ⟨fun a b => REq.eq a.1 b.1 && REq.eq a.2 b.2⟩

instance [REq α] : REq (Option α) :=
  ⟨fun a b => match a, b with
    | some x, some y => REq.eq x y
    | none, none => true
    | _, _ => false⟩

/-- `std::cmp::max(a, b)` = `Ord::max`: `if b < a { a } else { b }` -/
def max [ROrd α] (a b : α) : α := if lt b a then a else b
/-- `std::cmp::min(a, b)` = `Ord::min`: `if b < a { b } else { a }` -/
def min [ROrd α] (a b : α) : α := if lt b a then b else a

/-- `Iterator::max`: the last maximal element -/
def iter_max [ROrd α] (l : List α) : Option α := Semver.maxBy ROrd.cmp l
/-- `Iterator::min`: the first minimal element -/
def iter_min [ROrd α] (l : List α) : Option α := Semver.minBy ROrd.cmp l

/-- `unreachable!()` / `panic!()`: a listed panic site; in the logic, `default` -/
def unreachable [Inhabited α] : α := default
/-- `Option::unwrap`: `None` is a listed panic site; in the logic, `default` -/
def unwrap [Inhabited α] : Option α → α
  | some a => a
  | none => default

def unwrap_or (o : Option α) (d : α) : α := o.getD d
def is_some (o : Option α) : Bool := o.isSome
def is_none (o : Option α) : Bool := o.isNone
/-- `Option::and` -/
def and (a : Option α) (b : Option β) : Option β :=
  match a with
  | some _ => b
  | none => none

class RFlatten (c : Type) (r : outParam Type) where
  flatten : c → r
/-- `Option<Option<T>>::flatten` -/
instance : RFlatten (Option (Option α)) (Option α) := ⟨fun o => o.join⟩
/-- `Iterator::flatten` over `Vec`s -/
instance : RFlatten (List (List α)) (List α) := ⟨fun l => l.flatten⟩
/-- `Iterator::flatten` over `Option`s -/
instance : RFlatten (List (Option α)) (List α) := ⟨fun l => l.filterMap id⟩
def flatten [RFlatten c r] (x : c) : r := RFlatten.flatten x

class RCollect (c : Type) (r : Type) where
  collect : c → r
instance : RCollect (List α) (List α) := ⟨id⟩
/-- `Option<T>::into_iter().collect::<Vec<T>>()` -/
instance : RCollect (Option α) (List α) := ⟨Option.toList⟩
def collect [RCollect c r] (x : c) : r := RCollect.collect x

class RFilter (c : Type) (α : outParam Type) where
  filter : c → (α → Bool) → c
instance : RFilter (List α) α := ⟨fun l p => l.filter p⟩
instance : RFilter (Option α) α := ⟨fun o p => o.filter p⟩
def filter [RFilter c α] (x : c) (p : α → Bool) : c := RFilter.filter x p

class RMap (f : Type → Type) where
  map : f α → (α → β) → f β
instance : RMap List := ⟨fun l g => l.map g⟩
instance : RMap Option := ⟨fun o g => o.map g⟩
def map [RMap f] (x : f α) (g : α → β) : f β := RMap.map x g

def filter_map (l : List α) (g : α → Option β) : List β := l.filterMap g
/-- `Ordering::then_with`: the closure is only consulted on `Equal` -/
@[simp] def then_with (o : Ordering) (g : Unit → Ordering) : Ordering :=
  match o with
  | .eq => g ()
  | .lt => .lt
  | .gt => .gt
/-- `Ordering::then` -/
@[simp] def ord_then (o o2 : Ordering) : Ordering := then_with o (fun _ => o2)
/-- `bool::then` -/
@[simp] def bool_then (b : Bool) (g : Unit → α) : Option α := if b then some (g ()) else none
/-- `bool::then_some` -/
@[simp] def then_some (b : Bool) (a : α) : Option α := if b then some a else none
/-- `Option::is_some_and` -/
@[simp] def is_some_and (o : Option α) (p : α → Bool) : Bool :=
  match o with
  | some a => p a
  | none => false
/-- `Option::is_none_or` -/
@[simp] def is_none_or (o : Option α) (p : α → Bool) : Bool :=
  match o with
  | some a => p a
  | none => true
/-- `Option::and_then` -/
@[simp] def and_then (o : Option α) (g : α → Option β) : Option β :=
  match o with
  | some a => g a
  | none => none
/-- `Option::or` -/
@[simp] def opt_or (a b : Option α) : Option α :=
  match a with
  | some x => some x
  | none => b
/-- `Option::or_else` -/
@[simp] def or_else (a : Option α) (g : Unit → Option α) : Option α :=
  match a with
  | some x => some x
  | none => g ()
/-- `Option::map_or_else` -/
@[simp] def map_or_else (o : Option α) (d : Unit → β) (g : α → β) : β :=
  match o with
  | some a => g a
  | none => d ()
/-- what `Iterator::flat_map` iterates over: the closure may return an iterator / `Vec` or an `Option` -/
class RIntoList (c : Type) (α : outParam Type) where
  toList : c → List α
instance : RIntoList (List α) α := ⟨id⟩
instance : RIntoList (Option α) α := ⟨Option.toList⟩
/-- `Iterator::flat_map` -/
def flat_map [RIntoList c β] (l : List α) (g : α → c) : List β := l.flatMap (fun a => RIntoList.toList (g a))
/-- `Iterator::find_map` -/
def find_map (l : List α) (g : α → Option β) : Option β := l.findSome? g
/-- `Iterator::last` -/
def iter_last (l : List α) : Option α := l.getLast?
/-- `Iterator::count` -/
def iter_count (l : List α) : Nat := l.length
/-- `Iterator::chain` -/
def chain (a b : List α) : List α := a ++ b
/-- `Iterator::fold` -/
def fold (l : List α) (init : β) (g : β → α → β) : β := l.foldl g init
/-- `Iterator::zip` -/
def zip (a : List α) (b : List β) : List (α × β) := a.zip b
/-- `Iterator::skip` / `take` -/
def skip (l : List α) (n : Nat) : List α := l.drop n
def take (l : List α) (n : Nat) : List α := l.take n
/-- `<[T]>::last` -/
def last (l : List α) : Option α := l.getLast?
/-- `<[T]>::contains` -/
def contains [REq α] (l : List α) (a : α) : Bool := l.any (fun x => REq.eq x a)
def find (l : List α) (p : α → Bool) : Option α := l.find? p
def iter_any (l : List α) (p : α → Bool) : Bool := l.any p
def iter_all (l : List α) (p : α → Bool) : Bool := l.all p
def is_empty (l : List α) : Bool := l.isEmpty
class RLen (c : Type) where
  len : c → Nat
/-- `Vec::len`, `<[T]>::len` -/
instance (priority := low) {α : Type} : RLen (List α) := ⟨List.length⟩
/-- `str::len`: the length in bytes of the UTF-8 encoding -/
instance : RLen (List Char) := ⟨Semver.utf8Len⟩
def len {c : Type} [RLen c] (l : c) : Nat := RLen.len l
def first (l : List α) : Option α := l.head?
/-- `Iterator::next` on a `let mut` iterator: the item and the advanced iterator -/
def next (l : List α) : Option α × List α :=
  match l with
  | [] => (none, [])
  | a :: as => (some a, as)
/-- `Iterator::try_fold` with `Option` as the `Try` type -/
def try_fold_option (l : List α) (init : β) (g : β → α → Option β) : Option β :=
  match l with
  | [] => some init
  | a :: as =>
    match g init a with
    | some b => try_fold_option as b g
    | none => none

def enumerateFrom (n : Nat) : List α → List (Nat × α)
  | [] => []
  | a :: as => (n, a) :: enumerateFrom (n + 1) as
/-- `Iterator::enumerate` -/
def enumerate (l : List α) : List (Nat × α) := enumerateFrom 0 l

class RInto (α : Type) (β : outParam Type) where
  into : α → β
def into [RInto α β] (x : α) : β := RInto.into x

class RDisplay (α : Type) where
  fmt : α → List Char
/-- `Display for u64` -/
instance : RDisplay Nat := ⟨Semver.renderNat⟩
/-- `Display for str` / `String` -/
instance : RDisplay (List Char) := ⟨id⟩
def display [RDisplay α] (x : α) : List Char := RDisplay.fmt x

class RAsU64 (α : Type) where
  as_u64 : α → Nat
/-- `x as u64` for an unsigned `x` (no wider than 64 bits): the value -/
instance : RAsU64 Nat := ⟨fun x => x⟩
/-- `x as u64` for a signed `x` (no wider than 64 bits): sign extension, i.e. the value modulo 2^64 -/
instance : RAsU64 Int := ⟨fun x => (x % 18446744073709551616).toNat⟩
def as_u64 [RAsU64 α] (x : α) : Nat := RAsU64.as_u64 x

/-! ### strings as byte sequences: offsets -/

def charIndicesFrom (n : Nat) : List Char → List (Nat × Char)
  | [] => []
  | c :: cs => (n, c) :: charIndicesFrom (n + c.utf8Size) cs
/-- `str::char_indices`: each character with the byte offset at which it starts -/
def char_indices (s : List Char) : List (Nat × Char) := charIndicesFrom 0 s
/-- `DoubleEndedIterator::next_back` on a fresh iterator: the last item -/
def next_back (l : List α) : Option α := l.getLast?
/-- `Option::map_or` -/
def map_or (o : Option α) (d : β) (g : α → β) : β :=
  match o with
  | some a => g a
  | none => d
/-- `a.as_ptr() as usize - b.as_ptr() as usize` where `a` is a tail slice of the string `b` (every `&str` the
parsers hand around is a tail of the original input): the byte offset of `a` in `b` -/
class RPtrDiff (α : Type) where
  ptr_diff : α → α → Nat
instance : RPtrDiff (List Char) := ⟨fun a b => Semver.utf8Len b - Semver.utf8Len a⟩
def ptr_diff {α : Type} [RPtrDiff α] (a b : α) : Nat := RPtrDiff.ptr_diff a b
/-- `miette::SourceSpan` as built by `(offset, len).into()` -/
structure SourceSpan where
  offset : Nat
  len : Nat
instance : RInto (Nat × Nat) SourceSpan := ⟨fun p => ⟨p.1, p.2⟩⟩
def span_offset (s : SourceSpan) : Nat := s.offset
/-- `String::from(&str)` -/
instance : RInto (List Char) (List Char) := ⟨id⟩

/-! ### `Result`, `str::parse::<u64>`, `char` classes -/

instance {ε : Type} : RMap (Except ε) := ⟨fun r g => match r with | .ok a => .ok (g a) | .error e => .error e⟩
/-- `Result::map_err` -/
def map_err {ε ε' α : Type} (r : Except ε α) (g : ε → ε') : Except ε' α :=
  match r with
  | .ok a => .ok a
  | .error e => .error (g e)
/-- `Result::unwrap_or_else` -/
def unwrap_or_else {ε α : Type} (r : Except ε α) (g : ε → α) : α :=
  match r with
  | .ok a => a
  | .error e => g e

/-- `core::num::IntErrorKind` as far as `u64::from_str` produces it -/
inductive ParseIntError where
  | empty
  | invalidDigit
  | posOverflow
deriving DecidableEq, Repr

/-- `SemverErrorKind::ParseIntError(e)` -/
def parse_int_error_kind : ParseIntError → Semver.EKind
  | .empty => .parseIntEmpty
  | .invalidDigit => .parseIntInvalidDigit
  | .posOverflow => .parseIntOverflow

/-- `<u64 as FromStr>::from_str`: an optional `+`, then one or more ASCII digits, value below 2^64.
(`""` is `Empty`; a lone `+` or any other character is `InvalidDigit`; a leading `-` is `InvalidDigit` for
unsigned types; too large a value is `PosOverflow`.) -/
def str_parse_u64 (s : List Char) : Except ParseIntError Nat :=
  match s with
  | [] => .error .empty
  | c :: cs =>
    let ds := if c == '+' then cs else c :: cs
    if ds.isEmpty then .error .invalidDigit
    else if !(ds.all Semver.isDigit) then .error .invalidDigit
    else if Semver.valOf ds < Semver.U64 then .ok (Semver.valOf ds) else .error .posOverflow

/-- `char::is_ascii_alphanumeric` -/
def is_ascii_alphanumeric (c : Char) : Bool :=
  ('0' ≤ c && c ≤ '9') || ('a' ≤ c && c ≤ 'z') || ('A' ≤ c && c ≤ 'Z')
/-- `char::is_ascii_digit` -/
def is_ascii_digit (c : Char) : Bool := '0' ≤ c && c ≤ '9'

end Rust
