import SemverProofs.Lemmas.PrintableInv
/-!
# C13 (continued) — the print/parse round trip itself

For every range obtained from `Range::parse`, or from `intersect` / `difference` of such ranges
(closed under further operations): the printed form parses, alternative by alternative, to intervals
that compare equal to the originals as values (`PartialEq`), admit exactly the same versions (same
bounds membership, same `satisfies` answer for every version), and print to the same text again
(printing is stable after one round); with `C13_serde`, the serde round trip is the same statement.
-/
namespace Semver.C13
open Semver

/-- what the round trip preserves -/
theorem sameRange_sem {r' r : Range} (h : SameRange r' r) :
    r'.length = r.length ∧
    (∀ v, Range.within r' v = Range.within r v) ∧ (∀ v, Range.satisfies r' v = Range.satisfies r v) ∧
    (List.zip r' r).all (fun x => x.1.beq x.2) = true := by
  induction h with
  | nil => simp [Range.within, Range.satisfies]
  | cons hs _ ih =>
    rename_i s' s r' r _
    obtain ⟨hb, _, hsem⟩ := hs
    obtain ⟨h1, h2, h3, h4⟩ := ih
    refine ⟨by simp [h1], ?_, ?_, ?_⟩
    · intro v
      have := h2 v
      simp only [Range.within, List.any_cons] at this ⊢
      rw [(hsem v).1, this]
    · intro v
      have := h3 v
      simp only [Range.satisfies, List.any_cons, BoundSet.satisfies] at this ⊢
      rw [(hsem v).1, (hsem v).2, this]
    · simp only [List.zip_cons_cons, List.all_cons, hb, Bool.true_and]
      exact h4

/-- **C13_roundtrip_good**: every range the crate can build round-trips through its printed form -/
theorem C13_roundtrip_good (r : Range) (hr : RangeGood r) :
    ∃ t r', Range.render r = some t ∧ Range.parse t = .ok r' ∧ Range.render r' = some t ∧
      r'.length = r.length ∧ (List.zip r' r).all (fun x => x.1.beq x.2) = true ∧
      (∀ v, Range.within r' v = Range.within r v) ∧ (∀ v, Range.satisfies r' v = Range.satisfies r v) ∧
      RangeGood r' := by
  have hwf := rangeGood_wf hr
  cases ht : Range.render r with
  | none => exact absurd ht (C13_render_total r hwf)
  | some t =>
    obtain ⟨r', h1, h2, h3⟩ := parse_render r hr.1 (fun s hs => good_printable (hr.2 s hs)) t ht
    obtain ⟨s1, s2, s3, s4⟩ := sameRange_sem h2
    exact ⟨t, r', rfl, h1, h3, s1, s4, s2, s3, parse_good h1⟩

/-- **C13_roundtrip_parsed**: for ranges obtained from `Range::parse` the re-parsed range compares
equal to the original, admits the same versions, and printing is stable -/
theorem C13_roundtrip_parsed (s : List Char) (r : Range) (h : Range.parse s = .ok r) :
    ∃ t r', Range.render r = some t ∧ Range.parse t = .ok r' ∧ Range.render r' = some t ∧
      r'.length = r.length ∧ (List.zip r' r).all (fun x => x.1.beq x.2) = true ∧
      (∀ v, Range.within r' v = Range.within r v) ∧ (∀ v, Range.satisfies r' v = Range.satisfies r v) := by
  obtain ⟨t, r', a, b, c, d, e, f, g, _⟩ := C13_roundtrip_good r (parse_good h)
  exact ⟨t, r', a, b, c, d, e, f, g⟩

/-- results of `intersect` round-trip, and remain operands whose results round-trip -/
theorem C13_roundtrip_intersect (a b r : Range) (ha : RangeGood a) (hb : RangeGood b)
    (h : Range.intersect a b = some r) :
    RangeGood r ∧ ∃ t r', Range.render r = some t ∧ Range.parse t = .ok r' ∧ Range.render r' = some t ∧
      (∀ v, Range.within r' v = Range.within r v) ∧ (∀ v, Range.satisfies r' v = Range.satisfies r v) := by
  have hg := range_intersect_good ha hb h
  obtain ⟨t, r', x1, x2, x3, _, _, x6, x7, _⟩ := C13_roundtrip_good r hg
  exact ⟨hg, t, r', x1, x2, x3, x6, x7⟩

/-- results of `difference` round-trip, and remain operands whose results round-trip -/
theorem C13_roundtrip_difference (a b r : Range) (ha : RangeGood a) (hb : RangeGood b)
    (h : Range.difference a b = some (some r)) :
    RangeGood r ∧ ∃ t r', Range.render r = some t ∧ Range.parse t = .ok r' ∧ Range.render r' = some t ∧
      (∀ v, Range.within r' v = Range.within r v) ∧ (∀ v, Range.satisfies r' v = Range.satisfies r v) := by
  have hg := range_difference_good ha hb h
  obtain ⟨t, r', x1, x2, x3, _, _, x6, x7, _⟩ := C13_roundtrip_good r hg
  exact ⟨hg, t, r', x1, x2, x3, x6, x7⟩

/-- parse results are the base case of `RangeGood` -/
theorem C13_parsed_good (s : List Char) (r : Range) (h : Range.parse s = .ok r) : RangeGood r := parse_good h

end Semver.C13
