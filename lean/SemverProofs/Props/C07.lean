import SemverProofs.Lemmas.Gate
/-!
# C07 — intersect computes exactly the set intersection of two ranges

For all well-formed ranges A and B (every range produced by `Range::parse`, `intersect` or
`difference` is well-formed: C06/C13 invariants) and every version v: v lies within the bounds of
`A.intersect(B)` exactly when it lies within the bounds of both; for release versions the result is
satisfied exactly when both are; a prerelease satisfying both satisfies the result, one satisfying
the result lies within both and satisfies at least one.  `None` only if no version lies within
both.  Commutative and idempotent on admitted versions.  The result is again well-formed.
-/
namespace Semver.C07
open Semver

theorem C07_within {A B R : Range} (hA : A.WF) (hB : B.WF) (h : Range.intersect A B = some R) (v : Version) :
    Range.within R v = true ↔ (Range.within A v = true ∧ Range.within B v = true) :=
  (Range.intersect_some hA hB h).2 v

theorem C07_none {A B : Range} (hA : A.WF) (hB : B.WF) (h : Range.intersect A B = none) (v : Version) :
    ¬ (Range.within A v = true ∧ Range.within B v = true) :=
  Range.intersect_none hA hB h v

theorem C07_closed {A B R : Range} (hA : A.WF) (hB : B.WF) (h : Range.intersect A B = some R) : R.WF :=
  (Range.intersect_some hA hB h).1

/-- satisfaction of the result, alternative by alternative -/
theorem sat_result {A B R : Range} (hA : A.WF) (hB : B.WF) (h : Range.intersect A B = some R) (v : Version) :
    Range.satisfies R v = true ↔
      ∃ x ∈ A, ∃ y ∈ B, x.within v = true ∧ y.within v = true ∧
        (v.isPre = false ∨ x.satisfies v = true ∨ y.satisfies v = true) := by
  unfold Range.intersect at h
  simp only at h
  split at h
  · cases h
  · cases h
    rw [Range.satisfies_iff]
    constructor
    · intro ⟨r, hr, hv⟩
      obtain ⟨x, hx, y, hy, hi⟩ := mem_intersectSets.mp hr
      exact ⟨x, hx, y, hy, (intersect_satisfies (hA.2 x hx) (hB.2 y hy) hi v).mp hv⟩
    · intro ⟨x, hx, y, hy, hv⟩
      cases hi : x.intersect y with
      | none => exact absurd ⟨hv.1, hv.2.1⟩ (intersect_none (hA.2 x hx) (hB.2 y hy) hi v)
      | some r =>
        exact ⟨r, mem_intersectSets.mpr ⟨x, hx, y, hy, hi⟩,
          (intersect_satisfies (hA.2 x hx) (hB.2 y hy) hi v).mpr hv⟩

theorem sat_release (r : Range) {v : Version} (hv : v.isPre = false) :
    Range.satisfies r v = Range.within r v := by
  simp only [Range.satisfies, Range.within, BoundSet.satisfies, hv]
  simp

/-- for release versions the result is satisfied exactly when both operands are -/
theorem C07_release {A B R : Range} (hA : A.WF) (hB : B.WF) (h : Range.intersect A B = some R)
    {v : Version} (hv : v.isPre = false) :
    Range.satisfies R v = true ↔ (Range.satisfies A v = true ∧ Range.satisfies B v = true) := by
  rw [sat_release R hv, sat_release A hv, sat_release B hv]
  exact C07_within hA hB h v

/-- a prerelease satisfying both operands satisfies the result -/
theorem C07_pre_in {A B R : Range} (hA : A.WF) (hB : B.WF) (h : Range.intersect A B = some R)
    {v : Version} (h1 : Range.satisfies A v = true) (h2 : Range.satisfies B v = true) :
    Range.satisfies R v = true := by
  rw [sat_result hA hB h]
  rw [Range.satisfies_iff] at h1 h2
  obtain ⟨x, hx, hxv⟩ := h1
  obtain ⟨y, hy, hyv⟩ := h2
  exact ⟨x, hx, y, hy, ((satisfies_iff x v).mp hxv).1, ((satisfies_iff y v).mp hyv).1, Or.inr (Or.inl hxv)⟩

/-- a version satisfying the result lies within both and satisfies at least one -/
theorem C07_pre_out {A B R : Range} (hA : A.WF) (hB : B.WF) (h : Range.intersect A B = some R)
    {v : Version} (hv : v.isPre = true) (hr : Range.satisfies R v = true) :
    Range.within A v = true ∧ Range.within B v = true ∧
      (Range.satisfies A v = true ∨ Range.satisfies B v = true) := by
  rw [sat_result hA hB h] at hr
  obtain ⟨x, hx, y, hy, h1, h2, h3⟩ := hr
  refine ⟨(Range.within_iff A v).mpr ⟨x, hx, h1⟩, (Range.within_iff B v).mpr ⟨y, hy, h2⟩, ?_⟩
  rcases h3 with h3 | h3 | h3
  · rw [hv] at h3; cases h3
  · exact Or.inl ((Range.satisfies_iff A v).mpr ⟨x, hx, h3⟩)
  · exact Or.inr ((Range.satisfies_iff B v).mpr ⟨y, hy, h3⟩)

/-- the result is `None` only if no version satisfies both -/
theorem C07_none_sat {A B : Range} (hA : A.WF) (hB : B.WF) (h : Range.intersect A B = none) (v : Version) :
    ¬ (Range.satisfies A v = true ∧ Range.satisfies B v = true) := by
  intro ⟨h1, h2⟩
  rw [Range.satisfies_iff] at h1 h2
  obtain ⟨x, hx, hxv⟩ := h1
  obtain ⟨y, hy, hyv⟩ := h2
  exact C07_none hA hB h v ⟨(Range.within_iff A v).mpr ⟨x, hx, ((satisfies_iff x v).mp hxv).1⟩,
    (Range.within_iff B v).mpr ⟨y, hy, ((satisfies_iff y v).mp hyv).1⟩⟩

/-- commutative on admitted versions (bounds membership and satisfaction) -/
theorem C07_comm {A B : Range} (hA : A.WF) (hB : B.WF) :
    (Range.intersect A B).isSome = (Range.intersect B A).isSome ∧
    ∀ R R', Range.intersect A B = some R → Range.intersect B A = some R' →
      ∀ v, (Range.within R v = Range.within R' v) ∧ (Range.satisfies R v = Range.satisfies R' v) := by
  refine ⟨?_, ?_⟩
  · rw [← Range.allowsAny_eq_intersect hA hB, ← Range.allowsAny_eq_intersect hB hA]
    exact Range.allowsAny_symm hA hB
  · intro R R' h h' v
    constructor
    · have a := C07_within hA hB h v
      have b := C07_within hB hA h' v
      cases h1 : Range.within R v <;> cases h2 : Range.within R' v <;> simp_all
    · have a := sat_result hA hB h v
      have b := sat_result hB hA h' v
      have : Range.satisfies R v = true ↔ Range.satisfies R' v = true := by
        rw [a, b]
        constructor
        · intro ⟨x, hx, y, hy, h1, h2, h3⟩
          exact ⟨y, hy, x, hx, h2, h1, by grind⟩
        · intro ⟨x, hx, y, hy, h1, h2, h3⟩
          exact ⟨y, hy, x, hx, h2, h1, by grind⟩
      cases h1 : Range.satisfies R v <;> cases h2 : Range.satisfies R' v <;> simp_all

/-- idempotent on admitted versions -/
theorem C07_idem {A : Range} (hA : A.WF) :
    ∃ R, Range.intersect A A = some R ∧
      ∀ v, Range.within R v = Range.within A v ∧ Range.satisfies R v = Range.satisfies A v := by
  cases h : Range.intersect A A with
  | none =>
    exfalso
    -- a well-formed range is never disjoint from itself by the crate's own rule
    have hany : Range.allowsAny A A = true := by
      obtain ⟨hne, hwf⟩ := hA
      cases A with
      | nil => exact absurd rfl hne
      | cons x rest =>
        rw [Range.allowsAny_iff]
        refine ⟨x, by simp, x, by simp, ?_⟩
        exact allowsAll_imp_allowsAny (hwf x (by simp)) (hwf x (by simp)) (allowsAll_refl (hwf x (by simp)))
    rw [Range.allowsAny_eq_intersect hA hA, h] at hany
    cases hany
  | some R =>
    refine ⟨R, rfl, ?_⟩
    intro v
    constructor
    · have a := C07_within hA hA h v
      cases h1 : Range.within R v <;> cases h2 : Range.within A v <;> simp_all
    · have a := sat_result hA hA h v
      have : Range.satisfies R v = true ↔ Range.satisfies A v = true := by
        rw [a, Range.satisfies_iff]
        constructor
        · intro ⟨x, hx, y, hy, h1, h2, h3⟩
          rcases h3 with h3 | h3 | h3
          · exact ⟨x, hx, (satisfies_iff x v).mpr ⟨h1, Or.inl h3⟩⟩
          · exact ⟨x, hx, h3⟩
          · exact ⟨y, hy, h3⟩
        · intro ⟨x, hx, hxv⟩
          have := ((satisfies_iff x v).mp hxv).1
          exact ⟨x, hx, x, hx, this, this, Or.inr (Or.inl hxv)⟩
      cases h1 : Range.satisfies R v <;> cases h2 : Range.satisfies A v <;> simp_all

/-! ## Non-vacuity: a well-formed pair with a non-trivial intersection -/

example : BoundSet.WF ⟨.up (.exc (Version.mk3 2 0 0)), .lo (.inc (Version.mk3 1 0 0))⟩ :=
  ⟨_, _, rfl, by unfold Pred.valid; decide, by unfold Pred.valid; decide, by show Version.mk3 1 0 0 < Version.mk3 2 0 0; decide⟩

end Semver.C07
