import SemverProofs.Props.C04
import SemverModel.Range
/-!
# C14 — max_satisfying / min_satisfying return the extreme satisfying list element

Holds for every range value (no well-formedness needed) and every list of versions.
-/
namespace Semver.C14
open Semver

theorem C14_max (r : Range) (vs : List Version) (m : Version) (h : r.maxSatisfying vs = some m) :
    m ∈ vs ∧ r.satisfies m = true ∧ ∀ x ∈ vs, r.satisfies x = true → x ≤ m := by
  have := (C04.C04_max (vs.filter r.satisfies)).2 m h
  simp only [List.mem_filter] at this
  exact ⟨this.1.1, this.1.2, fun x hx hs => this.2 x ⟨hx, hs⟩⟩

theorem C14_max_none (r : Range) (vs : List Version) :
    r.maxSatisfying vs = none ↔ ∀ x ∈ vs, r.satisfies x = false := by
  rw [Range.maxSatisfying, (C04.C04_max _).1, List.filter_eq_nil_iff]
  simp

theorem C14_min (r : Range) (vs : List Version) (m : Version) (h : r.minSatisfying vs = some m) :
    m ∈ vs ∧ r.satisfies m = true ∧ ∀ x ∈ vs, r.satisfies x = true → m ≤ x := by
  have := (C04.C04_min (vs.filter r.satisfies)).2 m h
  simp only [List.mem_filter] at this
  exact ⟨this.1.1, this.1.2, fun x hx hs => this.2 x ⟨hx, hs⟩⟩

theorem C14_min_none (r : Range) (vs : List Version) :
    r.minSatisfying vs = none ↔ ∀ x ∈ vs, r.satisfies x = false := by
  rw [Range.minSatisfying, (C04.C04_min _).1, List.filter_eq_nil_iff]
  simp

/-- never selects a version the range does not admit — in particular never an unadmitted prerelease -/
theorem C14_never_unadmitted (r : Range) (vs : List Version) (m : Version)
    (h : r.maxSatisfying vs = some m ∨ r.minSatisfying vs = some m) : r.satisfies m = true := by
  rcases h with h | h
  · exact (C14_max r vs m h).2.1
  · exact (C14_min r vs m h).2.1

/-- the answer does not depend on the order of the slice, beyond the choice among precedence-equal
elements -/
theorem C14_perm_max (r : Range) (vs ws : List Version) (hp : vs.Perm ws) :
    (r.maxSatisfying vs = none ↔ r.maxSatisfying ws = none) ∧
    ∀ m m', r.maxSatisfying vs = some m → r.maxSatisfying ws = some m' → (m ≤ m' ∧ m' ≤ m) := by
  constructor
  · rw [C14_max_none, C14_max_none]
    constructor
    · intro h x hx; exact h x (hp.mem_iff.mpr hx)
    · intro h x hx; exact h x (hp.mem_iff.mp hx)
  · intro m m' h h'
    obtain ⟨a1, a2, a3⟩ := C14_max r vs m h
    obtain ⟨b1, b2, b3⟩ := C14_max r ws m' h'
    exact ⟨b3 m (hp.mem_iff.mp a1) a2, a3 m' (hp.mem_iff.mpr b1) b2⟩

theorem C14_perm_min (r : Range) (vs ws : List Version) (hp : vs.Perm ws) :
    (r.minSatisfying vs = none ↔ r.minSatisfying ws = none) ∧
    ∀ m m', r.minSatisfying vs = some m → r.minSatisfying ws = some m' → (m ≤ m' ∧ m' ≤ m) := by
  constructor
  · rw [C14_min_none, C14_min_none]
    constructor
    · intro h x hx; exact h x (hp.mem_iff.mpr hx)
    · intro h x hx; exact h x (hp.mem_iff.mp hx)
  · intro m m' h h'
    obtain ⟨a1, a2, a3⟩ := C14_min r vs m h
    obtain ⟨b1, b2, b3⟩ := C14_min r ws m' h'
    exact ⟨a3 m' (hp.mem_iff.mpr b1) b2, b3 m (hp.mem_iff.mp a1) a2⟩

end Semver.C14
