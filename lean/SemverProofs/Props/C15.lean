import SemverProofs.Props.C08
import SemverModel.Expr
/-!
# C15 — Range set algebra identities hold across arbitrary compositions

`denote` is the set meaning of an expression tree over well-formed leaves (the leaves are parsed
ranges; C13 shows parsed ranges are well-formed).  `C15_eval_denote` says evaluation never panics,
every intermediate result is well-formed (hence a valid operand for further operations), and the
result's bounds membership is exactly `denote`, for trees of any depth.  Every identity in the
statement is then an identity of sets.
-/
namespace Semver.C15
open Semver C08

/-- the set of versions an expression tree denotes, on bounds membership -/
def denote : Expr → Version → Prop
  | .leaf r, v => Range.within r v = true
  | .isect a b, v => denote a v ∧ denote b v
  | .diff a b, v => denote a v ∧ ¬ denote b v

/-- all leaves are well-formed ranges -/
def leavesWF : Expr → Prop
  | .leaf r => r.WF
  | .isect a b => leavesWF a ∧ leavesWF b
  | .diff a b => leavesWF a ∧ leavesWF b

def optWF : Option Range → Prop
  | none => True
  | some r => r.WF

/-- **C15_eval_denote**: for trees of any depth over well-formed leaves, evaluation does not panic,
the result is well-formed (a valid operand), and it denotes exactly the set-theoretic meaning. -/
theorem C15_eval_denote (e : Expr) (h : leavesWF e) :
    ∃ res, e.eval = some res ∧ optWF res ∧ ∀ v, withinOpt res v = true ↔ denote e v := by
  induction e with
  | leaf r => exact ⟨some r, rfl, h, fun v => Iff.rfl⟩
  | isect a b iha ihb =>
    obtain ⟨ra, ea, wa, da⟩ := iha h.1
    obtain ⟨rb, eb, wb, db⟩ := ihb h.2
    simp only [Expr.eval, ea, eb, denote]
    cases ra with
    | none =>
      refine ⟨none, by cases rb <;> rfl, trivial, ?_⟩
      intro v; have := da v; simp [withinOpt] at this ⊢; intro hx; exact absurd hx this
    | some x =>
      cases rb with
      | none =>
        refine ⟨none, rfl, trivial, ?_⟩
        intro v; have := db v; simp [withinOpt] at this ⊢; intro _ hx; exact absurd hx this
      | some y =>
        refine ⟨Range.intersect x y, rfl, ?_, ?_⟩
        · cases hi : Range.intersect x y with
          | none => trivial
          | some r => exact C07.C07_closed wa wb hi
        · intro v
          rw [withinOpt_intersect wa wb, ← da v, ← db v]
          simp [withinOpt]
  | diff a b iha ihb =>
    obtain ⟨ra, ea, wa, da⟩ := iha h.1
    obtain ⟨rb, eb, wb, db⟩ := ihb h.2
    simp only [Expr.eval, ea, eb, denote]
    cases ra with
    | none =>
      refine ⟨none, by cases rb <;> rfl, trivial, ?_⟩
      intro v; have := da v; simp [withinOpt] at this ⊢; intro hx; exact absurd hx this
    | some x =>
      cases rb with
      | none =>
        refine ⟨some x, rfl, wa, ?_⟩
        intro v
        have h1 := da v; have h2 := db v
        simp only [withinOpt, Bool.false_eq_true, false_iff] at h1 h2 ⊢
        rw [h1]; simp [h2]
      | some y =>
        obtain ⟨res, hres⟩ := C08_total wa wb
        refine ⟨res, hres, ?_, ?_⟩
        · cases res with
          | none => trivial
          | some r => exact C08_closed wa wb hres
        · intro v
          rw [withinOpt_difference wa wb hres, ← da v, ← db v]
          simp [withinOpt]

/-- evaluation never panics (no `unwrap()`/`unreachable!` is reached, whatever the depth) -/
theorem C15_no_panic (e : Expr) (h : leavesWF e) : e.eval ≠ none := by
  obtain ⟨res, hr, _⟩ := C15_eval_denote e h
  rw [hr]; simp

/-- results remain valid operands for further operations -/
theorem C15_reusable (e : Expr) (h : leavesWF e) (r : Range) (hr : e.eval = some (some r)) :
    leavesWF (.leaf r) := by
  obtain ⟨res, hr', hwf, _⟩ := C15_eval_denote e h
  rw [hr] at hr'; cases hr'
  exact hwf

/-- two expressions denote the same set ⇒ their results admit the same versions (bounds) -/
theorem same_result {e1 e2 : Expr} (h1 : leavesWF e1) (h2 : leavesWF e2)
    (hd : ∀ v, denote e1 v ↔ denote e2 v) :
    ∃ r1 r2, e1.eval = some r1 ∧ e2.eval = some r2 ∧ ∀ v, withinOpt r1 v = withinOpt r2 v := by
  obtain ⟨r1, e1', _, d1⟩ := C15_eval_denote e1 h1
  obtain ⟨r2, e2', _, d2⟩ := C15_eval_denote e2 h2
  refine ⟨r1, r2, e1', e2', ?_⟩
  intro v
  have : withinOpt r1 v = true ↔ withinOpt r2 v = true := by rw [d1, d2, hd]
  cases h : withinOpt r1 v <;> cases h' : withinOpt r2 v <;> simp_all

/-- an expression denoting the empty set evaluates to a result admitting nothing -/
theorem empty_result {e : Expr} (h : leavesWF e) (hd : ∀ v, ¬ denote e v) :
    ∃ r, e.eval = some r ∧ ∀ v, withinOpt r v = false := by
  obtain ⟨r, e', _, d⟩ := C15_eval_denote e h
  refine ⟨r, e', ?_⟩
  intro v
  cases hw : withinOpt r v with
  | false => rfl
  | true => exact absurd ((d v).mp hw) (hd v)

/-! ## The identities of the statement, for arbitrary sub-expressions A, B, C -/

theorem C15_comm (A B : Expr) (hA : leavesWF A) (hB : leavesWF B) :
    ∃ r1 r2, (Expr.isect A B).eval = some r1 ∧ (Expr.isect B A).eval = some r2 ∧
      ∀ v, withinOpt r1 v = withinOpt r2 v :=
  same_result (e1 := .isect A B) (e2 := .isect B A) ⟨hA, hB⟩ ⟨hB, hA⟩ (by intro v; simp [denote, and_comm])

theorem C15_assoc (A B C : Expr) (hA : leavesWF A) (hB : leavesWF B) (hC : leavesWF C) :
    ∃ r1 r2, (Expr.isect (.isect A B) C).eval = some r1 ∧ (Expr.isect A (.isect B C)).eval = some r2 ∧
      ∀ v, withinOpt r1 v = withinOpt r2 v :=
  same_result (e1 := .isect (.isect A B) C) (e2 := .isect A (.isect B C)) ⟨⟨hA, hB⟩, hC⟩ ⟨hA, hB, hC⟩
    (by intro v; simp [denote, and_assoc])

theorem C15_idem (A : Expr) (hA : leavesWF A) :
    ∃ r1 r2, (Expr.isect A A).eval = some r1 ∧ A.eval = some r2 ∧ ∀ v, withinOpt r1 v = withinOpt r2 v :=
  same_result (e1 := .isect A A) (e2 := A) ⟨hA, hA⟩ hA (by intro v; simp [denote])

theorem C15_self_diff_empty (A : Expr) (hA : leavesWF A) :
    ∃ r, (Expr.diff A A).eval = some r ∧ ∀ v, withinOpt r v = false :=
  empty_result (e := .diff A A) ⟨hA, hA⟩ (by intro v; simp [denote])

theorem C15_diff_inter_empty (A B : Expr) (hA : leavesWF A) (hB : leavesWF B) :
    ∃ r, (Expr.isect (.diff A B) B).eval = some r ∧ ∀ v, withinOpt r v = false :=
  empty_result (e := .isect (.diff A B) B) ⟨⟨hA, hB⟩, hB⟩ (by intro v; simp [denote])

/-- A is the disjoint union of `A ∩ B` and `A \ B` -/
theorem C15_partition (A B : Expr) (hA : leavesWF A) (hB : leavesWF B) :
    ∃ ra ri rd, A.eval = some ra ∧ (Expr.isect A B).eval = some ri ∧ (Expr.diff A B).eval = some rd ∧
      ∀ v, (withinOpt ra v = true ↔ (withinOpt ri v = true ∨ withinOpt rd v = true)) ∧
        ¬ (withinOpt ri v = true ∧ withinOpt rd v = true) := by
  obtain ⟨ra, ea, _, da⟩ := C15_eval_denote A hA
  obtain ⟨ri, ei, _, di⟩ := C15_eval_denote (.isect A B) ⟨hA, hB⟩
  obtain ⟨rd, ed, _, dd⟩ := C15_eval_denote (.diff A B) ⟨hA, hB⟩
  refine ⟨ra, ri, rd, ea, ei, ed, ?_⟩
  intro v
  rw [da, di, dd]
  simp only [denote]
  constructor
  · constructor
    · intro ha; by_cases hb : denote B v
      · exact Or.inl ⟨ha, hb⟩
      · exact Or.inr ⟨ha, hb⟩
    · rintro (⟨ha, _⟩ | ⟨ha, _⟩) <;> exact ha
  · rintro ⟨⟨_, hb⟩, ⟨_, hnb⟩⟩; exact hnb hb

theorem C15_double_diff (A B : Expr) (hA : leavesWF A) (hB : leavesWF B) :
    ∃ r1 r2, (Expr.diff A (.diff A B)).eval = some r1 ∧ (Expr.isect A B).eval = some r2 ∧
      ∀ v, withinOpt r1 v = withinOpt r2 v :=
  same_result (e1 := .diff A (.diff A B)) (e2 := .isect A B) ⟨hA, hA, hB⟩ ⟨hA, hB⟩
    (by intro v; simp only [denote]; constructor
        · intro ⟨ha, hn⟩; exact ⟨ha, Classical.byContradiction (fun hb => hn ⟨ha, hb⟩)⟩
        · intro ⟨ha, hb⟩; exact ⟨ha, fun ⟨_, hnb⟩ => hnb hb⟩)

end Semver.C15
