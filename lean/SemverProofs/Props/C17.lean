import SemverProofs.Lemmas.Location
import SemverProofs.Lemmas.VersionParse
import SemverModel.RangeParse
/-!
# C17 — parse errors report the original input, an in-range offset and the right kind

For every string: whenever `Version::parse` or `Range::parse` fails, `input()` is the string passed
in, `offset()` is the byte length of a character prefix of it (a character boundary, at most its
length), `location()` is the line and column of that offset (stated independently in
`Spec.lineCol`) — so it does not panic —, over-long versions report `MaxLengthError`, a component
above MAX_SAFE_INTEGER reports `MaxIntError` with that value at the component's position, one
overflowing `u64` reports `ParseIntError`, and a range without a valid comparator reports
`NoValidRanges`.  The values handed to miette (source = input, one label at the offset with
length 0) are therefore in range; miette's own rendering is executed by the harness, not modelled.
-/
namespace Semver.C17
open Semver Spec

/-! ### every error position is a suffix of the input -/

theorem number_err {s : List Char} {e : PErr} (h : number s = .err e) : e.rest = s := by
  unfold number at h
  simp only at h
  split at h
  · cases h; rfl
  · split at h
    · cases h; rfl
    · split at h
      · cases h; rfl
      · cases h

theorem versionCore_err {s : List Char} {e : PErr} (h : versionCore s = .err e) : e.rest <:+ s := by
  unfold versionCore at h
  split at h
  · rename_i e1 h1; cases h; rw [PErr.withCtx, number_err h1]; exact List.suffix_refl _
  · rename_i a r1 h1
    obtain ⟨A, hA, _⟩ := number_ok h1
    have s1 : r1 <:+ s := ⟨A, hA.symm⟩
    split at h
    · rename_i e2 h2
      cases h
      have : e2.rest = r1 := by unfold dot at h2; split at h2 <;> cases h2; rfl
      simp only [PErr.withCtx, this]; exact s1
    · rename_i r2 h2
      have d1 : r1 = '.' :: r2 := by unfold dot at h2; split at h2 <;> cases h2; rfl
      have s2 : r2 <:+ s := List.IsSuffix.trans ⟨['.'], by rw [d1]; rfl⟩ s1
      split at h
      · rename_i e3 h3; cases h; simp only [PErr.withCtx, number_err h3]; exact s2
      · rename_i b r3 h3
        obtain ⟨B, hB, _⟩ := number_ok h3
        have s3 : r3 <:+ s := List.IsSuffix.trans ⟨B, hB.symm⟩ s2
        split at h
        · rename_i e4 h4
          cases h
          have : e4.rest = r3 := by unfold dot at h4; split at h4 <;> cases h4; rfl
          simp only [PErr.withCtx, this]; exact s3
        · rename_i r4 h4
          have d2 : r3 = '.' :: r4 := by unfold dot at h4; split at h4 <;> cases h4; rfl
          have s4 : r4 <:+ s := List.IsSuffix.trans ⟨['.'], by rw [d2]; rfl⟩ s3
          split at h
          · rename_i e5 h5; cases h; simp only [PErr.withCtx, number_err h5]; exact s4
          · cases h

theorem versionCore_ok_suffix {s r : List Char} {x : Nat × Nat × Nat} (h : versionCore s = .ok x r) :
    r <:+ s := by
  obtain ⟨a, b, c⟩ := x
  obtain ⟨A, B, C, hs, _⟩ := versionCore_ok h
  exact ⟨A ++ '.' :: (B ++ '.' :: C), by rw [hs]; simp⟩

theorem extras_suffix (s : List Char) : (extras s).2 <:+ s := by
  unfold extras
  split
  · rename_i p r1 h1
    obtain ⟨P, hs, _⟩ := preRelease_ok h1
    have s1 : r1 <:+ s := ⟨P, hs.symm⟩
    split
    · rename_i b r2 h2
      obtain ⟨T, hs2, _⟩ := buildMeta_ok h2
      exact List.IsSuffix.trans ⟨'+' :: T, by rw [hs2]; rfl⟩ s1
    · exact s1
  · split
    · rename_i b r h2
      obtain ⟨T, hs2, _⟩ := buildMeta_ok h2
      exact ⟨'+' :: T, by rw [hs2]; rfl⟩
    · exact List.suffix_refl _

theorem dropBlanks_suffix (s : List Char) : dropBlanks s <:+ s :=
  ⟨(span isBlank s).1, span_eq _ _⟩

theorem stripVV_suffix (s : List Char) : stripVV s <:+ s := by
  obtain ⟨pfx, h, _⟩ := stripVV_ok s
  exact ⟨pfx, h.symm⟩

theorem versionP_err {s : List Char} {e : PErr} (h : versionP s = .err e) : e.rest <:+ s := by
  unfold versionP at h
  simp only at h
  have s2 : dropBlanks (stripVV s) <:+ s := List.IsSuffix.trans (dropBlanks_suffix _) (stripVV_suffix s)
  split at h
  · rename_i e1 h1
    cases h
    simp only [PErr.withCtx]
    exact List.IsSuffix.trans (versionCore_err h1) s2
  · rename_i a b c r hcore
    have s3 : r <:+ s := List.IsSuffix.trans (versionCore_ok_suffix hcore) s2
    split at h
    · cases h
    · rename_i c' t hnil
      cases h
      simp only
      exact List.IsSuffix.trans (dropBlanks_suffix _) (List.IsSuffix.trans (extras_suffix r) s3)

/-- the error of `Version::parse`, as a prefix boundary of the input -/
theorem parse_error_shape (s : List Char) (e : SemverError) (h : Version.parse s = .error e) :
    e.input = s ∧ ∃ p r, s = p ++ r ∧ e.offset = utf8Len p := by
  unfold Version.parse at h
  split at h
  · cases h
    refine ⟨rfl, ?_⟩
    cases hl : s.getLast? with
    | none => exact ⟨[], s, rfl, rfl⟩
    | some c =>
      obtain ⟨p, hp⟩ : ∃ p, s = p ++ [c] := by
        rw [List.getLast?_eq_some_iff] at hl; exact hl
      refine ⟨p, [c], hp, ?_⟩
      simp only
      rw [hp, utf8Len_append', utf8Len_cons', utf8Len_nil]; omega
  · split at h
    · cases h
    · rename_i pe hp
      cases h
      refine ⟨rfl, ?_⟩
      obtain ⟨p, hp'⟩ := versionP_err hp
      refine ⟨p, pe.rest, hp'.symm, ?_⟩
      simp only
      rw [← hp', utf8Len_append']; omega

/-- **C17_input** -/
theorem C17_input_version (s : List Char) (e : SemverError) (h : Version.parse s = .error e) : e.input = s :=
  (parse_error_shape s e h).1

theorem C17_input_range (s : List Char) (e : SemverError) (h : Range.parse s = .error e) : e.input = s := by
  unfold Range.parse at h
  simp only at h
  split at h <;> cases h; rfl

/-- **C17_offset**: the offset is a character boundary of the input, at most its length -/
theorem C17_offset_version (s : List Char) (e : SemverError) (h : Version.parse s = .error e) :
    e.offset ≤ utf8Len s ∧ Spec.isBoundary s e.offset = true := by
  obtain ⟨_, p, r, hs, ho⟩ := parse_error_shape s e h
  constructor
  · rw [ho, hs, utf8Len_append']; omega
  · rw [ho, hs, Spec.isBoundary, lineCol_prefix]; rfl

theorem C17_offset_range (s : List Char) (e : SemverError) (h : Range.parse s = .error e) :
    e.offset = 0 ∧ Spec.isBoundary s e.offset = true := by
  unfold Range.parse at h
  simp only at h
  split at h <;> cases h
  refine ⟨rfl, ?_⟩
  have := lineCol_prefix [] s
  simp only [List.nil_append, utf8Len_nil] at this
  simp [Spec.isBoundary, this]

/-- **C17_location**: `location()` is the 0-based line and column of the offset (and is defined) -/
theorem C17_location_version (s : List Char) (e : SemverError) (h : Version.parse s = .error e) :
    e.location = Spec.lineCol s e.offset ∧ e.location ≠ none := by
  obtain ⟨hi, p, r, hs, ho⟩ := parse_error_shape s e h
  have he : e = ⟨p ++ r, utf8Len p, e.kind⟩ := by
    cases e; simp only at hi ho ⊢; rw [hi, ho, hs]
  rw [he]
  simp only
  rw [hs] 
  exact ⟨location_eq_spec p r _, by rw [location_prefix]; simp⟩

theorem C17_location_range (s : List Char) (e : SemverError) (h : Range.parse s = .error e) :
    e.location = some (0, 0) ∧ Spec.lineCol s e.offset = some (0, 0) := by
  unfold Range.parse at h
  simp only at h
  split at h <;> cases h
  have h1 := location_prefix [] s .noValidRanges
  have h2 := lineCol_prefix [] s
  simp only [List.nil_append, utf8Len_nil] at h1 h2
  exact ⟨h1, h2⟩

/-! ### kinds -/

/-- over-long versions report `MaxLengthError` -/
theorem C17_max_length (s : List Char) (h : MAX_LENGTH < utf8Len s) :
    ∃ off, Version.parse s = .error ⟨s, off, .maxLength⟩ := by
  unfold Version.parse
  rw [if_pos h]
  exact ⟨_, rfl⟩

/-- a range without any valid comparator reports `NoValidRanges` (the only range error) -/
theorem C17_no_valid_ranges (s : List Char) (e : SemverError) (h : Range.parse s = .error e) :
    e = ⟨s, 0, .noValidRanges⟩ := by
  unfold Range.parse at h
  simp only at h
  split at h <;> cases h; rfl

theorem number_big {A rest : List Char} (hA : A.all isDigit = true) (hne : A ≠ [])
    (hr : ∀ c, rest.head? = some c → isDigit c = false) (hv : MAX_SAFE_INTEGER < valOf A) :
    number (A ++ rest) = .err ⟨A ++ rest, some "number component",
      some (if U64 ≤ valOf A then .parseIntOverflow else .maxInt (valOf A))⟩ := by
  unfold number
  rw [span_append isDigit A rest hA hr]
  have h1 : A.isEmpty = false := by cases A <;> simp_all
  by_cases h2 : U64 ≤ valOf A
  · simp [h1, h2]
  · simp [h1, h2, hv]

theorem stripVV_blank_digit {b1 A rest : List Char} (hb1 : b1.all isBlank = true) (hA : A.all isDigit = true)
    (hne : A ≠ []) : stripVV (b1 ++ (A ++ rest)) = b1 ++ (A ++ rest) := by
  unfold stripVV
  cases b1 with
  | nil =>
    cases A with
    | nil => exact absurd rfl hne
    | cons a as =>
      simp only [List.all_cons, Bool.and_eq_true] at hA
      split
      · rename_i t heq; simp at heq; have := hA.1; rw [heq.1] at this; exact absurd this (by decide)
      · rename_i t heq; simp at heq; have := hA.1; rw [heq.1] at this; exact absurd this (by decide)
      · rfl
  | cons x xs =>
    simp only [List.all_cons, Bool.and_eq_true] at hb1
    split
    · rename_i t heq; simp at heq; have := hb1.1; rw [heq.1] at this; exact absurd this (by decide)
    · rename_i t heq; simp at heq; have := hb1.1; rw [heq.1] at this; exact absurd this (by decide)
    · rfl

theorem head_digit_not_blank {A rest : List Char} (hA : A.all isDigit = true) (hne : A ≠ []) :
    ∀ c, (A ++ rest).head? = some c → isBlank c = false := by
  intro c hc
  cases A with
  | nil => exact absurd rfl hne
  | cons a as =>
    simp at hc; subst hc
    simp only [List.all_cons, Bool.and_eq_true] at hA
    exact isDigit_not_blank hA.1

/-- the part of the input before the component that fails: optional `v`, blanks, and the
components already read -/
inductive Before : List Char → Prop
  | first {pfx b1} : (pfx = [] ∨ pfx = ['v'] ∨ pfx = ['V']) → b1.all isBlank = true → Before (pfx ++ b1)
  | second {pfx b1 A a} : (pfx = [] ∨ pfx = ['v'] ∨ pfx = ['V']) → b1.all isBlank = true → NumText A a →
      Before (pfx ++ (b1 ++ (A ++ ['.'])))
  | third {pfx b1 A a B b} : (pfx = [] ∨ pfx = ['v'] ∨ pfx = ['V']) → b1.all isBlank = true → NumText A a →
      NumText B b → Before (pfx ++ (b1 ++ (A ++ '.' :: (B ++ ['.']))))

/-- **C17_kinds (components)**: a component above MAX_SAFE_INTEGER reports `MaxIntError` with that
value — or `ParseIntError` if it overflows `u64` — at the component's own position, whichever of
the three components it is -/
theorem C17_component_too_large {before A rest : List Char} (hb : Before before)
    (hA : A.all isDigit = true) (hne : A ≠ []) (hr : ∀ c, rest.head? = some c → isDigit c = false)
    (hv : MAX_SAFE_INTEGER < valOf A) (hlen : utf8Len (before ++ (A ++ rest)) ≤ MAX_LENGTH) :
    Version.parse (before ++ (A ++ rest)) =
      .error ⟨before ++ (A ++ rest), utf8Len before,
        if U64 ≤ valOf A then .parseIntOverflow else .maxInt (valOf A)⟩ := by
  have hnl : ¬ MAX_LENGTH < utf8Len (before ++ (A ++ rest)) := by omega
  unfold Version.parse
  rw [if_neg hnl]
  have hnum := number_big hA hne hr hv
  have key : versionP (before ++ (A ++ rest)) = .err ⟨A ++ rest, some "version",
      some (if U64 ≤ valOf A then .parseIntOverflow else .maxInt (valOf A))⟩ := by
    cases hb with
    | first hpfx hb1 =>
      rename_i pfx b1
      have hstrip : stripVV (pfx ++ b1 ++ (A ++ rest)) = b1 ++ (A ++ rest) := by
        rcases hpfx with rfl | rfl | rfl
        · simpa using stripVV_blank_digit hb1 hA hne
        · simp [stripVV]
        · simp [stripVV]
      unfold versionP
      simp only
      rw [hstrip, dropBlanks_append b1 _ hb1 (head_digit_not_blank hA hne)]
      unfold versionCore
      rw [hnum]
      rfl
    | second hpfx hb1 hA0 =>
      rename_i pfx b1 A0 a0
      have hA0d : A0.all isDigit = true := by rw [← all_digit_eq]; exact hA0.2.1
      have hstrip : stripVV (pfx ++ (b1 ++ (A0 ++ ['.'])) ++ (A ++ rest)) = b1 ++ (A0 ++ '.' :: (A ++ rest)) := by
        rcases hpfx with rfl | rfl | rfl
        · have := stripVV_blank_digit (rest := '.' :: (A ++ rest)) hb1 hA0d hA0.1
          simpa using this
        · simp [stripVV]
        · simp [stripVV]
      unfold versionP
      simp only
      rw [hstrip, dropBlanks_append b1 _ hb1 (head_digit_not_blank hA0d hA0.1)]
      unfold versionCore
      rw [number_of_numText hA0 dot_not_digit]
      simp only [dot]
      rw [hnum]
      rfl
    | third hpfx hb1 hA0 hB0 =>
      rename_i pfx b1 A0 a0 B0 b0
      have hA0d : A0.all isDigit = true := by rw [← all_digit_eq]; exact hA0.2.1
      have hstrip : stripVV (pfx ++ (b1 ++ (A0 ++ '.' :: (B0 ++ ['.']))) ++ (A ++ rest)) =
          b1 ++ (A0 ++ '.' :: (B0 ++ '.' :: (A ++ rest))) := by
        rcases hpfx with rfl | rfl | rfl
        · have := stripVV_blank_digit (rest := '.' :: (B0 ++ '.' :: (A ++ rest))) hb1 hA0d hA0.1
          simpa using this
        · simp [stripVV]
        · simp [stripVV]
      unfold versionP
      simp only
      rw [hstrip, dropBlanks_append b1 _ hb1 (head_digit_not_blank hA0d hA0.1)]
      unfold versionCore
      rw [number_of_numText hA0 dot_not_digit]
      simp only [dot]
      rw [number_of_numText hB0 dot_not_digit]
      simp only
      rw [hnum]
      rfl
  rw [key]
  simp only [PErr.finalKind]
  congr 1
  simp only [SemverError.mk.injEq, true_and, and_true]
  rw [utf8Len_append']; omega

/-- the kinds `IncompleteInput`, `Other` and `NoValidRanges` are never reported by `Version::parse` -/
theorem C17_unreachable_kinds (s : List Char) (e : SemverError) (h : Version.parse s = .error e) :
    e.kind ≠ .incompleteInput ∧ e.kind ≠ .other ∧ e.kind ≠ .noValidRanges := by
  unfold Version.parse at h
  split at h
  · cases h; simp
  · split at h
    · cases h
    · rename_i pe hp
      cases h
      -- every error of `version()` passes through `.context("version")` and carries either an
      -- explicit kind set by `number()` or no kind at all
      have hctx : pe.ctx = some "version" ∧
          (pe.kind = none ∨ pe.kind = some .parseIntOverflow ∨ ∃ n, pe.kind = some (.maxInt n)) := by
        unfold versionP at hp
        simp only at hp
        split at hp
        · rename_i e1 h1
          cases hp
          refine ⟨rfl, ?_⟩
          simp only [PErr.withCtx]
          have hn : ∀ {t : List Char} {e' : PErr}, number t = .err e' →
              (e'.kind = none ∨ e'.kind = some .parseIntOverflow ∨ ∃ n, e'.kind = some (.maxInt n)) := by
            intro t e' h'
            unfold number at h'
            simp only at h'
            split at h'
            · cases h'; exact Or.inl rfl
            · split at h'
              · cases h'; exact Or.inr (Or.inl rfl)
              · split at h'
                · cases h'; exact Or.inr (Or.inr ⟨_, rfl⟩)
                · cases h'
          have hd : ∀ {t : List Char} {e' : PErr}, dot t = .err e' → e'.kind = none := by
            intro t e' h'; unfold dot at h'; split at h' <;> cases h'; rfl
          unfold versionCore at h1
          split at h1
          · rename_i e2 h2; cases h1; simp only [PErr.withCtx]; exact hn h2
          · split at h1
            · rename_i e2 h2; cases h1; simp only [PErr.withCtx]; exact Or.inl (hd h2)
            · split at h1
              · rename_i e2 h2; cases h1; simp only [PErr.withCtx]; exact hn h2
              · split at h1
                · rename_i e2 h2; cases h1; simp only [PErr.withCtx]; exact Or.inl (hd h2)
                · split at h1
                  · rename_i e2 h2; cases h1; simp only [PErr.withCtx]; exact hn h2
                  · cases h1
        · split at hp
          · cases hp
          · cases hp; exact ⟨rfl, Or.inl rfl⟩
      obtain ⟨hc, hk⟩ := hctx
      simp only [PErr.finalKind]
      rcases hk with hk | hk | ⟨n, hk⟩
      · simp [hk, hc]
      · simp [hk]
      · simp [hk]

/-! ### non-vacuity: named instances -/

def errOf (r : Except SemverError Version) : Option SemverError :=
  match r with
  | .error e => some e
  | .ok _ => none

example : errOf (Version.parse "1.2.900719925474100".toList) =
    some ⟨"1.2.900719925474100".toList, 4, .maxInt 900719925474100⟩ := by decide
example : errOf (Version.parse "1.18446744073709551616.3".toList) =
    some ⟨"1.18446744073709551616.3".toList, 2, .parseIntOverflow⟩ := by decide
example : (SemverError.mk "1.\n2.x".toList 5 (.context "version")).location = some (1, 2) := by decide

end Semver.C17
