import SemverProofs.Props.C08
/-!
# C10 — allows_all(A, B) = true guarantees B's versions are all allowed by A (B a single alternative)
-/
namespace Semver.C10
open Semver Pred Bound

theorem C10_sound {A : Range} {b : BoundSet} (hA : A.WF) (hb : b.WF) (h : Range.allowsAll A [b] = true)
    (v : Version) (hv : b.within v = true) : Range.within A v = true := by
  rw [Range.allowsAll_iff] at h
  obtain ⟨x, hx, y, hy, hxy⟩ := h
  simp at hy; subst hy
  exact (Range.within_iff A v).mpr ⟨x, hx, allowsAll_sound (hA.2 x hx) hb hxy v hv⟩

theorem C10_sound_release {A : Range} {b : BoundSet} (hA : A.WF) (hb : b.WF)
    (h : Range.allowsAll A [b] = true) {v : Version} (hv : v.isPre = false)
    (hs : Range.satisfies [b] v = true) : Range.satisfies A v = true := by
  rw [C07.sat_release A hv]
  rw [C07.sat_release [b] hv, Range.within_iff] at hs
  obtain ⟨y, hy, hyv⟩ := hs
  simp at hy; subst hy
  exact C10_sound hA hb h v hyv

theorem C10_implies_any {A : Range} {b : BoundSet} (hA : A.WF) (hb : b.WF)
    (h : Range.allowsAll A [b] = true) : Range.allowsAny A [b] = true := by
  rw [Range.allowsAll_iff] at h
  rw [Range.allowsAny_iff]
  obtain ⟨x, hx, y, hy, hxy⟩ := h
  simp at hy; subst hy
  exact ⟨x, hx, y, by simp, allowsAll_imp_allowsAny (hA.2 x hx) hb hxy⟩

/-- every range allows all of itself -/
theorem C10_refl {A : Range} (hA : A.WF) : Range.allowsAll A A = true := by
  obtain ⟨hne, hwf⟩ := hA
  cases A with
  | nil => exact absurd rfl hne
  | cons x rest =>
    rw [Range.allowsAll_iff]
    exact ⟨x, by simp, x, by simp, allowsAll_refl (hwf x (by simp))⟩

/-- single alternatives: `a.allows_all(b)` exactly when `b.difference(a)` is `None` -/
theorem C10_iff_difference_none {a b : BoundSet} (ha : a.WF) (hb : b.WF) :
    Range.allowsAll [a] [b] = true ↔ Range.difference [b] [a] = some none := by
  obtain ⟨p, q, rfl, vp, vq, h1⟩ := ha
  obtain ⟨p', q', rfl, vp', vq', h2⟩ := hb
  have hall : Range.allowsAll [⟨up q, lo p⟩] [⟨up q', lo p'⟩] = true ↔ (¬ loLt p' p ∧ ¬ upLt q q') := by
    rw [Range.allowsAll_iff]
    simp [allowsAll_mk]
  rw [hall]
  -- unfold the difference of two single alternatives
  have hd : Range.difference [⟨up q', lo p'⟩] [⟨up q, lo p⟩] =
      match (BoundSet.mk (up q') (lo p')).difference ⟨up q, lo p⟩ with
      | .panic => none
      | .none => some none
      | .some l => some (if l.isEmpty then none else some l) := by
    simp only [Range.difference, diffPieces, diffPiecesF, diffAlt, diffStep, diffStepF, List.foldr_cons, List.foldr_nil,
      List.foldl_cons, List.foldl_nil, Option.bind_some]
    cases (BoundSet.mk (up q') (lo p')).difference ⟨up q, lo p⟩ <;> simp
  rw [hd]
  have spec := difference_spec (s := ⟨up q', lo p'⟩) (o := ⟨up q, lo p⟩) ⟨p', q', rfl, vp', vq', h2⟩ ⟨p, q, rfl, vp, vq, h1⟩
  -- compute the difference symbolically
  unfold BoundSet.difference at spec ⊢
  rw [intersect_mk] at spec ⊢
  by_cases hne : nonEmpty (maxLo p' p) (minUp q' q)
  · rw [new_of_nonEmpty (valid_maxLo vp' vp) (valid_minUp vq' vq) hne] at spec ⊢
    simp only at spec ⊢
    by_cases hbeq : (BoundSet.mk (up (minUp q' q)) (lo (maxLo p' p))).beq ⟨up q', lo p'⟩ = true
    · rw [if_pos hbeq]
      simp only [iff_true]
      rw [beq_mk] at hbeq
      obtain ⟨e1, e2⟩ := hbeq
      constructor
      · intro hl
        have := maxLo_of_loLt hl
        rw [this] at e2
        cases p <;> cases p' <;> simp_all [predEqv, loLt] <;> grind
      · intro hu
        have := minUp_of_upLt hu
        rw [this] at e1
        cases q <;> cases q' <;> simp_all [predEqv, upLt] <;> grind
    · rw [if_neg hbeq]
      simp only [Bound.predicate]
      have hnot : ¬ (¬ loLt p' p ∧ ¬ upLt q q') := by
        intro ⟨hl, hu⟩
        apply hbeq
        rw [beq_mk]
        exact ⟨minUp_eqv_of_not_upLt hu, maxLo_eqv_of_not_loLt hl⟩
      simp only [hnot, false_iff]
      by_cases hl : loLt p' p
      · by_cases hu : upLt q q'
        · simp only [lt_lo_maxLo_true hl, lt_up_minUp_true hu, Bool.and_self, if_true]
          rw [maxLo_of_loLt hl, minUp_of_upLt hu]
          rw [new_of_nonEmpty vp' (valid_flip vp) (nonEmpty_flip_of_loLt hl), new_of_nonEmpty (valid_flip vq) vq' (nonEmpty_flip_of_upLt hu)]
          simp
        · simp only [lt_lo_maxLo_true hl, lt_up_minUp_false hu, Bool.and_false, Bool.false_eq_true,
            if_false, if_true]
          rw [maxLo_of_loLt hl, new_of_nonEmpty vp' (valid_flip vp) (nonEmpty_flip_of_loLt hl)]
          simp
      · simp only [lt_lo_maxLo_false hl, Bool.false_and, Bool.false_eq_true, if_false]
        by_cases hu : upLt q q'
        · rw [minUp_of_upLt hu, new_of_nonEmpty (valid_flip vq) vq' (nonEmpty_flip_of_upLt hu)]
          simp
        · exact absurd ⟨hl, hu⟩ hnot
  · rw [(new_none_iff (valid_maxLo vp' vp) (valid_minUp vq' vq)).mpr hne]
    simp only [List.isEmpty_cons, Bool.false_eq_true, if_false]
    simp only [Option.some.injEq, reduceCtorEq, iff_false]
    intro ⟨hl, hu⟩
    apply hne
    rw [nonEmpty_maxLo, nonEmpty_minUp, nonEmpty_minUp]
    exact ⟨⟨h2, nonEmpty_mono_up h2 hu⟩, ⟨nonEmpty_mono_lo h2 hl, h1⟩⟩

end Semver.C10
