import SemverProofs.Props.C07
/-!
# C08 — difference computes exactly the set difference of two ranges

For all well-formed A and B and every version v: v lies within the bounds of `A.difference(B)`
exactly when it lies within A's bounds and outside B's — for every alternative of B; a release
version satisfies the result exactly when it satisfies A and not B.  `None` only when nothing of A
remains; the result never contains a version of B; together with `A.intersect(B)` it partitions
A.  The operation never panics on well-formed operands and its result is well-formed.
-/
namespace Semver.C08
open Semver

/-- no panic, and the result is decided -/
theorem C08_total {A B : Range} (hA : A.WF) (hB : B.WF) : ∃ res, Range.difference A B = some res := by
  obtain ⟨res, h, _⟩ := Range.difference_spec hA hB
  exact ⟨res, h⟩

theorem C08_within {A B R : Range} (hA : A.WF) (hB : B.WF) (h : Range.difference A B = some (some R))
    (v : Version) :
    Range.within R v = true ↔ (Range.within A v = true ∧ ¬ Range.within B v = true) := by
  obtain ⟨res, h', hs⟩ := Range.difference_spec hA hB
  rw [h] at h'; cases h'
  exact hs.2 v

theorem C08_none {A B : Range} (hA : A.WF) (hB : B.WF) (h : Range.difference A B = some none)
    (v : Version) : Range.within A v = true → Range.within B v = true := by
  obtain ⟨res, h', hs⟩ := Range.difference_spec hA hB
  rw [h] at h'; cases h'
  exact hs v

theorem C08_closed {A B R : Range} (hA : A.WF) (hB : B.WF) (h : Range.difference A B = some (some R)) :
    R.WF := by
  obtain ⟨res, h', hs⟩ := Range.difference_spec hA hB
  rw [h] at h'; cases h'
  exact hs.1

/-- for every alternative of B, not just one -/
theorem C08_every_alternative {A B R : Range} (hA : A.WF) (hB : B.WF)
    (h : Range.difference A B = some (some R)) (v : Version) (hv : Range.within R v = true) :
    ∀ b ∈ B, ¬ b.within v = true := by
  have := (C08_within hA hB h v).mp hv
  intro b hb hbv
  exact this.2 ((Range.within_iff B v).mpr ⟨b, hb, hbv⟩)

/-- release versions: satisfied exactly when A is and B is not -/
theorem C08_release {A B R : Range} (hA : A.WF) (hB : B.WF) (h : Range.difference A B = some (some R))
    {v : Version} (hv : v.isPre = false) :
    Range.satisfies R v = true ↔ (Range.satisfies A v = true ∧ ¬ Range.satisfies B v = true) := by
  rw [C07.sat_release R hv, C07.sat_release A hv, C07.sat_release B hv]
  exact C08_within hA hB h v

theorem C08_none_release {A B : Range} (hA : A.WF) (hB : B.WF) (h : Range.difference A B = some none)
    {v : Version} (hv : v.isPre = false) : Range.satisfies A v = true → Range.satisfies B v = true := by
  rw [C07.sat_release A hv, C07.sat_release B hv]
  exact C08_none hA hB h v

/-- the result never contains a version of B -/
theorem C08_disjoint_from_B {A B R : Range} (hA : A.WF) (hB : B.WF)
    (h : Range.difference A B = some (some R)) (v : Version) :
    ¬ (Range.within R v = true ∧ Range.within B v = true) := by
  intro ⟨h1, h2⟩
  exact ((C08_within hA hB h v).mp h1).2 h2

/-- `within` of an optional result (`None` = the empty set) -/
def withinOpt (r : Option Range) (v : Version) : Bool :=
  match r with
  | none => false
  | some r => Range.within r v

theorem withinOpt_intersect {A B : Range} (hA : A.WF) (hB : B.WF) (v : Version) :
    withinOpt (Range.intersect A B) v = true ↔ (Range.within A v = true ∧ Range.within B v = true) := by
  cases h : Range.intersect A B with
  | none =>
    simp only [withinOpt, Bool.false_eq_true, false_iff]
    exact C07.C07_none hA hB h v
  | some R => simp only [withinOpt]; exact C07.C07_within hA hB h v

theorem withinOpt_difference {A B : Range} (hA : A.WF) (hB : B.WF) {res : Option Range}
    (h : Range.difference A B = some res) (v : Version) :
    withinOpt res v = true ↔ (Range.within A v = true ∧ ¬ Range.within B v = true) := by
  cases res with
  | none =>
    simp only [withinOpt, Bool.false_eq_true, false_iff]
    intro ⟨h1, h2⟩
    exact h2 (C08_none hA hB h v h1)
  | some R => simp only [withinOpt]; exact C08_within hA hB h v

/-- A is the disjoint union of `A ∩ B` and `A \ B` -/
theorem C08_partition {A B : Range} (hA : A.WF) (hB : B.WF) {res : Option Range}
    (h : Range.difference A B = some res) (v : Version) :
    (Range.within A v = true ↔ (withinOpt (Range.intersect A B) v = true ∨ withinOpt res v = true)) ∧
    ¬ (withinOpt (Range.intersect A B) v = true ∧ withinOpt res v = true) := by
  rw [withinOpt_intersect hA hB, withinOpt_difference hA hB h]
  constructor
  · constructor
    · intro ha
      by_cases hb : Range.within B v = true
      · exact Or.inl ⟨ha, hb⟩
      · exact Or.inr ⟨ha, hb⟩
    · rintro (⟨ha, _⟩ | ⟨ha, _⟩) <;> exact ha
  · rintro ⟨⟨_, hb⟩, ⟨_, hnb⟩⟩
    exact hnb hb

end Semver.C08
