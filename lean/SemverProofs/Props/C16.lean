import SemverProofs.Props.C04
import SemverSpec.NpmDiff
/-!
# C16 — Version::diff names the release-type difference, symmetrically
-/
namespace Semver.C16
open Semver

theorem firstDiffering_symm (a b : Version) :
    Spec.firstDiffering a b = Spec.firstDiffering b a := by
  unfold Spec.firstDiffering
  by_cases h1 : a.major = b.major <;> by_cases h2 : a.minor = b.minor <;> by_cases h3 : a.patch = b.patch <;>
    simp [h1, h2, h3, Ne.symm] <;> (try omega) <;>
    simp_all [eq_comm]

/-- **C16_is_npm**: the crate's `diff` is node-semver's documented release type -/
theorem C16_is_npm (a b : Version) : a.diff b = Spec.npmDiff a b := by
  unfold Spec.npmDiff
  rw [← C04.C04_model_is_spec]
  unfold Version.diff
  cases hc : cmpVersion a b with
  | eq => simp
  | lt =>
    simp only [reduceCtorEq, if_false, Spec.diffOrdered, Spec.hasTag, Version.isPre, Spec.firstDiffering]
    by_cases h1 : a.major = b.major <;> by_cases h2 : a.minor = b.minor <;> by_cases h3 : a.patch = b.patch <;>
      rcases Bool.eq_false_or_eq_true a.pre.isEmpty with hp | hp <;>
      rcases Bool.eq_false_or_eq_true b.pre.isEmpty with hq | hq <;>
      simp [h1, h2, h3, hp, hq, Spec.releaseType, bne_iff_ne] <;> (repeat' split) <;> simp_all
  | gt =>
    simp only [reduceCtorEq, if_false, if_true, Spec.diffOrdered, Spec.hasTag, Version.isPre]
    rw [firstDiffering_symm b a]
    simp only [Spec.firstDiffering]
    by_cases h1 : a.major = b.major <;> by_cases h2 : a.minor = b.minor <;> by_cases h3 : a.patch = b.patch <;>
      rcases Bool.eq_false_or_eq_true a.pre.isEmpty with hp | hp <;>
      rcases Bool.eq_false_or_eq_true b.pre.isEmpty with hq | hq <;>
      simp [h1, h2, h3, hp, hq, Spec.releaseType, bne_iff_ne] <;> (repeat' split) <;> simp_all

/-- `None` exactly when the versions are equal in precedence -/
theorem C16_none_iff_equal (a b : Version) : a.diff b = none ↔ cmpVersion a b = .eq := by
  unfold Version.diff
  by_cases h : cmpVersion a b = .eq
  · simp [h]
  · simp only [h, if_false, iff_false]
    (repeat' split) <;> simp

theorem C16_symm (a b : Version) : a.diff b = b.diff a := by
  rw [C16_is_npm, C16_is_npm]
  unfold Spec.npmDiff
  rw [← C04.C04_model_is_spec, ← C04.C04_model_is_spec, cmp_swap a b]
  cases cmpVersion a b <;> rfl

theorem C16_build_ignored (a b : Version) (x y : List Ident) :
    ({ a with build := x } : Version).diff { b with build := y } = a.diff b := by
  unfold Version.diff
  rw [C04.C04_build_ignored]
  simp only [Version.isPre]
  cases cmpVersion a b <;> simp

/-- the answer is read from the documented table: a few named instances (non-vacuity) -/
example : (Version.mk3 1 0 0).diff ⟨1, 0, 0, [.num 1], []⟩ = some .major := by decide
example : (Version.mk3 1 1 1).diff ⟨1, 0, 1, [.num 1], []⟩ = some .patch := by decide
example : (Version.mk3 1 2 0).diff ⟨1, 1, 0, [.num 1], []⟩ = some .minor := by decide
example : (Version.mk3 1 2 3).diff ⟨2, 0, 0, [.alpha "rc".toList], []⟩ = some .preMajor := by decide
example : (Version.mk4 1 2 3 0).diff (Version.mk4 1 2 3 1) = some .preRelease := by decide

end Semver.C16
