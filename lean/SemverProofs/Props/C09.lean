import SemverProofs.Props.C07
/-!
# C09 — allows_any is true exactly when the two ranges overlap
-/
namespace Semver.C09
open Semver Pred Bound

theorem C09_eq_intersect {A B : Range} (hA : A.WF) (hB : B.WF) :
    Range.allowsAny A B = (Range.intersect A B).isSome :=
  Range.allowsAny_eq_intersect hA hB

theorem C09_symm {A B : Range} (hA : A.WF) (hB : B.WF) : Range.allowsAny A B = Range.allowsAny B A :=
  Range.allowsAny_symm hA hB

/-- false ⇒ no version lies within (hence none satisfies) both -/
theorem C09_sound {A B : Range} (hA : A.WF) (hB : B.WF) (h : Range.allowsAny A B = false) (v : Version) :
    ¬ (Range.within A v = true ∧ Range.within B v = true) := by
  rw [C09_eq_intersect hA hB] at h
  cases hi : Range.intersect A B with
  | none => exact C07.C07_none hA hB hi v
  | some R => rw [hi] at h; cases h

theorem C09_sound_sat {A B : Range} (hA : A.WF) (hB : B.WF) (h : Range.allowsAny A B = false) (v : Version) :
    ¬ (Range.satisfies A v = true ∧ Range.satisfies B v = true) := by
  rw [C09_eq_intersect hA hB] at h
  cases hi : Range.intersect A B with
  | none => exact C07.C07_none_sat hA hB hi v
  | some R => rw [hi] at h; cases h

/-- some version within (or satisfying) both ⇒ true -/
theorem C09_complete {A B : Range} (hA : A.WF) (hB : B.WF) (v : Version)
    (h : Range.within A v = true ∧ Range.within B v = true) : Range.allowsAny A B = true := by
  cases hany : Range.allowsAny A B with
  | true => rfl
  | false => exact absurd h (C09_sound hA hB hany v)

theorem C09_complete_sat {A B : Range} (hA : A.WF) (hB : B.WF) (v : Version)
    (h : Range.satisfies A v = true ∧ Range.satisfies B v = true) : Range.allowsAny A B = true := by
  cases hany : Range.allowsAny A B with
  | true => rfl
  | false => exact absurd h (C09_sound_sat hA hB hany v)

/-! ### touching endpoints, for every version `x` -/

def below (x : Version) : BoundSet := ⟨up (exc x), lo unb⟩      -- `<x`
def atMost (x : Version) : BoundSet := ⟨up (inc x), lo unb⟩     -- `<=x`
def above (x : Version) : BoundSet := ⟨up unb, lo (exc x)⟩      -- `>x`
def atLeast (x : Version) : BoundSet := ⟨up unb, lo (inc x)⟩    -- `>=x`

/-- `<x` and `>x`, `<x` and `>=x`, `<=x` and `>x` do not overlap; `<=x` and `>=x` do -/
theorem C09_touching (x : Version) :
    (below x).allowsAny (above x) = false ∧ (above x).allowsAny (below x) = false ∧
    (below x).allowsAny (atLeast x) = false ∧ (atLeast x).allowsAny (below x) = false ∧
    (atMost x).allowsAny (above x) = false ∧ (above x).allowsAny (atMost x) = false ∧
    (atMost x).allowsAny (atLeast x) = true ∧ (atLeast x).allowsAny (atMost x) = true := by
  have hnx : ¬ x < x := by grind
  simp only [below, above, atLeast, atMost, Bool.eq_false_iff, ne_eq, allowsAny_mk, nonEmpty]
  simp [hnx]

end Semver.C09
