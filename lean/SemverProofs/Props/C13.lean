import SemverProofs.Props.C06
import SemverModel.Serde
/-!
# C13 — printing a range and parsing it back returns an equivalent range

Proved here (for every range obtained from `Range::parse`, `intersect`, `difference`, i.e. every
well-formed range):
* `Display` is defined — its `unreachable!` arm is never reached (`C13_render_total`);
* no alternative of a parsed or derived range is the unbounded interval, so `*` — the one printed
  form that would parse back to a different interval (`>=0.0.0`) — is never printed
  (`C13_never_star`, `C13_never_star_closed`);
* the serde form is the quoted printed form and deserialisation is `parse` of the printed form
  (`C13_serde`), so the serde round trip is the print/parse round trip.

The round trip itself (`Range::parse(r.to_string())` equals `r` as a value, admits the same versions,
printing is stable) is proved in `Props/C13b.lean` (`C13_roundtrip_good`, `C13_roundtrip_parsed`,
`C13_roundtrip_intersect`, `C13_roundtrip_difference`) on top of the parser lemmas of
`Lemmas/RangeText.lean` and the invariant `Good` of `Lemmas/PrintableInv.lean`.
-/
namespace Semver.C13
open Semver Pred Bound

theorem C13_render_total (r : Range) (h : r.WF) : Range.render r ≠ none := C06.C06_display_total r h

/-- an interval with at least one real bound -/
def Bounded (s : BoundSet) : Prop := ¬ (s.lower = lo unb ∧ s.upper = up unb)

theorem bounded_new {P Q : Pred} {s : BoundSet} (h : BoundSet.new (lo P) (up Q) = some s)
    (hb : P ≠ unb ∨ Q ≠ unb) : Bounded s := by
  rw [new_eq_some h]
  intro ⟨h1, h2⟩
  simp at h1 h2
  rcases hb with hb | hb
  · exact hb h1
  · exact hb h2

theorem primitiveSet_bounded {op : Operation} {p : Partial} {s : BoundSet} (h : primitiveSet op p = some s) :
    Bounded s := by
  unfold primitiveSet at h
  split at h <;> first
    | exact bounded_new (P := _) (Q := unb) h (Or.inl (by simp))
    | exact bounded_new (P := unb) (Q := _) h (Or.inr (by simp))
    | exact bounded_new h (Or.inl (by simp))

theorem partialSet_bounded {p : Partial} {s : BoundSet} (h : partialSet p = some s) : Bounded s := by
  unfold partialSet at h
  split at h <;> first
    | exact bounded_new (P := _) (Q := unb) h (Or.inl (by simp))
    | exact bounded_new h (Or.inl (by simp))

theorem tildeSet_bounded {g : Bool} {p : Partial} {s : BoundSet} (h : tildeSet g p = some s) : Bounded s := by
  unfold tildeSet at h
  split at h <;> first
    | exact bounded_new (P := _) (Q := unb) h (Or.inl (by simp))
    | exact bounded_new h (Or.inl (by simp))
    | cases h

theorem caretSet_bounded {p : Partial} {s : BoundSet} (h : caretSet p = some s) : Bounded s := by
  unfold caretSet at h
  split at h <;> first
    | exact bounded_new (P := _) (Q := unb) h (Or.inl (by simp))
    | exact bounded_new (P := unb) (Q := _) h (Or.inr (by simp))
    | exact bounded_new h (Or.inl (by simp))
    | cases h

theorem hyphenSet_bounded {l : Option Partial} {u : Pred} {s : BoundSet} (h : hyphenSet l u = some s) :
    Bounded s := by
  unfold hyphenSet at h
  split at h
  · exact bounded_new h (Or.inl (by simp))
  · split at h
    · exact bounded_new (P := _) (Q := unb) h (Or.inl (by simp))
    · rename_i hu
      exact bounded_new (P := unb) h (Or.inr (by intro h0; exact hu h0))

/-- intersecting keeps a real bound -/
theorem intersect_bounded {s o r : BoundSet} (hs : s.WF) (ho : o.WF) (h : s.intersect o = some r)
    (hb : Bounded s) : Bounded r := by
  obtain ⟨p, q, rfl, _⟩ := hs
  obtain ⟨p', q', rfl, _⟩ := ho
  rw [intersect_mk] at h
  rw [new_eq_some h]
  intro ⟨h1, h2⟩
  simp at h1 h2
  apply hb
  simp only [Bound.lo.injEq, Bound.up.injEq]
  constructor
  · -- the larger of two lower bounds is unbounded only if both are
    unfold maxLo at h1
    split at h1
    · exact h1
    · rename_i hlt
      subst h1
      rw [lo_lt_lo] at hlt
      cases p <;> simp_all [loLt]
  · unfold minUp at h2
    split at h2
    · rename_i hlt
      subst h2
      rw [up_lt_up] at hlt
      cases q <;> simp_all [upLt]
    · exact h2

def OptBounded (o : Option BoundSet) : Prop := ∀ s, o = some s → Bounded s

theorem simple_bounded (s : List Char) : OptBounded (simple s).1 := by
  unfold simple
  split
  · rename_i x h
    have := terminated_eq h
    obtain ⟨u, _, ho⟩ := hyphen_some (o := x.1) (r := x.2) this
    intro y hy
    rw [ho] at hy
    exact hyphenSet_bounded hy
  · split
    · rename_i x h
      have := terminated_eq h
      unfold primitive at this
      split at this
      · cases this
      · split at this
        · cases this
        · cases this; intro y hy; exact primitiveSet_bounded hy
    · split
      · rename_i x h
        have := terminated_eq h
        unfold partialP at this
        split at this
        · cases this
        · cases this; intro y hy; exact partialSet_bounded hy
      · split
        · rename_i x h
          have := terminated_eq h
          unfold tilde at this
          split at this
          · cases this
          · split at this
            · cases this
            · cases this; intro y hy; exact tildeSet_bounded hy
        · split
          · rename_i x h
            have := terminated_eq h
            unfold caret at this
            split at this
            · split at this
              · cases this
              · cases this; intro y hy; exact caretSet_bounded hy
            · cases this
          · intro y hy; cases hy

theorem rangeTail_bounded (s : List Char) : ∀ o ∈ (rangeTail s).1, OptBounded o := by
  generalize hn : s.length = n
  induction n using Nat.strongRecOn generalizing s with
  | _ n ih =>
    rw [rangeTail]
    split
    · simp
    · rename_i r h
      have h1 := blanks1_length h
      have h2 := simple_length r
      intro o ho
      simp only [List.mem_cons] at ho
      rcases ho with rfl | ho
      · exact simple_bounded r
      · exact ih (simple r).2.length (by omega) (simple r).2 rfl o ho

theorem foldl_bounded (rest : List BoundSet) (first : BoundSet) (hf : first.WF) (hb : Bounded first)
    (hr : ∀ s ∈ rest, s.WF) :
    ∀ s, rest.foldl (fun acc b => acc.bind (·.intersect b)) (some first) = some s → Bounded s := by
  induction rest generalizing first with
  | nil => intro s h; simp at h; subst h; exact hb
  | cons b rest ih =>
    intro s h
    simp only [List.foldl_cons, Option.bind_some] at h
    cases hi : first.intersect b with
    | none =>
      rw [hi] at h
      have : ∀ l : List BoundSet, l.foldl (fun (acc : Option BoundSet) b => acc.bind (·.intersect b)) none = none := by
        intro l; induction l <;> simp_all
      rw [this] at h; cases h
    | some x =>
      rw [hi] at h
      exact ih x (intersect_some hf (hr b (by simp)) hi).1 (intersect_bounded hf (hr b (by simp)) hi hb)
        (fun s hs => hr s (by simp [hs])) s h

theorem foldSets_bounded (bs : List (Option BoundSet)) (hw : ∀ o ∈ bs, OptWF o) (hb : ∀ o ∈ bs, OptBounded o) :
    ∀ s ∈ foldSets bs, Bounded s := by
  unfold foldSets
  have hall : ∀ s ∈ bs.filterMap id, s.WF ∧ Bounded s := by
    intro s hs
    rw [List.mem_filterMap] at hs
    obtain ⟨o, ho, hos⟩ := hs
    exact ⟨hw o ho s hos, hb o ho s hos⟩
  split
  · simp
  · rename_i first rest heq
    rw [heq] at hall
    split
    · rename_i s hs
      intro x hx
      simp at hx; subst hx
      exact foldl_bounded rest first (hall first (by simp)).1 (hall first (by simp)).2
        (fun s hs => (hall s (by simp [hs])).1) _ hs
    · simp

theorem rangeP_bounded (s : List Char) : ∀ x ∈ (rangeP s).1, Bounded x := by
  unfold rangeP
  apply foldSets_bounded
  · intro o ho
    simp only [List.mem_cons] at ho
    rcases ho with rfl | ho
    · exact simple_wf s
    · exact rangeTail_wf _ o ho
  · intro o ho
    simp only [List.mem_cons] at ho
    rcases ho with rfl | ho
    · exact simple_bounded s
    · exact rangeTail_bounded _ o ho

theorem boundSetsTail_bounded (s : List Char) : ∀ l ∈ (boundSetsTail s).1, ∀ x ∈ l, Bounded x := by
  generalize hn : s.length = n
  induction n using Nat.strongRecOn generalizing s with
  | _ n ih =>
    rw [boundSetsTail]
    split
    · simp
    · rename_i r h
      have h1 := logicalOr_length h
      have h2 := rangeP_length r
      intro l hl
      simp only [List.mem_cons] at hl
      rcases hl with rfl | hl
      · exact rangeP_bounded r
      · exact ih (rangeP r).2.length (by omega) (rangeP r).2 rfl l hl

/-- **C13_never_star**: no alternative of a parsed range is the unbounded interval -/
theorem C13_never_star (s : List Char) (r : Range) (h : Range.parse s = .ok r) : ∀ x ∈ r, Bounded x := by
  unfold Range.parse at h
  simp only at h
  split at h
  · cases h
  · cases h
    intro x hx
    unfold boundSets at hx
    simp only [List.mem_flatten, List.mem_cons] at hx
    obtain ⟨l, hl, hxl⟩ := hx
    rcases hl with rfl | hl
    · exact rangeP_bounded _ x hxl
    · exact boundSetsTail_bounded _ l hl x hxl

/-- … nor of an intersection of such ranges -/
theorem C13_never_star_closed (a b r : Range) (ha : a.WF) (hb : b.WF) (hab : ∀ x ∈ a, Bounded x)
    (h : Range.intersect a b = some r) : ∀ x ∈ r, Bounded x := by
  unfold Range.intersect at h
  simp only at h
  split at h
  · cases h
  · cases h
    intro x hx
    obtain ⟨s, hs, o, ho, hi⟩ := mem_intersectSets.mp hx
    exact intersect_bounded (ha.2 s hs) (hb.2 o ho) hi (hab s hs)

theorem version_render_length (v : Version) : 2 ≤ v.render.length := by
  simp only [Version.render, renderCore, List.length_append, List.length_cons]
  have := render_ne_nil v.major
  cases h : renderNat v.major with
  | nil => exact absurd h this
  | cons c cs => simp; omega

/-- the printed form of a bounded interval has at least two characters -/
theorem render_length (p q : Pred) (hb : ¬ (p = unb ∧ q = unb)) (t : List Char)
    (h : (BoundSet.mk (up q) (lo p)).render = some t) : 2 ≤ t.length := by
  cases p with
  | unb =>
    cases q with
    | unb => exact absurd ⟨rfl, rfl⟩ hb
    | inc v => simp only [BoundSet.render, Option.some.injEq] at h; subst h; have := version_render_length v; simp
    | exc v => simp only [BoundSet.render, Option.some.injEq] at h; subst h; have := version_render_length v; simp; omega
  | inc v =>
    have := version_render_length v
    cases q with
    | unb => simp only [BoundSet.render, Option.some.injEq] at h; subst h; simp <;> omega
    | inc v2 =>
      simp only [BoundSet.render] at h
      split at h <;> (simp only [Option.some.injEq] at h; subst h; simp <;> omega)
    | exc v2 => simp only [BoundSet.render, Option.some.injEq] at h; subst h; simp <;> omega
  | exc v =>
    have := version_render_length v
    cases q with
    | unb => simp only [BoundSet.render, Option.some.injEq] at h; subst h; simp <;> omega
    | inc v2 => simp only [BoundSet.render, Option.some.injEq] at h; subst h; simp <;> omega
    | exc v2 => simp only [BoundSet.render, Option.some.injEq] at h; subst h; simp <;> omega

/-- a bounded interval does not print as `*` -/
theorem C13_not_star (s : BoundSet) (hs : s.WF) (hb : Bounded s) : s.render ≠ some ['*'] := by
  obtain ⟨p, q, rfl, _⟩ := hs
  intro h
  have := render_length p q (by intro ⟨h1, h2⟩; exact hb (by simp [h1, h2])) _ h
  simp at this

/-- **C13_serde**: the JSON is the quoted printed form; decoding is `parse` of the printed form
(when the printed form contains nothing JSON escapes — true of every printed range, whose
characters are those of printed versions, operators, blanks and `|`) -/
theorem C13_serde (r : Range) (t : List Char) (hr : Range.render r = some t)
    (hsafe : t.all (fun c => c != '"' && c != '\\') = true) :
    Range.toJson r = some ('"' :: t ++ ['"']) ∧
    ∀ x, Range.fromJson ('"' :: t ++ ['"']) = some x ↔ Range.parse t = .ok x := by
  constructor
  · simp [Range.toJson, hr, jsonQuote]
  · intro x
    unfold Range.fromJson jsonUnquote
    simp only [List.reverse_append, List.reverse_cons, List.reverse_nil, List.nil_append, List.cons_append,
      List.reverse_reverse]
    have : (t.reverse.all fun c => c != '"' && c != '\\') = true := by
      rw [List.all_eq_true] at hsafe ⊢
      intro c hc; exact hsafe c (List.mem_reverse.mp hc)
    simp only [this, if_true]
    cases Range.parse t with
    | ok y => simp
    | error e => simp

end Semver.C13
