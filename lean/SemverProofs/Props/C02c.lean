import SemverProofs.Props.C02b
import SemverProofs.Lemmas.Closed
/-!
# C02, text level, without a grammar: the text `a b` for arbitrary closed tokens

`C02_and_text` speaks about comparator lists written in the formal npm grammar.  Here no grammar is
assumed: `a` and `b` are any lists of *closed* tokens — blank-free, bar-free tokens that are not just
an operator / `~` / `~>` / `^` / nothing optionally followed by `v` (such a token would take the
next one as its version, in npm as well) and do not start with `-`.  `Lemmas/Closed.lean` proves that
the parser reads such a text token by token (`simple_closed`, `rangeP_tokens`); hence the text `a b`
is the conjunction of `a` and `b` in the property's sense, whatever the tokens are (comparators in any
spelling, garbage of any kind).  This is exactly the domain on which the check's oracle applies the
AND law to the crate's answers.
-/
namespace Semver.C02
open Semver Pred Bound Spec Spec.Npm

/-- the intervals of the tokens the parser recognises as comparators -/
def setsOfToks (ks : List (List Char)) : List BoundSet := (ks.map (fun k => (simple k).1)).filterMap id

theorem setsOfToks_append (ka kb : List (List Char)) : setsOfToks (ka ++ kb) = setsOfToks ka ++ setsOfToks kb := by
  simp [setsOfToks, List.filterMap_append]

theorem setsOfToks_wf (ks : List (List Char)) : ∀ x ∈ setsOfToks ks, x.WF := by
  intro x hx
  simp only [setsOfToks, List.mem_filterMap, List.mem_map, id] at hx
  obtain ⟨o, ⟨k, _, rfl⟩, ho⟩ := hx
  exact simple_wf k x ho

theorem parse_tokens {ks : List (List Char)} {T : List Char} (h : Tokens ks T) (hc : ∀ k ∈ ks, ClosedTok k) :
    altsOf T = foldSets ((setsOfToks ks).map some) := by
  rw [alts_tokens h hc]
  exact foldSets_filter _

theorem withinText_tokens {ks : List (List Char)} {T : List Char} (h : Tokens ks T) (hc : ∀ k ∈ ks, ClosedTok k)
    (hne : setsOfToks ks ≠ []) (v : Version) : withinText T v ↔ allWithin (setsOfToks ks) v := by
  unfold withinText
  rw [parse_tokens h hc]
  rcases C02_fold_sem (setsOfToks ks) (setsOfToks_wf ks) hne with ⟨r, hr, _, hsem⟩ | ⟨hr, hsem⟩
  · rw [hr]
    simp only [List.mem_singleton, exists_eq_left]
    exact (hsem v).1
  · rw [hr]
    simp only [List.not_mem_nil, false_and, exists_false, false_iff]
    exact hsem v

theorem satText_tokens {ks : List (List Char)} {T : List Char} (h : Tokens ks T) (hc : ∀ k ∈ ks, ClosedTok k)
    (v : Version) : satText T v ↔ foldSat (foldSets ((setsOfToks ks).map some)) v := by
  unfold satText foldSat
  rw [parse_tokens h hc]

/-- **C02_and_tokens**: for any two lists of closed tokens, each containing at least one token the
parser recognises as a valid comparator, and any blanks between them: a release version satisfies
`a b` exactly when it satisfies both; a prerelease version exactly when it lies within the bounds of
both and satisfies at least one -/
theorem C02_and_tokens {ka kb : List (List Char)} {ta tb sp : List Char} (ha : Tokens ka ta) (hb : Tokens kb tb)
    (hca : ∀ k ∈ ka, ClosedTok k) (hcb : ∀ k ∈ kb, ClosedTok k) (hsp : Blanks1 sp)
    (hane : setsOfToks ka ≠ []) (hbne : setsOfToks kb ≠ []) (v : Version) :
    (v.isPre = false → (satText (ta ++ (sp ++ tb)) v ↔ (satText ta v ∧ satText tb v))) ∧
    (v.isPre = true → (satText (ta ++ (sp ++ tb)) v ↔
      (withinText ta v ∧ withinText tb v ∧ (satText ta v ∨ satText tb v)))) := by
  have hab := tokens_append ha hsp hb
  have hcab : ∀ k ∈ ka ++ kb, ClosedTok k := by
    intro k hk; rw [List.mem_append] at hk
    rcases hk with h | h
    · exact hca k h
    · exact hcb k h
  rw [satText_tokens hab hcab, satText_tokens ha hca, satText_tokens hb hcb, withinText_tokens ha hca hane,
    withinText_tokens hb hcb hbne, setsOfToks_append]
  exact C02_and (setsOfToks ka) (setsOfToks kb) (setsOfToks_wf ka) (setsOfToks_wf kb) hane hbne v

/-- a side in which the parser recognises no comparator does not matter -/
theorem C02_and_tokens_garbage_left {ka kb : List (List Char)} {ta tb sp : List Char} (ha : Tokens ka ta)
    (hb : Tokens kb tb) (hca : ∀ k ∈ ka, ClosedTok k) (hcb : ∀ k ∈ kb, ClosedTok k) (hsp : Blanks1 sp)
    (hg : setsOfToks ka = []) : altsOf (ta ++ (sp ++ tb)) = altsOf tb := by
  have hcab : ∀ k ∈ ka ++ kb, ClosedTok k := by
    intro k hk; rw [List.mem_append] at hk
    rcases hk with h | h
    · exact hca k h
    · exact hcb k h
  rw [parse_tokens (tokens_append ha hsp hb) hcab, parse_tokens hb hcb, setsOfToks_append, hg]; rfl

/-- the order of the two token lists does not matter -/
theorem C02_and_tokens_comm {ka kb : List (List Char)} {ta tb sp sp' : List Char} (ha : Tokens ka ta)
    (hb : Tokens kb tb) (hca : ∀ k ∈ ka, ClosedTok k) (hcb : ∀ k ∈ kb, ClosedTok k) (hsp : Blanks1 sp)
    (hsp' : Blanks1 sp') (hane : setsOfToks ka ≠ []) (v : Version) :
    satText (ta ++ (sp ++ tb)) v ↔ satText (tb ++ (sp' ++ ta)) v := by
  have hcab : ∀ k ∈ ka ++ kb, ClosedTok k := by
    intro k hk; rw [List.mem_append] at hk
    rcases hk with h | h
    · exact hca k h
    · exact hcb k h
  have hcba : ∀ k ∈ kb ++ ka, ClosedTok k := by
    intro k hk; rw [List.mem_append] at hk
    rcases hk with h | h
    · exact hcb k h
    · exact hca k h
  rw [satText_tokens (tokens_append ha hsp hb) hcab, satText_tokens (tokens_append hb hsp' ha) hcba,
    setsOfToks_append, setsOfToks_append]
  have hwf : ∀ s ∈ setsOfToks ka ++ setsOfToks kb, s.WF := by
    intro s hs; rw [List.mem_append] at hs
    rcases hs with h | h
    · exact setsOfToks_wf ka s h
    · exact setsOfToks_wf kb s h
  exact C02_comm _ _ List.perm_append_comm hwf (by simp [hane]) v

/-! non-vacuity: `1.2.3.4` and `>=1.y` are closed tokens (garbage that begins like a comparator) -/
example : ClosedTok "1.2.3.4".toList :=
  ⟨by intro c hc; revert c; decide, by decide, by intro u h; cases h⟩
example : ClosedTok ">=1.y".toList :=
  ⟨by intro c hc; revert c; decide, by decide, by intro u h; cases h⟩
example : hungry ">=".toList = true ∧ hungry "~>v".toList = true ∧ hungry "v".toList = true := by decide

end Semver.C02
