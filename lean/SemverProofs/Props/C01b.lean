import SemverProofs.Props.C01
import SemverSpec.NpmKnown
import SemverProofs.Lemmas.Closed
/-!
# C01 without exclusions: the exact characterisation of what the crate computes

`C01_desugar` excludes the table entries of the known findings K2/K3.  Here the statement is made
for **every** tree: the crate computes npm's semantics with exactly those entries read the way the
findings describe (`Spec.Npm.Known.sat true true`), nothing else differs — for trees
(`C01_desugar_known`) and for texts (`C01_text_known`).  The check's oracle uses the same definition
to tell a known finding from a new violation, so the classification is a theorem, not a heuristic.
-/
namespace Semver.C01
open Semver Pred Bound Spec Spec.Npm

/-- pairing the model's sets with a comparator-list reading `spec`, simple by simple -/
theorem paired_gen (spec : Simple → Option (List Comp)) (l : List Simple)
    (hl : ∀ s ∈ l, TableOK (evalSimple s) (spec s)) :
    ∃ items : List (BoundSet × List Comp),
      (l.map evalSimple).filterMap id = items.map Prod.fst ∧
      l.filterMap spec = items.map Prod.snd ∧
      ∀ x ∈ items, x.1.WF ∧ ∀ v, inDomain v → AgreeAt x.1 x.2 v := by
  induction l with
  | nil => exact ⟨[], rfl, rfl, by simp⟩
  | cons s rest ih =>
    obtain ⟨items, h1, h2, h3⟩ := ih (fun t ht => hl t (by simp [ht]))
    have ht := hl s (by simp)
    unfold TableOK at ht
    cases hs : spec s with
    | none =>
      rw [hs] at ht
      simp only at ht
      refine ⟨items, ?_, ?_, h3⟩
      · simp [List.filterMap_cons, ht, h1]
      · simp [List.filterMap_cons, hs, h2]
    | some cs =>
      rw [hs] at ht
      obtain ⟨b, hb, hwf, hag⟩ := ht
      refine ⟨(b, cs) :: items, ?_, ?_, ?_⟩
      · simp [List.filterMap_cons, hb, h1]
      · simp [List.filterMap_cons, hs, h2]
      · intro x hx
        simp at hx
        rcases hx with rfl | hx
        · exact ⟨hwf, hag⟩
        · exact h3 x hx

/-- the AND-fold against any reading of the comparators that the tables agree with -/
theorem fold_gen (spec : Simple → Option (List Comp)) (l : List Simple)
    (hl : ∀ s ∈ l, TableOK (evalSimple s) (spec s)) (v : Version) (hd : inDomain v) :
    (foldSets (l.map evalSimple)).any (·.satisfies v) =
      (match (if (l.filterMap spec).isEmpty then none else some (l.filterMap spec).flatten) with
        | some cs => compsSat cs v
        | none => false) := by
  obtain ⟨items, h1, h2, h3⟩ := paired_gen spec l hl
  rw [h2]
  unfold foldSets
  rw [h1]
  cases items with
  | nil => simp
  | cons x rest =>
    simp only [List.map_cons, List.isEmpty_cons, Bool.false_eq_true, if_false, List.flatten_cons]
    have hx := h3 x (by simp)
    have inv := foldInv_foldl rest (fun y hy => h3 y (by simp [hy])) (some x.1) x.2 ⟨hx.1, hx.2⟩
    cases hf : (rest.map Prod.fst).foldl (fun a b => a.bind (·.intersect b)) (some x.1) with
    | none =>
      rw [hf] at inv
      simp only [List.any_nil]
      exact (compsSat_false_of_all_false (inv v hd)).symm
    | some s =>
      rw [hf] at inv
      simp only [List.any_cons, List.any_nil, Bool.or_false]
      exact sat_of_agreeAt (inv.2 v hd)

/-! ### the tables against the known reading, for every entry -/

theorem known_eq_spec {s : Simple} (h : ¬ knownException s) : Known.simpleComps true true s = specSimple s := by
  unfold Known.simpleComps specSimple
  split
  · exact absurd trivial h
  · exact absurd trivial h
  · rename_i M
    have : M ≠ MAX_SAFE_INTEGER := h
    have : (M == Npm.MAX) = false := by simpa [npmMAX_eq] using this
    simp [this]
  · rename_i M m
    have : m ≠ MAX_SAFE_INTEGER := h
    have : (m == Npm.MAX) = false := by simpa [npmMAX_eq] using this
    simp [this]
  · rfl

theorem simple_table_known (s : Simple) : TableOK (evalSimple s) (Known.simpleComps true true s) := by
  by_cases hk : knownException s
  · -- the four known entries, read the crate's way
    cases s with
    | prim op p =>
      cases op with
      | lt =>
        cases p with
        | maj M => exact tableOK_of_new (P := unb) (Q := exc (Version.mk3 M 0 0)) (fun _ _ => trivial)
        | any => exact absurd hk id
        | majMin _ _ => exact absurd hk id
        | full _ _ _ _ _ => exact absurd hk id
      | le =>
        cases p with
        | maj M =>
          have hM : M = MAX_SAFE_INTEGER := hk
          have e : Known.simpleComps true true (.prim .le (.maj M)) =
              checked [⟨.le, rel M Npm.MAX Npm.MAX⟩] := by
            simp [Known.simpleComps, hM, npmMAX_eq]
          rw [e]
          exact tableOK_of_new (P := unb) (Q := inc (Version.mk3 M MAX_SAFE_INTEGER MAX_SAFE_INTEGER))
            (fun _ _ => trivial)
        | majMin M m =>
          have hm : m = MAX_SAFE_INTEGER := hk
          have e : Known.simpleComps true true (.prim .le (.majMin M m)) =
              checked [⟨.le, rel M m Npm.MAX⟩] := by
            simp [Known.simpleComps, hm, npmMAX_eq]
          rw [e]
          exact tableOK_of_new (P := unb) (Q := inc (Version.mk3 M m MAX_SAFE_INTEGER)) (fun _ _ => trivial)
        | any => exact absurd hk id
        | full _ _ _ _ _ => exact absurd hk id
      | gt => exact absurd hk (by cases p <;> exact id)
      | ge => exact absurd hk (by cases p <;> exact id)
      | eq => exact absurd hk (by cases p <;> exact id)
    | caret p =>
      cases p with
      | maj M =>
        cases M with
        | zero => exact tableOK_of_new (P := unb) (Q := exc (Version.mk4 1 0 0 0)) (fun _ _ => trivial)
        | succ n => exact absurd hk id
      | any => exact absurd hk id
      | majMin _ _ => exact absurd hk id
      | full _ _ _ _ _ => exact absurd hk id
    | bare p => exact absurd hk id
    | tilde p => exact absurd hk id
    | garbage t => exact absurd hk id
  · rw [known_eq_spec hk]
    exact simple_table s hk

/-- **C01_desugar_known**: for every syntax tree — no exclusion — and every version of the domain,
the crate computes npm's semantics with exactly the known entries (K2, K3) read the crate's way -/
theorem C01_desugar_known (r : Ast) (v : Version) (hd : inDomain v) :
    (evalAst r).any (·.satisfies v) = Known.sat true true r v := by
  induction r with
  | nil => rfl
  | cons a rest ih =>
    simp only [evalAst, List.flatMap_cons, List.any_append, Known.sat, List.any_cons]
    simp only [evalAst, Known.sat] at ih
    rw [ih]
    congr 1
    cases a with
    | hyphen l0 h0 =>
      have := C01_desugar_alt (.hyphen l0 h0) trivial v hd
      simp only [Alt.sat, Alt.comps] at this
      simp only [Known.altComps]
      cases hh : Npm.hyphen l0 h0 <;> simp only [hh] at this ⊢ <;> exact this
    | simples l =>
      simp only [evalAlt, Known.altComps]
      exact fold_gen (Known.simpleComps true true) l (fun s _ => simple_table_known s) v hd

/-- … and on texts: every parsed text of the grammar is satisfied exactly by the versions the known
reading admits -/
theorem C01_text_known (r : Ast) (s : List Char) (hs : AstText r s) (R : Range) (hp : Range.parse s = .ok R)
    (v : Version) (hd : inDomain v) : Range.satisfies R v = Known.sat true true r v := by
  rw [parse_text hs] at hp
  split at hp
  · cases hp
  · cases hp
    exact C01_desugar_known r v hd

/-- where no known entry occurs the known reading is npm's -/
theorem known_sat_eq (r : Ast) (hr : ∀ a ∈ r, Alt.noException a) (v : Version) :
    Known.sat true true r v = Ast.sat r v := by
  have fm : ∀ l : List Simple, (∀ s ∈ l, ¬ knownException s) →
      l.filterMap (Known.simpleComps true true) = l.filterMap (fun s => s.comps.bind id) := by
    intro l hl
    induction l with
    | nil => rfl
    | cons s rest ih =>
      have e := known_eq_spec (hl s (by simp))
      unfold specSimple at e
      simp only [List.filterMap_cons, e]
      rw [ih (fun t ht => hl t (by simp [ht]))]
  have key : ∀ a ∈ r, (fun a => match Known.altComps true true a with
      | some cs => compsSat cs v
      | none => false) a = a.sat v := by
    intro a ha
    cases a with
    | hyphen l h =>
      simp only [Known.altComps, Alt.sat, Alt.comps]
      cases hh : Npm.hyphen l h <;> rfl
    | simples l =>
      have hl : ∀ s ∈ l, ¬ knownException s := hr _ ha
      simp only [Known.altComps, Alt.sat, Alt.comps, fm l hl]
      cases hc : (if (l.filterMap (fun s => s.comps.bind id)).isEmpty then none
        else some (l.filterMap (fun s => s.comps.bind id)).flatten : Option (List Comp)) <;> rfl
  unfold Known.sat Ast.sat
  rw [Bool.eq_iff_iff, List.any_eq_true, List.any_eq_true]
  constructor
  · rintro ⟨a, ha, h⟩; exact ⟨a, ha, by rw [← key a ha]; exact h⟩
  · rintro ⟨a, ha, h⟩; exact ⟨a, ha, by rw [← key a ha] at h; exact h⟩

/-! ### the same on the wider class of texts: any closed unrecognised token counts as garbage

`AstTextG ClosedGarbage` is the grammar in which a garbage token is *any* blank-free, bar-free token
that is not a dangling operator, does not start with `-`, and in which the parser recognises no
comparator (`1.2.3.4`, `>=1.y`, `1.`, `1.2beta4`, `foo`, …).  `Lemmas/Closed.lean` proves that such a
token disturbs nothing around it.  Every text of `AstText` is one of these (`astText_closed`). -/

/-- **C01_text_closed** -/
theorem C01_text_closed (r : Ast) (s : List Char) (hs : AstTextG ClosedGarbage r s)
    (hr : ∀ a ∈ r, Alt.noException a) (R : Range) (hp : Range.parse s = .ok R) (v : Version) (hd : inDomain v) :
    Range.satisfies R v = Ast.sat r v := by
  rw [parse_textG closedGarbage_ok hs] at hp
  split at hp
  · cases hp
  · cases hp
    exact C01_desugar r hr v hd

theorem C01_text_closed_fails_only_if_unsatisfiable (r : Ast) (s : List Char) (hs : AstTextG ClosedGarbage r s)
    (hr : ∀ a ∈ r, Alt.noException a) (hp : ∀ R, Range.parse s ≠ .ok R) (v : Version) (hd : inDomain v) :
    Ast.sat r v = false := by
  rw [parse_textG closedGarbage_ok hs] at hp
  by_cases he : (evalAst r).isEmpty
  · exact C01_failure_only_if_unsatisfiable r hr (by simpa using he) v hd
  · rw [if_neg he] at hp
    exact absurd rfl (hp _)

/-- without exclusions, on the wider class -/
theorem C01_text_closed_known (r : Ast) (s : List Char) (hs : AstTextG ClosedGarbage r s) (R : Range)
    (hp : Range.parse s = .ok R) (v : Version) (hd : inDomain v) :
    Range.satisfies R v = Known.sat true true r v := by
  rw [parse_textG closedGarbage_ok hs] at hp
  split at hp
  · cases hp
  · cases hp
    exact C01_desugar_known r v hd

/-! non-vacuity: `1.2.3.4 ^1.x` — the first token is garbage that begins like a comparator -/
example : AstTextG ClosedGarbage [.simples [.garbage "1.2.3.4".toList, .caret (.maj 1)]] "1.2.3.4 ^1.x".toList := by
  refine ⟨[], "1.2.3.4 ^1.x".toList, [], by decide, by decide, by decide, .one (.simples ?_)⟩
  have g : ClosedGarbage "1.2.3.4".toList :=
    ⟨⟨by intro c hc; revert c; decide, by decide, by intro u h; cases h⟩, by decide⟩
  exact .cons (t := "1.2.3.4".toList) (b := [' ']) (.garbage g) (by decide)
    (.one (.caret (gap := []) (by decide)
      (Or.inl (.two (A := ['1']) (B := ['x']) (.num numText_one) (.wild (Or.inl rfl)))))) (by simp)

end Semver.C01
