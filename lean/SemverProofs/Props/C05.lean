import SemverProofs.Lemmas.VersionParse
/-!
# C05 — Version::parse accepts only whole well-formed version strings, faithfully

`Spec.VersionLang s v` is the grammar of the property statement (optional `v`/`V`, surrounding
blanks, `major.minor.patch[-prerelease][+build]`, decimal components at most MAX_SAFE_INTEGER,
non-empty dot-separated identifiers over `[0-9A-Za-z-]`, at most MAX_LENGTH bytes; plus the loose
spellings the crate documents: leading zeros and a prerelease written without its hyphen, which
then starts with a letter).  The theorems hold for every string.
-/
namespace Semver.C05
open Semver Spec

/-- **sound**: whatever `Version::parse` accepts is a whole string of the language, and the returned
fields are exactly the denoted numbers and identifiers -/
theorem C05_sound (s : List Char) (v : Version) (h : Version.parse s = .ok v) : VersionLang s v := by
  unfold Version.parse at h
  split at h
  · cases h
  · rename_i hlen
    split at h
    · rename_i v' r hp
      cases h
      obtain ⟨_, pfx, b1, A, B, C, P, Q, b2, hs, h1, h2, h3, h4, h5, h6, h7, h8⟩ := versionP_ok hp
      refine ⟨?_, pfx, b1, A, B, C, P, Q, b2, hs, h1, h2, h3, h4, h5, h6, h7, h8⟩
      rw [utf8Length_eq]; unfold MAX_LENGTH at hlen; omega
    · cases h

/-- **complete**: every string of the language is accepted, with exactly the denoted fields -/
theorem C05_complete (s : List Char) (v : Version) (h : VersionLang s v) : Version.parse s = .ok v := by
  obtain ⟨hlen, pfx, b1, A, B, C, P, Q, b2, hs, h1, h2, h3, h4, h5, h6, h7, h8⟩ := h
  unfold Version.parse
  rw [utf8Length_eq] at hlen
  have : ¬ MAX_LENGTH < utf8Len s := by unfold MAX_LENGTH; omega
  rw [if_neg this]
  rw [hs, versionP_complete h1 h2 h3 h4 h5 h6 h7 h8]

theorem C05_iff (s : List Char) (v : Version) : Version.parse s = .ok v ↔ VersionLang s v :=
  ⟨C05_sound s v, C05_complete s v⟩

/-- the accepted components are within MAX_SAFE_INTEGER -/
theorem C05_components_bounded (s : List Char) (v : Version) (h : Version.parse s = .ok v) :
    v.major ≤ MAX_SAFE_INTEGER ∧ v.minor ≤ MAX_SAFE_INTEGER ∧ v.patch ≤ MAX_SAFE_INTEGER := by
  obtain ⟨_, pfx, b1, A, B, C, P, Q, b2, _, _, _, _, h4, h5, h6, _, _⟩ := C05_sound s v h
  exact ⟨h4.2.2.2, h5.2.2.2, h6.2.2.2⟩

/-- the result is a function of the string: two accepted denotations agree -/
theorem C05_deterministic (s : List Char) (v w : Version) (h1 : VersionLang s v) (h2 : VersionLang s w) :
    v = w := by
  have a := C05_complete s v h1
  have b := C05_complete s w h2
  rw [a] at b
  cases b; rfl

/-- longer than MAX_LENGTH bytes is never accepted -/
theorem C05_too_long (s : List Char) (h : MAX_LENGTH < utf8Len s) : ∀ v, Version.parse s ≠ .ok v := by
  intro v hv
  unfold Version.parse at hv
  rw [if_pos h] at hv
  cases hv

theorem not_ok_of_toOption_none {s : List Char} (h : (Version.parse s).toOption = none) :
    ∀ v, Version.parse s ≠ .ok v := by
  intro v hv; rw [hv] at h; cases h

/-- no input with trailing or embedded junk is accepted as a shorter version -/
theorem C05_junk_rejected :
    (∀ v, Version.parse "1.2.3.4".toList ≠ .ok v) ∧ (∀ v, Version.parse "1.2.3 foo".toList ≠ .ok v) ∧
    (∀ v, Version.parse "1.2.3-".toList ≠ .ok v) ∧ (∀ v, Version.parse "1.2.3+".toList ≠ .ok v) ∧
    (∀ v, Version.parse "1.2.3-a..b".toList ≠ .ok v) :=
  ⟨not_ok_of_toOption_none (by decide), not_ok_of_toOption_none (by decide),
   not_ok_of_toOption_none (by decide), not_ok_of_toOption_none (by decide),
   not_ok_of_toOption_none (by decide)⟩

/-! ### non-vacuity -/

example : (Version.parse "v 01.2.3beta.0007-x+b.-".toList).toOption =
    some ⟨1, 2, 3, [.alpha "beta".toList, .alpha "0007-x".toList], [.alpha "b".toList, .alpha "-".toList]⟩ := by
  decide

end Semver.C05
