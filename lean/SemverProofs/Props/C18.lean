import SemverProofs.Props.C12
/-!
# C18 — tuple conversions build the same version as parsing the dotted string

The model of `From<(T,T,T)>` / `From<(T,T,T,T)>` is type-agnostic (`Version.mk3`, `Version.mk4` on
naturals: the `as u64` casts are the identity on non-negative values); that the ten integer types
agree is established by the correspondence check, which converts through every type the values fit
in.  The theorems: for all values within MAX_SAFE_INTEGER the conversion equals the parse of the
dotted string in every field, and prints as that string.
-/
namespace Semver.C18
open Semver C12

theorem renderNat_length (k : Nat) : ∀ n, n < 10 ^ (k + 1) → (renderNat n).length ≤ k + 1 := by
  induction k with
  | zero => intro n hn; rw [renderNat]; simp at hn; simp [hn]
  | succ k ih =>
    intro n hn
    rw [renderNat]
    split
    · simp
    · have : n / 10 < 10 ^ (k + 1) := by
        rw [Nat.div_lt_iff_lt_mul (by omega)]
        rw [Nat.pow_succ] at hn; omega
      have := ih (n / 10) this
      simp; omega

theorem utf8Len_digits (t : List Char) (h : t.all isDigit = true) : utf8Len t = t.length := by
  induction t with
  | nil => rfl
  | cons c cs ih =>
    simp only [List.all_cons, Bool.and_eq_true] at h
    have hc : c.utf8Size = 1 := by
      have := h.1
      simp only [isDigit, Bool.and_eq_true, decide_eq_true_eq] at this
      rw [char_le_iff, char_le_iff] at this
      have e2 : ('9' : Char).toNat = 57 := by decide
      rw [e2] at this
      rw [Char.utf8Size_eq_one_iff, UInt32.le_iff_toNat_le]
      have h2 : c.val.toNat = c.toNat := rfl
      have h3 : (127 : UInt32).toNat = 127 := by decide
      omega
    have := ih h.2
    simp only [utf8Len, List.map_cons, List.sum_cons, List.length_cons] at this ⊢
    rw [this, hc]; omega

theorem utf8Len_renderNat (n : Nat) (h : n ≤ MAX_SAFE_INTEGER) : utf8Len (renderNat n) ≤ 15 := by
  rw [utf8Len_digits _ (all_digits_render n)]
  exact renderNat_length 14 n (by unfold MAX_SAFE_INTEGER at h; omega)

theorem utf8Len_cons (c : Char) (t : List Char) : utf8Len (c :: t) = c.utf8Size + utf8Len t := by
  simp [utf8Len]

theorem C18_from3 (a b c : Nat) (ha : a ≤ MAX_SAFE_INTEGER) (hb : b ≤ MAX_SAFE_INTEGER) (hc : c ≤ MAX_SAFE_INTEGER) :
    Version.parse (renderCore a b c) = .ok (Version.mk3 a b c) ∧
    (Version.mk3 a b c).render = renderCore a b c := by
  have hr : (Version.mk3 a b c).render = renderCore a b c := by simp [Version.render, Version.mk3]
  refine ⟨?_, hr⟩
  rw [← hr]
  apply C12_roundtrip
  · exact ⟨ha, hb, hc, by simp [Version.mk3], by simp [Version.mk3]⟩
  · rw [hr, renderCore, utf8Len_append, utf8Len_cons, utf8Len_append, utf8Len_cons]
    have := utf8Len_renderNat a ha
    have := utf8Len_renderNat b hb
    have := utf8Len_renderNat c hc
    have h1 : ('.' : Char).utf8Size = 1 := by decide
    rw [h1]; unfold MAX_LENGTH; omega

theorem C18_from4 (a b c d : Nat) (ha : a ≤ MAX_SAFE_INTEGER) (hb : b ≤ MAX_SAFE_INTEGER)
    (hc : c ≤ MAX_SAFE_INTEGER) (hd : d ≤ MAX_SAFE_INTEGER) :
    Version.parse (renderCore a b c ++ '-' :: renderNat d) = .ok (Version.mk4 a b c d) ∧
    (Version.mk4 a b c d).render = renderCore a b c ++ '-' :: renderNat d ∧
    (Version.mk4 a b c d).pre = [.num d] := by
  have hr : (Version.mk4 a b c d).render = renderCore a b c ++ '-' :: renderNat d := by
    simp [Version.render, Version.mk4, renderIds, Ident.render]
  refine ⟨?_, hr, rfl⟩
  rw [← hr]
  apply C12_roundtrip
  · refine ⟨ha, hb, hc, ?_, by simp [Version.mk4]⟩
    intro i hi
    simp [Version.mk4] at hi
    subst hi
    show d < U64
    unfold MAX_SAFE_INTEGER at hd; unfold U64; omega
  · rw [hr, renderCore, utf8Len_append, utf8Len_append, utf8Len_cons, utf8Len_append, utf8Len_cons, utf8Len_cons]
    have := utf8Len_renderNat a ha
    have := utf8Len_renderNat b hb
    have := utf8Len_renderNat c hc
    have := utf8Len_renderNat d hd
    have h1 : ('.' : Char).utf8Size = 1 := by decide
    have h2 : ('-' : Char).utf8Size = 1 := by decide
    rw [h1, h2]; unfold MAX_LENGTH; omega

/-- the dotted string is the usual decimal notation: a named instance -/
example : renderNat 300 = "300".toList := by
  rw [renderNat]; simp; rw [renderNat]; simp; rw [renderNat]; simp; decide

end Semver.C18
