import SemverProofs.Lemmas.Succ
/-!
# C11 — min_version returns the least version satisfying the range, or None if none

For every range value whose alternatives have the `(Lower, Upper)` shape (all ranges the crate can
build): if `min_version` is `Some m` then `m` satisfies the range and no lower version does; if it
is `None` no version satisfies the range.  Alternatives that admit nothing contribute no candidate.
-/
namespace Semver.C11
open Semver Pred Bound

/-- a version below a satisfying version and above the lower bound lies within the bounds -/
theorem within_down {p q : Pred} {c w : Version} (hc : memLo p c) (hcw : c ≤ w)
    (hw : (BoundSet.mk (up q) (lo p)).within w = true) : (BoundSet.mk (up q) (lo p)).within c = true := by
  rw [within_mk] at hw ⊢
  refine ⟨hc, ?_⟩
  have := hw.2
  cases q <;> simp_all [memUp] <;> grind

theorem gate_congr (s : BoundSet) {c w : Version} (h : sameTuple c w = true) : s.gate c = s.gate w := by
  rw [sameTuple_iff] at h
  obtain ⟨u, l⟩ := s
  cases u <;> cases l <;> rename_i p q <;> cases p <;> cases q <;>
    simp [BoundSet.gate, sameTuple, h.1, h.2.1, h.2.2]

theorem sat_release_of_within {s : BoundSet} {c : Version} (hc : c.isPre = false) (hw : s.within c = true) :
    s.satisfies c = true := by
  simp [BoundSet.satisfies, hw, hc]

theorem sat_of_within_gate {s : BoundSet} {c : Version} (hw : s.within c = true) (hg : s.gate c = true) :
    s.satisfies c = true := by
  simp [BoundSet.satisfies, hw, hg]

theorem sat_within {s : BoundSet} {w : Version} (h : s.satisfies w = true) : s.within w = true :=
  ((satisfies_iff s w).mp h).1

theorem sat_gate_of_pre {s : BoundSet} {w : Version} (h : s.satisfies w = true) (hp : w.isPre = true) :
    s.gate w = true := by
  have := ((satisfies_iff s w).mp h).2
  rw [hp] at this; simpa using this

theorem sat_memLo {p q : Pred} {w : Version} (h : (BoundSet.mk (up q) (lo p)).satisfies w = true) : memLo p w := by
  have := sat_within h; rw [within_mk] at this; exact this.1

theorem find1 {α} (f : α → Bool) (a : α) : List.find? f [a] = if f a = true then some a else none := by
  cases h : f a <;> simp [List.find?, h]

theorem find2 {α} (f : α → Bool) (a b : α) :
    List.find? f [a, b] = if f a = true then some a else if f b = true then some b else none := by
  cases h : f a <;> cases h' : f b <;> simp [List.find?, h, h']

theorem cand_inc (q : Pred) (v : Version) : (BoundSet.mk (up q) (lo (inc v))).minCandidates = [v] := rfl

theorem cand_exc_pre (q : Pred) (v : Version) (h : v.isPre = true) :
    (BoundSet.mk (up q) (lo (exc v))).minCandidates = [succPre v] := by
  simp [BoundSet.minCandidates, h, succPre]

theorem cand_exc_rel (q : Pred) (v : Version) (h : v.isPre = false) :
    (BoundSet.mk (up q) (lo (exc v))).minCandidates =
      [{ { v with patch := v.patch + 1 } with pre := v.pre ++ [.num 0] }, { v with patch := v.patch + 1 }] := by
  simp [BoundSet.minCandidates, h]

theorem cand_unb (q : Pred) : (BoundSet.mk (up q) (lo unb)).minCandidates = [leastV, Version.mk3 0 0 0] := rfl

/-- the per-alternative statement -/
theorem minVersion_spec (p q : Pred) :
    match (BoundSet.mk (up q) (lo p)).minVersion with
    | some m => (BoundSet.mk (up q) (lo p)).satisfies m = true ∧
        ∀ w, (BoundSet.mk (up q) (lo p)).satisfies w = true → m ≤ w
    | none => ∀ w, (BoundSet.mk (up q) (lo p)).satisfies w = false := by
  generalize hs : BoundSet.mk (up q) (lo p) = s
  cases p with
  | inc v =>
    -- candidate: the bound itself
    have hleast : ∀ w, s.satisfies w = true → v ≤ w := by
      intro w hw; subst hs; exact sat_memLo hw
    have hex : ∀ w, s.satisfies w = true → s.satisfies v = true := by
      intro w hw
      have hvw := hleast w hw
      subst hs
      have hwv := within_down (p := inc v) (q := q) (c := v) (by show v ≤ v; grind) hvw (sat_within hw)
      cases hp : v.isPre with
      | false => exact sat_release_of_within hp hwv
      | true =>
        apply sat_of_within_gate hwv
        rw [gate_mk]; simp [gBound, hp, sameTuple]
    subst hs
    rw [BoundSet.minVersion, cand_inc, find1]
    cases hsv : (BoundSet.mk (up q) (lo (inc v))).satisfies v with
    | true => simp only [if_true]; exact ⟨hsv, hleast⟩
    | false =>
      simp only [Bool.false_eq_true, if_false]
      intro w
      cases hw : (BoundSet.mk (up q) (lo (inc v))).satisfies w with
      | false => rfl
      | true => rw [hex w hw] at hsv; cases hsv
  | exc v =>
    cases hvp : v.isPre with
    | true =>
      have hvne : v.pre ≠ [] := by
        simp only [Version.isPre, Bool.not_eq_true', List.isEmpty_eq_false_iff] at hvp; exact hvp
      have hleast : ∀ w, s.satisfies w = true → succPre v ≤ w := by
        intro w hw; subst hs; exact succPre_le v w hvne (sat_memLo hw)
      have hex : ∀ w, s.satisfies w = true → s.satisfies (succPre v) = true := by
        intro w hw
        have hvw := hleast w hw
        subst hs
        have hwv := within_down (p := exc v) (q := q) (c := succPre v) (lt_succPre v hvne) hvw (sat_within hw)
        apply sat_of_within_gate hwv
        rw [gate_mk]; simp [gBound, hvp, sameTuple, succPre]
      subst hs
      rw [BoundSet.minVersion, cand_exc_pre q v hvp, find1]
      cases hsv : (BoundSet.mk (up q) (lo (exc v))).satisfies (succPre v) with
      | true => simp only [if_true]; exact ⟨hsv, hleast⟩
      | false =>
        simp only [Bool.false_eq_true, if_false]
        intro w
        cases hw : (BoundSet.mk (up q) (lo (exc v))).satisfies w with
        | false => rfl
        | true => rw [hex w hw] at hsv; cases hsv
    | false =>
      have hvnil : v.pre = [] := by
        simp only [Version.isPre, Bool.not_eq_false', List.isEmpty_iff] at hvp; exact hvp
      -- candidates: first prerelease of the next patch tuple, then its release
      let n0 : Version := { { v with patch := v.patch + 1 } with pre := v.pre ++ [.num 0] }
      let n1 : Version := { v with patch := v.patch + 1 }
      have hn0 : n0 = succRel v := by simp [n0, succRel, hvnil]
      have hn1pre : n1.isPre = false := by simp [n1, Version.isPre, hvnil]
      have hn01 : n0 < n1 := by
        rw [lt_iff_prec]; simp [Spec.prec, n0, n1, hvnil]
      have ht : sameTuple n1 n0 = true := by simp [sameTuple, n0, n1]
      have hvn0 : v < n0 := by rw [hn0]; exact lt_succRel v
      have hvn1 : v < n1 := by grind
      have hleast : ∀ w, s.satisfies w = true → n0 ≤ w := by
        intro w hw; subst hs; rw [hn0]; exact succRel_le v w hvnil (sat_memLo hw)
      have hex : ∀ w, s.satisfies w = true →
          (w < n1 → s.satisfies n0 = true) ∧ (n1 ≤ w → s.satisfies n1 = true) := by
        intro w hw
        have h0w := hleast w hw
        subst hs
        constructor
        · intro hlt
          have htw := tuple_of_between h0w hlt ht
          have hwp := pre_of_lt_release (by simp [n1, hvnil]) hlt htw
          have hg := sat_gate_of_pre hw hwp
          have hwn0 := within_down (p := exc v) (q := q) (c := n0) hvn0 h0w (sat_within hw)
          apply sat_of_within_gate hwn0
          have : sameTuple n0 w = true := by
            rw [sameTuple_iff] at htw ht ⊢; omega
          rw [gate_congr _ this]; exact hg
        · intro hge
          exact sat_release_of_within hn1pre (within_down (p := exc v) (q := q) (c := n1) hvn1 hge (sat_within hw))
      subst hs
      rw [BoundSet.minVersion, cand_exc_rel q v hvp, find2]
      show match (if (BoundSet.mk (up q) (lo (exc v))).satisfies n0 = true then some n0
          else if (BoundSet.mk (up q) (lo (exc v))).satisfies n1 = true then some n1 else none) with
        | some m => _ | none => _
      cases hs0 : (BoundSet.mk (up q) (lo (exc v))).satisfies n0 with
      | true => simp only [if_true]; exact ⟨hs0, hleast⟩
      | false =>
        simp only [Bool.false_eq_true, if_false]
        cases hs1 : (BoundSet.mk (up q) (lo (exc v))).satisfies n1 with
        | true =>
          simp only [if_true]
          refine ⟨hs1, ?_⟩
          intro w hw
          by_cases hlt : w < n1
          · rw [(hex w hw).1 hlt] at hs0; cases hs0
          · exact (not_lt_iff_le w n1).mp hlt
        | false =>
          simp only [Bool.false_eq_true, if_false]
          intro w
          cases hw : (BoundSet.mk (up q) (lo (exc v))).satisfies w with
          | false => rfl
          | true =>
            by_cases hlt : w < n1
            · rw [(hex w hw).1 hlt] at hs0; cases hs0
            · rw [(hex w hw).2 ((not_lt_iff_le w n1).mp hlt)] at hs1; cases hs1
  | unb =>
    let z : Version := Version.mk3 0 0 0
    have hz0 : Version.mk4 0 0 0 0 = leastV := rfl
    have hzpre : z.isPre = false := rfl
    have hz0z : leastV < z := by rw [lt_iff_prec]; decide
    have ht : sameTuple z leastV = true := rfl
    have hex : ∀ w, s.satisfies w = true →
        (w < z → s.satisfies leastV = true) ∧ (z ≤ w → s.satisfies z = true) := by
      intro w hw
      have h0w := leastV_le w
      subst hs
      constructor
      · intro hlt
        have htw := tuple_of_between h0w hlt ht
        have hwp := pre_of_lt_release rfl hlt htw
        have hg := sat_gate_of_pre hw hwp
        have hwn0 := within_down (p := unb) (q := q) (c := leastV) trivial h0w (sat_within hw)
        apply sat_of_within_gate hwn0
        have : sameTuple leastV w = true := by
          rw [sameTuple_iff] at htw ht ⊢; omega
        rw [gate_congr _ this]; exact hg
      · intro hge
        exact sat_release_of_within hzpre (within_down (p := unb) (q := q) (c := z) trivial hge (sat_within hw))
    subst hs
    rw [BoundSet.minVersion, cand_unb, find2]
    show match (if (BoundSet.mk (up q) (lo unb)).satisfies leastV = true then some leastV
        else if (BoundSet.mk (up q) (lo unb)).satisfies z = true then some z else none) with
      | some m => _ | none => _
    cases hs0 : (BoundSet.mk (up q) (lo unb)).satisfies leastV with
    | true => simp only [if_true]; exact ⟨hs0, fun w _ => leastV_le w⟩
    | false =>
      simp only [Bool.false_eq_true, if_false]
      cases hs1 : (BoundSet.mk (up q) (lo unb)).satisfies z with
      | true =>
        simp only [if_true]
        refine ⟨hs1, ?_⟩
        intro w hw
        by_cases hlt : w < z
        · rw [(hex w hw).1 hlt] at hs0; cases hs0
        · exact (not_lt_iff_le w z).mp hlt
      | false =>
        simp only [Bool.false_eq_true, if_false]
        intro w
        cases hw : (BoundSet.mk (up q) (lo unb)).satisfies w with
        | false => rfl
        | true =>
          by_cases hlt : w < z
          · rw [(hex w hw).1 hlt] at hs0; cases hs0
          · rw [(hex w hw).2 ((not_lt_iff_le w z).mp hlt)] at hs1; cases hs1

end Semver.C11

namespace Semver.C11
open Semver Pred Bound

/-- every alternative has the `(Lower, Upper)` shape (true of every range the crate builds) -/
def Shaped (r : Range) : Prop := ∀ s ∈ r, ∃ p q, s = ⟨up q, lo p⟩

theorem shaped_of_wf {r : Range} (h : r.WF) : Shaped r := by
  intro s hs
  obtain ⟨p, q, rfl, _⟩ := h.2 s hs
  exact ⟨p, q, rfl⟩

theorem set_min_some {s : BoundSet} (hs : ∃ p q, s = ⟨up q, lo p⟩) {m : Version} (h : s.minVersion = some m) :
    s.satisfies m = true ∧ ∀ w, s.satisfies w = true → m ≤ w := by
  obtain ⟨p, q, rfl⟩ := hs
  have := minVersion_spec p q
  rw [h] at this
  exact this

theorem set_min_none {s : BoundSet} (hs : ∃ p q, s = ⟨up q, lo p⟩) (h : s.minVersion = none) :
    ∀ w, s.satisfies w = false := by
  obtain ⟨p, q, rfl⟩ := hs
  have := minVersion_spec p q
  rw [h] at this
  exact this

/-- **C11_some**: `Some(m)`: `m` satisfies the range and no lower version does -/
theorem C11_some (r : Range) (hr : Shaped r) (m : Version) (h : Range.minVersion r = some m) :
    Range.satisfies r m = true ∧ ∀ w, w < m → Range.satisfies r w = false := by
  obtain ⟨hmem, hmin⟩ := (C04.C04_min (r.filterMap BoundSet.minVersion)).2 m h
  rw [List.mem_filterMap] at hmem
  obtain ⟨s, hs, hsm⟩ := hmem
  refine ⟨(Range.satisfies_iff r m).mpr ⟨s, hs, (set_min_some (hr s hs) hsm).1⟩, ?_⟩
  intro w hw
  cases hsat : Range.satisfies r w with
  | false => rfl
  | true =>
    exfalso
    rw [Range.satisfies_iff] at hsat
    obtain ⟨s', hs', hs'w⟩ := hsat
    cases hm' : s'.minVersion with
    | none => have := set_min_none (hr s' hs') hm' w; rw [hs'w] at this; cases this
    | some m' =>
      have h1 := (set_min_some (hr s' hs') hm').2 w hs'w
      have h2 := hmin m' (List.mem_filterMap.mpr ⟨s', hs', hm'⟩)
      have : m ≤ w := C04.C04_trans m m' w h2 h1
      exact absurd hw ((not_lt_iff_le w m).mpr this)

/-- **C11_none**: `None`: no version satisfies the range -/
theorem C11_none (r : Range) (hr : Shaped r) (h : Range.minVersion r = none) :
    ∀ w, Range.satisfies r w = false := by
  have hnil := (C04.C04_min (r.filterMap BoundSet.minVersion)).1.mp h
  intro w
  cases hsat : Range.satisfies r w with
  | false => rfl
  | true =>
    exfalso
    rw [Range.satisfies_iff] at hsat
    obtain ⟨s, hs, hsw⟩ := hsat
    cases hm : s.minVersion with
    | none => have := set_min_none (hr s hs) hm w; rw [hsw] at this; cases this
    | some m =>
      have : m ∈ r.filterMap BoundSet.minVersion := List.mem_filterMap.mpr ⟨s, hs, hm⟩
      rw [hnil] at this; cases this

/-- alternatives that admit nothing do not influence the answer: they contribute no candidate -/
theorem C11_empty_alternative_ignored (r : Range) (s : BoundSet) (hs : ∃ p q, s = ⟨up q, lo p⟩)
    (hempty : ∀ w, s.satisfies w = false) : Range.minVersion (s :: r) = Range.minVersion r := by
  have : s.minVersion = none := by
    cases h : s.minVersion with
    | none => rfl
    | some m => have := (set_min_some hs h).1; rw [hempty m] at this; cases this
  simp [Range.minVersion, List.filterMap_cons, this]

/-! ### the witnesses of the statement, by kernel evaluation -/

/-- `>1.0.0 <1.0.1` admits nothing: `None` -/
example : Range.minVersion [⟨up (exc (Version.mk3 1 0 1)), lo (exc (Version.mk3 1 0 0))⟩] = none := by decide
/-- `<0.0.0-0 || >=2.0.0`: the empty alternative is ignored: `2.0.0` -/
example : Range.minVersion [⟨up (exc leastV), lo unb⟩, ⟨up unb, lo (inc (Version.mk3 2 0 0))⟩] =
    some (Version.mk3 2 0 0) := by decide
/-- `>1.0.0 || >=1.0.1-0`: `1.0.1-0` -/
example : Range.minVersion [⟨up unb, lo (exc (Version.mk3 1 0 0))⟩, ⟨up unb, lo (inc (Version.mk4 1 0 1 0))⟩] =
    some (Version.mk4 1 0 1 0) := by decide

end Semver.C11
