import SemverProofs.Props.C02
import SemverProofs.Lemmas.Locality
import SemverProofs.Lemmas.NpmParse
/-!
# C02, text level — the text `a || b`

For **all** texts `a` and `b` (no assumption on their shape: garbage, blanks, empty conjunctions,
hyphen forms, anything), the parser's alternatives of the text `a || b` are those of `a` followed by
those of `b` (`C02_or_alts`, from the locality lemmas in `Lemmas/Locality.lean`: no production of the
range grammar reads past a blank followed by `||`).  Hence

* if both sides parse, `a || b` parses to the concatenation and is satisfied by exactly the versions
  that satisfy `a` or `b` (`C02_or_text`, `C02_or_text_sat`);
* if exactly one side parses, `a || b` parses to that side (`C02_or_text_left_only`,
  `C02_or_text_right_only`); if neither does, `a || b` fails (`C02_or_text_neither`);
* `a || b` and `b || a` parse together and are satisfied by the same versions (`C02_or_text_comm`).
-/
namespace Semver.C02
open Semver Pred Bound

/-- the separator as the crate's users write it -/
def orText (a b : List Char) : List Char := a ++ ' ' :: '|' :: '|' :: ' ' :: b

example : orText "1.x".toList "^2".toList = "1.x || ^2".toList := by decide

/-- **C02_or_alts**: for all texts, the alternatives of `a || b` are those of `a` then those of `b` -/
theorem C02_or_alts (a b : List Char) : altsOf (orText a b) = altsOf a ++ altsOf b := alts_or a b

theorem parse_ok_iff {s : List Char} {r : Range} : Range.parse s = .ok r ↔ (altsOf s = r ∧ r ≠ []) := by
  rw [parse_eq_alts]
  cases h : altsOf s with
  | nil =>
    simp only [List.isEmpty_nil, if_true]
    constructor
    · intro h; cases h
    · rintro ⟨rfl, h2⟩; exact absurd rfl h2
  | cons x xs =>
    simp only [List.isEmpty_cons, Bool.false_eq_true, if_false]
    constructor
    · intro h; cases h; exact ⟨rfl, by simp⟩
    · rintro ⟨rfl, _⟩; rfl

theorem parse_fails_iff {s : List Char} : (∀ r, Range.parse s ≠ .ok r) ↔ altsOf s = [] := by
  constructor
  · intro h
    cases h2 : altsOf s with
    | nil => rfl
    | cons x xs => exact absurd (parse_ok_iff.mpr ⟨h2, by simp⟩) (h _)
  · intro h r hr
    have := parse_ok_iff.mp hr
    rw [h] at this
    exact this.2 this.1.symm

/-- **C02_or_text**: if `a` and `b` parse, `a || b` parses, to the alternatives of `a` then of `b` -/
theorem C02_or_text (a b : List Char) (ra rb : Range) (ha : Range.parse a = .ok ra) (hb : Range.parse b = .ok rb) :
    Range.parse (orText a b) = .ok (ra ++ rb) := by
  obtain ⟨ha1, ha2⟩ := parse_ok_iff.mp ha
  obtain ⟨hb1, _⟩ := parse_ok_iff.mp hb
  apply parse_ok_iff.mpr
  rw [C02_or_alts, ha1, hb1]
  exact ⟨rfl, by simp [ha2]⟩

/-- … and is satisfied by exactly the versions that satisfy `a` or `b` -/
theorem C02_or_text_sat (a b : List Char) (ra rb : Range) (ha : Range.parse a = .ok ra) (hb : Range.parse b = .ok rb) :
    ∃ r, Range.parse (orText a b) = .ok r ∧
      ∀ v, Range.satisfies r v = (Range.satisfies ra v || Range.satisfies rb v) :=
  ⟨ra ++ rb, C02_or_text a b ra rb ha hb, fun v => C02_or ra rb v⟩

/-- garbage-only (or empty-conjunction) right side: the result is the left side -/
theorem C02_or_text_left_only (a b : List Char) (ra : Range) (ha : Range.parse a = .ok ra)
    (hb : ∀ r, Range.parse b ≠ .ok r) : Range.parse (orText a b) = .ok ra := by
  obtain ⟨ha1, ha2⟩ := parse_ok_iff.mp ha
  apply parse_ok_iff.mpr
  rw [C02_or_alts, ha1, parse_fails_iff.mp hb]
  exact ⟨by simp, ha2⟩

theorem C02_or_text_right_only (a b : List Char) (rb : Range) (hb : Range.parse b = .ok rb)
    (ha : ∀ r, Range.parse a ≠ .ok r) : Range.parse (orText a b) = .ok rb := by
  obtain ⟨hb1, hb2⟩ := parse_ok_iff.mp hb
  apply parse_ok_iff.mpr
  rw [C02_or_alts, hb1, parse_fails_iff.mp ha]
  exact ⟨by simp, hb2⟩

theorem C02_or_text_neither (a b : List Char) (ha : ∀ r, Range.parse a ≠ .ok r) (hb : ∀ r, Range.parse b ≠ .ok r) :
    ∀ r, Range.parse (orText a b) ≠ .ok r := by
  apply parse_fails_iff.mpr
  rw [C02_or_alts, parse_fails_iff.mp ha, parse_fails_iff.mp hb]; rfl

/-- **order of the alternatives never matters**, at the level of texts -/
theorem C02_or_text_comm (a b : List Char) :
    (∀ r, Range.parse (orText a b) = .ok r → ∃ r', Range.parse (orText b a) = .ok r' ∧
      ∀ v, Range.satisfies r v = Range.satisfies r' v) := by
  intro r hr
  obtain ⟨h1, h2⟩ := parse_ok_iff.mp hr
  rw [C02_or_alts] at h1
  refine ⟨altsOf b ++ altsOf a, parse_ok_iff.mpr ⟨C02_or_alts b a, ?_⟩, ?_⟩
  · intro h0
    apply h2
    rw [← h1]
    simp only [List.append_eq_nil_iff] at h0 ⊢
    exact ⟨h0.2, h0.1⟩
  · intro v
    rw [← h1]
    exact C02_or_comm _ _ List.perm_append_comm v

/-- nested: the alternatives of `a || b || c` -/
theorem C02_or_text_assoc (a b c : List Char) :
    altsOf (orText a (orText b c)) = altsOf a ++ altsOf b ++ altsOf c := by
  rw [C02_or_alts, C02_or_alts, List.append_assoc]

/-! non-vacuity: a side that parses (`1`), one that does not (the empty text) -/
theorem one_parses : ∃ r, Range.parse ['1'] = .ok r := by
  have h1 : (simple ['1']).2 = [] := by decide
  have h2 : (simple ['1']).1.isSome = true := by decide
  have hd : dropBlanks ['1'] = ['1'] := by decide
  have hr : (rangeP ['1']).1 ≠ [] ∧ (rangeP ['1']).2 = [] := by
    unfold rangeP
    simp only
    rw [h1, rangeTail_none (by rfl : blanks1 [] = none)]
    cases hs : (simple ['1']).1 with
    | none => rw [hs] at h2; cases h2
    | some x => exact ⟨by simp [foldSets], rfl⟩
  have : altsOf ['1'] ≠ [] := by
    unfold altsOf boundSets
    rw [hd]
    simp only
    intro h0
    simp only [List.flatten_cons, List.append_eq_nil_iff] at h0
    exact hr.1 h0.1
  cases h : altsOf ['1'] with
  | nil => exact absurd h this
  | cons x xs => exact ⟨_, parse_ok_iff.mpr ⟨h, by simp⟩⟩

theorem empty_fails : ∀ r, Range.parse [] ≠ .ok r := by
  apply parse_fails_iff.mpr
  unfold altsOf boundSets
  have hd : dropBlanks [] = [] := by decide
  rw [hd]
  simp only
  rw [rangeP_nil]
  simp only
  rw [boundSetsTail_nil]; rfl

/-- so `1 || ` (right side empty) parses to what `1` parses to -/
example : ∃ r, Range.parse ['1'] = .ok r ∧ Range.parse (orText ['1'] []) = .ok r := by
  obtain ⟨r, hr⟩ := one_parses
  exact ⟨r, hr, C02_or_text_left_only _ _ r hr empty_fails⟩

end Semver.C02

/-! ## the text `a b` (comparator lists)

For comparator lists `a`, `b` written in the npm range grammar (`Spec.Npm.SimplesText`: primitives,
partials / X-ranges, tildes, carets, garbage tokens, in all their loose spellings; no hyphen form)
the text `a b` is the comparator list of `a` followed by that of `b` (`simplesText_append`), the
parser reads each of the three texts as the fold of its comparators' intervals
(`parse_simples`), and `C02_and` applies.
-/
namespace Semver.C02
open Semver Pred Bound Spec Spec.Npm

theorem simplesText_append {la lb : List Simple} {ta tb b : List Char} (ha : SimplesText la ta) (hane : la ≠ [])
    (hb : Blanks1 b) (hlb : SimplesText lb tb) (hbne : lb ≠ []) :
    SimplesText (la ++ lb) (ta ++ (b ++ tb)) := by
  induction ha with
  | nil => exact absurd rfl hane
  | one hs => exact .cons hs hb hlb hbne
  | @cons s t b' l T hs hb' hl hlne ih =>
    have := ih hlne
    have e : t ++ (b' ++ T) ++ (b ++ tb) = t ++ (b' ++ (T ++ (b ++ tb))) := by simp
    rw [e]
    exact .cons hs hb' this (by simp [hlne])

/-- the valid comparators of a comparator list, as intervals -/
def setsOf (l : List Simple) : List BoundSet := (l.map evalSimple).filterMap id

theorem foldSets_filter (l : List (Option BoundSet)) : foldSets l = foldSets ((l.filterMap id).map some) := by
  unfold foldSets
  congr 1
  simp [List.filterMap_map]

theorem setsOf_append (la lb : List Simple) : setsOf (la ++ lb) = setsOf la ++ setsOf lb := by
  simp [setsOf, List.filterMap_append]

theorem evalSimple_wf {s : Simple} {x : BoundSet} (h : evalSimple s = some x) : x.WF := by
  cases s with
  | prim op p => exact primitiveSet_wf h
  | bare p => exact partialSet_wf h
  | tilde p => exact tildeSet_wf h
  | caret p => exact caretSet_wf h
  | garbage t => cases h

theorem setsOf_wf (l : List Simple) : ∀ x ∈ setsOf l, x.WF := by
  intro x hx
  simp only [setsOf, List.mem_filterMap, List.mem_map, id] at hx
  obtain ⟨o, ⟨s, _, rfl⟩, ho⟩ := hx
  exact evalSimple_wf ho

/-- **what `Range::parse` makes of a comparator list**: the fold of its valid comparators -/
theorem parse_simples {l : List Simple} {t : List Char} (h : SimplesText l t) :
    altsOf t = foldSets ((setsOf l).map some) := by
  have hs : AstText [.simples l] t := ⟨[], t, [], by simp, rfl, rfl, .one (.simples h)⟩
  unfold altsOf
  rw [boundSets_text hs]
  simp only [evalAst, List.flatMap_cons, List.flatMap_nil, List.append_nil, evalAlt]
  exact foldSets_filter _

/-- a version satisfies the text (a text that does not parse is satisfied by nothing) -/
def satText (t : List Char) (v : Version) : Prop := ∃ s ∈ altsOf t, s.satisfies v = true
/-- a version lies within the bounds of the text -/
def withinText (t : List Char) (v : Version) : Prop := ∃ s ∈ altsOf t, s.within v = true

theorem satText_iff_parse (t : List Char) (v : Version) :
    satText t v ↔ ∃ R, Range.parse t = .ok R ∧ Range.satisfies R v = true := by
  constructor
  · rintro ⟨s, hs, hv⟩
    refine ⟨altsOf t, parse_ok_iff.mpr ⟨rfl, ?_⟩, ?_⟩
    · intro h0; rw [h0] at hs; cases hs
    · rw [Range.satisfies_iff]; exact ⟨s, hs, hv⟩
  · rintro ⟨R, hR, hv⟩
    obtain ⟨rfl, _⟩ := parse_ok_iff.mp hR
    rw [Range.satisfies_iff] at hv
    exact hv

theorem withinText_iff {l : List Simple} {t : List Char} (h : SimplesText l t) (hne : setsOf l ≠ []) (v : Version) :
    withinText t v ↔ allWithin (setsOf l) v := by
  unfold withinText
  rw [parse_simples h]
  rcases C02_fold_sem (setsOf l) (setsOf_wf l) hne with ⟨r, hr, _, hsem⟩ | ⟨hr, hsem⟩
  · rw [hr]
    simp only [List.mem_singleton, exists_eq_left]
    exact (hsem v).1
  · rw [hr]
    simp only [List.not_mem_nil, false_and, exists_false, false_iff]
    exact hsem v

theorem satText_eq_foldSat {l : List Simple} {t : List Char} (h : SimplesText l t) (v : Version) :
    satText t v ↔ foldSat (foldSets ((setsOf l).map some)) v := by
  unfold satText foldSat
  rw [parse_simples h]

/-- **C02_and_text**: for comparator lists `a`, `b` of the grammar, each with at least one valid
comparator, and any blanks `sp` between them: a release version satisfies the text `a b` exactly
when it satisfies both; a prerelease version exactly when it lies within the bounds of both and
satisfies at least one -/
theorem C02_and_text {la lb : List Simple} {ta tb sp : List Char} (ha : SimplesText la ta) (hb : SimplesText lb tb)
    (hsp : Blanks1 sp) (hane : setsOf la ≠ []) (hbne : setsOf lb ≠ []) (v : Version) :
    (v.isPre = false → (satText (ta ++ (sp ++ tb)) v ↔ (satText ta v ∧ satText tb v))) ∧
    (v.isPre = true → (satText (ta ++ (sp ++ tb)) v ↔
      (withinText ta v ∧ withinText tb v ∧ (satText ta v ∨ satText tb v)))) := by
  have hla : la ≠ [] := by intro h; subst h; exact hane rfl
  have hlb : lb ≠ [] := by intro h; subst h; exact hbne rfl
  have hab := simplesText_append ha hla hsp hb hlb
  rw [satText_eq_foldSat hab, satText_eq_foldSat ha, satText_eq_foldSat hb, withinText_iff ha hane,
    withinText_iff hb hbne, setsOf_append]
  exact C02_and (setsOf la) (setsOf lb) (setsOf_wf la) (setsOf_wf lb) hane hbne v

/-- … and it never widens to a union: `a b` parses to at most one interval, and whatever satisfies
it lies within the bounds of both sides — so when nothing lies within both, `a b` either fails to
parse or parses to a range no version satisfies -/
theorem C02_and_text_never_union {la lb : List Simple} {ta tb sp : List Char} (ha : SimplesText la ta)
    (hb : SimplesText lb tb) (hsp : Blanks1 sp) (hane : setsOf la ≠ []) (hbne : setsOf lb ≠ []) :
    (altsOf (ta ++ (sp ++ tb))).length ≤ 1 ∧
    (∀ v, satText (ta ++ (sp ++ tb)) v → withinText ta v ∧ withinText tb v) := by
  have hla : la ≠ [] := by intro h; subst h; exact hane rfl
  have hlb : lb ≠ [] := by intro h; subst h; exact hbne rfl
  have hab := simplesText_append ha hla hsp hb hlb
  constructor
  · rw [parse_simples hab]; exact C02_never_union _
  · intro v hv
    have hne : setsOf (la ++ lb) ≠ [] := by rw [setsOf_append]; simp [hane]
    have hw : withinText (ta ++ (sp ++ tb)) v := by
      obtain ⟨s, hs, hsat⟩ := hv
      exact ⟨s, hs, ((satisfies_iff s v).mp hsat).1⟩
    rw [withinText_iff hab hne, setsOf_append] at hw
    rw [withinText_iff ha hane, withinText_iff hb hbne]
    exact ⟨fun s hs => hw s (by simp [hs]), fun s hs => hw s (by simp [hs])⟩

/-- a side without any valid comparator (garbage only) does not matter -/
theorem C02_and_text_garbage_left {la lb : List Simple} {ta tb sp : List Char} (ha : SimplesText la ta)
    (hb : SimplesText lb tb) (hsp : Blanks1 sp) (hla : la ≠ []) (hlb : lb ≠ []) (hg : setsOf la = []) :
    altsOf (ta ++ (sp ++ tb)) = altsOf tb := by
  rw [parse_simples (simplesText_append ha hla hsp hb hlb), parse_simples hb, setsOf_append, hg]
  rfl

theorem C02_and_text_garbage_right {la lb : List Simple} {ta tb sp : List Char} (ha : SimplesText la ta)
    (hb : SimplesText lb tb) (hsp : Blanks1 sp) (hla : la ≠ []) (hlb : lb ≠ []) (hg : setsOf lb = []) :
    altsOf (ta ++ (sp ++ tb)) = altsOf ta := by
  rw [parse_simples (simplesText_append ha hla hsp hb hlb), parse_simples ha, setsOf_append, hg, List.append_nil]

/-- the order of the two comparator lists does not matter -/
theorem C02_and_text_comm {la lb : List Simple} {ta tb sp sp' : List Char} (ha : SimplesText la ta)
    (hb : SimplesText lb tb) (hsp : Blanks1 sp) (hsp' : Blanks1 sp') (hane : setsOf la ≠ []) (hbne : setsOf lb ≠ [])
    (v : Version) : satText (ta ++ (sp ++ tb)) v ↔ satText (tb ++ (sp' ++ ta)) v := by
  have hla : la ≠ [] := by intro h; subst h; exact hane rfl
  have hlb : lb ≠ [] := by intro h; subst h; exact hbne rfl
  rw [satText_eq_foldSat (simplesText_append ha hla hsp hb hlb),
    satText_eq_foldSat (simplesText_append hb hlb hsp' ha hla), setsOf_append, setsOf_append]
  have hwf : ∀ s ∈ setsOf la ++ setsOf lb, s.WF := by
    intro s hs; rw [List.mem_append] at hs
    rcases hs with h | h
    · exact setsOf_wf la s h
    · exact setsOf_wf lb s h
  exact C02_comm _ _ List.perm_append_comm hwf (by simp [hane]) v

/-! non-vacuity: `>=1` and `~2.x`, joined by two blanks -/
example : ∃ (la lb : List Simple) (ta tb : List Char), SimplesText la ta ∧ SimplesText lb tb ∧
    setsOf la ≠ [] ∧ setsOf lb ≠ [] ∧ ta ++ ([' ', ' '] ++ tb) = ">=1  ~2.x".toList := by
  refine ⟨[.prim .ge (.maj 1)], [.tilde (.maj 2)], ">=1".toList, "~2.x".toList, ?_, ?_, ?_, ?_, by decide⟩
  · exact .one (.prim (op := .ge) (gap := []) (by decide) (Or.inl (.one (.num numText_one))))
  · exact .one (.tilde (gap := []) (by decide)
      (Or.inl (.two (A := ['2']) (B := ['x']) (.num ⟨by decide, by decide, by decide, by decide⟩) (.wild (Or.inl rfl)))))
  · intro h; have : (setsOf [.prim .ge (.maj 1)]).isEmpty = true := by rw [h]; rfl
    revert this; decide
  · intro h; have : (setsOf [.tilde (.maj 2)]).isEmpty = true := by rw [h]; rfl
    revert this; decide

end Semver.C02
