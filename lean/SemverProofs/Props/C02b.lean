import SemverProofs.Props.C02
import SemverProofs.Lemmas.Locality
/-!
# C02, text level — the text `a || b`

For **all** texts `a` and `b` (no assumption on their shape: garbage, blanks, empty conjunctions,
hyphen forms, anything), the parser's alternatives of the text `a || b` are those of `a` followed by
those of `b` (`C02_or_alts`, from the locality lemmas in `Lemmas/Locality.lean`: no production of the
range grammar reads past a blank followed by `||`).  Hence

* if both sides parse, `a || b` parses to the concatenation and is satisfied by exactly the versions
  that satisfy `a` or `b` (`C02_or_text`, `C02_or_text_sat`);
* if exactly one side parses, `a || b` parses to that side (`C02_or_text_left_only`,
  `C02_or_text_right_only`); if neither does, `a || b` fails (`C02_or_text_neither`);
* `a || b` and `b || a` parse together and are satisfied by the same versions (`C02_or_text_comm`).
-/
namespace Semver.C02
open Semver Pred Bound

/-- the separator as the crate's users write it -/
def orText (a b : List Char) : List Char := a ++ ' ' :: '|' :: '|' :: ' ' :: b

example : orText "1.x".toList "^2".toList = "1.x || ^2".toList := by decide

/-- **C02_or_alts**: for all texts, the alternatives of `a || b` are those of `a` then those of `b` -/
theorem C02_or_alts (a b : List Char) : altsOf (orText a b) = altsOf a ++ altsOf b := alts_or a b

theorem parse_ok_iff {s : List Char} {r : Range} : Range.parse s = .ok r ↔ (altsOf s = r ∧ r ≠ []) := by
  rw [parse_eq_alts]
  cases h : altsOf s with
  | nil =>
    simp only [List.isEmpty_nil, if_true]
    constructor
    · intro h; cases h
    · rintro ⟨rfl, h2⟩; exact absurd rfl h2
  | cons x xs =>
    simp only [List.isEmpty_cons, Bool.false_eq_true, if_false]
    constructor
    · intro h; cases h; exact ⟨rfl, by simp⟩
    · rintro ⟨rfl, _⟩; rfl

theorem parse_fails_iff {s : List Char} : (∀ r, Range.parse s ≠ .ok r) ↔ altsOf s = [] := by
  constructor
  · intro h
    cases h2 : altsOf s with
    | nil => rfl
    | cons x xs => exact absurd (parse_ok_iff.mpr ⟨h2, by simp⟩) (h _)
  · intro h r hr
    have := parse_ok_iff.mp hr
    rw [h] at this
    exact this.2 this.1.symm

/-- **C02_or_text**: if `a` and `b` parse, `a || b` parses, to the alternatives of `a` then of `b` -/
theorem C02_or_text (a b : List Char) (ra rb : Range) (ha : Range.parse a = .ok ra) (hb : Range.parse b = .ok rb) :
    Range.parse (orText a b) = .ok (ra ++ rb) := by
  obtain ⟨ha1, ha2⟩ := parse_ok_iff.mp ha
  obtain ⟨hb1, _⟩ := parse_ok_iff.mp hb
  apply parse_ok_iff.mpr
  rw [C02_or_alts, ha1, hb1]
  exact ⟨rfl, by simp [ha2]⟩

/-- … and is satisfied by exactly the versions that satisfy `a` or `b` -/
theorem C02_or_text_sat (a b : List Char) (ra rb : Range) (ha : Range.parse a = .ok ra) (hb : Range.parse b = .ok rb) :
    ∃ r, Range.parse (orText a b) = .ok r ∧
      ∀ v, Range.satisfies r v = (Range.satisfies ra v || Range.satisfies rb v) :=
  ⟨ra ++ rb, C02_or_text a b ra rb ha hb, fun v => C02_or ra rb v⟩

/-- garbage-only (or empty-conjunction) right side: the result is the left side -/
theorem C02_or_text_left_only (a b : List Char) (ra : Range) (ha : Range.parse a = .ok ra)
    (hb : ∀ r, Range.parse b ≠ .ok r) : Range.parse (orText a b) = .ok ra := by
  obtain ⟨ha1, ha2⟩ := parse_ok_iff.mp ha
  apply parse_ok_iff.mpr
  rw [C02_or_alts, ha1, parse_fails_iff.mp hb]
  exact ⟨by simp, ha2⟩

theorem C02_or_text_right_only (a b : List Char) (rb : Range) (hb : Range.parse b = .ok rb)
    (ha : ∀ r, Range.parse a ≠ .ok r) : Range.parse (orText a b) = .ok rb := by
  obtain ⟨hb1, hb2⟩ := parse_ok_iff.mp hb
  apply parse_ok_iff.mpr
  rw [C02_or_alts, hb1, parse_fails_iff.mp ha]
  exact ⟨by simp, hb2⟩

theorem C02_or_text_neither (a b : List Char) (ha : ∀ r, Range.parse a ≠ .ok r) (hb : ∀ r, Range.parse b ≠ .ok r) :
    ∀ r, Range.parse (orText a b) ≠ .ok r := by
  apply parse_fails_iff.mpr
  rw [C02_or_alts, parse_fails_iff.mp ha, parse_fails_iff.mp hb]; rfl

/-- **order of the alternatives never matters**, at the level of texts -/
theorem C02_or_text_comm (a b : List Char) :
    (∀ r, Range.parse (orText a b) = .ok r → ∃ r', Range.parse (orText b a) = .ok r' ∧
      ∀ v, Range.satisfies r v = Range.satisfies r' v) := by
  intro r hr
  obtain ⟨h1, h2⟩ := parse_ok_iff.mp hr
  rw [C02_or_alts] at h1
  refine ⟨altsOf b ++ altsOf a, parse_ok_iff.mpr ⟨C02_or_alts b a, ?_⟩, ?_⟩
  · intro h0
    apply h2
    rw [← h1]
    simp only [List.append_eq_nil_iff] at h0 ⊢
    exact ⟨h0.2, h0.1⟩
  · intro v
    rw [← h1]
    exact C02_or_comm _ _ List.perm_append_comm v

/-- nested: the alternatives of `a || b || c` -/
theorem C02_or_text_assoc (a b c : List Char) :
    altsOf (orText a (orText b c)) = altsOf a ++ altsOf b ++ altsOf c := by
  rw [C02_or_alts, C02_or_alts, List.append_assoc]

/-! non-vacuity: a side that parses (`1`), one that does not (the empty text) -/
theorem one_parses : ∃ r, Range.parse ['1'] = .ok r := by
  have h1 : (simple ['1']).2 = [] := by decide
  have h2 : (simple ['1']).1.isSome = true := by decide
  have hd : dropBlanks ['1'] = ['1'] := by decide
  have hr : (rangeP ['1']).1 ≠ [] ∧ (rangeP ['1']).2 = [] := by
    unfold rangeP
    simp only
    rw [h1, rangeTail_none (by rfl : blanks1 [] = none)]
    cases hs : (simple ['1']).1 with
    | none => rw [hs] at h2; cases h2
    | some x => exact ⟨by simp [foldSets], rfl⟩
  have : altsOf ['1'] ≠ [] := by
    unfold altsOf boundSets
    rw [hd]
    simp only
    intro h0
    simp only [List.flatten_cons, List.append_eq_nil_iff] at h0
    exact hr.1 h0.1
  cases h : altsOf ['1'] with
  | nil => exact absurd h this
  | cons x xs => exact ⟨_, parse_ok_iff.mpr ⟨h, by simp⟩⟩

theorem empty_fails : ∀ r, Range.parse [] ≠ .ok r := by
  apply parse_fails_iff.mpr
  unfold altsOf boundSets
  have hd : dropBlanks [] = [] := by decide
  rw [hd]
  simp only
  rw [rangeP_nil]
  simp only
  rw [boundSetsTail_nil]; rfl

/-- so `1 || ` (right side empty) parses to what `1` parses to -/
example : ∃ r, Range.parse ['1'] = .ok r ∧ Range.parse (orText ['1'] []) = .ok r := by
  obtain ⟨r, hr⟩ := one_parses
  exact ⟨r, hr, C02_or_text_left_only _ _ r hr empty_fails⟩

end Semver.C02
