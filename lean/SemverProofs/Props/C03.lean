import SemverProofs.Lemmas.Gate
/-!
# C03 — a prerelease satisfies a range only via a same-tuple prerelease comparator

Bound-level part: for every range value and every version.  (That the bounds of a parsed
alternative are comparators of the text, and that the generated `-0` upper bounds never opt a
version in, connects this to "written with a prerelease tag"; see `C03_dash0_inert` below and the
parser theorems of C01/C02.)
-/
namespace Semver.C03
open Semver Pred Bound

/-- some bound version of `s` is a prerelease on the same major.minor.patch as `v` -/
def taggedOnTuple (s : BoundSet) (v : Version) : Prop :=
  ∃ p, (s.lower = lo p ∨ s.upper = up p) ∧
    ∃ b, (p = inc b ∨ p = exc b) ∧ b.isPre = true ∧ sameTuple v b = true

theorem gate_iff_tagged (s : BoundSet) (v : Version) : s.gate v = true ↔ taggedOnTuple s v := by
  obtain ⟨u, l⟩ := s
  unfold taggedOnTuple BoundSet.gate
  constructor
  · intro h
    simp only [Bool.or_eq_true] at h
    rcases h with h | h
    · cases l with
      | lo p =>
        cases p with
        | inc b => simp at h; exact ⟨inc b, Or.inl rfl, b, Or.inl rfl, h.1, h.2⟩
        | exc b => simp at h; exact ⟨exc b, Or.inl rfl, b, Or.inr rfl, h.1, h.2⟩
        | unb => simp at h
      | up p => simp at h
    · cases u with
      | up p =>
        cases p with
        | inc b => simp at h; exact ⟨inc b, Or.inr rfl, b, Or.inl rfl, h.1, h.2⟩
        | exc b => simp at h; exact ⟨exc b, Or.inr rfl, b, Or.inr rfl, h.1, h.2⟩
        | unb => simp at h
      | lo p => simp at h
  · rintro ⟨p, hp, b, hb, h1, h2⟩
    simp only at hp
    rcases hp with rfl | rfl <;> rcases hb with rfl | rfl <;> simp [h1, h2]

/-- a prerelease satisfies a range only inside an alternative whose bounds it meets and one of whose
bounds carries a prerelease tag on the same tuple -/
theorem C03_only_via_tag (r : Range) (v : Version) (hv : v.isPre = true)
    (h : Range.satisfies r v = true) :
    ∃ s ∈ r, s.within v = true ∧ taggedOnTuple s v := by
  rw [Range.satisfies_iff] at h
  obtain ⟨s, hs, hsv⟩ := h
  rw [satisfies_iff, hv] at hsv
  refine ⟨s, hs, hsv.1, (gate_iff_tagged s v).mp ?_⟩
  simpa using hsv.2

/-- when such a bound exists, satisfaction is decided by the bounds alone -/
theorem C03_decided_by_bounds (r : Range) (v : Version) (s : BoundSet) (hs : s ∈ r)
    (ht : taggedOnTuple s v) : s.satisfies v = s.within v := by
  have := (gate_iff_tagged s v).mpr ht
  simp [BoundSet.satisfies, this]

theorem C03_decided_by_bounds_range (r : Range) (v : Version) (s : BoundSet) (hs : s ∈ r)
    (hw : s.within v = true) (ht : taggedOnTuple s v) : Range.satisfies r v = true := by
  rw [Range.satisfies_iff]
  exact ⟨s, hs, by rw [C03_decided_by_bounds r v s hs ht]; exact hw⟩

/-- release versions are never affected by the gate -/
theorem C03_release_unaffected (r : Range) (v : Version) (hv : v.isPre = false) :
    Range.satisfies r v = Range.within r v := by
  simp only [Range.satisfies, Range.within, BoundSet.satisfies, hv]
  simp

/-! ### build metadata never changes the answer -/

theorem cmp_build_l (a b : Version) (x : List Ident) : cmpVersion { a with build := x } b = cmpVersion a b := by
  simp [cmpVersion_eq]

theorem cmp_build_r (a b : Version) (x : List Ident) : cmpVersion a { b with build := x } = cmpVersion a b := by
  simp [cmpVersion_eq]

theorem C03_build_irrelevant_version (s : BoundSet) (v : Version) (x : List Ident) :
    s.satisfies { v with build := x } = s.satisfies v := by
  obtain ⟨u, l⟩ := s
  cases u with
  | lo p => cases l <;> simp [BoundSet.satisfies, BoundSet.within]
  | up q =>
    cases l with
    | up p => simp [BoundSet.satisfies, BoundSet.within]
    | lo p =>
      cases p <;> cases q <;>
        simp [BoundSet.satisfies, BoundSet.within, BoundSet.gate, vlt, vle, cmp_build_l, cmp_build_r,
          Version.isPre, sameTuple]

theorem C03_build_irrelevant (r : Range) (v : Version) (x : List Ident) :
    Range.satisfies r { v with build := x } = Range.satisfies r v := by
  simp only [Range.satisfies, C03_build_irrelevant_version]

def Pred.setBuild (f : Version → List Ident) : Pred → Pred
  | inc b => inc { b with build := f b }
  | exc b => exc { b with build := f b }
  | unb => unb

def Bound.setBuild (f : Version → List Ident) : Bound → Bound
  | lo p => lo (Pred.setBuild f p)
  | up p => up (Pred.setBuild f p)

/-- build metadata on the bounds never changes the answer -/
theorem C03_build_irrelevant_bounds (s : BoundSet) (v : Version) (f g : Version → List Ident) :
    (BoundSet.mk (Bound.setBuild f s.upper) (Bound.setBuild g s.lower)).satisfies v = s.satisfies v := by
  obtain ⟨u, l⟩ := s
  cases u with
  | lo p => cases l <;> simp [BoundSet.satisfies, BoundSet.within, Bound.setBuild]
  | up q =>
    cases l with
    | up p => simp [BoundSet.satisfies, BoundSet.within, Bound.setBuild]
    | lo p =>
      cases p <;> cases q <;>
        simp [BoundSet.satisfies, BoundSet.within, BoundSet.gate, vlt, vle, cmp_build_l, cmp_build_r,
          Version.isPre, sameTuple, Bound.setBuild, Pred.setBuild]

/-! ### the generated `-0` upper bounds are inert -/

/-- nothing on tuple `a.b.c` lies below `a.b.c-0`: an exclusive upper bound `<a.b.c-0` (as produced
by caret, tilde, x-ranges and hyphen ranges) never opts a prerelease in -/
theorem C03_dash0_inert (a b c : Nat) (v : Version) (hv : v.isPre = true)
    (ht : sameTuple v (Version.mk4 a b c 0) = true) : ¬ v < Version.mk4 a b c 0 := by
  rw [sameTuple_iff] at ht
  simp only [Version.mk4] at ht
  rw [lt_def, cmpVersion_eq]
  simp only [Version.mk4, ht.1, ht.2.1, ht.2.2, Nat.compare_eq_eq.mpr, Ordering.eq_then]
  simp only [Version.isPre, Bool.not_eq_true', List.isEmpty_eq_false_iff] at hv
  cases hp : v.pre with
  | nil => exact absurd hp hv
  | cons x xs =>
    simp only [cmpPre, List.compareLex]
    cases x with
    | num n =>
      simp only [cmpIdent]
      rcases Nat.lt_trichotomy n 0 with h | h | h
      · omega
      · subst h
        simp only [Nat.compare_eq_eq.mpr, Ordering.eq_then]
        cases xs <;> simp [List.compareLex]
      · simp [Nat.compare_eq_gt.mpr h]
    | alpha s => simp [cmpIdent]

theorem C03_dash0_bound_inert (a b c : Nat) (lower : Pred) (v : Version) (hv : v.isPre = true)
    (hw : (BoundSet.mk (up (exc (Version.mk4 a b c 0))) (lo lower)).within v = true) :
    gBound (exc (Version.mk4 a b c 0)) v = false := by
  rw [within_mk] at hw
  cases hg : gBound (exc (Version.mk4 a b c 0)) v with
  | false => rfl
  | true =>
    simp only [gBound, Bool.and_eq_true] at hg
    exact absurd hw.2 (C03_dash0_inert a b c v hv hg.2)

/-! ### non-vacuity -/

example : (BoundSet.mk (up (exc (Version.mk3 2 0 0))) (lo (inc ⟨1, 2, 3, [.alpha "rc".toList], []⟩))).satisfies
    ⟨1, 2, 3, [.alpha "rc".toList, .num 1], []⟩ = true := by decide
example : (BoundSet.mk (up (exc (Version.mk3 2 0 0))) (lo (inc ⟨1, 2, 3, [.alpha "rc".toList], []⟩))).satisfies
    ⟨1, 2, 4, [.alpha "rc".toList, .num 1], []⟩ = false := by decide

end Semver.C03
