import SemverProofs.Props.C05
import SemverModel.Serde
/-!
# C12 — printing a version and parsing it back returns the same version

`canon v` is what every version returned by `Version::parse` satisfies (`C12_parser_outputs_canon`)
and what "built from canonical identifiers" means: components within MAX_SAFE_INTEGER, numeric
identifiers below 2^64, alphanumeric identifiers non-empty over `[0-9A-Za-z-]` and not themselves a
numeric literal that fits 64 bits.

The round trip carries the hypothesis that the printed form fits MAX_LENGTH.  It is forced: a
256-byte input that spells its prerelease without the hyphen prints with 257 bytes and is then
rejected by the length guard (`C12_full_statement_fails`, known finding K1; node-semver has the same
edge).
-/
namespace Semver.C12
open Semver Spec

def IdCanon : Ident → Prop
  | .num n => n < U64
  | .alpha t => t ≠ [] ∧ t.all isIdChar = true ∧ ¬ (t.all isDigit = true ∧ valOf t < U64)

def canon (v : Version) : Prop :=
  v.major ≤ MAX_SAFE_INTEGER ∧ v.minor ≤ MAX_SAFE_INTEGER ∧ v.patch ≤ MAX_SAFE_INTEGER ∧
  (∀ i ∈ v.pre, IdCanon i) ∧ (∀ i ∈ v.build, IdCanon i)

theorem numText_render (n : Nat) (h : n ≤ MAX_SAFE_INTEGER) : NumText (renderNat n) n :=
  numText_of (all_digits_render n) (render_ne_nil n) (valOf_render n) h

theorem all_idChar_of_all_digit {t : List Char} (h : t.all isDigit = true) : t.all isIdChar = true := by
  rw [List.all_eq_true] at h ⊢
  intro c hc; exact isDigit_isIdChar (h c hc)

theorem idText_render {i : Ident} (h : IdCanon i) : IdText i.render i := by
  cases i with
  | num n =>
    have hc : classify (renderNat n) = .num n := by
      simp only [classify, all_digits_render, valOf_render]
      have : n < U64 := h
      simp [this]
    have := idText_classify (renderNat n) (render_ne_nil n) (all_idChar_of_all_digit (all_digits_render n))
    rw [hc] at this
    exact this
  | alpha t =>
    obtain ⟨h1, h2, h3⟩ := h
    have hc : classify t = .alpha t := by
      simp only [classify]
      by_cases hd : t.all isDigit = true
      · have : ¬ valOf t < U64 := fun hv => h3 ⟨hd, hv⟩
        simp [hd, this]
      · simp [hd]
    have := idText_classify t h1 h2
    rw [hc] at this
    exact this

theorem tailText_render (i : Ident) (is : List Ident) (h : ∀ j ∈ i :: is, IdCanon j) :
    ∃ T, renderIds (i :: is) = i.render ++ T ∧ TailText T is := by
  induction is generalizing i with
  | nil => exact ⟨[], by simp [renderIds], .nil⟩
  | cons j js ih =>
    obtain ⟨T, hT, htail⟩ := ih j (fun k hk => h k (by simp at hk ⊢; right; exact hk))
    refine ⟨'.' :: (j.render ++ T), ?_, .cons (idText_render (h j (by simp))) htail⟩
    simp only [renderIds]
    rw [hT]

theorem idsText_render (ids : List Ident) (hne : ids ≠ []) (h : ∀ j ∈ ids, IdCanon j) :
    IdsText (renderIds ids) ids := by
  cases ids with
  | nil => exact absurd rfl hne
  | cons i is =>
    obtain ⟨T, hT, htail⟩ := tailText_render i is h
    exact ⟨i.render, i, T, is, hT, rfl, idText_render (h i (by simp)), htail⟩

/-- the printed form of a canonical version is a string of the version language denoting it -/
theorem render_in_lang (v : Version) (hc : canon v) (hlen : utf8Len v.render ≤ MAX_LENGTH) :
    VersionLang v.render v := by
  obtain ⟨h1, h2, h3, h4, h5⟩ := hc
  refine ⟨by rw [utf8Length_eq]; exact hlen, [], [], renderNat v.major, renderNat v.minor, renderNat v.patch,
    (if v.pre.isEmpty then [] else '-' :: renderIds v.pre),
    (if v.build.isEmpty then [] else '+' :: renderIds v.build), [], ?_, Or.inl rfl, rfl, rfl,
    numText_render _ h1, numText_render _ h2, numText_render _ h3, ?_, ?_⟩
  · simp [Version.render, renderCore]
  · cases hp : v.pre with
    | nil => exact Or.inl ⟨by simp, rfl⟩
    | cons i is =>
      refine Or.inr (Or.inl ⟨renderIds (i :: is), by simp, ?_⟩)
      exact idsText_render (i :: is) (by simp) (by rw [← hp]; exact h4)
  · cases hb : v.build with
    | nil => exact Or.inl ⟨by simp, rfl⟩
    | cons i is =>
      refine Or.inr ⟨renderIds (i :: is), by simp, ?_⟩
      exact idsText_render (i :: is) (by simp) (by rw [← hb]; exact h5)

/-- **C12_roundtrip**: all five fields, including build metadata -/
theorem C12_roundtrip (v : Version) (hc : canon v) (hlen : utf8Len v.render ≤ MAX_LENGTH) :
    Version.parse v.render = .ok v :=
  C05.C05_complete _ _ (render_in_lang v hc hlen)

/-- the printed form is a fixed point -/
theorem C12_fixed_point (v : Version) (hc : canon v) (hlen : utf8Len v.render ≤ MAX_LENGTH) :
    ∃ w, Version.parse v.render = .ok w ∧ w.render = v.render :=
  ⟨v, C12_roundtrip v hc hlen, rfl⟩

/-! ### every parsed version is canonical -/

theorem idCanon_of_idText {t : List Char} {i : Ident} (h : IdText t i) : IdCanon i := by
  have hi := idText_unique h
  have hne := h.1
  have hall := idText_all h
  rw [hi]
  simp only [classify]
  by_cases hd : (t.all isDigit && decide (valOf t < U64)) = true
  · rw [if_pos hd]
    simp only [Bool.and_eq_true, decide_eq_true_eq] at hd
    exact hd.2
  · rw [if_neg hd]
    refine ⟨hne, hall, ?_⟩
    intro ⟨a, b⟩
    apply hd
    simp [a, b]

theorem idCanon_of_tailText {T : List Char} {is : List Ident} (h : TailText T is) : ∀ j ∈ is, IdCanon j := by
  induction h with
  | nil => simp
  | cons hid _ ih =>
    intro j hj
    simp at hj
    rcases hj with rfl | hj
    · exact idCanon_of_idText hid
    · exact ih j hj

theorem idCanon_of_idsText {T : List Char} {ids : List Ident} (h : IdsText T ids) : ∀ j ∈ ids, IdCanon j := by
  obtain ⟨t, i, T', is, rfl, rfl, hid, htail⟩ := h
  intro j hj
  simp at hj
  rcases hj with rfl | hj
  · exact idCanon_of_idText hid
  · exact idCanon_of_tailText htail j hj

theorem C12_parser_outputs_canon (s : List Char) (v : Version) (h : Version.parse s = .ok v) : canon v := by
  obtain ⟨_, pfx, b1, A, B, C, P, Q, b2, _, _, _, _, h4, h5, h6, h7, h8⟩ := C05.C05_sound s v h
  refine ⟨h4.2.2.2, h5.2.2.2, h6.2.2.2, ?_, ?_⟩
  · rcases h7 with ⟨_, hp⟩ | ⟨T, _, hT⟩ | ⟨hT, _⟩
    · rw [hp]; simp
    · exact idCanon_of_idsText hT
    · exact idCanon_of_idsText hT
  · rcases h8 with ⟨_, hp⟩ | ⟨T, _, hT⟩
    · rw [hp]; simp
    · exact idCanon_of_idsText hT

/-- every version returned by `Version::parse` whose printed form fits MAX_LENGTH round-trips -/
theorem C12_roundtrip_parsed (s : List Char) (v : Version) (h : Version.parse s = .ok v)
    (hlen : utf8Len v.render ≤ MAX_LENGTH) : Version.parse v.render = .ok v :=
  C12_roundtrip v (C12_parser_outputs_canon s v h) hlen

/-! ### serde: the JSON is the quoted printed form and decodes to the same version -/

def jsonSafe (c : Char) : Bool := isIdChar c || c == '.' || c == '+'

theorem jsonSafe_ok {c : Char} (h : jsonSafe c = true) : (c != '"' && c != '\\') = true := by
  simp only [jsonSafe, isIdChar, isDigit, isAlpha, Bool.or_eq_true, Bool.and_eq_true, decide_eq_true_eq,
    beq_iff_eq] at h
  simp only [Bool.and_eq_true, bne_iff_ne, ne_eq]
  constructor <;> intro hc <;> subst hc <;> revert h <;> decide

theorem jsonUnquote_quote (t : List Char) (h : t.all jsonSafe = true) : jsonUnquote (jsonQuote t) = some t := by
  unfold jsonUnquote jsonQuote
  simp only [List.reverse_append, List.reverse_cons, List.reverse_nil, List.nil_append, List.cons_append,
    List.reverse_reverse]
  have : (t.reverse.all fun c => c != '"' && c != '\\') = true := by
    rw [List.all_eq_true] at h ⊢
    intro c hc
    exact jsonSafe_ok (h c (List.mem_reverse.mp hc))
  simp [this]

theorem ident_render_safe {i : Ident} (h : IdCanon i) : i.render.all jsonSafe = true := by
  have := idText_all (idText_render h)
  rw [List.all_eq_true] at this ⊢
  intro c hc
  simp [jsonSafe, this c hc]

theorem renderIds_safe (ids : List Ident) (h : ∀ j ∈ ids, IdCanon j) : (renderIds ids).all jsonSafe = true := by
  induction ids with
  | nil => rfl
  | cons i is ih =>
    cases is with
    | nil => simpa [renderIds] using ident_render_safe (h i (by simp))
    | cons j js =>
      simp only [renderIds, List.all_append, List.all_cons, Bool.and_eq_true]
      refine ⟨ident_render_safe (h i (by simp)), by decide, ?_⟩
      exact ih (fun k hk => h k (by simp at hk ⊢; right; exact hk))

theorem renderNat_safe (n : Nat) : (renderNat n).all jsonSafe = true := by
  have := all_digits_render n
  rw [List.all_eq_true] at this ⊢
  intro c hc
  simp [jsonSafe, isDigit_isIdChar (this c hc)]

theorem render_safe (v : Version) (hc : canon v) : v.render.all jsonSafe = true := by
  obtain ⟨_, _, _, h4, h5⟩ := hc
  have hp : (if v.pre.isEmpty then [] else '-' :: renderIds v.pre).all jsonSafe = true := by
    split
    · rfl
    · simp only [List.all_cons, Bool.and_eq_true]; exact ⟨by decide, renderIds_safe _ h4⟩
  have hb : (if v.build.isEmpty then [] else '+' :: renderIds v.build).all jsonSafe = true := by
    split
    · rfl
    · simp only [List.all_cons, Bool.and_eq_true]; exact ⟨by decide, renderIds_safe _ h5⟩
  have hd : jsonSafe '.' = true := by decide
  simp only [Version.render, renderCore, List.all_append, List.all_cons, Bool.and_eq_true, renderNat_safe,
    hp, hb, hd, and_self]

/-- **C12_serde**: the JSON is exactly the printed string in quotes, and decoding returns the same
value (the `serde_json` string codec itself is trusted: no printed character needs escaping) -/
theorem C12_serde (v : Version) (hc : canon v) (hlen : utf8Len v.render ≤ MAX_LENGTH) :
    v.toJson = '"' :: v.render ++ ['"'] ∧ Version.fromJson v.toJson = some v := by
  refine ⟨rfl, ?_⟩
  unfold Version.fromJson Version.toJson
  rw [jsonUnquote_quote _ (render_safe v hc)]
  simp only
  rw [C12_roundtrip v hc hlen]

/-! ### the full statement (without the length hypothesis) is false: kernel-checked witness (K1) -/

theorem utf8Len_append (a b : List Char) : utf8Len (a ++ b) = utf8Len a + utf8Len b := by
  simp [utf8Len, List.map_append, List.sum_append]

theorem utf8Len_replicate_a (n : Nat) : utf8Len (List.replicate n 'a') = n := by
  induction n with
  | zero => rfl
  | succ k ih =>
    have h1 : ('a' : Char).utf8Size = 1 := by decide
    rw [List.replicate_succ]
    simp only [utf8Len, List.map_cons, List.sum_cons] at ih ⊢
    rw [ih, h1]; omega

theorem replicate_all_a (n : Nat) (p : Char → Bool) (h : p 'a' = true) : (List.replicate n 'a').all p = true := by
  simp [List.all_replicate, h]

def aTag (n : Nat) : List Char := List.replicate (n + 1) 'a'

theorem aTag_cons (n : Nat) : aTag n = 'a' :: List.replicate n 'a' := List.replicate_succ

theorem aTag_not_digits (n : Nat) : (aTag n).all isDigit = false := by
  rw [aTag_cons]; rfl

theorem utf8Len_aTag (n : Nat) : utf8Len (aTag n) = n + 1 := utf8Len_replicate_a (n + 1)

/-- `1.2.3aaa…a` (prerelease spelled without its hyphen) parses whenever it fits MAX_LENGTH -/
theorem hyphenless_parses (n : Nat) (hn : n + 6 ≤ 256) :
    Version.parse ("1.2.3".toList ++ aTag n) = .ok ⟨1, 2, 3, [.alpha (aTag n)], []⟩ := by
  apply C05.C05_complete
  have hnum : ∀ (c : Char) (k : Nat), isDigit c = true → digitVal c = k → k ≤ MAX_SAFE_INTEGER → NumText [c] k := by
    intro c k h1 h2 h3
    exact numText_of (by simp [h1]) (by simp) (by simp [valOf, h2]) h3
  refine ⟨?_, [], [], ['1'], ['2'], ['3'], aTag n, [], [], by simp,
    Or.inl rfl, rfl, rfl, hnum '1' 1 (by decide) (by decide) (by decide),
    hnum '2' 2 (by decide) (by decide) (by decide), hnum '3' 3 (by decide) (by decide) (by decide),
    ?_, Or.inl ⟨rfl, rfl⟩⟩
  · rw [utf8Length_eq, utf8Len_append, utf8Len_aTag]
    have : utf8Len "1.2.3".toList = 5 := by decide
    omega
  · refine Or.inr (Or.inr ⟨⟨aTag n, _, [], [], by simp, rfl, ?_, .nil⟩, 'a', List.replicate n 'a', aTag_cons n, by decide⟩)
    refine ⟨by rw [aTag_cons]; simp, ?_, ?_⟩
    · rw [all_idChar_eq]; exact replicate_all_a (n + 1) isIdChar (by decide)
    · rw [all_digit_eq, aTag_not_digits]; rfl

theorem hyphenless_render (n : Nat) :
    (Version.mk 1 2 3 [.alpha (aTag n)] []).render = "1.2.3-".toList ++ aTag n := by
  have r1 : renderNat 1 = ['1'] := by rw [renderNat]; simp; decide
  have r2 : renderNat 2 = ['2'] := by rw [renderNat]; simp; decide
  have r3 : renderNat 3 = ['3'] := by rw [renderNat]; simp; decide
  simp [Version.render, renderCore, renderIds, Ident.render, r1, r2, r3]

/-- **the full statement of C12 is false at exactly this point**: a version returned by
`Version::parse` (from a 256-byte input) whose printed form (257 bytes) is rejected by the length
guard -/
theorem C12_full_statement_fails :
    ∃ s v, Version.parse s = .ok v ∧ ∀ w, Version.parse v.render ≠ .ok w := by
  refine ⟨"1.2.3".toList ++ aTag 250, ⟨1, 2, 3, [.alpha (aTag 250)], []⟩, hyphenless_parses 250 (by omega), ?_⟩
  apply C05.C05_too_long
  rw [hyphenless_render, utf8Len_append, utf8Len_aTag]
  decide

end Semver.C12
