import SemverProofs.Lemmas.NpmTables
import SemverProofs.Lemmas.NpmParse
/-!
# C01 — range satisfaction follows npm range semantics

**Part T1 (proved here, for every syntax tree and every version of the domain):** the crate's
desugaring tables (`primitive`, `partial`, `tilde`, `caret`, `hyphen`), its AND-fold and its
prerelease gate, applied to a syntax tree, are satisfied by exactly the versions npm's documented
desugaring of that tree admits; an invalid comparator (a bound beyond MAX_SAFE_INTEGER) is dropped
by both; an alternative no version can satisfy contributes nothing.

The statement excludes the table entries on which the crate *knowingly* differs from npm
(`knownException`: `<M`, `^0` — both pinned by the crate's own tests — and `<=M`, `<=M.m` at
MAX_SAFE_INTEGER); for those the full statement is refuted below by kernel-checked witnesses
(known findings K2, K3).

**Part T2 (text ↔ tree, `Lemmas/NpmParse.lean`)**: on every text of the npm range grammar with the
loose spellings (`Spec.Npm.AstText`, in `SemverSpec/NpmText.lean`) the parser yields exactly the
tables applied to the tree the text denotes (`parse_text`).  T1 and T2 together give the property at
the level of texts: `C01_text`, `C01_text_fails_only_if_unsatisfiable`, `C01_text_parses_if_satisfiable`.
The grammar's garbage tokens are those whose first character can start no comparator; tokens that
start like a comparator and then go wrong (`1.2.3.4`, `>=1.y`) are covered by the correspondence
check on texts rendered by `Spec.Npm.genAst` (stream `npm`), not by the theorem.
-/
namespace Semver.C01
open Semver Pred Bound Spec Spec.Npm

def specSimple (s : Simple) : Option (List Comp) := s.comps.bind id

def Alt.noException : Alt → Prop
  | .hyphen _ _ => True
  | .simples l => ∀ s ∈ l, ¬ knownException s

theorem simple_table (s : Simple) (hk : ¬ knownException s) : TableOK (evalSimple s) (specSimple s) := by
  cases s with
  | prim op p => exact prim_table' op p hk
  | bare p => exact bare_table p
  | tilde p => exact tilde_table false p
  | caret p => exact caret_table p hk
  | garbage t => rfl

/-- the tilde table does not depend on the loose `>` -/
theorem tilde_flag (p : NP) : tildeSet true (fromNP p) = tildeSet false (fromNP p) := by
  cases p <;> rfl

/-! ### the AND-fold -/

/-- state of the fold on one version: an interval agreeing with the comparators so far, or nothing
left and the comparators so far already reject every version -/
def FoldInv (acc : Option BoundSet) (cs : List Comp) : Prop :=
  match acc with
  | some s => s.WF ∧ ∀ v, inDomain v → AgreeAt s cs v
  | none => ∀ v, inDomain v → cs.all (·.admits v) = false

theorem foldInv_step {acc : Option BoundSet} {cs : List Comp} {b : BoundSet} {cb : List Comp}
    (h : FoldInv acc cs) (hb : b.WF) (hab : ∀ v, inDomain v → AgreeAt b cb v) :
    FoldInv (acc.bind (·.intersect b)) (cs ++ cb) := by
  cases acc with
  | none =>
    intro v hd
    rw [List.all_append, h v hd]; rfl
  | some s =>
    obtain ⟨hs, hag⟩ := h
    simp only [Option.bind_some]
    cases hi : s.intersect b with
    | none =>
      intro v hd
      have hn := intersect_none hs hb hi v
      rw [List.all_append, ← (hag v hd).1, ← (hab v hd).1]
      cases h1 : s.within v <;> cases h2 : b.within v <;> simp
      exact absurd ⟨h1, h2⟩ hn
    | some r =>
      exact ⟨(intersect_some hs hb hi).1, fun v hd => agreeAt_intersect hs hb hi (hag v hd) (hab v hd)⟩

theorem foldInv_foldl (items : List (BoundSet × List Comp))
    (hitems : ∀ x ∈ items, x.1.WF ∧ ∀ v, inDomain v → AgreeAt x.1 x.2 v)
    (acc : Option BoundSet) (cs : List Comp) (h : FoldInv acc cs) :
    FoldInv ((items.map Prod.fst).foldl (fun a b => a.bind (·.intersect b)) acc)
      (cs ++ (items.map Prod.snd).flatten) := by
  induction items generalizing acc cs with
  | nil => simpa using h
  | cons x rest ih =>
    simp only [List.map_cons, List.foldl_cons, List.flatten_cons]
    have hx := hitems x (by simp)
    have := ih (fun y hy => hitems y (by simp [hy])) _ _ (foldInv_step h hx.1 hx.2)
    rwa [List.append_assoc] at this

/-- pairing the model's sets with npm's comparator lists, simple by simple -/
theorem paired (l : List Simple) (hl : ∀ s ∈ l, ¬ knownException s) :
    ∃ items : List (BoundSet × List Comp),
      (l.map evalSimple).filterMap id = items.map Prod.fst ∧
      (l.map specSimple).filterMap id = items.map Prod.snd ∧
      ∀ x ∈ items, x.1.WF ∧ ∀ v, inDomain v → AgreeAt x.1 x.2 v := by
  induction l with
  | nil => exact ⟨[], rfl, rfl, by simp⟩
  | cons s rest ih =>
    obtain ⟨items, h1, h2, h3⟩ := ih (fun t ht => hl t (by simp [ht]))
    have ht := simple_table s (hl s (by simp))
    unfold TableOK at ht
    cases hs : specSimple s with
    | none =>
      rw [hs] at ht
      simp only at ht
      refine ⟨items, ?_, ?_, h3⟩
      · simp [List.filterMap_cons, ht, h1]
      · simp [List.filterMap_cons, hs, h2]
    | some cs =>
      rw [hs] at ht
      obtain ⟨b, hb, hwf, hag⟩ := ht
      refine ⟨(b, cs) :: items, ?_, ?_, ?_⟩
      · simp [List.filterMap_cons, hb, h1]
      · simp [List.filterMap_cons, hs, h2]
      · intro x hx
        simp at hx
        rcases hx with rfl | hx
        · exact ⟨hwf, hag⟩
        · exact h3 x hx

theorem compsSat_false_of_all_false {cs : List Comp} {v : Version} (h : cs.all (·.admits v) = false) :
    compsSat cs v = false := by
  simp [compsSat, h]

/-- **C01_desugar (one alternative)** -/
theorem C01_desugar_alt (a : Alt) (ha : Alt.noException a) (v : Version) (hd : inDomain v) :
    (evalAlt a).any (·.satisfies v) = a.sat v := by
  cases a with
  | hyphen l0 h0 =>
    have := hyphen_table l0 h0 v
    simp only [evalAlt, Alt.sat, Alt.comps]
    cases hm : hyphenSet ((some (fromNP l0)).filter (·.major.isSome)) (hyphenUpper (fromNP h0)) with
    | none =>
      rw [hm] at this
      simp only [optSat] at this
      simp only [Option.toList, List.any_nil]
      cases hs : Npm.hyphen l0 h0 with
      | none => rfl
      | some cs => rw [hs] at this; simpa [optCompsSat] using this
    | some s =>
      rw [hm] at this
      simp only [optSat] at this
      simp only [Option.toList, List.any_cons, List.any_nil, Bool.or_false]
      cases hs : Npm.hyphen l0 h0 with
      | none => rw [hs] at this; simpa [optCompsSat] using this
      | some cs => rw [hs] at this; simpa [optCompsSat] using this
  | simples l =>
    obtain ⟨items, h1, h2, h3⟩ := paired l ha
    have hspec : (l.filterMap (fun s => s.comps.bind id)) = items.map Prod.snd := by
      rw [← h2, List.filterMap_map]; rfl
    simp only [evalAlt, Alt.sat, Alt.comps, hspec]
    unfold foldSets
    rw [h1]
    cases items with
    | nil => simp
    | cons x rest =>
      simp only [List.map_cons, List.isEmpty_cons, Bool.false_eq_true, if_false, List.flatten_cons]
      have hx := h3 x (by simp)
      have inv := foldInv_foldl rest (fun y hy => h3 y (by simp [hy])) (some x.1) x.2 ⟨hx.1, hx.2⟩
      cases hf : (rest.map Prod.fst).foldl (fun a b => a.bind (·.intersect b)) (some x.1) with
      | none =>
        rw [hf] at inv
        simp only [List.any_nil]
        exact (compsSat_false_of_all_false (inv v hd)).symm
      | some s =>
        rw [hf] at inv
        simp only [List.any_cons, List.any_nil, Bool.or_false]
        exact sat_of_agreeAt (inv.2 v hd)

/-- **C01_desugar**: for every syntax tree without a known exception and every version of the
domain, the crate's tables + AND-fold + gate are satisfied exactly when npm's desugaring admits -/
theorem C01_desugar (r : Ast) (hr : ∀ a ∈ r, Alt.noException a) (v : Version) (hd : inDomain v) :
    (evalAst r).any (·.satisfies v) = Ast.sat r v := by
  induction r with
  | nil => rfl
  | cons a rest ih =>
    simp only [evalAst, List.flatMap_cons, List.any_append, Ast.sat, List.any_cons]
    rw [C01_desugar_alt a (hr a (by simp)) v hd]
    have := ih (fun b hb => hr b (by simp [hb]))
    simp only [evalAst, Ast.sat] at this
    rw [this]

/-- parsing may fail only when the text contains no valid comparator or no version at all could
satisfy it: if the tables leave no alternative, npm admits no version of the domain -/
theorem C01_failure_only_if_unsatisfiable (r : Ast) (hr : ∀ a ∈ r, Alt.noException a)
    (h : evalAst r = []) (v : Version) (hd : inDomain v) : Ast.sat r v = false := by
  rw [← C01_desugar r hr v hd, h]; rfl

/-- every alternative the tables produce is a well-formed interval -/
theorem C01_eval_wf (r : Ast) : ∀ s ∈ evalAst r, s.WF := by
  intro s hs
  simp only [evalAst, List.mem_flatMap] at hs
  obtain ⟨a, _, hsa⟩ := hs
  cases a with
  | hyphen l0 h0 =>
    simp only [evalAlt, Option.mem_toList] at hsa
    exact hyphenSet_wf hsa
  | simples l =>
    simp only [evalAlt] at hsa
    apply foldSets_wf _ _ s hsa
    intro o ho
    simp only [List.mem_map] at ho
    obtain ⟨t, _, rfl⟩ := ho
    intro x hx
    cases t with
    | prim op p => exact primitiveSet_wf hx
    | bare p => exact partialSet_wf hx
    | tilde p => exact tildeSet_wf hx
    | caret p => exact caretSet_wf hx
    | garbage t => cases hx

/-! ### the property at the level of texts (T1 + T2) -/

/-- **C01_text**: for every text `s` of the npm range grammar (loose spellings included) denoting the
tree `r`, if `Range::parse s` succeeds the parsed range is satisfied by a version exactly when npm's
desugaring of `r` admits it -/
theorem C01_text (r : Ast) (s : List Char) (hs : AstText r s) (hr : ∀ a ∈ r, Alt.noException a)
    (R : Range) (hp : Range.parse s = .ok R) (v : Version) (hd : inDomain v) :
    Range.satisfies R v = Ast.sat r v := by
  rw [parse_text hs] at hp
  split at hp
  · cases hp
  · cases hp
    exact C01_desugar r hr v hd

/-- parsing a text of the grammar fails only if npm's desugaring admits no version at all -/
theorem C01_text_fails_only_if_unsatisfiable (r : Ast) (s : List Char) (hs : AstText r s)
    (hr : ∀ a ∈ r, Alt.noException a) (hp : ∀ R, Range.parse s ≠ .ok R) (v : Version) (hd : inDomain v) :
    Ast.sat r v = false := by
  rw [parse_text hs] at hp
  by_cases he : (evalAst r).isEmpty
  · exact C01_failure_only_if_unsatisfiable r hr (by simpa using he) v hd
  · rw [if_neg he] at hp
    exact absurd rfl (hp _)

/-- conversely: if npm admits some version, the text parses -/
theorem C01_text_parses_if_satisfiable (r : Ast) (s : List Char) (hs : AstText r s)
    (hr : ∀ a ∈ r, Alt.noException a) (v : Version) (hd : inDomain v) (hv : Ast.sat r v = true) :
    ∃ R, Range.parse s = .ok R := by
  rw [parse_text hs]
  by_cases he : (evalAst r).isEmpty
  · have := C01_failure_only_if_unsatisfiable r hr (by simpa using he) v hd
    rw [hv] at this; cases this
  · rw [if_neg he]; exact ⟨_, rfl⟩

/-- every parsed text of the grammar parses to well-formed intervals, at most one per alternative -/
theorem C01_text_wf (r : Ast) (s : List Char) (hs : AstText r s) (R : Range) (hp : Range.parse s = .ok R) :
    ∀ x ∈ R, x.WF := by
  rw [parse_text hs] at hp
  split at hp
  · cases hp
  · cases hp
    exact C01_eval_wf r

/-! ### the full statement (without the exclusions) is false: kernel-checked witnesses -/

/-- K2: `<1 >=1.0.0-0` admits `1.0.0-alpha` in the crate, npm (`<1.0.0-0 >=1.0.0-0`) admits nothing -/
theorem C01_full_statement_fails_K2 :
    ∃ (r : Ast) (v : Version), inDomain v ∧ (evalAst r).any (·.satisfies v) = true ∧ Ast.sat r v = false :=
  ⟨[.simples [.prim .lt (.maj 1), .prim .ge (.full 1 0 0 [.num 0] [])]],
    ⟨1, 0, 0, [.alpha "alpha".toList], []⟩, by unfold inDomain MAX_SAFE_INTEGER; decide, by decide, by decide⟩

/-- K2: `^0 >=0.0.0-0` admits `0.0.0-0` in the crate, npm (`>=0.0.0 <1.0.0-0 >=0.0.0-0`) does not -/
theorem C01_full_statement_fails_K2' :
    ∃ (r : Ast) (v : Version), inDomain v ∧ (evalAst r).any (·.satisfies v) = true ∧ Ast.sat r v = false :=
  ⟨[.simples [.caret (.maj 0), .prim .ge (.full 0 0 0 [.num 0] [])]],
    ⟨0, 0, 0, [.num 0], []⟩, by unfold inDomain MAX_SAFE_INTEGER; decide, by decide, by decide⟩

/-- K3: `<=900719925474099` is accepted by the crate; npm's `<900719925474100.0.0-0` is not a valid
comparator -/
theorem C01_full_statement_fails_K3 :
    ∃ (r : Ast) (v : Version), inDomain v ∧ (evalAst r).any (·.satisfies v) = true ∧ Ast.sat r v = false :=
  ⟨[.simples [.prim .le (.maj 900719925474099)]],
    ⟨1, 0, 0, [], []⟩, by unfold inDomain MAX_SAFE_INTEGER; decide, by decide, by decide⟩

/-! ### non-vacuity -/

/-- the hypotheses of `C01_text` are met by `^1.x || >= v02`, which parses, and `2.5.0` satisfies it -/
example : ∃ R, Range.parse "^1.x || >= v02".toList = .ok R ∧
    (∀ v, inDomain v → Range.satisfies R v =
      Ast.sat [.simples [.caret (.maj 1)], .simples [.prim .ge (.maj 2)]] v) ∧
    Range.satisfies R ⟨2, 5, 0, [], []⟩ = true := by
  have hs := astText_example
  have hr : ∀ a ∈ ([.simples [.caret (.maj 1)], .simples [.prim .ge (.maj 2)]] : Ast), Alt.noException a := by
    intro a ha
    simp only [List.mem_cons, List.not_mem_nil, or_false] at ha
    rcases ha with rfl | rfl <;> (intro s hs; simp only [List.mem_cons, List.not_mem_nil, or_false] at hs; subst hs)
    · simp [knownException]
    · simp [knownException]
  have hd : inDomain ⟨2, 5, 0, [], []⟩ := by unfold inDomain MAX_SAFE_INTEGER; decide
  obtain ⟨R, hR⟩ := C01_text_parses_if_satisfiable _ _ hs hr ⟨2, 5, 0, [], []⟩ hd (by decide)
  refine ⟨R, hR, fun v hv => C01_text _ _ hs hr R hR v hv, ?_⟩
  rw [C01_text _ _ hs hr R hR _ hd]
  decide

example : Ast.sat [.simples [.caret (.full 1 2 3 [] [])]] ⟨1, 9, 0, [], []⟩ = true := by decide
example : Ast.sat [.simples [.caret (.full 1 2 3 [] [])]] ⟨2, 0, 0, [.num 0], []⟩ = false := by decide

end Semver.C01
