import SemverProofs.Lemmas.Gate
import SemverProofs.Lemmas.ParseWF
/-!
# C02 — space-joined comparators intersect; `||` alternatives unite

Proved here, for the crate's AND-fold (`range()`), its alternative list (`bound_sets()`), and every
version:
* the fold of any list of comparator intervals is one interval whose bounds membership is the
  conjunction and whose prerelease gate is the disjunction of the gates (`C02_fold_sem`), or no
  interval at all when nothing lies within all of them — never two (`C02_never_union`);
* hence for comparator lists `a`, `b`: a release satisfies `a b` exactly when it satisfies both, a
  prerelease exactly when it lies within both and satisfies at least one (`C02_and`);
* dropped (garbage / invalid) tokens do not matter (`C02_garbage_ignored`), the order of comparators
  does not matter (`C02_comm`);
* the alternatives of `a || b` are those of `a` followed by those of `b`
  (`C02_parse_is_flatten`, by definition of the parser) and satisfaction of a concatenation of
  alternative lists is the disjunction, in any order (`C02_or`, `C02_or_comm`).

The text-level halves ("the comparators of the text `a b` are those of `a` then those of `b`", "the
text `a || b` splits at the `||`") are established per run by the correspondence check and the C02
oracle on generated pairs (op `c02`); see DESIGN.md for why they are not theorems yet.
-/
namespace Semver.C02
open Semver Pred Bound

/-- meaning of a list of comparator intervals taken together -/
def allWithin (items : List BoundSet) (v : Version) : Prop := ∀ s ∈ items, s.within v = true
def anyGate (items : List BoundSet) (v : Version) : Prop := ∃ s ∈ items, s.gate v = true

/-- invariant of the fold: the accumulator means the items consumed so far -/
def Inv (acc : Option BoundSet) (seen : List BoundSet) : Prop :=
  match acc with
  | some r => r.WF ∧ ∀ v, (r.within v = true ↔ allWithin seen v) ∧
      (v.isPre = true → r.within v = true → (r.gate v = true ↔ anyGate seen v))
  | none => ∀ v, ¬ allWithin seen v

theorem inv_step {acc : Option BoundSet} {seen : List BoundSet} {b : BoundSet} (h : Inv acc seen) (hb : b.WF) :
    Inv (acc.bind (·.intersect b)) (seen ++ [b]) := by
  cases acc with
  | none =>
    intro v hall
    exact h v (fun s hs => hall s (by simp [hs]))
  | some r =>
    obtain ⟨hr, hsem⟩ := h
    simp only [Option.bind_some]
    cases hi : r.intersect b with
    | none =>
      intro v hall
      have := intersect_none hr hb hi v
      apply this
      exact ⟨(hsem v).1.mpr (fun s hs => hall s (by simp [hs])), hall b (by simp)⟩
    | some x =>
      have hx := intersect_some hr hb hi
      refine ⟨hx.1, ?_⟩
      intro v
      constructor
      · rw [hx.2 v, (hsem v).1]
        simp only [allWithin, List.mem_append, List.mem_singleton]
        constructor
        · rintro ⟨h1, h2⟩ s (hs | rfl)
          · exact h1 s hs
          · exact h2
        · intro h; exact ⟨fun s hs => h s (Or.inl hs), h b (Or.inr rfl)⟩
      · intro hv hw
        have ⟨w1, w2⟩ := (hx.2 v).mp hw
        rw [intersect_gate hr hb hi hv w1 w2]
        simp only [Bool.or_eq_true, anyGate, List.mem_append, List.mem_singleton]
        rw [(hsem v).2 hv w1]
        constructor
        · rintro (⟨s, hs, hg⟩ | hg)
          · exact ⟨s, Or.inl hs, hg⟩
          · exact ⟨b, Or.inr rfl, hg⟩
        · rintro ⟨s, hs | rfl, hg⟩
          · exact Or.inl ⟨s, hs, hg⟩
          · exact Or.inr hg

theorem inv_foldl (rest : List BoundSet) (hrest : ∀ s ∈ rest, s.WF) (acc : Option BoundSet) (seen : List BoundSet)
    (h : Inv acc seen) : Inv (rest.foldl (fun a b => a.bind (·.intersect b)) acc) (seen ++ rest) := by
  induction rest generalizing acc seen with
  | nil => simpa using h
  | cons b rest ih =>
    simp only [List.foldl_cons]
    have := ih (fun s hs => hrest s (by simp [hs])) _ _ (inv_step h (hrest b (by simp)))
    simpa using this

theorem inv_first (first : BoundSet) (h : first.WF) : Inv (some first) [first] := by
  refine ⟨h, ?_⟩
  intro v
  simp [allWithin, anyGate]

/-- **C02_fold_sem**: what the AND-fold of the comparators of one alternative means -/
theorem C02_fold_sem (items : List BoundSet) (hwf : ∀ s ∈ items, s.WF) (hne : items ≠ []) :
    (∃ r, foldSets (items.map some) = [r] ∧ r.WF ∧ ∀ v, (r.within v = true ↔ allWithin items v) ∧
        (v.isPre = true → r.within v = true → (r.gate v = true ↔ anyGate items v))) ∨
    (foldSets (items.map some) = [] ∧ ∀ v, ¬ allWithin items v) := by
  cases items with
  | nil => exact absurd rfl hne
  | cons first rest =>
    have inv := inv_foldl rest (fun s hs => hwf s (by simp [hs])) (some first) [first]
      (inv_first first (hwf first (by simp)))
    simp only [List.singleton_append] at inv
    unfold foldSets
    have hmap : ((first :: rest).map some).filterMap id = first :: rest := by
      simp [List.filterMap_map]
    rw [hmap]
    simp only
    cases hf : rest.foldl (fun a b => a.bind (·.intersect b)) (some first) with
    | none => rw [hf] at inv; exact Or.inr ⟨rfl, inv⟩
    | some r => rw [hf] at inv; exact Or.inl ⟨r, rfl, inv.1, inv.2⟩

/-- **never a union**: the fold yields at most one interval -/
theorem C02_never_union (bs : List (Option BoundSet)) : (foldSets bs).length ≤ 1 := by
  unfold foldSets
  split
  · simp
  · split <;> simp

/-- dropped tokens (garbage, invalid comparators) do not matter -/
theorem C02_garbage_ignored (bs : List (Option BoundSet)) :
    foldSets (none :: bs) = foldSets bs ∧ foldSets (bs ++ [none]) = foldSets bs := by
  unfold foldSets
  simp [List.filterMap_append]

/-- satisfaction of the folded interval -/
theorem fold_sat {items : List BoundSet} {r : BoundSet} {v : Version}
    (h : (r.within v = true ↔ allWithin items v) ∧
      (v.isPre = true → r.within v = true → (r.gate v = true ↔ anyGate items v))) :
    r.satisfies v = true ↔ (allWithin items v ∧ (v.isPre = false ∨ anyGate items v)) := by
  rw [satisfies_iff, h.1]
  constructor
  · rintro ⟨hw, hg⟩
    refine ⟨hw, ?_⟩
    rcases hg with hg | hg
    · exact Or.inl hg
    · cases hv : v.isPre with
      | false => exact Or.inl rfl
      | true => exact Or.inr ((h.2 hv (h.1.mpr hw)).mp hg)
  · rintro ⟨hw, hg⟩
    refine ⟨hw, ?_⟩
    rcases hg with hg | hg
    · exact Or.inl hg
    · cases hv : v.isPre with
      | false => exact Or.inl rfl
      | true => exact Or.inr ((h.2 hv (h.1.mpr hw)).mpr hg)

/-- satisfaction of a fold result (one interval or none) -/
def foldSat (l : List BoundSet) (v : Version) : Prop := ∃ r ∈ l, r.satisfies v = true

theorem foldSat_iff (items : List BoundSet) (hwf : ∀ s ∈ items, s.WF) (hne : items ≠ []) (v : Version) :
    foldSat (foldSets (items.map some)) v ↔ (allWithin items v ∧ (v.isPre = false ∨ anyGate items v)) := by
  rcases C02_fold_sem items hwf hne with ⟨r, hr, _, hsem⟩ | ⟨hr, hsem⟩
  · rw [hr]
    simp only [foldSat, List.mem_singleton, exists_eq_left]
    exact fold_sat (hsem v)
  · rw [hr]
    simp only [foldSat, List.not_mem_nil, false_and, exists_false, false_iff]
    intro ⟨h, _⟩
    exact hsem v h

/-- **C02_and**: for comparator lists `xs` and `ys` (each with a fold result `A`, `B`): a release
version satisfies the joined list exactly when it satisfies both; a prerelease exactly when it lies
within both and satisfies at least one; if nothing lies within both there is no result at all -/
theorem C02_and (xs ys : List BoundSet) (hx : ∀ s ∈ xs, s.WF) (hy : ∀ s ∈ ys, s.WF)
    (hxne : xs ≠ []) (hyne : ys ≠ []) (v : Version) :
    (v.isPre = false →
      (foldSat (foldSets ((xs ++ ys).map some)) v ↔
        (foldSat (foldSets (xs.map some)) v ∧ foldSat (foldSets (ys.map some)) v))) ∧
    (v.isPre = true →
      (foldSat (foldSets ((xs ++ ys).map some)) v ↔
        (allWithin xs v ∧ allWithin ys v ∧
          (foldSat (foldSets (xs.map some)) v ∨ foldSat (foldSets (ys.map some)) v)))) := by
  have hxy : ∀ s ∈ xs ++ ys, s.WF := by
    intro s hs; rw [List.mem_append] at hs; rcases hs with h | h; exact hx s h; exact hy s h
  have hne : xs ++ ys ≠ [] := by simp [hxne]
  rw [foldSat_iff (xs ++ ys) hxy hne v, foldSat_iff xs hx hxne v, foldSat_iff ys hy hyne v]
  have hall : allWithin (xs ++ ys) v ↔ (allWithin xs v ∧ allWithin ys v) := by
    simp only [allWithin, List.mem_append]
    constructor
    · intro h; exact ⟨fun s hs => h s (Or.inl hs), fun s hs => h s (Or.inr hs)⟩
    · rintro ⟨h1, h2⟩ s (hs | hs); exact h1 s hs; exact h2 s hs
  have hany : anyGate (xs ++ ys) v ↔ (anyGate xs v ∨ anyGate ys v) := by
    simp only [anyGate, List.mem_append]
    constructor
    · rintro ⟨s, hs | hs, hg⟩; exact Or.inl ⟨s, hs, hg⟩; exact Or.inr ⟨s, hs, hg⟩
    · rintro (⟨s, hs, hg⟩ | ⟨s, hs, hg⟩); exact ⟨s, Or.inl hs, hg⟩; exact ⟨s, Or.inr hs, hg⟩
  rw [hall, hany]
  constructor
  · intro hv; simp only [hv, true_or, and_true]
  · intro hv; simp only [hv, Bool.true_eq_false, false_or]; grind

/-- **C02_comm**: the order of the comparators never matters -/
theorem C02_comm (xs ys : List BoundSet) (hp : xs.Perm ys) (hx : ∀ s ∈ xs, s.WF) (hne : xs ≠ []) (v : Version) :
    foldSat (foldSets (xs.map some)) v ↔ foldSat (foldSets (ys.map some)) v := by
  have hy : ∀ s ∈ ys, s.WF := fun s hs => hx s (hp.mem_iff.mpr hs)
  have hyne : ys ≠ [] := by
    intro h0; rw [h0] at hp; exact hne (List.Perm.eq_nil hp)
  rw [foldSat_iff xs hx hne v, foldSat_iff ys hy hyne v]
  simp only [allWithin, anyGate]
  constructor
  · rintro ⟨h1, h2⟩
    refine ⟨fun s hs => h1 s (hp.mem_iff.mpr hs), ?_⟩
    rcases h2 with h2 | ⟨s, hs, hg⟩
    · exact Or.inl h2
    · exact Or.inr ⟨s, hp.mem_iff.mp hs, hg⟩
  · rintro ⟨h1, h2⟩
    refine ⟨fun s hs => h1 s (hp.mem_iff.mp hs), ?_⟩
    rcases h2 with h2 | ⟨s, hs, hg⟩
    · exact Or.inl h2
    · exact Or.inr ⟨s, hp.mem_iff.mpr hs, hg⟩

/-! ### alternatives -/

/-- the parsed range is the concatenation of the per-alternative fold results, in text order -/
theorem C02_parse_is_flatten (s : List Char) :
    (boundSets s).1 = ((rangeP s).1 :: (boundSetsTail (rangeP s).2).1).flatten := rfl

/-- **C02_or**: a concatenation of alternative lists is satisfied exactly by the versions that
satisfy one of them -/
theorem C02_or (ra rb : Range) (v : Version) :
    Range.satisfies (ra ++ rb) v = (Range.satisfies ra v || Range.satisfies rb v) := by
  simp [Range.satisfies, List.any_append]

/-- the order of alternatives never matters -/
theorem C02_or_comm (ra rb : Range) (hp : ra.Perm rb) (v : Version) :
    Range.satisfies ra v = Range.satisfies rb v := by
  rw [Bool.eq_iff_iff, Range.satisfies_iff, Range.satisfies_iff]
  constructor
  · rintro ⟨s, hs, h⟩; exact ⟨s, hp.mem_iff.mp hs, h⟩
  · rintro ⟨s, hs, h⟩; exact ⟨s, hp.mem_iff.mpr hs, h⟩

/-- every alternative of a parsed range is the (single) fold result of one `range` of the text -/
theorem C02_alternatives_are_folds (s : List Char) : ((rangeP s).1).length ≤ 1 := by
  unfold rangeP
  exact C02_never_union _

/-! ### non-vacuity: `>=1.2.3 <1.0.0` has no alternative (it is not the union) -/

example : foldSets [BoundSet.atLeast (.inc (Version.mk3 1 2 3)), BoundSet.atMost (.exc (Version.mk3 1 0 0))] = [] := by
  decide

end Semver.C02
