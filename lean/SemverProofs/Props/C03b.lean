import SemverProofs.Props.C03
import SemverProofs.Props.C02b
import SemverProofs.Lemmas.Closed
/-!
# C03 at the level of texts: "some comparator was *written* with a prerelease tag"

`C03_only_via_tag` speaks about the bounds of the parsed alternative.  Here the bounds are traced
back to the text: for every text of the npm range grammar (`Spec.Npm.AstText`) that parses, a
version carrying a prerelease tag satisfies the parsed range only if, inside one alternative of the
text whose bounds it meets, some comparator was written as a full `M.m.p` with a prerelease tag on
the version's own `M.m.p` (`C03_text`).  The `-0` bounds that x-ranges, tildes, carets, hyphen
ranges and `<=` on partials introduce are never that comparator (`C03_dash0_inert`).
-/
namespace Semver.C03
open Semver Pred Bound Spec Spec.Npm

/-- the partial is a full triple with a prerelease tag, on `v`'s major.minor.patch -/
def npTagFor (p : NP) (v : Version) : Prop :=
  match p with
  | .full M m p pre _ => pre ≠ [] ∧ v.major = M ∧ v.minor = m ∧ v.patch = p
  | _ => False

def simplePartial : Simple → Option NP
  | .prim _ p => some p
  | .bare p => some p
  | .tilde p => some p
  | .caret p => some p
  | .garbage _ => none

/-- the comparator was written with a prerelease tag on `v`'s tuple -/
def simpleTagFor (s : Simple) (v : Version) : Prop := ∃ p, simplePartial s = some p ∧ npTagFor p v

def altTagFor (a : Alt) (v : Version) : Prop :=
  match a with
  | .simples l => ∃ s ∈ l, simpleTagFor s v
  | .hyphen l h => npTagFor l v ∨ npTagFor h v

/-- a bound predicate carrying a prerelease version on `v`'s tuple -/
def predTag (p : Pred) (v : Version) : Prop :=
  ∃ b, (p = inc b ∨ p = exc b) ∧ b.isPre = true ∧ sameTuple v b = true

theorem tagged_mk (p q : Pred) (v : Version) :
    taggedOnTuple ⟨up q, lo p⟩ v ↔ (predTag p v ∨ predTag q v) := by
  unfold taggedOnTuple predTag
  constructor
  · rintro ⟨r, hr | hr, hb⟩
    · simp only [Bound.lo.injEq] at hr; subst hr; exact Or.inl hb
    · simp only [Bound.up.injEq] at hr; subst hr; exact Or.inr hb
  · rintro (h | h)
    · exact ⟨p, Or.inl rfl, h⟩
    · exact ⟨q, Or.inr rfl, h⟩

/-- where a bound of a table entry can come from: no bound, a release, a `-0` (upper bounds only),
or the full triple the user wrote -/
def fromPartial (np : NP) (R : Pred) : Prop :=
  R = unb ∨ (∃ b, (R = inc b ∨ R = exc b) ∧ b.pre = []) ∨
  (∃ M m p pre b1 b2, np = .full M m p pre b1 ∧ (R = inc ⟨M, m, p, pre, b2⟩ ∨ R = exc ⟨M, m, p, pre, b2⟩))

def dash0 (R : Pred) : Prop := ∃ a b c, R = exc (Version.mk4 a b c 0)

theorem fromPartial_tag {np : NP} {R : Pred} {v : Version} (h : fromPartial np R) (ht : predTag R v) :
    npTagFor np v := by
  obtain ⟨b, hb, hpre, hsame⟩ := ht
  rw [sameTuple_iff] at hsame
  rcases h with rfl | ⟨b', hb', hnil⟩ | ⟨M, m, p, pre, b1, b2, rfl, hR⟩
  · rcases hb with h | h <;> cases h
  · have : b = b' := by
      rcases hb with rfl | rfl <;> rcases hb' with h | h <;> cases h <;> rfl
    subst this
    simp [Version.isPre, hnil] at hpre
  · have : b = ⟨M, m, p, pre, b2⟩ := by
      rcases hb with rfl | rfl <;> rcases hR with h | h <;> cases h <;> rfl
    subst this
    refine ⟨?_, hsame.1, hsame.2.1, hsame.2.2⟩
    intro h0
    simp [Version.isPre, h0] at hpre

theorem dash0_no_tag {R : Pred} {v : Version} (h : dash0 R) (hv : v.isPre = true) (hm : memUp R v)
    (ht : predTag R v) : False := by
  obtain ⟨a, b, c, rfl⟩ := h
  obtain ⟨b', hb, _, hsame⟩ := ht
  have : b' = Version.mk4 a b c 0 := by
    rcases hb with h | h <;> cases h; rfl
  subst this
  exact C03_dash0_inert a b c v hv hsame hm

/-- the bounds of a table entry -/
def Bounds (np : NP) (x : BoundSet) : Prop :=
  ∃ P Q, x = ⟨up Q, lo P⟩ ∧ fromPartial np P ∧ (fromPartial np Q ∨ dash0 Q)

theorem of_new {np : NP} {P Q : Pred} {x : BoundSet} (h : BoundSet.new (lo P) (up Q) = some x)
    (hP : fromPartial np P) (hQ : fromPartial np Q ∨ dash0 Q) : Bounds np x :=
  ⟨P, Q, new_eq_some h, hP, hQ⟩

macro "fp" : tactic => `(tactic| first
  | exact Or.inl rfl
  | exact Or.inr (Or.inl ⟨_, Or.inl rfl, rfl⟩)
  | exact Or.inr (Or.inl ⟨_, Or.inr rfl, rfl⟩)
  | exact Or.inr (Or.inr ⟨_, _, _, _, _, _, rfl, Or.inl rfl⟩)
  | exact Or.inr (Or.inr ⟨_, _, _, _, _, _, rfl, Or.inr rfl⟩))

macro "fq" : tactic => `(tactic| first
  | exact Or.inl (by fp)
  | exact Or.inr ⟨_, _, _, rfl⟩)

/-- **every bound of every table entry** is no bound, a release, a `-0` upper bound, or the full
triple the user wrote -/
theorem simple_bounds {t : Simple} {x : BoundSet} (h : evalSimple t = some x) :
    ∃ np, simplePartial t = some np ∧ Bounds np x := by
  cases t with
  | prim op np =>
    refine ⟨np, rfl, ?_⟩
    cases np with
    | any =>
      cases op
      · exact of_new (P := unb) (Q := exc zero0) h (by fp) (by fq)
      · exact of_new (P := inc (Version.mk3 0 0 0)) (Q := unb) h (by fp) (by fq)
      · exact of_new (P := unb) (Q := exc zero0) h (by fp) (by fq)
      · exact of_new (P := inc (Version.mk3 0 0 0)) (Q := unb) h (by fp) (by fq)
      · exact of_new (P := inc (Version.mk3 0 0 0)) (Q := unb) h (by fp) (by fq)
    | maj M => cases op <;> exact of_new h (by fp) (by fq)
    | majMin M m => cases op <;> exact of_new h (by fp) (by fq)
    | full M m p pre build => cases op <;> exact of_new h (by fp) (by fq)
  | bare np =>
    refine ⟨np, rfl, ?_⟩
    cases np with
    | any => exact of_new (P := inc (Version.mk3 0 0 0)) (Q := unb) h (by fp) (by fq)
    | maj M => exact of_new h (by fp) (by fq)
    | majMin M m => exact of_new h (by fp) (by fq)
    | full M m p pre build => exact of_new h (by fp) (by fq)
  | tilde np =>
    refine ⟨np, rfl, ?_⟩
    cases np with
    | any => exact of_new (P := inc (Version.mk3 0 0 0)) (Q := unb) h (by fp) (by fq)
    | maj M => exact of_new h (by fp) (by fq)
    | majMin M m => exact of_new h (by fp) (by fq)
    | full M m p pre build => exact of_new h (by fp) (by fq)
  | caret np =>
    refine ⟨np, rfl, ?_⟩
    cases np with
    | any => exact of_new (P := inc (Version.mk3 0 0 0)) (Q := unb) h (by fp) (by fq)
    | maj M =>
      cases M with
      | zero => exact of_new (P := unb) (Q := exc (Version.mk4 1 0 0 0)) h (by fp) (by fq)
      | succ M => exact of_new h (by fp) (by fq)
    | majMin M m => cases M <;> exact of_new h (by fp) (by fq)
    | full M m p pre build =>
      cases M with
      | zero => cases m <;> exact of_new h (by fp) (by fq)
      | succ M => exact of_new h (by fp) (by fq)
  | garbage tok => cases h

/-! ### bounds of a folded alternative are bounds of its comparators -/

def LoFrom (l : List Simple) (P : Pred) : Prop :=
  ∃ t ∈ l, ∃ np, simplePartial t = some np ∧ fromPartial np P
def UpFrom (l : List Simple) (Q : Pred) : Prop :=
  ∃ t ∈ l, ∃ np, simplePartial t = some np ∧ (fromPartial np Q ∨ dash0 Q)

theorem LoFrom.mono {l l' : List Simple} {P : Pred} (h : LoFrom l P) (hs : ∀ t ∈ l, t ∈ l') : LoFrom l' P := by
  obtain ⟨t, ht, r⟩ := h; exact ⟨t, hs t ht, r⟩
theorem UpFrom.mono {l l' : List Simple} {Q : Pred} (h : UpFrom l Q) (hs : ∀ t ∈ l, t ∈ l') : UpFrom l' Q := by
  obtain ⟨t, ht, r⟩ := h; exact ⟨t, hs t ht, r⟩

theorem intersect_bounds {P Q P' Q' : Pred} {r : BoundSet}
    (h : (BoundSet.mk (up Q) (lo P)).intersect ⟨up Q', lo P'⟩ = some r) :
    ∃ P'' Q'', r = ⟨up Q'', lo P''⟩ ∧ (P'' = P ∨ P'' = P') ∧ (Q'' = Q ∨ Q'' = Q') := by
  rw [intersect_mk] at h
  refine ⟨_, _, new_eq_some h, ?_, ?_⟩
  · unfold maxLo; split
    · exact Or.inl rfl
    · exact Or.inr rfl
  · unfold minUp; split
    · exact Or.inr rfl
    · exact Or.inl rfl

theorem foldl_none (l : List BoundSet) :
    l.foldl (fun a b => a.bind (·.intersect b)) (none : Option BoundSet) = none := by
  induction l with
  | nil => rfl
  | cons x xs ih => simpa using ih

theorem foldl_from (l : List Simple) (seen : List Simple) (P Q : Pred) (hP : LoFrom seen P) (hQ : UpFrom seen Q)
    (r : BoundSet)
    (h : ((l.map evalSimple).filterMap id).foldl (fun a b => a.bind (·.intersect b)) (some ⟨up Q, lo P⟩) = some r) :
    ∃ P' Q', r = ⟨up Q', lo P'⟩ ∧ LoFrom (seen ++ l) P' ∧ UpFrom (seen ++ l) Q' := by
  induction l generalizing seen P Q with
  | nil =>
    simp only [List.map_nil, List.filterMap_nil, List.foldl_nil, Option.some.injEq] at h
    subst h
    exact ⟨P, Q, rfl, by simpa using hP, by simpa using hQ⟩
  | cons t l ih =>
    have hsub : ∀ u ∈ seen, u ∈ seen ++ [t] := fun u hu => by simp [hu]
    have happ : seen ++ t :: l = (seen ++ [t]) ++ l := by simp
    cases ht : evalSimple t with
    | none =>
      simp only [List.map_cons, ht, List.filterMap_cons, id] at h
      rw [happ]
      exact ih (seen ++ [t]) P Q (hP.mono hsub) (hQ.mono hsub) h
    | some x =>
      simp only [List.map_cons, ht, List.filterMap_cons, id, List.foldl_cons, Option.bind_some] at h
      obtain ⟨np, hnp, P', Q', rfl, hP', hQ'⟩ := simple_bounds ht
      cases hi : (BoundSet.mk (up Q) (lo P)).intersect ⟨up Q', lo P'⟩ with
      | none => rw [hi, foldl_none] at h; cases h
      | some a =>
        rw [hi] at h
        obtain ⟨P'', Q'', rfl, hPP, hQQ⟩ := intersect_bounds hi
        rw [happ]
        apply ih (seen ++ [t]) P'' Q'' ?_ ?_ h
        · rcases hPP with rfl | rfl
          · exact hP.mono hsub
          · exact ⟨t, by simp, np, hnp, hP'⟩
        · rcases hQQ with rfl | rfl
          · exact hQ.mono hsub
          · exact ⟨t, by simp, np, hnp, hQ'⟩

/-- **the bounds of a folded comparator list come from its comparators** -/
theorem fold_bounds (l : List Simple) (r : BoundSet) (h : r ∈ foldSets (l.map evalSimple)) :
    ∃ P Q, r = ⟨up Q, lo P⟩ ∧ LoFrom l P ∧ UpFrom l Q := by
  induction l with
  | nil => simp [foldSets] at h
  | cons t l ih =>
    cases ht : evalSimple t with
    | none =>
      have : foldSets ((t :: l).map evalSimple) = foldSets (l.map evalSimple) := by
        simp only [List.map_cons, ht]
        exact (C02.C02_garbage_ignored _).1
      rw [this] at h
      obtain ⟨P, Q, hr, hP, hQ⟩ := ih h
      exact ⟨P, Q, hr, hP.mono (fun u hu => by simp [hu]), hQ.mono (fun u hu => by simp [hu])⟩
    | some x =>
      obtain ⟨np, hnp, P, Q, rfl, hP, hQ⟩ := simple_bounds ht
      unfold foldSets at h
      simp only [List.map_cons, ht, List.filterMap_cons, id] at h
      cases hf : ((l.map evalSimple).filterMap id).foldl
          (fun (a : Option BoundSet) (b : BoundSet) => a.bind (·.intersect b))
          (some (BoundSet.mk (up Q) (lo P))) with
      | none => rw [hf] at h; simp at h
      | some a =>
        rw [hf] at h
        simp only [List.mem_singleton] at h
        subst h
        have := foldl_from l [t] P Q ⟨t, by simp, np, hnp, hP⟩ ⟨t, by simp, np, hnp, hQ⟩ r hf
        simpa using this

/-! ### hyphen ranges -/

theorem hyphen_bounds (l h : NP) (x : BoundSet) (hx : x ∈ evalAlt (.hyphen l h)) :
    ∃ P Q, x = ⟨up Q, lo P⟩ ∧ fromPartial l P ∧ (fromPartial h Q ∨ dash0 Q) := by
  simp only [evalAlt, Option.mem_toList] at hx
  have key : ∀ (P Q : Pred), BoundSet.new (lo P) (up Q) = some x → fromPartial l P →
      (fromPartial h Q ∨ dash0 Q) → ∃ P Q, x = ⟨up Q, lo P⟩ ∧ fromPartial l P ∧ (fromPartial h Q ∨ dash0 Q) :=
    fun P Q hn hP hQ => ⟨P, Q, new_eq_some hn, hP, hQ⟩
  cases l with
  | any =>
    cases h with
    | any => exact key (inc (Version.mk3 0 0 0)) unb hx (by fp) (by fq)
    | maj M => exact key unb (exc (Version.mk4 (M + 1) 0 0 0)) hx (by fp) (by fq)
    | majMin M m => exact key unb (exc (Version.mk4 M (m + 1) 0 0)) hx (by fp) (by fq)
    | full M m p pre build => exact key unb (inc ⟨M, m, p, pre, build⟩) hx (by fp) (by fq)
  | maj A =>
    cases h with
    | any => exact key (inc ⟨A, 0, 0, [], []⟩) unb hx (by fp) (by fq)
    | maj M => exact key (inc ⟨A, 0, 0, [], []⟩) (exc (Version.mk4 (M + 1) 0 0 0)) hx (by fp) (by fq)
    | majMin M m => exact key (inc ⟨A, 0, 0, [], []⟩) (exc (Version.mk4 M (m + 1) 0 0)) hx (by fp) (by fq)
    | full M m p pre build => exact key (inc ⟨A, 0, 0, [], []⟩) (inc ⟨M, m, p, pre, build⟩) hx (by fp) (by fq)
  | majMin A B =>
    cases h with
    | any => exact key (inc ⟨A, B, 0, [], []⟩) unb hx (by fp) (by fq)
    | maj M => exact key (inc ⟨A, B, 0, [], []⟩) (exc (Version.mk4 (M + 1) 0 0 0)) hx (by fp) (by fq)
    | majMin M m => exact key (inc ⟨A, B, 0, [], []⟩) (exc (Version.mk4 M (m + 1) 0 0)) hx (by fp) (by fq)
    | full M m p pre build => exact key (inc ⟨A, B, 0, [], []⟩) (inc ⟨M, m, p, pre, build⟩) hx (by fp) (by fq)
  | full A B C pre' build' =>
    cases h with
    | any => exact key (inc ⟨A, B, C, pre', build'⟩) unb hx (by fp) (by fq)
    | maj M => exact key (inc ⟨A, B, C, pre', build'⟩) (exc (Version.mk4 (M + 1) 0 0 0)) hx (by fp) (by fq)
    | majMin M m => exact key (inc ⟨A, B, C, pre', build'⟩) (exc (Version.mk4 M (m + 1) 0 0)) hx (by fp) (by fq)
    | full M m p pre build =>
      exact key (inc ⟨A, B, C, pre', build'⟩) (inc ⟨M, m, p, pre, build⟩) hx (by fp) (by fq)

/-! ### the property at the level of texts -/

/-- on the tables: a prerelease within an alternative that passes the gate was opted in by a
comparator written with a tag on its tuple -/
theorem C03_tree (a : Alt) (x : BoundSet) (hx : x ∈ evalAlt a) (v : Version) (hv : v.isPre = true)
    (hw : x.within v = true) (hg : x.gate v = true) : altTagFor a v := by
  rw [gate_iff_tagged] at hg
  cases a with
  | simples l =>
    obtain ⟨P, Q, rfl, hP, hQ⟩ := fold_bounds l x hx
    rw [tagged_mk] at hg
    rw [within_mk] at hw
    rcases hg with hg | hg
    · obtain ⟨t, ht, np, hnp, hfp⟩ := hP
      exact ⟨t, ht, np, hnp, fromPartial_tag hfp hg⟩
    · obtain ⟨t, ht, np, hnp, hfq⟩ := hQ
      rcases hfq with hfq | hd
      · exact ⟨t, ht, np, hnp, fromPartial_tag hfq hg⟩
      · exact absurd hg (fun hg => dash0_no_tag hd hv hw.2 hg)
  | hyphen l h =>
    obtain ⟨P, Q, rfl, hP, hQ⟩ := hyphen_bounds l h x hx
    rw [tagged_mk] at hg
    rw [within_mk] at hw
    rcases hg with hg | hg
    · exact Or.inl (fromPartial_tag hP hg)
    · rcases hQ with hfq | hd
      · exact Or.inr (fromPartial_tag hfq hg)
      · exact absurd hg (fun hg => dash0_no_tag hd hv hw.2 hg)

/-- **C03_text**: for every text of the npm range grammar that parses, a version carrying a
prerelease tag satisfies the parsed range only if, inside one alternative of the text whose bounds
it meets, some comparator was written with a prerelease tag on the version's major.minor.patch -/
theorem C03_text (r : Ast) (s : List Char) (hs : AstText r s) (R : Range) (hp : Range.parse s = .ok R)
    (v : Version) (hv : v.isPre = true) (hsat : Range.satisfies R v = true) :
    ∃ a ∈ r, (∃ x ∈ evalAlt a, x.within v = true) ∧ altTagFor a v := by
  rw [parse_text hs] at hp
  split at hp
  · cases hp
  · cases hp
    rw [Range.satisfies_iff] at hsat
    obtain ⟨x, hx, hsx⟩ := hsat
    simp only [evalAst, List.mem_flatMap] at hx
    obtain ⟨a, ha, hxa⟩ := hx
    have h := (satisfies_iff x v).mp hsx
    have hg : x.gate v = true := by
      rcases h.2 with h2 | h2
      · rw [hv] at h2; cases h2
      · exact h2
    exact ⟨a, ha, ⟨x, hxa, h.1⟩, C03_tree a x hxa v hv h.1 hg⟩

/-- release versions are never affected, at the level of texts -/
theorem C03_text_release (r : Ast) (s : List Char) (hs : AstText r s) (R : Range) (hp : Range.parse s = .ok R)
    (v : Version) (hv : v.isPre = false) :
    Range.satisfies R v = (evalAst r).any (·.within v) := by
  rw [parse_text hs] at hp
  split at hp
  · cases hp
  · cases hp
    exact C03_release_unaffected _ v hv

/-! ### conversely: a comparator written with a tag on the tuple opens the gate -/

theorem gate_of_lo {P Q : Pred} {v b : Version} (hP : P = inc b ∨ P = exc b) (hb : b.isPre = true)
    (hs : sameTuple v b = true) : (BoundSet.mk (up Q) (lo P)).gate v = true := by
  rw [gate_iff_tagged, tagged_mk]; exact Or.inl ⟨b, hP, hb, hs⟩

theorem gate_of_up {P Q : Pred} {v b : Version} (hQ : Q = inc b ∨ Q = exc b) (hb : b.isPre = true)
    (hs : sameTuple v b = true) : (BoundSet.mk (up Q) (lo P)).gate v = true := by
  rw [gate_iff_tagged, tagged_mk]; exact Or.inr ⟨b, hQ, hb, hs⟩

theorem caret_full_lower (M m p : Nat) (pre build : List Ident) :
    ∃ Q', caretSet (fromNP (.full M m p pre build)) =
      BoundSet.new (lo (inc ⟨M, m, p, pre, []⟩)) (up Q') := by
  simp only [caretSet, fromNP]
  exact ⟨_, rfl⟩

theorem simple_tag_gate {t : Simple} {y : BoundSet} {v : Version} (h : evalSimple t = some y)
    (ht : simpleTagFor t v) : y.gate v = true := by
  obtain ⟨np, hnp, htag⟩ := ht
  cases np with
  | any => exact absurd htag id
  | maj M => exact absurd htag id
  | majMin M m => exact absurd htag id
  | full M m p pre build =>
    obtain ⟨hpre, h1, h2, h3⟩ := htag
    have hb : ∀ bld, Version.isPre ⟨M, m, p, pre, bld⟩ = true := by
      intro bld; cases pre with
      | nil => exact absurd rfl hpre
      | cons a as => rfl
    have hs : ∀ bld, sameTuple v ⟨M, m, p, pre, bld⟩ = true := by
      intro bld; rw [sameTuple_iff]; exact ⟨h1, h2, h3⟩
    cases t with
    | prim op np' =>
      simp only [simplePartial, Option.some.injEq] at hnp; subst hnp
      cases op
      · have e := new_eq_some (p := unb) (q := exc ⟨M, m, p, pre, build⟩) h
        subst e; exact gate_of_up (Or.inr rfl) (hb _) (hs _)
      · have e := new_eq_some (p := unb) (q := inc ⟨M, m, p, pre, build⟩) h
        subst e; exact gate_of_up (Or.inl rfl) (hb _) (hs _)
      · have e := new_eq_some (p := exc ⟨M, m, p, pre, build⟩) (q := unb) h
        subst e; exact gate_of_lo (Or.inr rfl) (hb _) (hs _)
      · have e := new_eq_some (p := inc ⟨M, m, p, pre, build⟩) (q := unb) h
        subst e; exact gate_of_lo (Or.inl rfl) (hb _) (hs _)
      · have e := new_eq_some (p := inc ⟨M, m, p, pre, []⟩) (q := inc ⟨M, m, p, pre, []⟩) h
        subst e; exact gate_of_lo (Or.inl rfl) (hb _) (hs _)
    | bare np' =>
      simp only [simplePartial, Option.some.injEq] at hnp; subst hnp
      have e := new_eq_some (p := inc ⟨M, m, p, pre, build⟩) (q := inc ⟨M, m, p, pre, build⟩) h
      subst e; exact gate_of_lo (Or.inl rfl) (hb _) (hs _)
    | tilde np' =>
      simp only [simplePartial, Option.some.injEq] at hnp; subst hnp
      have e := new_eq_some (p := inc ⟨M, m, p, pre, []⟩) (q := exc (Version.mk4 M (m + 1) 0 0)) h
      subst e; exact gate_of_lo (Or.inl rfl) (hb _) (hs _)
    | caret np' =>
      simp only [simplePartial, Option.some.injEq] at hnp; subst hnp
      obtain ⟨np'', _, P, Q, rfl, _, _⟩ := simple_bounds h
      -- the lower bound of a caret on a full triple is that triple
      have hlo : P = inc ⟨M, m, p, pre, []⟩ := by
        have hh := caret_full_lower M m p pre build
        obtain ⟨Q', hQ'⟩ := hh
        have h' : BoundSet.new (lo (inc ⟨M, m, p, pre, []⟩)) (up Q') = some ⟨up Q, lo P⟩ := by
          rw [← hQ']; exact h
        have := new_eq_some h'
        simp only [BoundSet.mk.injEq, Bound.up.injEq, Bound.lo.injEq] at this
        exact this.2
      subst hlo
      exact gate_of_lo (Or.inl rfl) (hb _) (hs _)
    | garbage tok => cases hnp

/-- **when such a comparator exists, satisfaction is decided by the bounds alone** (comparator lists):
if `v` lies within the alternative's folded bounds and some valid comparator of the alternative was
written with a tag on `v`'s tuple, `v` satisfies the alternative -/
theorem C03_tree_decided (l : List Simple) (x : BoundSet) (hx : x ∈ evalAlt (.simples l)) (v : Version)
    (hw : x.within v = true) (t : Simple) (ht : t ∈ l) (hvalid : (evalSimple t).isSome = true)
    (htag : simpleTagFor t v) : x.satisfies v = true := by
  rw [satisfies_iff]
  refine ⟨hw, ?_⟩
  cases hv : v.isPre with
  | false => exact Or.inl rfl
  | true =>
    right
    obtain ⟨y, hy⟩ := Option.isSome_iff_exists.mp hvalid
    have hyg := simple_tag_gate hy htag
    have hmem : y ∈ C02.setsOf l := by
      simp only [C02.setsOf, List.mem_filterMap, List.mem_map, id]
      exact ⟨some y, ⟨t, ht, hy⟩, rfl⟩
    have hne : C02.setsOf l ≠ [] := by intro h0; rw [h0] at hmem; cases hmem
    simp only [evalAlt] at hx
    rw [C02.foldSets_filter] at hx
    rcases C02.C02_fold_sem (C02.setsOf l) (C02.setsOf_wf l) hne with ⟨r, hr, _, hsem⟩ | ⟨hr, _⟩
    · rw [show (List.map evalSimple l).filterMap id = C02.setsOf l from rfl, hr] at hx
      simp only [List.mem_singleton] at hx
      subst hx
      exact ((hsem v).2 hv hw).mpr ⟨y, hmem, hyg⟩
    · rw [show (List.map evalSimple l).filterMap id = C02.setsOf l from rfl, hr] at hx
      cases hx

theorem C03_text_decided (r : Ast) (s : List Char) (hs : AstText r s) (R : Range) (hp : Range.parse s = .ok R)
    (l : List Simple) (ha : Alt.simples l ∈ r) (x : BoundSet) (hx : x ∈ evalAlt (.simples l)) (v : Version)
    (hw : x.within v = true) (t : Simple) (ht : t ∈ l) (hvalid : (evalSimple t).isSome = true)
    (htag : simpleTagFor t v) : Range.satisfies R v = true := by
  rw [parse_text hs] at hp
  split at hp
  · cases hp
  · cases hp
    rw [Range.satisfies_iff]
    refine ⟨x, ?_, C03_tree_decided l x hx v hw t ht hvalid htag⟩
    simp only [evalAst, List.mem_flatMap]
    exact ⟨_, ha, hx⟩

/-! non-vacuity: `>=1.2.3-alpha <2` opts `1.2.3-beta` in -/
example : simpleTagFor (.prim .ge (.full 1 2 3 [.alpha ['a']] [])) ⟨1, 2, 3, [.alpha ['b']], []⟩ :=
  ⟨_, rfl, by simp [npTagFor]⟩

/-- the same on the wider class of texts (any closed unrecognised token is garbage) -/
theorem C03_text_closed (r : Ast) (s : List Char) (hs : AstTextG ClosedGarbage r s) (R : Range)
    (hp : Range.parse s = .ok R) (v : Version) (hv : v.isPre = true) (hsat : Range.satisfies R v = true) :
    ∃ a ∈ r, (∃ x ∈ evalAlt a, x.within v = true) ∧ altTagFor a v := by
  rw [parse_textG closedGarbage_ok hs] at hp
  split at hp
  · cases hp
  · cases hp
    rw [Range.satisfies_iff] at hsat
    obtain ⟨x, hx, hsx⟩ := hsat
    simp only [evalAst, List.mem_flatMap] at hx
    obtain ⟨a, ha, hxa⟩ := hx
    have h := (satisfies_iff x v).mp hsx
    have hg : x.gate v = true := by
      rcases h.2 with h2 | h2
      · rw [hv] at h2; cases h2
      · exact h2
    exact ⟨a, ha, ⟨x, hxa, h.1⟩, C03_tree a x hxa v hv h.1 hg⟩

end Semver.C03
