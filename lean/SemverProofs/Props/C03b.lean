import SemverProofs.Props.C03
import SemverProofs.Props.C02b
/-!
# C03 at the level of texts: "some comparator was *written* with a prerelease tag"

`C03_only_via_tag` speaks about the bounds of the parsed alternative.  Here the bounds are traced
back to the text: for every text of the npm range grammar (`Spec.Npm.AstText`) that parses, a
version carrying a prerelease tag satisfies the parsed range only if, inside one alternative of the
text whose bounds it meets, some comparator was written as a full `M.m.p` with a prerelease tag on
the version's own `M.m.p` (`C03_text`).  The `-0` bounds that x-ranges, tildes, carets, hyphen
ranges and `<=` on partials introduce are never that comparator (`C03_dash0_inert`).
-/
namespace Semver.C03
open Semver Pred Bound Spec Spec.Npm

/-- the partial is a full triple with a prerelease tag, on `v`'s major.minor.patch -/
def npTagFor (p : NP) (v : Version) : Prop :=
  match p with
  | .full M m p pre _ => pre ≠ [] ∧ v.major = M ∧ v.minor = m ∧ v.patch = p
  | _ => False

def simplePartial : Simple → Option NP
  | .prim _ p => some p
  | .bare p => some p
  | .tilde p => some p
  | .caret p => some p
  | .garbage _ => none

/-- the comparator was written with a prerelease tag on `v`'s tuple -/
def simpleTagFor (s : Simple) (v : Version) : Prop := ∃ p, simplePartial s = some p ∧ npTagFor p v

def altTagFor (a : Alt) (v : Version) : Prop :=
  match a with
  | .simples l => ∃ s ∈ l, simpleTagFor s v
  | .hyphen l h => npTagFor l v ∨ npTagFor h v

/-- a bound predicate carrying a prerelease version on `v`'s tuple -/
def predTag (p : Pred) (v : Version) : Prop :=
  ∃ b, (p = inc b ∨ p = exc b) ∧ b.isPre = true ∧ sameTuple v b = true

theorem tagged_mk (p q : Pred) (v : Version) :
    taggedOnTuple ⟨up q, lo p⟩ v ↔ (predTag p v ∨ predTag q v) := by
  unfold taggedOnTuple predTag
  constructor
  · rintro ⟨r, hr | hr, hb⟩
    · simp only [Bound.lo.injEq] at hr; subst hr; exact Or.inl hb
    · simp only [Bound.up.injEq] at hr; subst hr; exact Or.inr hb
  · rintro (h | h)
    · exact ⟨p, Or.inl rfl, h⟩
    · exact ⟨q, Or.inr rfl, h⟩

/-- where a bound of a table entry can come from: no bound, a release, a `-0` (upper bounds only),
or the full triple the user wrote -/
def fromPartial (np : NP) (R : Pred) : Prop :=
  R = unb ∨ (∃ b, (R = inc b ∨ R = exc b) ∧ b.pre = []) ∨
  (∃ M m p pre b1 b2, np = .full M m p pre b1 ∧ (R = inc ⟨M, m, p, pre, b2⟩ ∨ R = exc ⟨M, m, p, pre, b2⟩))

def dash0 (R : Pred) : Prop := ∃ a b c, R = exc (Version.mk4 a b c 0)

theorem fromPartial_tag {np : NP} {R : Pred} {v : Version} (h : fromPartial np R) (ht : predTag R v) :
    npTagFor np v := by
  obtain ⟨b, hb, hpre, hsame⟩ := ht
  rw [sameTuple_iff] at hsame
  rcases h with rfl | ⟨b', hb', hnil⟩ | ⟨M, m, p, pre, b1, b2, rfl, hR⟩
  · rcases hb with h | h <;> cases h
  · have : b = b' := by
      rcases hb with rfl | rfl <;> rcases hb' with h | h <;> cases h <;> rfl
    subst this
    simp [Version.isPre, hnil] at hpre
  · have : b = ⟨M, m, p, pre, b2⟩ := by
      rcases hb with rfl | rfl <;> rcases hR with h | h <;> cases h <;> rfl
    subst this
    refine ⟨?_, hsame.1, hsame.2.1, hsame.2.2⟩
    intro h0
    simp [Version.isPre, h0] at hpre

theorem dash0_no_tag {R : Pred} {v : Version} (h : dash0 R) (hv : v.isPre = true) (hm : memUp R v)
    (ht : predTag R v) : False := by
  obtain ⟨a, b, c, rfl⟩ := h
  obtain ⟨b', hb, _, hsame⟩ := ht
  have : b' = Version.mk4 a b c 0 := by
    rcases hb with h | h <;> cases h; rfl
  subst this
  exact C03_dash0_inert a b c v hv hsame hm

/-- the bounds of a table entry -/
def Bounds (np : NP) (x : BoundSet) : Prop :=
  ∃ P Q, x = ⟨up Q, lo P⟩ ∧ fromPartial np P ∧ (fromPartial np Q ∨ dash0 Q)

theorem of_new {np : NP} {P Q : Pred} {x : BoundSet} (h : BoundSet.new (lo P) (up Q) = some x)
    (hP : fromPartial np P) (hQ : fromPartial np Q ∨ dash0 Q) : Bounds np x :=
  ⟨P, Q, new_eq_some h, hP, hQ⟩

macro "fp" : tactic => `(tactic| first
  | exact Or.inl rfl
  | exact Or.inr (Or.inl ⟨_, Or.inl rfl, rfl⟩)
  | exact Or.inr (Or.inl ⟨_, Or.inr rfl, rfl⟩)
  | exact Or.inr (Or.inr ⟨_, _, _, _, _, _, rfl, Or.inl rfl⟩)
  | exact Or.inr (Or.inr ⟨_, _, _, _, _, _, rfl, Or.inr rfl⟩))

macro "fq" : tactic => `(tactic| first
  | exact Or.inl (by fp)
  | exact Or.inr ⟨_, _, _, rfl⟩)

/-- **every bound of every table entry** is no bound, a release, a `-0` upper bound, or the full
triple the user wrote -/
theorem simple_bounds {t : Simple} {x : BoundSet} (h : evalSimple t = some x) :
    ∃ np, simplePartial t = some np ∧ Bounds np x := by
  cases t with
  | prim op np =>
    refine ⟨np, rfl, ?_⟩
    cases np with
    | any =>
      cases op
      · exact of_new (P := unb) (Q := exc zero0) h (by fp) (by fq)
      · exact of_new (P := inc (Version.mk3 0 0 0)) (Q := unb) h (by fp) (by fq)
      · exact of_new (P := unb) (Q := exc zero0) h (by fp) (by fq)
      · exact of_new (P := inc (Version.mk3 0 0 0)) (Q := unb) h (by fp) (by fq)
      · exact of_new (P := inc (Version.mk3 0 0 0)) (Q := unb) h (by fp) (by fq)
    | maj M => cases op <;> exact of_new h (by fp) (by fq)
    | majMin M m => cases op <;> exact of_new h (by fp) (by fq)
    | full M m p pre build => cases op <;> exact of_new h (by fp) (by fq)
  | bare np =>
    refine ⟨np, rfl, ?_⟩
    cases np with
    | any => exact of_new (P := inc (Version.mk3 0 0 0)) (Q := unb) h (by fp) (by fq)
    | maj M => exact of_new h (by fp) (by fq)
    | majMin M m => exact of_new h (by fp) (by fq)
    | full M m p pre build => exact of_new h (by fp) (by fq)
  | tilde np =>
    refine ⟨np, rfl, ?_⟩
    cases np with
    | any => exact of_new (P := inc (Version.mk3 0 0 0)) (Q := unb) h (by fp) (by fq)
    | maj M => exact of_new h (by fp) (by fq)
    | majMin M m => exact of_new h (by fp) (by fq)
    | full M m p pre build => exact of_new h (by fp) (by fq)
  | caret np =>
    refine ⟨np, rfl, ?_⟩
    cases np with
    | any => exact of_new (P := inc (Version.mk3 0 0 0)) (Q := unb) h (by fp) (by fq)
    | maj M =>
      cases M with
      | zero => exact of_new (P := unb) (Q := exc (Version.mk4 1 0 0 0)) h (by fp) (by fq)
      | succ M => exact of_new h (by fp) (by fq)
    | majMin M m => cases M <;> exact of_new h (by fp) (by fq)
    | full M m p pre build =>
      cases M with
      | zero => cases m <;> exact of_new h (by fp) (by fq)
      | succ M => exact of_new h (by fp) (by fq)
  | garbage tok => cases h

end Semver.C03
