import SemverProofs.Lemmas.VersionPreorder
/-!
# C04 — Version precedence is the SemVer total order; Eq, Ord and Hash agree

Statement (properties.jsonl): comparing any two versions yields SemVer 2.0.0 §11 precedence; the
relation is a total order (reflexive, antisymmetric, transitive, total), `==` holds exactly when
the comparison is Equal, equal versions hash equally, and sorting / min / max of any list is
consistent with it.  Build metadata is ignored.

All theorems quantify over arbitrary `Version`s: components are arbitrary naturals, identifier
lists have any length, identifier strings are arbitrary.
-/
namespace Semver.C04
open Semver Std

/-! ## The specification's decision procedure reflects the inductive §11 relation -/

theorem strCmp_lt {s t} : Spec.strCmp s t = .lt ↔ Spec.StrLt s t := by
  induction s generalizing t with
  | nil =>
    cases t with
    | nil => simp [Spec.strCmp]; intro h; cases h
    | cons d t => simp [Spec.strCmp]; exact .nil
  | cons c s ih =>
    cases t with
    | nil => simp [Spec.strCmp]; intro h; cases h
    | cons d t =>
      simp only [Spec.strCmp]
      split
      · simp; exact .head ‹_›
      · split
        · simp; intro h
          cases h with
          | head h => omega
          | tail h => omega
        · have hcd : c = d := Char.toNat_inj.mp (by omega)
          subst hcd
          rw [ih]
          constructor
          · exact .tail
          · intro h
            cases h with
            | head h => omega
            | tail h => exact h

theorem strCmp_eq {s t} : Spec.strCmp s t = .eq ↔ s = t := by
  induction s generalizing t with
  | nil => cases t <;> simp [Spec.strCmp]
  | cons c s ih =>
    cases t with
    | nil => simp [Spec.strCmp]
    | cons d t =>
      simp only [Spec.strCmp]
      split
      · simp; intro h; subst h; omega
      · split
        · simp; intro h; subst h; omega
        · have hcd : c = d := Char.toNat_inj.mp (by omega)
          subst hcd
          simp [ih]

theorem idCmp_lt {a b} : Spec.idCmp a b = .lt ↔ Spec.IdLt a b := by
  cases a <;> cases b <;> simp only [Spec.idCmp]
  · rename_i x y
    constructor
    · intro h
      split at h
      · exact .numNum ‹_›
      · split at h <;> cases h
    · intro h; cases h with | numNum h => simp [h]
  · simp; exact .numAlpha
  · simp; intro h; cases h
  · rw [strCmp_lt]
    constructor
    · exact .alphaAlpha
    · intro h; cases h with | alphaAlpha h => exact h

theorem idCmp_eq {a b} : Spec.idCmp a b = .eq ↔ a = b := by
  cases a <;> cases b <;> simp only [Spec.idCmp]
  · rename_i x y
    constructor
    · intro h
      split at h
      · cases h
      · split at h
        · cases h
        · congr; omega
    · intro h; cases h; simp
  · simp
  · simp
  · rw [strCmp_eq]; simp

theorem preCmp_lt {p q} : Spec.preCmp p q = .lt ↔ Spec.PreLt p q := by
  induction p generalizing q with
  | nil =>
    cases q with
    | nil => simp [Spec.preCmp]; intro h; cases h
    | cons b q => simp [Spec.preCmp]; exact .fewer
  | cons a p ih =>
    cases q with
    | nil => simp [Spec.preCmp]; intro h; cases h
    | cons b q =>
      simp only [Spec.preCmp]
      cases hab : Spec.idCmp a b with
      | lt => simp; exact .head (idCmp_lt.mp hab)
      | eq =>
        have := idCmp_eq.mp hab
        subst this
        simp only
        rw [ih]
        constructor
        · exact .tail
        · intro h
          cases h with
          | head h => have := idCmp_lt.mpr h; rw [hab] at this; cases this
          | tail h => exact h
      | gt =>
        simp
        intro h
        cases h with
        | head h => have := idCmp_lt.mpr h; rw [hab] at this; cases this
        | tail h => rw [idCmp_eq.mpr rfl] at hab; cases hab

theorem preCmp_eq {p q} : Spec.preCmp p q = .eq ↔ p = q := by
  induction p generalizing q with
  | nil => cases q <;> simp [Spec.preCmp]
  | cons a p ih =>
    cases q with
    | nil => simp [Spec.preCmp]
    | cons b q =>
      simp only [Spec.preCmp]
      cases hab : Spec.idCmp a b with
      | lt => simp; intro h; subst h; rw [idCmp_eq.mpr rfl] at hab; cases hab
      | eq => have := idCmp_eq.mp hab; subst this; simp [ih]
      | gt => simp; intro h; subst h; rw [idCmp_eq.mpr rfl] at hab; cases hab

/-- **C04 (spec side)**: the decision procedure answers `lt` exactly on the §11 relation -/
theorem C04_spec_lt (a b : Version) : Spec.prec a b = .lt ↔ Spec.VLt a b := by
  unfold Spec.prec
  constructor
  · intro h
    split at h
    · exact .major ‹_›
    · split at h
      · cases h
      · split at h
        · exact .minor (by omega) ‹_›
        · split at h
          · cases h
          · split at h
            · exact .patch (by omega) (by omega) ‹_›
            · split at h
              · cases h
              · have h1 : a.major = b.major := by omega
                have h2 : a.minor = b.minor := by omega
                have h3 : a.patch = b.patch := by omega
                split at h
                · cases h
                · cases h
                · rename_i hp hq
                  exact .release h1 h2 h3 (by simp [hp]) hq
                · rename_i p q hp1 hp2 hp3
                  have hpne : a.pre ≠ [] := by
                    intro h0
                    cases hq : b.pre with
                    | nil => exact hp1 h0 hq
                    | cons x xs => exact hp2 x xs h0 hq
                  have hqne : b.pre ≠ [] := by
                    intro h0
                    cases hpp : a.pre with
                    | nil => exact hp1 hpp h0
                    | cons x xs => exact hp3 x xs hpp h0
                  exact .pre h1 h2 h3 hpne hqne (preCmp_lt.mp h)
  · intro h
    cases h with
    | major h => simp [h]
    | minor h1 h2 => simp [h1, h2]
    | patch h1 h2 h3 => simp [h1, h2, h3]
    | release h1 h2 h3 h4 h5 =>
      simp only [h1, h2, h3, Nat.lt_irrefl, if_false]
      cases hp : a.pre with
      | nil => exact absurd hp h4
      | cons x xs => simp [h5]
    | pre h1 h2 h3 h4 h5 h6 =>
      simp only [h1, h2, h3, Nat.lt_irrefl, if_false]
      cases hp : a.pre with
      | nil => exact absurd hp h4
      | cons x xs =>
        cases hq : b.pre with
        | nil => exact absurd hq h5
        | cons y ys =>
          simp only
          rw [hp, hq] at h6
          exact preCmp_lt.mpr h6

/-- **C04 (spec side)**: `eq` exactly when everything but build metadata agrees -/
theorem C04_spec_eq (a b : Version) : Spec.prec a b = .eq ↔ Spec.VEq a b := by
  unfold Spec.prec Spec.VEq
  constructor
  · intro h
    split at h
    · cases h
    · split at h
      · cases h
      · split at h
        · cases h
        · split at h
          · cases h
          · split at h
            · cases h
            · split at h
              · cases h
              · refine ⟨by omega, by omega, by omega, ?_⟩
                split at h
                · rename_i hp hq; rw [hp, hq]
                · cases h
                · cases h
                · exact preCmp_eq.mp h
  · intro ⟨h1, h2, h3, h4⟩
    simp only [h1, h2, h3, h4, Nat.lt_irrefl, if_false]
    cases b.pre with
    | nil => rfl
    | cons y ys => simp only; exact preCmp_eq.mpr rfl

/-! ## The model is the specification -/

/-- **C04_model_is_spec**: `Ord for Version` computes exactly SemVer §11 precedence -/
theorem C04_model_is_spec (a b : Version) : cmpVersion a b = Spec.prec a b := by
  rw [cmpVersion_eq]
  unfold Spec.prec
  simp only [compare_nat_eq]
  split
  · rfl
  · split
    · rfl
    · simp only [Ordering.eq_then]
      split
      · rfl
      · split
        · rfl
        · simp only [Ordering.eq_then]
          split
          · rfl
          · split
            · rfl
            · simp only [Ordering.eq_then]
              cases a.pre with
              | nil => cases b.pre <;> simp [cmpPre]
              | cons x xs =>
                cases b.pre with
                | nil => simp [cmpPre]
                | cons y ys => simp only [cmpPre]; exact (Semver.preCmp_eq _ _).symm

theorem C04_lt_iff_spec (a b : Version) : cmpVersion a b = .lt ↔ Spec.VLt a b := by
  rw [C04_model_is_spec, C04_spec_lt]

theorem C04_eq_iff_spec (a b : Version) : cmpVersion a b = .eq ↔ Spec.VEq a b := by
  rw [C04_model_is_spec, C04_spec_eq]

theorem C04_gt_iff_spec (a b : Version) : cmpVersion a b = .gt ↔ Spec.VLt b a := by
  rw [← C04_lt_iff_spec, cmp_swap b a]
  cases cmpVersion a b <;> simp

/-! ## Total order -/

theorem C04_refl (a : Version) : cmpVersion a a = .eq := ReflCmp.compare_self

theorem C04_antisymm (a b : Version) (h1 : a ≤ b) (h2 : b ≤ a) : Spec.VEq a b :=
  (C04_eq_iff_spec a b).mp ((cmp_eq_iff a b).mpr ⟨h1, h2⟩)

theorem C04_trans (a b c : Version) (h1 : a ≤ b) (h2 : b ≤ c) : a ≤ c :=
  TransCmp.isLE_trans (cmp := cmpVersion) h1 h2

theorem C04_trans_lt (a b c : Version) (h1 : a < b) (h2 : b < c) : a < c :=
  TransCmp.lt_trans (cmp := cmpVersion) h1 h2

theorem C04_total (a b : Version) : a ≤ b ∨ b ≤ a := by grind

theorem C04_oriented (a b : Version) : cmpVersion b a = (cmpVersion a b).swap := cmp_swap a b

/-- exactly one of `<`, `≈`, `>` -/
theorem C04_trichotomy (a b : Version) :
    (a < b ∧ ¬ Spec.VEq a b ∧ ¬ b < a) ∨ (¬ a < b ∧ Spec.VEq a b ∧ ¬ b < a) ∨
    (¬ a < b ∧ ¬ Spec.VEq a b ∧ b < a) := by
  rw [← C04_eq_iff_spec, lt_def, lt_def, cmp_swap a b]
  cases cmpVersion a b <;> simp

/-! ## Eq / Hash coherence, build metadata -/

theorem C04_eq_iff_cmp_eq (a b : Version) : a.beq b = true ↔ cmpVersion a b = .eq := by
  rw [beq_iff, cmp_eq_iff]

theorem C04_hash_coherent (a b : Version) (h : a.beq b = true) : a.hashKey = b.hashKey := by
  simp only [Version.beq, Bool.and_eq_true, beq_iff_eq] at h
  obtain ⟨⟨⟨h1, h2⟩, h3⟩, h4⟩ := h
  simp [Version.hashKey, h1, h2, h3, h4]

theorem C04_build_ignored (a b : Version) (x y : List Ident) :
    cmpVersion { a with build := x } { b with build := y } = cmpVersion a b := by
  simp [cmpVersion_eq]

theorem C04_build_ignored_eq (a b : Version) (x y : List Ident) :
    ({ a with build := x } : Version).beq { b with build := y } = a.beq b := by
  simp [Version.beq]

/-! ## `Iterator::max` / `Iterator::min` return an extreme element of the list -/

theorem foldl_max_spec (l : List Version) (x : Version) :
    let m := l.foldl (fun m y => if cmpVersion m y = .gt then m else y) x
    (m = x ∨ m ∈ l) ∧ x ≤ m ∧ ∀ y ∈ l, y ≤ m := by
  induction l generalizing x with
  | nil => simp
  | cons z l ih =>
    simp only [List.foldl_cons]
    by_cases h : cmpVersion x z = .gt
    · simp only [h, if_true]
      have := ih x
      simp only at this
      obtain ⟨h1, h2, h3⟩ := this
      have hzx : z < x := (cmp_gt_iff x z).mp h
      refine ⟨by grind, h2, ?_⟩
      intro y hy
      simp at hy
      rcases hy with rfl | hy
      · grind
      · exact h3 y hy
    · simp only [h, if_false]
      have := ih z
      simp only at this
      obtain ⟨h1, h2, h3⟩ := this
      have hxz : x ≤ z := by
        have := (not_lt_iff_le z x).mp (by rw [lt_def, cmp_swap x z]; cases hc : cmpVersion x z <;> simp_all)
        exact this
      refine ⟨by grind, by grind, ?_⟩
      intro y hy
      simp at hy
      rcases hy with rfl | hy
      · exact h2
      · exact h3 y hy

theorem C04_max (l : List Version) :
    (maxBy cmpVersion l = none ↔ l = []) ∧
    ∀ m, maxBy cmpVersion l = some m → m ∈ l ∧ ∀ y ∈ l, y ≤ m := by
  cases l with
  | nil => simp [maxBy]
  | cons x l =>
    simp only [maxBy, reduceCtorEq, Option.some.injEq]
    refine ⟨by simp, ?_⟩
    intro m hm
    have := foldl_max_spec l x
    simp only at this
    rw [hm] at this
    obtain ⟨h1, h2, h3⟩ := this
    refine ⟨by grind, ?_⟩
    intro y hy
    simp at hy
    rcases hy with rfl | hy
    · exact h2
    · exact h3 y hy

theorem foldl_min_spec (l : List Version) (x : Version) :
    let m := l.foldl (fun m y => if cmpVersion m y = .gt then y else m) x
    (m = x ∨ m ∈ l) ∧ m ≤ x ∧ ∀ y ∈ l, m ≤ y := by
  induction l generalizing x with
  | nil => simp
  | cons z l ih =>
    simp only [List.foldl_cons]
    by_cases h : cmpVersion x z = .gt
    · simp only [h, if_true]
      have := ih z
      simp only at this
      obtain ⟨h1, h2, h3⟩ := this
      have hzx : z < x := (cmp_gt_iff x z).mp h
      refine ⟨by grind, by grind, ?_⟩
      intro y hy
      simp at hy
      rcases hy with rfl | hy
      · exact h2
      · exact h3 y hy
    · simp only [h, if_false]
      have := ih x
      simp only at this
      obtain ⟨h1, h2, h3⟩ := this
      have hxz : x ≤ z := by
        have := (not_lt_iff_le z x).mp (by rw [lt_def, cmp_swap x z]; cases hc : cmpVersion x z <;> simp_all)
        exact this
      refine ⟨by grind, h2, ?_⟩
      intro y hy
      simp at hy
      rcases hy with rfl | hy
      · grind
      · exact h3 y hy

theorem C04_min (l : List Version) :
    (minBy cmpVersion l = none ↔ l = []) ∧
    ∀ m, minBy cmpVersion l = some m → m ∈ l ∧ ∀ y ∈ l, m ≤ y := by
  cases l with
  | nil => simp [minBy]
  | cons x l =>
    simp only [minBy, reduceCtorEq, Option.some.injEq]
    refine ⟨by simp, ?_⟩
    intro m hm
    have := foldl_min_spec l x
    simp only at this
    rw [hm] at this
    obtain ⟨h1, h2, h3⟩ := this
    refine ⟨by grind, ?_⟩
    intro y hy
    simp at hy
    rcases hy with rfl | hy
    · exact h2
    · exact h3 y hy

/-! ## sorting and sets (`slice::sort`, `BTreeSet`) -/

theorem leB_iff (a b : Version) : Version.leB a b = true ↔ a ≤ b := by
  show (cmpVersion a b != .gt) = true ↔ (cmpVersion a b).isLE = true
  cases cmpVersion a b <;> simp [Ordering.isLE]

theorem leB_trans (a b c : Version) (h1 : Version.leB a b = true) (h2 : Version.leB b c = true) :
    Version.leB a c = true := by
  rw [leB_iff] at *; exact C04_trans a b c h1 h2

theorem leB_total (a b : Version) : (Version.leB a b || Version.leB b a) = true := by
  rw [Bool.or_eq_true, leB_iff, leB_iff]; exact C04_total a b

/-- **sorting yields an ascending list** -/
theorem C04_sort_sorted (l : List Version) : (sortVersions l).Pairwise (· ≤ ·) := by
  have := List.pairwise_mergeSort leB_trans leB_total l
  exact this.imp (fun h => (leB_iff _ _).mp h)

/-- … that is a rearrangement of the input -/
theorem C04_sort_perm (l : List Version) : (sortVersions l).Perm l := List.mergeSort_perm l _

/-- … and keeps precedence-equal (or already ordered) elements in their original order (stability:
versions differing only in build metadata stay as they were) -/
theorem C04_sort_stable (l : List Version) (a b : Version) (hab : a ≤ b) (h : [a, b].Sublist l) :
    [a, b].Sublist (sortVersions l) :=
  List.pair_sublist_mergeSort leB_trans leB_total ((leB_iff a b).mpr hab) h

/-- an already sorted list is left alone -/
theorem C04_sort_idem (l : List Version) : sortVersions (sortVersions l) = sortVersions l :=
  List.mergeSort_of_pairwise ((C04_sort_sorted l).imp (fun h => (leB_iff _ _).mpr h))

/-- the fields precedence looks at -/
abbrev Key := Nat × Nat × Nat × List Ident

def keyVersion (k : Key) : Version := ⟨k.1, k.2.1, k.2.2.1, k.2.2.2, []⟩
def keyLe (k1 k2 : Key) : Prop := keyVersion k1 ≤ keyVersion k2

theorem keyVersion_hashKey (v : Version) : cmpVersion (keyVersion v.hashKey) = cmpVersion { v with build := [] } := rfl

theorem key_le_iff (a b : Version) : keyLe a.hashKey b.hashKey ↔ a ≤ b := by
  unfold keyLe
  show (cmpVersion _ _).isLE = true ↔ (cmpVersion a b).isLE = true
  have := C04_build_ignored a b [] []
  simp only [keyVersion, Version.hashKey]
  rw [← this]

theorem keyLe_antisymm (k1 k2 : Key) (h1 : keyLe k1 k2) (h2 : keyLe k2 k1) : k1 = k2 := by
  obtain ⟨e1, e2, e3, e4⟩ := C04_antisymm _ _ h1 h2
  obtain ⟨a, b, c, d⟩ := k1
  obtain ⟨a', b', c', d'⟩ := k2
  simp only [keyVersion] at e1 e2 e3 e4
  subst e1 e2 e3 e4
  rfl

/-- **the sorted order is unique up to build metadata**: any two ascending rearrangements of the same
list agree field by field on everything precedence looks at -/
theorem C04_sorted_unique (l1 l2 : List Version) (hp : l1.Perm l2) (h1 : l1.Pairwise (· ≤ ·))
    (h2 : l2.Pairwise (· ≤ ·)) : l1.map Version.hashKey = l2.map Version.hashKey := by
  apply List.Perm.eq_of_pairwise (le := keyLe)
  · intro a b _ _ hab hba; exact keyLe_antisymm a b hab hba
  · rw [List.pairwise_map]; exact h1.imp (fun h => (key_le_iff _ _).mpr h)
  · rw [List.pairwise_map]; exact h2.imp (fun h => (key_le_iff _ _).mpr h)
  · exact hp.map _

/-- in particular every correct sorting routine returns what the model's sort returns, up to build
metadata -/
theorem C04_any_sort_agrees (l l' : List Version) (hp : l'.Perm l) (hs : l'.Pairwise (· ≤ ·)) :
    l'.map Version.hashKey = (sortVersions l).map Version.hashKey :=
  C04_sorted_unique l' (sortVersions l) (hp.trans (C04_sort_perm l).symm) hs (C04_sort_sorted l)

theorem mem_dedupFirst (l : List Version) (y : Version) : y ∈ dedupFirst l → y ∈ l := by
  induction l with
  | nil => simp [dedupFirst]
  | cons x xs ih =>
    simp only [dedupFirst, List.mem_cons, List.mem_filter]
    rintro (rfl | ⟨h, _⟩)
    · exact Or.inl rfl
    · exact Or.inr (ih h)

/-- a set of versions holds one element per precedence class … -/
theorem C04_set_distinct (l : List Version) : (dedupFirst l).Pairwise (fun a b => cmpVersion a b ≠ .eq) := by
  induction l with
  | nil => simp [dedupFirst]
  | cons x xs ih =>
    simp only [dedupFirst, List.pairwise_cons, List.mem_filter]
    refine ⟨?_, ih.filter _⟩
    rintro y ⟨_, hy⟩
    simpa using hy

/-- … and every input element is represented -/
theorem C04_set_covers (l : List Version) (y : Version) (hy : y ∈ l) :
    ∃ x ∈ dedupFirst l, cmpVersion x y = .eq := by
  induction l with
  | nil => cases hy
  | cons x xs ih =>
    simp only [List.mem_cons] at hy
    rcases hy with rfl | hy
    · exact ⟨y, by simp [dedupFirst], C04_refl y⟩
    · obtain ⟨z, hz, hzy⟩ := ih hy
      by_cases hxz : cmpVersion x z = .eq
      · refine ⟨x, by simp [dedupFirst], ?_⟩
        exact TransCmp.eq_trans (cmp := cmpVersion) hxz hzy
      · refine ⟨z, ?_, hzy⟩
        simp only [dedupFirst, List.mem_cons, List.mem_filter]
        exact Or.inr ⟨hz, by simpa using hxz⟩

/-! ## Non-vacuity: the order distinguishes the cases the statement names -/

example : cmpVersion ⟨1, 0, 0, [.alpha "alpha".toList], []⟩ ⟨1, 0, 0, [], []⟩ = .lt := by decide
example : cmpVersion ⟨1, 0, 0, [.num 9], []⟩ ⟨1, 0, 0, [.alpha "a".toList], []⟩ = .lt := by decide
example : cmpVersion ⟨1, 0, 0, [.num 9], []⟩ ⟨1, 0, 0, [.num 10], []⟩ = .lt := by decide
example : cmpVersion ⟨1, 0, 0, [.alpha "a".toList], []⟩ ⟨1, 0, 0, [.alpha "a".toList, .num 0], []⟩ = .lt := by decide
example : cmpVersion ⟨1, 0, 0, [.alpha "B".toList], []⟩ ⟨1, 0, 0, [.alpha "a".toList], []⟩ = .lt := by decide
example : cmpVersion ⟨1, 2, 3, [], [.num 1]⟩ ⟨1, 2, 3, [], [.num 2]⟩ = .eq := by decide

end Semver.C04
