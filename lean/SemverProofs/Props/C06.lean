import SemverProofs.Props.C15
import SemverProofs.Props.C17
import SemverProofs.Props.C11
import SemverProofs.Lemmas.ParseWF
import SemverProofs.Lemmas.NpmTables
import SemverProofs.Props.C05
import SemverModel.RangeFmt
/-!
# C06 — no input makes any public operation panic, overflow or hang

What a theorem about the model can carry (the rest — that the *compiled crate* does not panic and
runs in roughly linear time — is established per run by executing the crate under a
debug-assertions + overflow-checks build on every generated input and operation, and by a measured
scaling test in the thorough tier; both are labelled as testing in the evidence):

* **termination**: every model function is total; the loops of the range parser are defined by
  well-founded recursion on the remaining input with the progress lemmas of
  `SemverModel/Progress.lean` and `RangeParse.lean` (`simple_length`, `blanks1_length`,
  `logicalOr_length`: each iteration consumes at least one character), so winnow's
  "parser must always consume" assertions cannot fire;
* **parse results are well-formed** (`C06_parse_wf`) and every operation preserves well-formedness
  (C07_closed, C08_closed, C15_eval_denote);
* on well-formed values **no `unwrap()`/`unreachable!` site is reached**: `difference`'s unwraps
  (`C06_difference_no_panic`), `satisfies`' and `Display`'s unreachable arms
  (`C06_shaped`, `C06_display_total`), compositions of any depth (`C06_compositions_no_panic`);
* **no arithmetic overflow**: every component the parsers produce and every bound component is at
  most MAX_SAFE_INTEGER, so every `+ 1` in the crate stays far below `u64::MAX`
  (`C06_components_bounded`, `C06_bounds_bounded`);
* **error accessors**: `location()` is defined for every error either parser returns
  (`C06_location_total`).
-/
namespace Semver.C06
open Semver Pred Bound

/-- both parsers are total functions: an answer for every string -/
theorem C06_parse_total (s : List Char) :
    (∃ v, Version.parse s = .ok v) ∨ (∃ e, Version.parse s = .error e) := by
  cases h : Version.parse s with
  | ok v => exact Or.inl ⟨v, rfl⟩
  | error e => exact Or.inr ⟨e, rfl⟩

theorem C06_range_parse_total (s : List Char) :
    (∃ r, Range.parse s = .ok r) ∨ Range.parse s = .error ⟨s, 0, .noValidRanges⟩ := by
  cases h : Range.parse s with
  | ok r => exact Or.inl ⟨r, rfl⟩
  | error e => exact Or.inr (by rw [C17.C17_no_valid_ranges s e h])

/-- progress of the range parser's loops: the infinite-loop assertions of winnow's `separated`
cannot fire -/
theorem C06_progress (s : List Char) :
    (simple s).2.length ≤ s.length ∧ (∀ r, blanks1 s = some r → r.length < s.length) ∧
    (∀ r, logicalOr s = some r → r.length < s.length) :=
  ⟨simple_length s, fun _ h => blanks1_length h, fun _ h => logicalOr_length h⟩

/-- the whole input is consumed: `Range::parse` never stops in the middle -/
theorem C06_parse_wf (s : List Char) (r : Range) (h : Range.parse s = .ok r) : r.WF := parse_wf h

theorem C06_shaped (r : Range) (h : r.WF) : ∀ s ∈ r, s.shaped = true :=
  fun s hs => WF.shaped (h.2 s hs)

/-- `Display` never reaches `unreachable!("does not make sense")` -/
theorem C06_display_total (r : Range) (h : r.WF) : Range.render r ≠ none := by
  have hset : ∀ s : BoundSet, s.WF → s.render ≠ none := by
    intro s hs
    obtain ⟨p, q, rfl, _⟩ := hs
    cases p <;> cases q <;> simp [BoundSet.render] <;> split <;> simp
  have hall : ∀ l : List BoundSet, (∀ x ∈ l, x.WF) → Range.render l ≠ none := by
    intro l
    induction l with
    | nil => intro _; simp [Range.render]
    | cons s rest ih =>
      intro hwf
      cases rest with
      | nil => simpa [Range.render] using hset s (hwf s (by simp))
      | cons t rest' =>
        have h1 := hset s (hwf s (by simp))
        have h2 := ih (fun x hx => hwf x (by simp at hx ⊢; right; exact hx))
        simp only [Range.render]
        cases hs : s.render with
        | none => exact absurd hs h1
        | some a =>
          cases ht : Range.render (t :: rest') with
          | none => exact absurd ht h2
          | some b => simp
  exact hall r h.2

/-- `difference`'s two `unwrap()`s are never reached on well-formed operands -/
theorem C06_difference_no_panic (a b : Range) (ha : a.WF) (hb : b.WF) : Range.difference a b ≠ none := by
  obtain ⟨res, h⟩ := C08.C08_total ha hb
  rw [h]; simp

theorem C06_set_difference_no_panic (s o : BoundSet) (hs : s.WF) (ho : o.WF) :
    s.difference o ≠ .panic := by
  have := difference_spec hs ho
  intro h; rw [h] at this; exact this

/-- compositions of `intersect` / `difference` of any depth never panic and stay well-formed -/
theorem C06_compositions_no_panic (e : Expr) (h : C15.leavesWF e) : e.eval ≠ none :=
  C15.C15_no_panic e h

/-- `Range::any()`'s `unwrap()` is on a constant `Some` -/
theorem C06_any_total : Range.anyRange ≠ none := by decide

/-- every component `Version::parse` returns is within MAX_SAFE_INTEGER -/
theorem C06_components_bounded (s : List Char) (v : Version) (h : Version.parse s = .ok v) :
    v.major ≤ MAX_SAFE_INTEGER ∧ v.minor ≤ MAX_SAFE_INTEGER ∧ v.patch ≤ MAX_SAFE_INTEGER :=
  C05.C05_components_bounded s v h

/-- every bound of a well-formed range has components within MAX_SAFE_INTEGER: the `+ 1` of
`min_version` and of the parser tables is applied to numbers below 2^50 -/
theorem C06_bounds_bounded (r : Range) (h : r.WF) :
    ∀ s ∈ r, ∃ p q, s = ⟨up q, lo p⟩ ∧
      (∀ v, predVersion p = some v → v.major ≤ MAX_SAFE_INTEGER ∧ v.minor ≤ MAX_SAFE_INTEGER ∧ v.patch ≤ MAX_SAFE_INTEGER) ∧
      (∀ v, predVersion q = some v → v.major ≤ MAX_SAFE_INTEGER ∧ v.minor ≤ MAX_SAFE_INTEGER ∧ v.patch ≤ MAX_SAFE_INTEGER) := by
  intro s hs
  obtain ⟨p, q, rfl, vp, vq, _⟩ := h.2 s hs
  exact ⟨p, q, rfl, (valid_iff p).mp vp, (valid_iff q).mp vq⟩

/-- the numbers the range parser reads are bounded as well (it shares `number()`) -/
theorem C06_number_bounded (s r : List Char) (n : Nat) (h : number s = .ok n r) : n ≤ MAX_SAFE_INTEGER := by
  obtain ⟨_, _, _, _, _, hn, _⟩ := number_ok h
  exact hn

/-- `location()` is defined (no slice panic) for every error of either parser -/
theorem C06_location_total (s : List Char) (e : SemverError)
    (h : Version.parse s = .error e ∨ Range.parse s = .error e) : e.location ≠ none := by
  rcases h with h | h
  · exact (C17.C17_location_version s e h).2
  · rw [(C17.C17_location_range s e h).1]; simp

/-- `min_version` on a well-formed range returns a version whose components are at most MAX + 1 -/
theorem C06_min_version_shaped (r : Range) (h : r.WF) : C11.Shaped r := C11.shaped_of_wf h

end Semver.C06
