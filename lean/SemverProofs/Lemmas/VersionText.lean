import SemverProofs.Lemmas.Text
import SemverSpec.VersionGrammar
/-!
# Bridges between the model's character classes / number text and the specification's,
# and the identifier-list parser against the grammar
-/
namespace Semver
open Spec

theorem char_le_iff (a b : Char) : a ≤ b ↔ a.toNat ≤ b.toNat := by
  rw [Char.le_def]
  exact UInt32.le_iff_toNat_le

theorem digit_eq (c : Char) : Spec.digit c = isDigit c := by
  simp only [Spec.digit, isDigit]
  have h1 := char_le_iff '0' c
  have h2 := char_le_iff c '9'
  have e1 : ('0' : Char).toNat = 48 := by decide
  have e2 : ('9' : Char).toNat = 57 := by decide
  rw [e1] at h1; rw [e2] at h2
  simp only [ge_iff_le, ← h1, ← h2]

theorem letter_eq (c : Char) : Spec.letter c = isAlpha c := by
  simp only [Spec.letter, isAlpha]
  have h1 := char_le_iff 'a' c
  have h2 := char_le_iff c 'z'
  have h3 := char_le_iff 'A' c
  have h4 := char_le_iff c 'Z'
  have e1 : ('a' : Char).toNat = 97 := by decide
  have e2 : ('z' : Char).toNat = 122 := by decide
  have e3 : ('A' : Char).toNat = 65 := by decide
  have e4 : ('Z' : Char).toNat = 90 := by decide
  rw [e1] at h1; rw [e2] at h2; rw [e3] at h3; rw [e4] at h4
  simp only [ge_iff_le, ← h1, ← h2, ← h3, ← h4]

theorem idChar_eq (c : Char) : Spec.idChar c = isIdChar c := by
  simp [Spec.idChar, isIdChar, digit_eq, letter_eq]

theorem blank_eq (c : Char) : Spec.blank c = isBlank c := rfl

theorem all_digit_eq (t : List Char) : t.all Spec.digit = t.all isDigit := by
  congr 1

theorem all_idChar_eq (t : List Char) : t.all Spec.idChar = t.all isIdChar := by
  congr 1

theorem all_blank_eq (t : List Char) : t.all Spec.blank = t.all isBlank := rfl

theorem decimal_foldl (ds : List Char) (a : Nat) :
    ds.foldl (fun n c => 10 * n + (c.toNat - 48)) a = ds.foldl (fun acc c => acc * 10 + digitVal c) a := by
  induction ds generalizing a with
  | nil => rfl
  | cons c cs ih => simp only [List.foldl_cons, digitVal]; rw [Nat.mul_comm 10 a]; exact ih _

theorem decimal_eq (ds : List Char) : Spec.decimal ds = valOf ds := decimal_foldl ds 0

theorem utf8Length_eq (s : List Char) : Spec.utf8Length s = utf8Len s := by
  unfold Spec.utf8Length utf8Len
  generalize s.map Char.utf8Size = l
  rw [List.sum_eq_foldl]

theorem U64_eq : U64 = 18446744073709551616 := rfl
theorem MAX_eq : MAX_SAFE_INTEGER = 900719925474099 := rfl

/-- the model's classification is the grammar's -/
theorem idText_classify (t : List Char) (hne : t ≠ []) (hall : t.all isIdChar = true) :
    IdText t (classify t) := by
  refine ⟨hne, by rw [all_idChar_eq]; exact hall, ?_⟩
  simp only [classify, all_digit_eq, decimal_eq, U64_eq]
  rfl

theorem idText_unique {t : List Char} {i : Ident} (h : IdText t i) : i = classify t := by
  obtain ⟨_, _, h3⟩ := h
  rw [h3]
  simp only [classify, all_digit_eq, decimal_eq, U64_eq]
  rfl

theorem idText_all {t : List Char} {i : Ident} (h : IdText t i) : t.all isIdChar = true := by
  rw [← all_idChar_eq]; exact h.2.1

/-! ### `identifier`, `identTail`, `identList` against the grammar -/

theorem identifier_ok {s r : List Char} {i : Ident} (h : identifier s = .ok i r) :
    ∃ t, s = t ++ r ∧ IdText t i ∧ (∀ c, r.head? = some c → isIdChar c = false) := by
  unfold identifier at h
  simp only at h
  split at h
  · cases h
  · rename_i h1
    cases h
    have hne : (span isIdChar s).1 ≠ [] := by intro h0; simp [h0] at h1
    exact ⟨(span isIdChar s).1, (span_eq _ _).symm, idText_classify _ hne (span_fst_all _ _), span_snd_head _ _⟩

theorem identifier_append {t rest : List Char} {i : Ident} (h : IdText t i)
    (hr : ∀ c, rest.head? = some c → isIdChar c = false) : identifier (t ++ rest) = .ok i rest := by
  unfold identifier
  rw [span_append isIdChar t rest (idText_all h) hr]
  have h1 : t.isEmpty = false := by have := h.1; cases t <;> simp_all
  simp [h1, idText_unique h]

theorem identifier_err_of_head {s : List Char} (h : ∀ c, s.head? = some c → isIdChar c = false) :
    ∃ e, identifier s = .err e := by
  unfold identifier
  have : (span isIdChar s).1 = [] := by
    cases s with
    | nil => rfl
    | cons c cs => simp [span, h c rfl]
  simp [this]

theorem identTail_ok (fuel : Nat) (s : List Char) :
    ∃ T, s = T ++ (identTail fuel s).2 ∧ TailText T (identTail fuel s).1 := by
  induction fuel generalizing s with
  | zero => exact ⟨[], by simp [identTail], .nil⟩
  | succ n ih =>
    unfold identTail
    split
    · rename_i s'
      split
      · rename_i a rest h
        obtain ⟨t, hs, hid, _⟩ := identifier_ok h
        obtain ⟨T, hT, htail⟩ := ih rest
        refine ⟨'.' :: (t ++ T), ?_, .cons hid htail⟩
        simp only [List.cons_append, List.append_assoc]
        rw [← hT, ← hs]
      · exact ⟨[], by simp, .nil⟩
    · exact ⟨[], by simp, .nil⟩

theorem tailText_length {T : List Char} {ids : List Ident} (h : TailText T ids) : 2 * ids.length ≤ T.length := by
  induction h with
  | nil => simp
  | cons hid _ ih =>
    have := hid.1
    rename_i t i T is _
    cases t with
    | nil => exact absurd rfl this
    | cons c cs => simp; omega

/-- the characters that may follow a list of identifiers: anything but an identifier character or a dot -/
def idFollow (rest : List Char) : Prop := ∀ c, rest.head? = some c → isIdChar c = false ∧ c ≠ '.'

theorem identTail_append {T : List Char} {ids : List Ident} (h : TailText T ids) (rest : List Char)
    (hr : idFollow rest) (fuel : Nat) (hf : ids.length ≤ fuel) :
    identTail fuel (T ++ rest) = (ids, rest) := by
  induction h generalizing fuel with
  | nil =>
    cases fuel with
    | zero => simp [identTail]
    | succ n =>
      unfold identTail
      cases rest with
      | nil => simp
      | cons c cs =>
        have := (hr c rfl).2
        simp only [List.nil_append]
        split
        · rename_i s' heq; cases heq; exact absurd rfl this
        · rfl
  | cons hid htail ih =>
    rename_i t i T is
    cases fuel with
    | zero => simp at hf
    | succ n =>
      unfold identTail
      simp only [List.cons_append, List.append_assoc]
      have hnext : ∀ c, (T ++ rest).head? = some c → isIdChar c = false := by
        intro c hc
        cases htail with
        | nil => simp at hc; exact (hr c hc).1
        | cons _ _ => simp at hc; subst hc; decide
      rw [identifier_append hid hnext]
      simp only
      rw [ih n (by simp at hf; omega)]

theorem identList_ok {s r : List Char} {ids : List Ident} (h : identList s = .ok ids r) :
    ∃ T, s = T ++ r ∧ IdsText T ids := by
  unfold identList at h
  split at h
  · cases h
  · rename_i a rest h'
    cases h
    obtain ⟨t, hs, hid, _⟩ := identifier_ok h'
    obtain ⟨T, hT, htail⟩ := identTail_ok rest.length rest
    refine ⟨t ++ T, ?_, t, a, T, _, rfl, rfl, hid, htail⟩
    rw [List.append_assoc, ← hT, ← hs]

theorem identList_append {T : List Char} {ids : List Ident} (h : IdsText T ids) (rest : List Char)
    (hr : idFollow rest) : identList (T ++ rest) = .ok ids rest := by
  obtain ⟨t, i, T', is, rfl, rfl, hid, htail⟩ := h
  unfold identList
  have hnext : ∀ c, (T' ++ rest).head? = some c → isIdChar c = false := by
    intro c hc
    cases htail with
    | nil => simp at hc; exact (hr c hc).1
    | cons _ _ => simp at hc; subst hc; decide
  rw [List.append_assoc, identifier_append hid hnext]
  simp only
  have hl := tailText_length htail
  rw [identTail_append htail rest hr _ (by simp; omega)]

theorem idsText_head {T : List Char} {ids : List Ident} (h : IdsText T ids) :
    ∃ c t, T = c :: t ∧ isIdChar c = true := by
  obtain ⟨t, i, T', is, rfl, rfl, hid, _⟩ := h
  have := hid.1
  have hall := idText_all hid
  cases t with
  | nil => exact absurd rfl this
  | cons c cs => exact ⟨c, cs ++ T', rfl, by simp at hall; exact hall.1⟩

theorem idsText_ne_nil {T : List Char} {ids : List Ident} (h : IdsText T ids) : ids ≠ [] := by
  obtain ⟨t, i, T', is, _, rfl, _, _⟩ := h; simp

end Semver
