import SemverProofs.Lemmas.Bounds
/-!
# Interval operations on well-formed `BoundSet`s
-/
namespace Semver
open Pred Bound Std

/-- what every `BoundSet` built by the crate is: `(Lower p, Upper q)`, non-empty by `new`'s rule -/
def BoundSet.WF (s : BoundSet) : Prop := ∃ p q, s = ⟨up q, lo p⟩ ∧ p.valid ∧ q.valid ∧ nonEmpty p q

theorem within_mk (p q : Pred) (v : Version) :
    (BoundSet.mk (up q) (lo p)).within v = true ↔ memLo p v ∧ memUp q v := by
  cases p <;> cases q <;> simp [BoundSet.within, memLo, memUp]

theorem new_wf {p q : Pred} {s : BoundSet} (h : BoundSet.new (lo p) (up q) = some s) : s.WF := by
  have h1 := new_eq_some h
  have h2 : (BoundSet.new (lo p) (up q)).isSome = true := by rw [h]; rfl
  exact ⟨p, q, h1, (new_isSome p q).mp h2⟩

theorem new_of_nonEmpty {p q : Pred} (hp : p.valid) (hq : q.valid) (h : nonEmpty p q) :
    BoundSet.new (lo p) (up q) = some ⟨up q, lo p⟩ := by
  have := (new_isSome p q).mpr ⟨hp, hq, h⟩
  cases h' : BoundSet.new (lo p) (up q) with
  | none => rw [h'] at this; cases this
  | some s => rw [new_eq_some h']

theorem new_none_iff {p q : Pred} (hp : p.valid) (hq : q.valid) :
    BoundSet.new (lo p) (up q) = none ↔ ¬ nonEmpty p q := by
  have := new_isSome p q
  cases h : BoundSet.new (lo p) (up q) <;> simp_all

theorem WF.shaped {s : BoundSet} (h : s.WF) : s.shaped = true := by
  obtain ⟨p, q, rfl, _⟩ := h; rfl

/-! ### intersect -/

theorem intersect_mk (p q p' q' : Pred) :
    (BoundSet.mk (up q) (lo p)).intersect ⟨up q', lo p'⟩ =
      BoundSet.new (lo (maxLo p p')) (up (minUp q q')) := by
  simp [BoundSet.intersect, max_lo, min_up]

theorem intersect_some {s o r : BoundSet} (hs : s.WF) (ho : o.WF) (h : s.intersect o = some r) :
    r.WF ∧ ∀ v, r.within v = true ↔ (s.within v = true ∧ o.within v = true) := by
  obtain ⟨p, q, rfl, vp, vq, _⟩ := hs
  obtain ⟨p', q', rfl, vp', vq', _⟩ := ho
  rw [intersect_mk] at h
  refine ⟨new_wf h, ?_⟩
  intro v
  rw [new_eq_some h, within_mk, within_mk, within_mk, memLo_maxLo, memUp_minUp]
  grind

theorem intersect_none {s o : BoundSet} (hs : s.WF) (ho : o.WF) (h : s.intersect o = none) :
    ∀ v, ¬ (s.within v = true ∧ o.within v = true) := by
  obtain ⟨p, q, rfl, vp, vq, _⟩ := hs
  obtain ⟨p', q', rfl, vp', vq', _⟩ := ho
  rw [intersect_mk, new_none_iff (valid_maxLo vp vp') (valid_minUp vq vq')] at h
  intro v
  have := not_nonEmpty_empty h v
  rw [within_mk, within_mk]
  rw [memLo_maxLo, memUp_minUp] at this
  grind

theorem intersect_isSome_iff {p q p' q' : Pred} (vp : p.valid) (vq : q.valid) (vp' : p'.valid) (vq' : q'.valid)
    (h1 : nonEmpty p q) (h2 : nonEmpty p' q') :
    ((BoundSet.mk (up q) (lo p)).intersect ⟨up q', lo p'⟩).isSome = true ↔ nonEmpty p q' ∧ nonEmpty p' q := by
  rw [intersect_mk, new_isSome, nonEmpty_maxLo, nonEmpty_minUp, nonEmpty_minUp]
  have := valid_maxLo vp vp'
  have := valid_minUp vq vq'
  grind

/-! ### allows_any -/

theorem allowsAny_mk (p q p' q' : Pred) :
    (BoundSet.mk (up q) (lo p)).allowsAny ⟨up q', lo p'⟩ = true ↔ nonEmpty p q' ∧ nonEmpty p' q := by
  simp only [BoundSet.allowsAny]
  by_cases h1 : (up q').lt (lo p) = true
  · rw [if_pos h1]; rw [up_lt_lo] at h1; simp [h1]
  · rw [if_neg h1]; rw [up_lt_lo] at h1
    by_cases h2 : (up q).lt (lo p') = true
    · rw [if_pos h2]; rw [up_lt_lo] at h2; simp [h2]
    · rw [if_neg h2]; rw [up_lt_lo] at h2
      simp only [Classical.not_not] at h1 h2
      simp [h1, h2]

theorem allowsAny_eq_intersect {s o : BoundSet} (hs : s.WF) (ho : o.WF) :
    s.allowsAny o = (s.intersect o).isSome := by
  obtain ⟨p, q, rfl, vp, vq, h1⟩ := hs
  obtain ⟨p', q', rfl, vp', vq', h2⟩ := ho
  have a := allowsAny_mk p q p' q'
  have b := intersect_isSome_iff vp vq vp' vq' h1 h2
  cases h : (BoundSet.mk (up q) (lo p)).allowsAny ⟨up q', lo p'⟩ <;>
    cases h' : ((BoundSet.mk (up q) (lo p)).intersect ⟨up q', lo p'⟩).isSome <;> simp_all

theorem allowsAny_symm {s o : BoundSet} (hs : s.WF) (ho : o.WF) : s.allowsAny o = o.allowsAny s := by
  obtain ⟨p, q, rfl, vp, vq, h1⟩ := hs
  obtain ⟨p', q', rfl, vp', vq', h2⟩ := ho
  have a := allowsAny_mk p q p' q'
  have b := allowsAny_mk p' q' p q
  cases h : (BoundSet.mk (up q) (lo p)).allowsAny ⟨up q', lo p'⟩ <;>
    cases h' : (BoundSet.mk (up q') (lo p')).allowsAny ⟨up q, lo p⟩ <;> simp_all

/-! ### allows_all -/

theorem allowsAll_mk (p q p' q' : Pred) :
    (BoundSet.mk (up q) (lo p)).allowsAll ⟨up q', lo p'⟩ = true ↔ ¬ loLt p' p ∧ ¬ upLt q q' := by
  simp [BoundSet.allowsAll, lo_le_lo, up_le_up]

theorem allowsAll_sound {s o : BoundSet} (hs : s.WF) (ho : o.WF) (h : s.allowsAll o = true) :
    ∀ v, o.within v = true → s.within v = true := by
  obtain ⟨p, q, rfl, vp, vq, _⟩ := hs
  obtain ⟨p', q', rfl, vp', vq', _⟩ := ho
  rw [allowsAll_mk] at h
  intro v
  rw [within_mk, within_mk]
  intro ⟨h1, h2⟩
  exact ⟨memLo_of_not_loLt h.1 v h1, memUp_of_not_upLt h.2 v h2⟩

theorem allowsAll_refl {s : BoundSet} (hs : s.WF) : s.allowsAll s = true := by
  obtain ⟨p, q, rfl, vp, vq, _⟩ := hs
  rw [allowsAll_mk]
  constructor
  · cases p <;> simp [loLt] <;> grind
  · cases q <;> simp [upLt] <;> grind

theorem allowsAll_imp_allowsAny {s o : BoundSet} (hs : s.WF) (ho : o.WF) (h : s.allowsAll o = true) :
    s.allowsAny o = true := by
  obtain ⟨p, q, rfl, vp, vq, h1⟩ := hs
  obtain ⟨p', q', rfl, vp', vq', h2⟩ := ho
  rw [allowsAll_mk] at h
  rw [allowsAny_mk]
  obtain ⟨ha, hb⟩ := h
  constructor
  · cases p <;> cases p' <;> cases q' <;> simp_all [loLt, nonEmpty] <;> grind
  · cases q <;> cases p' <;> cases q' <;> simp_all [upLt, nonEmpty] <;> grind

end Semver

namespace Semver
open Pred Bound Std

/-! ### difference -/

theorem loLt_maxLo (p p' : Pred) : loLt p (maxLo p p') ↔ loLt p p' := by
  unfold maxLo
  by_cases h : (lo p').lt (lo p) = true
  · rw [if_pos h]; rw [lo_lt_lo] at h
    cases p <;> cases p' <;> simp_all [loLt] <;> grind
  · rw [if_neg h]

theorem maxLo_of_loLt {p p' : Pred} (h : loLt p p') : maxLo p p' = p' := by
  unfold maxLo
  by_cases h' : (lo p').lt (lo p) = true
  · rw [lo_lt_lo] at h'
    cases p <;> cases p' <;> simp_all [loLt] <;> grind
  · rw [if_neg h']

theorem upLt_minUp (q q' : Pred) : upLt (minUp q q') q ↔ upLt q' q := by
  unfold minUp
  by_cases h : (up q').lt (up q) = true
  · rw [if_pos h]
  · rw [if_neg h]; rw [up_lt_up] at h
    cases q <;> cases q' <;> simp_all [upLt] <;> grind

theorem minUp_of_upLt {q q' : Pred} (h : upLt q' q) : minUp q q' = q' := by
  unfold minUp
  rw [if_pos ((up_lt_up q' q).mpr h)]

theorem maxLo_eqv_of_not_loLt {p p' : Pred} (h : ¬ loLt p p') : predEqv (maxLo p p') p := by
  unfold maxLo
  by_cases h' : (lo p').lt (lo p) = true
  · rw [if_pos h']; cases p <;> simp [predEqv] <;> grind
  · rw [if_neg h']; rw [lo_lt_lo] at h'
    exact predEqv_of_not_loLt h' h

theorem minUp_eqv_of_not_upLt {q q' : Pred} (h : ¬ upLt q' q) : predEqv (minUp q q') q := by
  unfold minUp
  rw [if_neg (by rw [up_lt_up]; exact h)]
  cases q <;> simp [predEqv] <;> grind

theorem beq_mk (p q p' q' : Pred) :
    (BoundSet.mk (up q) (lo p)).beq ⟨up q', lo p'⟩ = true ↔ predEqv q q' ∧ predEqv p p' := by
  simp [BoundSet.beq, Bound.beq, predBeq_iff]

theorem lt_lo_maxLo_true {p p' : Pred} (h : loLt p p') : (lo p).lt (lo (maxLo p p')) = true :=
  (lo_lt_lo _ _).mpr ((loLt_maxLo p p').mpr h)

theorem lt_lo_maxLo_false {p p' : Pred} (h : ¬ loLt p p') : (lo p).lt (lo (maxLo p p')) = false := by
  rw [Bool.eq_false_iff]
  intro h'
  exact h ((loLt_maxLo _ _).mp ((lo_lt_lo _ _).mp h'))

theorem lt_up_minUp_true {q q' : Pred} (h : upLt q' q) : (up (minUp q q')).lt (up q) = true :=
  (up_lt_up _ _).mpr ((upLt_minUp q q').mpr h)

theorem lt_up_minUp_false {q q' : Pred} (h : ¬ upLt q' q) : (up (minUp q q')).lt (up q) = false := by
  rw [Bool.eq_false_iff]
  intro h'
  exact h ((upLt_minUp _ _).mp ((up_lt_up _ _).mp h'))

/-- the outcome of `BoundSet::difference` on well-formed operands: never the `unwrap()` panic,
`none` only if nothing of `s` lies outside `o`, otherwise well-formed pieces that cover exactly
`s \ o`. -/
theorem difference_spec {s o : BoundSet} (hs : s.WF) (ho : o.WF) :
    match s.difference o with
    | .panic => False
    | .none => ∀ v, s.within v = true → o.within v = true
    | .some l => (∀ x ∈ l, x.WF) ∧
        ∀ v, (∃ x ∈ l, x.within v = true) ↔ (s.within v = true ∧ ¬ o.within v = true) := by
  obtain ⟨p, q, rfl, vp, vq, h1⟩ := hs
  obtain ⟨p', q', rfl, vp', vq', h2⟩ := ho
  unfold BoundSet.difference
  rw [intersect_mk]
  by_cases hne : nonEmpty (maxLo p p') (minUp q q')
  · rw [new_of_nonEmpty (valid_maxLo vp vp') (valid_minUp vq vq') hne]
    simp only
    by_cases hbeq : (BoundSet.mk (up (minUp q q')) (lo (maxLo p p'))).beq ⟨up q, lo p⟩ = true
    · -- overlap equals self: nothing remains
      rw [if_pos hbeq]
      rw [beq_mk] at hbeq
      simp only
      intro v hv
      rw [within_mk] at hv ⊢
      obtain ⟨ha, hb⟩ := hv
      have hb' := (predEqv_memUp hbeq.1 v).mpr hb
      have ha' := (predEqv_memLo hbeq.2 v).mpr ha
      rw [memUp_minUp] at hb'
      rw [memLo_maxLo] at ha'
      exact ⟨ha'.2, hb'.2⟩
    · rw [if_neg hbeq]
      simp only [Bound.predicate]
      by_cases hl : loLt p p'
      · by_cases hu : upLt q' q
        · -- two remainders
          simp only [lt_lo_maxLo_true hl, lt_up_minUp_true hu, Bool.and_self, if_true]
          rw [maxLo_of_loLt hl, minUp_of_upLt hu]
          rw [new_of_nonEmpty vp (valid_flip vp') (nonEmpty_flip_of_loLt hl), new_of_nonEmpty (valid_flip vq') vq (nonEmpty_flip_of_upLt hu)]
          simp only
          refine ⟨?_, ?_⟩
          · intro x hx
            simp at hx
            rcases hx with rfl | rfl
            · exact ⟨p, p'.flip, rfl, vp, valid_flip vp', nonEmpty_flip_of_loLt hl⟩
            · exact ⟨q'.flip, q, rfl, valid_flip vq', vq, nonEmpty_flip_of_upLt hu⟩
          · intro v
            simp only [List.mem_cons, List.not_mem_nil, or_false, exists_eq_or_imp, exists_eq_left, within_mk]
            rw [memUp_flip (loLt_ne_unb hl), memLo_flip (upLt_ne_unb hu)]
            have a := memLo_of_loLt hl v
            have b := memUp_of_upLt hu v
            rw [maxLo_of_loLt hl, minUp_of_upLt hu] at hne
            have c : memLo p v ∧ ¬ memLo p' v → memUp q v := by
              intro ⟨c1, c2⟩
              cases p <;> cases p' <;> cases q <;> cases q' <;>
                simp_all [memLo, memUp, loLt, upLt, nonEmpty] <;> grind
            have d : memUp q v ∧ ¬ memUp q' v → memLo p v := by
              intro ⟨c1, c2⟩
              cases p <;> cases p' <;> cases q <;> cases q' <;>
                simp_all [memLo, memUp, loLt, upLt, nonEmpty] <;> grind
            grind
        · -- left remainder only
          simp only [lt_lo_maxLo_true hl, lt_up_minUp_false hu, Bool.and_false, Bool.false_eq_true, if_false, if_true]
          rw [maxLo_of_loLt hl, new_of_nonEmpty vp (valid_flip vp') (nonEmpty_flip_of_loLt hl)]
          simp only
          refine ⟨?_, ?_⟩
          · intro x hx
            simp at hx
            subst hx
            exact ⟨p, p'.flip, rfl, vp, valid_flip vp', nonEmpty_flip_of_loLt hl⟩
          · intro v
            simp only [List.mem_cons, List.not_mem_nil, or_false, exists_eq_left, within_mk]
            rw [memUp_flip (loLt_ne_unb hl)]
            have a := memLo_of_loLt hl v
            have b := memUp_of_not_upLt hu v
            rw [maxLo_of_loLt hl] at hne
            have e := minUp_eqv_of_not_upLt hu
            have c : memLo p v ∧ ¬ memLo p' v → memUp q v := by
              intro ⟨c1, c2⟩
              have hne' := not_nonEmpty_empty (p := p') (q := minUp q q')
              have e' := predEqv_memUp e v
              cases p <;> cases p' <;> cases q <;>
                simp_all [memLo, memUp, loLt, nonEmpty] <;> grind
            grind
      · simp only [lt_lo_maxLo_false hl, Bool.false_and, Bool.false_eq_true, if_false]
        -- right remainder (or nothing)
        by_cases hu : upLt q' q
        · rw [minUp_of_upLt hu, new_of_nonEmpty (valid_flip vq') vq (nonEmpty_flip_of_upLt hu)]
          simp only
          refine ⟨?_, ?_⟩
          · intro x hx
            simp at hx
            subst hx
            exact ⟨q'.flip, q, rfl, valid_flip vq', vq, nonEmpty_flip_of_upLt hu⟩
          · intro v
            simp only [List.mem_cons, List.not_mem_nil, or_false, exists_eq_left, within_mk]
            rw [memLo_flip (upLt_ne_unb hu)]
            have a := memLo_of_not_loLt hl v
            have b := memUp_of_upLt hu v
            rw [minUp_of_upLt hu] at hne
            have e := maxLo_eqv_of_not_loLt hl
            have d : memUp q v ∧ ¬ memUp q' v → memLo p v := by
              intro ⟨c1, c2⟩
              have e' := predEqv_memLo e v
              cases p <;> cases q <;> cases q' <;>
                simp_all [memLo, memUp, upLt, nonEmpty] <;> grind
            grind
        · -- overlap has the same bounds as self: contradiction with `hbeq`
          exfalso
          apply hbeq
          rw [beq_mk]
          exact ⟨minUp_eqv_of_not_upLt hu, maxLo_eqv_of_not_loLt hl⟩
  · -- disjoint: self remains
    rw [(new_none_iff (valid_maxLo vp vp') (valid_minUp vq vq')).mpr hne]
    simp only
    refine ⟨?_, ?_⟩
    · intro x hx
      simp at hx
      subst hx
      exact ⟨p, q, rfl, vp, vq, h1⟩
    · intro v
      simp only [List.mem_cons, List.not_mem_nil, or_false, exists_eq_left, within_mk]
      have := not_nonEmpty_empty hne v
      rw [memLo_maxLo, memUp_minUp] at this
      grind

end Semver
