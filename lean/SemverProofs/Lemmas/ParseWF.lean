import SemverProofs.Lemmas.Ranges
import SemverModel.RangeParse
/-!
# Every range returned by `Range::parse` is well-formed

Each comparator goes through `BoundSet::new` (directly or via `at_least` / `at_most` / `exact`), the
fold intersects well-formed sets, and `Range::parse` fails when no alternative is left.
-/
namespace Semver
open Pred Bound

theorem atLeast_wf {p : Pred} {s : BoundSet} (h : BoundSet.atLeast p = some s) : s.WF := new_wf h
theorem atMost_wf {p : Pred} {s : BoundSet} (h : BoundSet.atMost p = some s) : s.WF := new_wf h
theorem exact_wf {v : Version} {s : BoundSet} (h : BoundSet.exact v = some s) : s.WF := new_wf h

theorem primitiveSet_wf {op : Operation} {p : Partial} {s : BoundSet} (h : primitiveSet op p = some s) : s.WF := by
  unfold primitiveSet at h
  split at h <;> first | exact atLeast_wf h | exact atMost_wf h | exact exact_wf h | exact new_wf h

theorem partialSet_wf {p : Partial} {s : BoundSet} (h : partialSet p = some s) : s.WF := by
  unfold partialSet at h
  split at h <;> first | exact atLeast_wf h | exact atMost_wf h | exact exact_wf h | exact new_wf h

theorem tildeSet_wf {g : Bool} {p : Partial} {s : BoundSet} (h : tildeSet g p = some s) : s.WF := by
  unfold tildeSet at h
  split at h <;> first | exact atLeast_wf h | exact atMost_wf h | exact exact_wf h | exact new_wf h | cases h

theorem caretSet_wf {p : Partial} {s : BoundSet} (h : caretSet p = some s) : s.WF := by
  unfold caretSet at h
  split at h <;> first | exact atLeast_wf h | exact atMost_wf h | exact exact_wf h | exact new_wf h | cases h

theorem hyphenSet_wf {l : Option Partial} {u : Pred} {s : BoundSet} (h : hyphenSet l u = some s) : s.WF := by
  unfold hyphenSet at h
  split at h
  · exact new_wf h
  · split at h
    · exact atLeast_wf h
    · exact atMost_wf h

/-- optional set: well-formed when present -/
def OptWF (o : Option BoundSet) : Prop := ∀ s, o = some s → s.WF

theorem primitive_wf {s r} {o : Option BoundSet} (h : primitive s = some (o, r)) : OptWF o := by
  unfold primitive at h
  split at h
  · cases h
  · split at h
    · cases h
    · cases h; intro x hx; exact primitiveSet_wf hx

theorem partialP_wf {s r} {o : Option BoundSet} (h : partialP s = some (o, r)) : OptWF o := by
  unfold partialP at h
  split at h
  · cases h
  · cases h; intro x hx; exact partialSet_wf hx

theorem tilde_wf {s r} {o : Option BoundSet} (h : tilde s = some (o, r)) : OptWF o := by
  unfold tilde at h
  split at h
  · cases h
  · split at h
    · cases h
    · cases h; intro x hx; exact tildeSet_wf hx

theorem caret_wf {s r} {o : Option BoundSet} (h : caret s = some (o, r)) : OptWF o := by
  unfold caret at h
  split at h
  · split at h
    · cases h
    · cases h; intro x hx; exact caretSet_wf hx
  · cases h

theorem hyphen_wf {s r} {o : Option BoundSet} (h : hyphen s = some (o, r)) : OptWF o := by
  obtain ⟨u, _, rfl⟩ := hyphen_some h
  intro x hx; exact hyphenSet_wf hx

theorem simple_wf (s : List Char) : OptWF (simple s).1 := by
  unfold simple
  split
  · rename_i x h; exact hyphen_wf (r := x.2) (terminated_eq h)
  · split
    · rename_i x h; exact primitive_wf (r := x.2) (terminated_eq h)
    · split
      · rename_i x h; exact partialP_wf (r := x.2) (terminated_eq h)
      · split
        · rename_i x h; exact tilde_wf (r := x.2) (terminated_eq h)
        · split
          · rename_i x h; exact caret_wf (r := x.2) (terminated_eq h)
          · intro x hx; cases hx

theorem rangeTail_wf (s : List Char) : ∀ o ∈ (rangeTail s).1, OptWF o := by
  generalize hn : s.length = n
  induction n using Nat.strongRecOn generalizing s with
  | _ n ih =>
    rw [rangeTail]
    split
    · simp
    · rename_i r h
      have h1 := blanks1_length h
      have h2 := simple_length r
      intro o ho
      simp only [List.mem_cons] at ho
      rcases ho with rfl | ho
      · exact simple_wf r
      · exact ih (simple r).2.length (by omega) (simple r).2 rfl o ho

theorem foldl_intersect_wf (rest : List BoundSet) (first : BoundSet) (hf : first.WF) (hr : ∀ s ∈ rest, s.WF) :
    ∀ s, rest.foldl (fun acc b => acc.bind (·.intersect b)) (some first) = some s → s.WF := by
  induction rest generalizing first with
  | nil => intro s h; simp at h; subst h; exact hf
  | cons b rest ih =>
    intro s h
    simp only [List.foldl_cons, Option.bind_some] at h
    cases hi : first.intersect b with
    | none =>
      rw [hi] at h
      have : ∀ l : List BoundSet, l.foldl (fun (acc : Option BoundSet) b => acc.bind (·.intersect b)) none = none := by
        intro l; induction l <;> simp_all
      rw [this] at h; cases h
    | some x =>
      rw [hi] at h
      exact ih x (intersect_some hf (hr b (by simp)) hi).1 (fun s hs => hr s (by simp [hs])) s h

theorem foldSets_wf (bs : List (Option BoundSet)) (h : ∀ o ∈ bs, OptWF o) : ∀ s ∈ foldSets bs, s.WF := by
  unfold foldSets
  have hall : ∀ s ∈ bs.filterMap id, s.WF := by
    intro s hs
    rw [List.mem_filterMap] at hs
    obtain ⟨o, ho, hos⟩ := hs
    exact h o ho s hos
  split
  · simp
  · rename_i first rest heq
    rw [heq] at hall
    split
    · rename_i s hs
      intro x hx
      simp at hx; subst hx
      exact foldl_intersect_wf rest first (hall first (by simp)) (fun s hs => hall s (by simp [hs])) _ hs
    · simp

theorem rangeP_wf (s : List Char) : ∀ x ∈ (rangeP s).1, x.WF := by
  unfold rangeP
  apply foldSets_wf
  intro o ho
  simp only [List.mem_cons] at ho
  rcases ho with rfl | ho
  · exact simple_wf s
  · exact rangeTail_wf _ o ho

theorem boundSetsTail_wf (s : List Char) : ∀ l ∈ (boundSetsTail s).1, ∀ x ∈ l, x.WF := by
  generalize hn : s.length = n
  induction n using Nat.strongRecOn generalizing s with
  | _ n ih =>
    rw [boundSetsTail]
    split
    · simp
    · rename_i r h
      have h1 := logicalOr_length h
      have h2 := rangeP_length r
      intro l hl
      simp only [List.mem_cons] at hl
      rcases hl with rfl | hl
      · exact rangeP_wf r
      · exact ih (rangeP r).2.length (by omega) (rangeP r).2 rfl l hl

theorem boundSets_wf (s : List Char) : ∀ x ∈ (boundSets s).1, x.WF := by
  unfold boundSets
  intro x hx
  simp only [List.mem_flatten, List.mem_cons] at hx
  obtain ⟨l, hl, hxl⟩ := hx
  rcases hl with rfl | hl
  · exact rangeP_wf s x hxl
  · exact boundSetsTail_wf _ l hl x hxl

/-- **parse results are well-formed** -/
theorem parse_wf {s : List Char} {r : Range} (h : Range.parse s = .ok r) : r.WF := by
  unfold Range.parse at h
  simp only at h
  split at h
  · cases h
  · rename_i hne
    cases h
    exact ⟨by intro h0; simp [h0] at hne, boundSets_wf _⟩

end Semver
