import SemverProofs.Lemmas.NpmComps
import SemverProofs.Lemmas.ParseWF
import SemverProofs.Lemmas.Succ
/-!
# The crate's desugaring tables against npm's documented ones (C01, part T1)
-/
namespace Semver
open Pred Bound Spec Spec.Npm

/-- the property's domain of versions: components within MAX_SAFE_INTEGER -/
def inDomain (v : Version) : Prop :=
  v.major ≤ MAX_SAFE_INTEGER ∧ v.minor ≤ MAX_SAFE_INTEGER ∧ v.patch ≤ MAX_SAFE_INTEGER

theorem npmMAX_eq : Npm.MAX = MAX_SAFE_INTEGER := rfl

def predVersion : Pred → Option Version
  | inc v => some v
  | exc v => some v
  | unb => none

theorem valid_iff (p : Pred) : p.valid ↔
    ∀ v, predVersion p = some v → v.major ≤ MAX_SAFE_INTEGER ∧ v.minor ≤ MAX_SAFE_INTEGER ∧ v.patch ≤ MAX_SAFE_INTEGER := by
  cases p <;> simp [Pred.valid, Bound.isValid, predVersion, and_assoc]

theorem validComp_iff (c : Comp) : validComp c = true ↔
    (c.v.major ≤ MAX_SAFE_INTEGER ∧ c.v.minor ≤ MAX_SAFE_INTEGER ∧ c.v.patch ≤ MAX_SAFE_INTEGER) := by
  unfold validComp
  simp only [Bool.and_eq_true, decide_eq_true_eq, and_assoc]
  exact Iff.rfl

theorem all_valid_bounds (P Q : Pred) :
    (loComp P ++ upComp Q).all validComp = true ↔ (P.valid ∧ Q.valid) := by
  rw [valid_iff, valid_iff, List.all_eq_true]
  constructor
  · intro h
    constructor
    · intro v hv
      cases P <;> simp [predVersion] at hv <;> subst hv
      · exact (validComp_iff ⟨.gt, _⟩).mp (h _ (by simp [loComp]))
      · exact (validComp_iff ⟨.ge, _⟩).mp (h _ (by simp [loComp]))
    · intro v hv
      cases Q <;> simp [predVersion] at hv <;> subst hv
      · exact (validComp_iff ⟨.lt, _⟩).mp (h _ (by simp [upComp]))
      · exact (validComp_iff ⟨.le, _⟩).mp (h _ (by simp [upComp]))
  · intro ⟨hp, hq⟩ c hc
    rw [validComp_iff]
    rw [List.mem_append] at hc
    rcases hc with hc | hc
    · cases P <;> simp [loComp] at hc <;> subst hc <;> exact hp _ rfl
    · cases Q <;> simp [upComp] at hc <;> subst hc <;> exact hq _ rfl

open Classical in
theorem checked_bounds (P Q : Pred) :
    checked (loComp P ++ upComp Q) = if P.valid ∧ Q.valid then some (loComp P ++ upComp Q) else none := by
  unfold checked
  have := all_valid_bounds P Q
  by_cases h : P.valid ∧ Q.valid
  · rw [if_pos h, if_pos (this.mpr h)]
  · rw [if_neg h, if_neg (fun h' => h (this.mp h'))]

/-- **the interval constructor against the comparator list of its two bounds** -/
theorem new_table (P Q : Pred) :
    match checked (loComp P ++ upComp Q) with
    | none => BoundSet.new (lo P) (up Q) = none
    | some cs =>
      match BoundSet.new (lo P) (up Q) with
      | some s => s.WF ∧ ∀ v, AgreeAt s cs v
      | none => ¬ nonEmpty P Q ∧ ∀ v, compsSat cs v = false := by
  rw [checked_bounds]
  by_cases hv : P.valid ∧ Q.valid
  · rw [if_pos hv]
    simp only
    by_cases hne : nonEmpty P Q
    · rw [new_of_nonEmpty hv.1 hv.2 hne]
      exact ⟨⟨P, Q, rfl, hv.1, hv.2, hne⟩, fun v => agreeAt_self P Q v⟩
    · rw [(new_none_iff hv.1 hv.2).mpr hne]
      refine ⟨hne, ?_⟩
      intro v
      have := not_nonEmpty_empty hne v
      rw [← sat_eq_comps]
      cases h : (BoundSet.mk (up Q) (lo P)).satisfies v with
      | false => rfl
      | true =>
        rw [satisfies_iff, within_mk] at h
        exact absurd h.1 this
  · rw [if_neg hv]
    simp only
    have := new_isSome P Q
    cases h : BoundSet.new (lo P) (up Q) with
    | none => rfl
    | some s =>
      rw [h] at this
      exact absurd (this.mp rfl) (fun h' => hv ⟨h'.1, h'.2.1⟩)

/-- the statement proved for every table entry of a *simple* range: an invalid comparator is dropped
by both sides; otherwise the crate builds a well-formed interval that agrees with npm's comparators
on every version of the domain (it is never silently dropped) -/
def TableOK (model : Option BoundSet) (spec : Option (List Comp)) : Prop :=
  match spec with
  | none => model = none
  | some cs => ∃ s, model = some s ∧ s.WF ∧ ∀ v, inDomain v → AgreeAt s cs v

theorem tableOK_of_new {P Q : Pred} (hne : P.valid → Q.valid → nonEmpty P Q) :
    TableOK (BoundSet.new (lo P) (up Q)) (checked (loComp P ++ upComp Q)) := by
  have h := new_table P Q
  unfold TableOK
  rw [checked_bounds] at h ⊢
  by_cases hv : P.valid ∧ Q.valid
  · rw [if_pos hv] at h ⊢
    simp only at h ⊢
    rw [new_of_nonEmpty hv.1 hv.2 (hne hv.1 hv.2)] at h ⊢
    exact ⟨_, rfl, h.1, fun v _ => h.2 v⟩
  · rw [if_neg hv] at h ⊢
    exact h

/-! ### ordering facts used by the non-emptiness side conditions -/

theorem mk3_lt_mk4_major (M a b c d e : Nat) : Version.mk3 M a b < Version.mk4 (M + 1) c d e := by
  rw [lt_iff_prec]; simp [Spec.prec, Version.mk3, Version.mk4]

theorem mk3_lt_mk4_minor (M m b d e : Nat) : Version.mk3 M m b < Version.mk4 M (m + 1) d e := by
  rw [lt_iff_prec]; simp [Spec.prec, Version.mk3, Version.mk4]

theorem full_lt_mk4_major (M m p : Nat) (pre build : List Ident) (c d e : Nat) :
    (⟨M, m, p, pre, build⟩ : Version) < Version.mk4 (M + 1) c d e := by
  rw [lt_iff_prec]; simp [Spec.prec, Version.mk4]

theorem full_lt_mk4_minor (M m p : Nat) (pre build : List Ident) (d e : Nat) :
    (⟨M, m, p, pre, build⟩ : Version) < Version.mk4 M (m + 1) d e := by
  rw [lt_iff_prec]; simp [Spec.prec, Version.mk4]

theorem full_lt_mk4_patch (M m p : Nat) (pre build : List Ident) (e : Nat) :
    (⟨M, m, p, pre, build⟩ : Version) < Version.mk4 M m (p + 1) e := by
  rw [lt_iff_prec]; simp [Spec.prec, Version.mk4]

theorem le_self (v : Version) : v ≤ v := by grind

end Semver

namespace Semver
open Pred Bound Spec Spec.Npm

/-- the crate's `Partial` of an npm partial (after wildcard propagation) -/
def fromNP : NP → Partial
  | .any => ⟨none, none, none, [], []⟩
  | .maj M => ⟨some M, none, none, [], []⟩
  | .majMin M m => ⟨some M, some m, none, [], []⟩
  | .full M m p pre build => ⟨some M, some m, some p, pre, build⟩

/-- replacing the comparator list by one that is equivalent on the domain -/
theorem tableOK_congr {model : Option BoundSet} {cs cs' : List Comp}
    (h : TableOK model (checked cs))
    (hvalid : cs.all validComp = cs'.all validComp)
    (hadm : ∀ v, inDomain v → cs.all (·.admits v) = cs'.all (·.admits v))
    (htag : ∀ v, inDomain v → cs.all (·.admits v) = true → v.isPre = true →
      cs.any (·.tagged v) = cs'.any (·.tagged v)) :
    TableOK model (checked cs') := by
  unfold TableOK checked at h ⊢
  rw [← hvalid]
  split at h
  · rename_i heq
    split at heq
    · cases heq
    · rename_i hv
      rw [if_neg hv]; exact h
  · rename_i cs0 heq
    split at heq
    · rename_i hv
      cases heq
      rw [if_pos hv]
      obtain ⟨s, hs, hwf, hag⟩ := h
      refine ⟨s, hs, hwf, ?_⟩
      intro v hd
      obtain ⟨a1, a2⟩ := hag v hd
      refine ⟨by rw [a1, hadm v hd], ?_⟩
      intro hw hp
      rw [a2 hw hp]
      exact htag v hd (by rw [← a1]; exact hw) hp
    · cases heq

theorem admits_eq_iff (v w : Version) :
    (Comp.mk .eq v).admits w = ((Comp.mk .ge v).admits w && (Comp.mk .le v).admits w) := by
  simp only [Comp.admits]
  cases Spec.prec w v <;> rfl

theorem prec_build_r (a b : Version) (x : List Ident) : Spec.prec a { b with build := x } = Spec.prec a b := by
  simp [Spec.prec]

theorem prec_build_l (a b : Version) (x : List Ident) : Spec.prec { a with build := x } b = Spec.prec a b := by
  simp [Spec.prec]

/-! ### bare partials / X-ranges -/

theorem bare_table (np : NP) : TableOK (partialSet (fromNP np)) (Npm.bare np) := by
  cases np with
  | any =>
    exact tableOK_of_new (P := inc (Version.mk3 0 0 0)) (Q := unb) (fun _ _ => trivial)
  | maj M =>
    exact tableOK_of_new (P := inc (Version.mk3 M 0 0)) (Q := exc (Version.mk4 (M + 1) 0 0 0))
      (fun _ _ => mk3_lt_mk4_major M 0 0 0 0 0)
  | majMin M m =>
    exact tableOK_of_new (P := inc (Version.mk3 M m 0)) (Q := exc (Version.mk4 M (m + 1) 0 0))
      (fun _ _ => mk3_lt_mk4_minor M m 0 0 0)
  | full M m p pre build =>
    have h := tableOK_of_new (P := inc ⟨M, m, p, pre, build⟩) (Q := inc ⟨M, m, p, pre, build⟩)
      (fun _ _ => le_self _)
    apply tableOK_congr h
    · simp [loComp, upComp, validComp]
    · intro v _; simp [loComp, upComp, admits_eq_iff]
    · intro v _ _ _; simp [loComp, upComp, Comp.tagged]

end Semver

namespace Semver
open Pred Bound Spec Spec.Npm

/-- the table entries on which the crate knowingly differs from npm (known findings K2, K3) -/
def knownException : Simple → Prop
  | .prim .lt (.maj _) => True                               -- K2: `<M` read as `<M.0.0`
  | .caret (.maj 0) => True                                  -- K2: `^0` read as `<1.0.0-0`
  | .prim .le (.maj M) => M = MAX_SAFE_INTEGER               -- K3
  | .prim .le (.majMin _ m) => m = MAX_SAFE_INTEGER          -- K3
  | _ => False

theorem le_max_admits (M a b : Nat) (v : Version) (hd : inDomain v) (ha : a = MAX_SAFE_INTEGER)
    (hb : b = MAX_SAFE_INTEGER) :
    (Comp.mk .le (Version.mk3 M a b)).admits v = (Comp.mk .lt (Version.mk4 (M + 1) 0 0 0)).admits v := by
  obtain ⟨_, h2, h3⟩ := hd
  subst ha hb
  simp only [Comp.admits, Spec.prec, Version.mk3, Version.mk4]
  by_cases h : v.major < M + 1
  · have : ¬ M < v.major := by omega
    by_cases h' : v.major < M
    · simp [h, h']
    · have : v.major = M := by omega
      subst this
      by_cases hm : v.minor < MAX_SAFE_INTEGER
      · simp [h, hm]
      · have : v.minor = MAX_SAFE_INTEGER := by omega
        rw [this]
        by_cases hp : v.patch < MAX_SAFE_INTEGER
        · simp [h, hp]
        · have : v.patch = MAX_SAFE_INTEGER := by omega
          rw [this]
          cases v.pre <;> simp [h]
  · have h1 : M < v.major := by omega
    have h4 : ¬ v.major < M := by omega
    by_cases h5 : M + 1 < v.major
    · simp [h, h1, h4, h5]
    · have : v.major = M + 1 := by omega
      simp only [this, Nat.lt_irrefl, if_false, Nat.lt_succ_self, if_true, Nat.not_lt_zero]
      by_cases hm : 0 < v.minor
      · simp [hm]
      · simp only [hm, if_false]
        by_cases hp : 0 < v.patch
        · simp [hp]
        · simp only [hp, if_false]
          cases hq : v.pre with
          | nil => simp
          | cons y ys =>
            simp only
            have := preCmp_zero_le (y :: ys) (by simp)
            have h2 := prec_swap
            -- preCmp (y :: ys) [0]: not lt because [0] is least
            cases hc : Spec.preCmp (y :: ys) [.num 0] with
            | lt =>
              exfalso
              have hsw : Spec.preCmp [.num 0] (y :: ys) = .gt := by
                have := Semver.preCmp_eq [.num 0] (y :: ys)
                have h' := Semver.preCmp_eq (y :: ys) [.num 0]
                rw [this]
                rw [h'] at hc
                have := Std.OrientedCmp.eq_swap (cmp := List.compareLex cmpIdent) (a := [.num 0]) (b := y :: ys)
                rw [this, hc]; rfl
              exact absurd hsw ‹_›
            | eq => simp
            | gt => simp

theorem le_minor_max_admits (M m b : Nat) (v : Version) (hd : inDomain v) (hb : b = MAX_SAFE_INTEGER) :
    (Comp.mk .le (Version.mk3 M m b)).admits v = (Comp.mk .lt (Version.mk4 M (m + 1) 0 0)).admits v := by
  obtain ⟨_, _, h3⟩ := hd
  subst hb
  simp only [Comp.admits, Spec.prec, Version.mk3, Version.mk4]
  by_cases h0 : v.major < M
  · simp [h0]
  · by_cases h0' : M < v.major
    · simp [h0, h0']
    · simp only [h0, h0', if_false]
      by_cases h : v.minor < m + 1
      · by_cases h' : v.minor < m
        · have : ¬ m < v.minor := by omega
          simp [h, h']
        · have : v.minor = m := by omega
          subst this
          by_cases hp : v.patch < MAX_SAFE_INTEGER
          · simp [h, hp]
          · have : v.patch = MAX_SAFE_INTEGER := by omega
            rw [this]
            cases v.pre <;> simp [h]
      · have h1 : m < v.minor := by omega
        have h4 : ¬ v.minor < m := by omega
        by_cases h5 : m + 1 < v.minor
        · simp [h, h1, h4, h5]
        · have : v.minor = m + 1 := by omega
          simp only [this, Nat.lt_irrefl, if_false, Nat.lt_succ_self, if_true, Nat.not_lt_zero]
          have : ¬ m + 1 < m := by omega
          simp only [this, if_false]
          by_cases hp : 0 < v.patch
          · simp [hp]
          · simp only [hp, if_false]
            cases hq : v.pre with
            | nil => simp
            | cons y ys =>
              simp only
              have := preCmp_zero_le (y :: ys) (by simp)
              cases hc : Spec.preCmp (y :: ys) [.num 0] with
              | lt =>
                exfalso
                have hsw : Spec.preCmp [.num 0] (y :: ys) = .gt := by
                  have h1' := Semver.preCmp_eq [.num 0] (y :: ys)
                  have h' := Semver.preCmp_eq (y :: ys) [.num 0]
                  rw [h1']
                  rw [h'] at hc
                  have := Std.OrientedCmp.eq_swap (cmp := List.compareLex cmpIdent) (a := [.num 0]) (b := y :: ys)
                  rw [this, hc]; rfl
                exact absurd hsw ‹_›
              | eq => simp
              | gt => simp

end Semver

namespace Semver
open Pred Bound Spec Spec.Npm

theorem major_le_of_admits_le (M a b : Nat) (v : Version)
    (h : (Comp.mk .le (Version.mk3 M a b)).admits v = true) : v.major ≤ M := by
  simp only [Comp.admits, Spec.prec, Version.mk3] at h
  by_cases h1 : v.major < M
  · omega
  · by_cases h2 : M < v.major
    · simp [h1, h2] at h
    · omega

theorem minor_le_of_admits_le (M m b : Nat) (v : Version)
    (h : (Comp.mk .le (Version.mk3 M m b)).admits v = true) : v.major = M → v.minor ≤ m := by
  intro hM
  simp only [Comp.admits, Spec.prec, Version.mk3, hM, Nat.lt_irrefl, if_false] at h
  by_cases h1 : v.minor < m
  · omega
  · by_cases h2 : m < v.minor
    · simp [h1, h2] at h
    · omega

theorem not_tagged_of_admits_le (M a b : Nat) (c d e : Nat) (v : Version)
    (h : (Comp.mk .le (Version.mk3 M a b)).admits v = true) :
    (Comp.mk .lt (Version.mk4 (M + 1) c d e)).tagged v = false := by
  have hm := major_le_of_admits_le M a b v h
  have : (M + 1 == v.major) = false := by simp; omega
  simp [Comp.tagged, Spec.sameTriple, Version.mk4, this]

theorem not_tagged_of_admits_le_minor (M m b d e : Nat) (v : Version)
    (h : (Comp.mk .le (Version.mk3 M m b)).admits v = true) :
    (Comp.mk .lt (Version.mk4 M (m + 1) d e)).tagged v = false := by
  have hm := minor_le_of_admits_le M m b v h
  simp only [Comp.tagged, Spec.sameTriple, Version.mk4]
  by_cases hM : M = v.major
  · have : (m + 1 == v.minor) = false := by simp; have := hm hM.symm; omega
    simp [this]
  · have : (M == v.major) = false := by simp [hM]
    simp [this]

/-- **primitive operators**: every entry except the known exceptions -/
theorem prim_table (op : Op) (np : NP) (hk : ¬ knownException (.prim op np)) :
    TableOK (primitiveSet (match op with
        | .lt => .lt | .le => .le | .gt => .gt | .ge => .ge | .eq => .exact) (fromNP np)) (Npm.prim op np) := by
  cases np with
  | any =>
    cases op
    · exact tableOK_of_new (P := unb) (Q := exc zero0) (fun _ _ => trivial)
    · exact tableOK_of_new (P := inc (Version.mk3 0 0 0)) (Q := unb) (fun _ _ => trivial)
    · exact tableOK_of_new (P := unb) (Q := exc zero0) (fun _ _ => trivial)
    · exact tableOK_of_new (P := inc (Version.mk3 0 0 0)) (Q := unb) (fun _ _ => trivial)
    · exact tableOK_of_new (P := inc (Version.mk3 0 0 0)) (Q := unb) (fun _ _ => trivial)
  | maj M =>
    cases op
    · exact absurd trivial hk
    · -- `<=M`  =  `<=M.MAX.MAX`  ~  `<(M+1).0.0-0` on the domain
      have hM : M ≠ MAX_SAFE_INTEGER := hk
      have h := tableOK_of_new (P := unb) (Q := inc (Version.mk3 M MAX_SAFE_INTEGER MAX_SAFE_INTEGER))
        (fun _ _ => trivial)
      apply tableOK_congr h
      · simp only [loComp, upComp, List.nil_append, List.all_cons, List.all_nil, Bool.and_true]
        rw [Bool.eq_iff_iff, validComp_iff, validComp_iff]
        simp only [Version.mk3, pre0]
        unfold MAX_SAFE_INTEGER at *
        omega
      · intro v hd
        simp only [loComp, upComp, List.nil_append, List.all_cons, List.all_nil, Bool.and_true]
        exact le_max_admits M _ _ v hd rfl rfl
      · intro v _ ha _
        simp only [loComp, upComp, List.nil_append, List.all_cons, List.all_nil, Bool.and_true,
          List.any_cons, List.any_nil, Bool.or_false] at ha ⊢
        rw [show pre0 (M + 1) 0 0 = Version.mk4 (M + 1) 0 0 0 from rfl, not_tagged_of_admits_le M _ _ 0 0 0 v ha]
        simp [Comp.tagged, Version.mk3]
    · exact tableOK_of_new (P := inc (Version.mk3 (M + 1) 0 0)) (Q := unb) (fun _ _ => trivial)
    · exact tableOK_of_new (P := inc (Version.mk3 M 0 0)) (Q := unb) (fun _ _ => trivial)
    · exact tableOK_of_new (P := inc (Version.mk3 M 0 0)) (Q := exc (Version.mk4 (M + 1) 0 0 0))
        (fun _ _ => mk3_lt_mk4_major M 0 0 0 0 0)
  | majMin M m =>
    cases op
    · exact tableOK_of_new (P := unb) (Q := exc (Version.mk4 M m 0 0)) (fun _ _ => trivial)
    · have hm : m ≠ MAX_SAFE_INTEGER := hk
      have h := tableOK_of_new (P := unb) (Q := inc (Version.mk3 M m MAX_SAFE_INTEGER)) (fun _ _ => trivial)
      apply tableOK_congr h
      · simp only [loComp, upComp, List.nil_append, List.all_cons, List.all_nil, Bool.and_true]
        rw [Bool.eq_iff_iff, validComp_iff, validComp_iff]
        simp only [Version.mk3, pre0]
        unfold MAX_SAFE_INTEGER at *
        omega
      · intro v hd
        simp only [loComp, upComp, List.nil_append, List.all_cons, List.all_nil, Bool.and_true]
        exact le_minor_max_admits M m _ v hd rfl
      · intro v _ ha _
        simp only [loComp, upComp, List.nil_append, List.all_cons, List.all_nil, Bool.and_true,
          List.any_cons, List.any_nil, Bool.or_false] at ha ⊢
        rw [show pre0 M (m + 1) 0 = Version.mk4 M (m + 1) 0 0 from rfl, not_tagged_of_admits_le_minor M m _ 0 0 v ha]
        simp [Comp.tagged, Version.mk3]
    · exact tableOK_of_new (P := inc (Version.mk3 M (m + 1) 0)) (Q := unb) (fun _ _ => trivial)
    · exact tableOK_of_new (P := inc (Version.mk3 M m 0)) (Q := unb) (fun _ _ => trivial)
    · exact tableOK_of_new (P := inc (Version.mk3 M m 0)) (Q := exc (Version.mk4 M (m + 1) 0 0))
        (fun _ _ => mk3_lt_mk4_minor M m 0 0 0)
  | full M m p pre build =>
    cases op
    · exact tableOK_of_new (P := unb) (Q := exc ⟨M, m, p, pre, build⟩) (fun _ _ => trivial)
    · exact tableOK_of_new (P := unb) (Q := inc ⟨M, m, p, pre, build⟩) (fun _ _ => trivial)
    · exact tableOK_of_new (P := exc ⟨M, m, p, pre, build⟩) (Q := unb) (fun _ _ => trivial)
    · exact tableOK_of_new (P := inc ⟨M, m, p, pre, build⟩) (Q := unb) (fun _ _ => trivial)
    · -- `=v` drops the build metadata of `v`
      have h := tableOK_of_new (P := inc ⟨M, m, p, pre, []⟩) (Q := inc ⟨M, m, p, pre, []⟩)
        (fun _ _ => le_self _)
      apply tableOK_congr h
      · simp [loComp, upComp, validComp]
      · intro v _
        simp only [loComp, upComp, List.cons_append, List.nil_append, List.all_cons, List.all_nil, Bool.and_true]
        rw [admits_eq_iff]
        simp only [Comp.admits]
        rw [show (⟨M, m, p, pre, build⟩ : Version) = { (⟨M, m, p, pre, []⟩ : Version) with build := build } from rfl,
          prec_build_r]
      · intro v _ _ _; simp [loComp, upComp, Comp.tagged, Spec.sameTriple]

/-- **tilde ranges** (with or without the loose `>`) -/
theorem tilde_table (g : Bool) (np : NP) : TableOK (tildeSet g (fromNP np)) (Npm.tilde np) := by
  cases np with
  | any =>
    cases g <;> exact tableOK_of_new (P := inc (Version.mk3 0 0 0)) (Q := unb) (fun _ _ => trivial)
  | maj M =>
    cases g <;> exact tableOK_of_new (P := inc (Version.mk3 M 0 0)) (Q := exc (Version.mk4 (M + 1) 0 0 0))
      (fun _ _ => mk3_lt_mk4_major M 0 0 0 0 0)
  | majMin M m =>
    cases g <;> exact tableOK_of_new (P := inc (Version.mk3 M m 0)) (Q := exc (Version.mk4 M (m + 1) 0 0))
      (fun _ _ => mk3_lt_mk4_minor M m 0 0 0)
  | full M m p pre build =>
    cases g <;> exact tableOK_of_new (P := inc ⟨M, m, p, pre, []⟩) (Q := exc (Version.mk4 M (m + 1) 0 0))
      (fun _ _ => full_lt_mk4_minor M m p pre [] 0 0)

/-- **caret ranges**, except `^0` (K2) -/
theorem caret_table (np : NP) (hk : ¬ knownException (.caret np)) :
    TableOK (caretSet (fromNP np)) (Npm.caret np) := by
  cases np with
  | any => exact tableOK_of_new (P := inc (Version.mk3 0 0 0)) (Q := unb) (fun _ _ => trivial)
  | maj M =>
    cases M with
    | zero => exact absurd trivial hk
    | succ k =>
      exact tableOK_of_new (P := inc (Version.mk3 (k + 1) 0 0)) (Q := exc (Version.mk4 (k + 1 + 1) 0 0 0))
        (fun _ _ => mk3_lt_mk4_major (k + 1) 0 0 0 0 0)
  | majMin M m =>
    cases M with
    | zero =>
      exact tableOK_of_new (P := inc (Version.mk3 0 m 0)) (Q := exc (Version.mk4 0 (m + 1) 0 0))
        (fun _ _ => mk3_lt_mk4_minor 0 m 0 0 0)
    | succ k =>
      have : Npm.caret (.majMin (k + 1) m) =
          checked [⟨.ge, rel (k + 1) m 0⟩, ⟨.lt, pre0 (k + 1 + 1) 0 0⟩] := by simp [Npm.caret]
      rw [this]
      exact tableOK_of_new (P := inc (Version.mk3 (k + 1) m 0)) (Q := exc (Version.mk4 (k + 1 + 1) 0 0 0))
        (fun _ _ => mk3_lt_mk4_major (k + 1) m 0 0 0 0)
  | full M m p pre build =>
    cases M with
    | zero =>
      cases m with
      | zero =>
        have : Npm.caret (.full 0 0 p pre build) =
            checked [⟨.ge, ⟨0, 0, p, pre, []⟩⟩, ⟨.lt, pre0 0 0 (p + 1)⟩] := by simp [Npm.caret]
        rw [this]
        exact tableOK_of_new (P := inc ⟨0, 0, p, pre, []⟩) (Q := exc (Version.mk4 0 0 (p + 1) 0))
          (fun _ _ => full_lt_mk4_patch 0 0 p pre [] 0)
      | succ j =>
        have : Npm.caret (.full 0 (j + 1) p pre build) =
            checked [⟨.ge, ⟨0, j + 1, p, pre, []⟩⟩, ⟨.lt, pre0 0 (j + 1 + 1) 0⟩] := by simp [Npm.caret]
        rw [this]
        exact tableOK_of_new (P := inc ⟨0, j + 1, p, pre, []⟩) (Q := exc (Version.mk4 0 (j + 1 + 1) 0 0))
          (fun _ _ => full_lt_mk4_minor 0 (j + 1) p pre [] 0 0)
    | succ k =>
      have : Npm.caret (.full (k + 1) m p pre build) =
          checked [⟨.ge, ⟨k + 1, m, p, pre, []⟩⟩, ⟨.lt, pre0 (k + 1 + 1) 0 0⟩] := by simp [Npm.caret]
      rw [this]
      exact tableOK_of_new (P := inc ⟨k + 1, m, p, pre, []⟩) (Q := exc (Version.mk4 (k + 1 + 1) 0 0 0))
        (fun _ _ => full_lt_mk4_major (k + 1) m p pre [] 0 0 0)

end Semver

namespace Semver
open Pred Bound Spec Spec.Npm

def toOperation : Op → Operation
  | .lt => .lt | .le => .le | .gt => .gt | .ge => .ge | .eq => .exact

theorem prim_table' (op : Op) (np : NP) (hk : ¬ knownException (.prim op np)) :
    TableOK (primitiveSet (toOperation op) (fromNP np)) (Npm.prim op np) := by
  have := prim_table op np hk
  cases op <;> exact this

/-! ### hyphen ranges (a whole alternative): satisfaction -/

def optSat (o : Option BoundSet) (v : Version) : Bool :=
  match o with
  | some s => s.satisfies v
  | none => false

def optCompsSat (o : Option (List Comp)) (v : Version) : Bool :=
  match o with
  | some cs => compsSat cs v
  | none => false

theorem new_optSat (P Q : Pred) (v : Version) :
    optSat (BoundSet.new (lo P) (up Q)) v = optCompsSat (checked (loComp P ++ upComp Q)) v := by
  have h := new_table P Q
  cases hc : checked (loComp P ++ upComp Q) with
  | none => rw [hc] at h; simp only at h; rw [h]; rfl
  | some cs =>
    rw [hc] at h
    simp only at h
    cases hn : BoundSet.new (lo P) (up Q) with
    | none => rw [hn] at h; simp only at h; simp [optSat, optCompsSat, h.2 v]
    | some s => rw [hn] at h; simp only at h; simp only [optSat, optCompsSat]; exact sat_of_agreeAt (h.2 v)

theorem zero_le_release (v : Version) (hv : v.pre = []) : Version.mk3 0 0 0 ≤ v := by
  rw [le_iff_prec]
  simp only [Spec.prec, Version.mk3, Nat.not_lt_zero, if_false, hv]
  by_cases h1 : 0 < v.major
  · simp [h1]
  · by_cases h2 : 0 < v.minor
    · simp [h1, h2]
    · by_cases h3 : 0 < v.patch
      · simp [h1, h2, h3]
      · simp [h1, h2, h3]

theorem hyphenLower (lo : NP) :
    (some (fromNP lo)).filter (·.major.isSome) = (match lo with | .any => none | _ => some (fromNP lo)) := by
  cases lo <;> rfl

/-- **hyphen ranges** -/
theorem hyphen_table (lo hi : NP) (v : Version) :
    optSat (hyphenSet ((some (fromNP lo)).filter (·.major.isSome)) (hyphenUpper (fromNP hi))) v =
      optCompsSat (Npm.hyphen lo hi) v := by
  rw [hyphenLower]
  have hup : ∀ hi : NP, upComp (hyphenUpper (fromNP hi)) = (match hi with
      | .any => []
      | .maj M => [⟨.lt, pre0 (M + 1) 0 0⟩]
      | .majMin M m => [⟨.lt, pre0 M (m + 1) 0⟩]
      | .full M m p pre build => [⟨.le, ⟨M, m, p, pre, build⟩⟩]) := by
    intro hi; cases hi <;> rfl
  cases lo with
  | any =>
    cases hi with
    | any =>
      -- `x - x`: `>=0.0.0` against the empty comparator list: all releases, no prerelease
      show optSat (BoundSet.new (.lo (inc (Version.mk3 0 0 0))) (up unb)) v = optCompsSat (checked []) v
      rw [new_optSat]
      have : checked (loComp (inc (Version.mk3 0 0 0)) ++ upComp unb) = some [⟨.ge, Version.mk3 0 0 0⟩] := by
        rw [checked_bounds, if_pos ⟨by unfold Pred.valid; decide, valid_unb⟩]; rfl
      rw [this]
      simp only [optCompsSat, checked, List.all_nil, if_true, compsSat, List.all_cons, List.any_cons,
        List.any_nil, Bool.or_false, Bool.and_true, Bool.true_and]
      cases hp : v.pre.isEmpty with
      | true =>
        have := zero_le_release v (by simpa using hp)
        rw [admits_ge, (vle_iff _ _).mpr this]; rfl
      | false =>
        simp [Comp.tagged, Version.mk3]
    | maj M => exact new_optSat unb (exc (Version.mk4 (M + 1) 0 0 0)) v
    | majMin M m => exact new_optSat unb (exc (Version.mk4 M (m + 1) 0 0)) v
    | full M m p pre build => exact new_optSat unb (inc ⟨M, m, p, pre, build⟩) v
  | maj M =>
    cases hi with
    | any => exact new_optSat (inc (Version.mk3 M 0 0)) unb v
    | maj M' => exact new_optSat (inc (Version.mk3 M 0 0)) (exc (Version.mk4 (M' + 1) 0 0 0)) v
    | majMin M' m' => exact new_optSat (inc (Version.mk3 M 0 0)) (exc (Version.mk4 M' (m' + 1) 0 0)) v
    | full M' m' p' pre' build' => exact new_optSat (inc (Version.mk3 M 0 0)) (inc ⟨M', m', p', pre', build'⟩) v
  | majMin M m =>
    cases hi with
    | any => exact new_optSat (inc (Version.mk3 M m 0)) unb v
    | maj M' => exact new_optSat (inc (Version.mk3 M m 0)) (exc (Version.mk4 (M' + 1) 0 0 0)) v
    | majMin M' m' => exact new_optSat (inc (Version.mk3 M m 0)) (exc (Version.mk4 M' (m' + 1) 0 0)) v
    | full M' m' p' pre' build' => exact new_optSat (inc (Version.mk3 M m 0)) (inc ⟨M', m', p', pre', build'⟩) v
  | full M m p pre build =>
    cases hi with
    | any => exact new_optSat (inc ⟨M, m, p, pre, build⟩) unb v
    | maj M' => exact new_optSat (inc ⟨M, m, p, pre, build⟩) (exc (Version.mk4 (M' + 1) 0 0 0)) v
    | majMin M' m' => exact new_optSat (inc ⟨M, m, p, pre, build⟩) (exc (Version.mk4 M' (m' + 1) 0 0)) v
    | full M' m' p' pre' build' => exact new_optSat (inc ⟨M, m, p, pre, build⟩) (inc ⟨M', m', p', pre', build'⟩) v

end Semver
