import SemverProofs.Lemmas.VersionPreorder
import SemverModel.Range
/-!
# Table lemmas: every use of `impl Ord for Bound` rewritten as a statement about version order

These are the only places where the 36-entry table `cmpBound` is inspected.  Everything above
them is order reasoning (`grind`) on the linear preorder of versions.
-/
namespace Semver
open Pred Bound Std

/-- membership below a lower predicate -/
def memLo : Pred → Version → Prop
  | inc l, v => l ≤ v
  | exc l, v => l < v
  | unb, _ => True

/-- membership under an upper predicate -/
def memUp : Pred → Version → Prop
  | inc u, v => v ≤ u
  | exc u, v => v < u
  | unb, _ => True

/-- `Lower(p) < Lower(q)` -/
def loLt : Pred → Pred → Prop
  | unb, unb => False
  | unb, _ => True
  | _, unb => False
  | inc a, inc b => a < b
  | exc a, exc b => a < b
  | exc a, inc b => a < b
  | inc a, exc b => a ≤ b

/-- `Upper(p) < Upper(q)` -/
def upLt : Pred → Pred → Prop
  | unb, unb => False
  | unb, _ => False
  | _, unb => True
  | inc a, inc b => a < b
  | exc a, exc b => a < b
  | inc a, exc b => a < b
  | exc a, inc b => a ≤ b

/-- the emptiness rule of `BoundSet::new` for `(Lower(p), Upper(q))`: non-empty by the crate's rule -/
def nonEmpty : Pred → Pred → Prop
  | unb, _ => True
  | _, unb => True
  | inc a, inc b => a ≤ b
  | inc a, exc b => a < b
  | exc a, inc b => a < b
  | exc a, exc b => a < b

/-- bound equality (`PartialEq`) as a statement about version order -/
def predEqv : Pred → Pred → Prop
  | unb, unb => True
  | inc a, inc b => a ≤ b ∧ b ≤ a
  | exc a, exc b => a ≤ b ∧ b ≤ a
  | _, _ => False

theorem lo_lt_lo (p q : Pred) : (lo p).lt (lo q) = true ↔ loLt p q := by
  cases p <;> cases q <;> simp [Bound.lt, cmpBound, loLt, cmp_lt_iff] <;> split <;> simp_all

theorem up_lt_up (p q : Pred) : (up p).lt (up q) = true ↔ upLt p q := by
  cases p <;> cases q <;> simp [Bound.lt, cmpBound, upLt, cmp_lt_iff] <;> split <;> simp_all

theorem lo_le_lo (p q : Pred) : (lo p).le (lo q) = true ↔ ¬ loLt q p := by
  cases p <;> cases q <;> simp [Bound.le, cmpBound, loLt, cmp_gt_iff, not_lt_iff_le, not_le_iff_lt]
    <;> split <;> simp_all [not_lt_iff_le, not_le_iff_lt]

theorem up_le_up (p q : Pred) : (up p).le (up q) = true ↔ ¬ upLt q p := by
  cases p <;> cases q <;> simp [Bound.le, cmpBound, upLt, cmp_gt_iff, not_lt_iff_le, not_le_iff_lt]
    <;> split <;> simp_all [not_lt_iff_le, not_le_iff_lt]

/-- the disjointness test of `allows_any` is the negation of the emptiness rule of `new` -/
theorem up_lt_lo (q p : Pred) : (up q).lt (lo p) = true ↔ ¬ nonEmpty p q := by
  cases p <;> cases q <;> simp [Bound.lt, cmpBound, nonEmpty, cmp_lt_iff, not_lt_iff_le, not_le_iff_lt]
    <;> split <;> simp_all [not_lt_iff_le, not_le_iff_lt]

theorem newCore_isSome (p q : Pred) : (BoundSet.newCore (lo p) (up q)).isSome = true ↔ nonEmpty p q := by
  cases p <;> cases q <;>
    simp only [BoundSet.newCore, Bound.lt, cmpBound, nonEmpty] <;>
    (try split) <;> simp_all [beq_iff, cmp_lt_iff, cmp_gt_iff, not_lt_iff_le, not_le_iff_lt] <;> grind

theorem newCore_eq_some {p q : Pred} {s : BoundSet} (h : BoundSet.newCore (lo p) (up q) = some s) :
    s = ⟨up q, lo p⟩ := by
  cases p <;> cases q <;> simp only [BoundSet.newCore] at h <;> (repeat' split at h) <;> simp_all

/-- `Bound::is_valid` on the predicate (the kind of bound does not matter) -/
def Pred.valid (p : Pred) : Prop := (lo p).isValid = true

theorem valid_up (p : Pred) : (up p).isValid = true ↔ p.valid := by
  cases p <;> simp [Pred.valid, Bound.isValid]

theorem valid_flip {p : Pred} (h : p.valid) : p.flip.valid := by
  cases p <;> simp_all [Pred.valid, Bound.isValid, Pred.flip]

theorem valid_unb : Pred.unb.valid := by simp [Pred.valid, Bound.isValid]

theorem new_isSome (p q : Pred) :
    (BoundSet.new (lo p) (up q)).isSome = true ↔ (p.valid ∧ q.valid ∧ nonEmpty p q) := by
  unfold BoundSet.new
  by_cases hp : (lo p).isValid = true <;> by_cases hq : (up q).isValid = true
  · simp only [hp, hq, Bool.not_true, Bool.or_self, Bool.false_eq_true, if_false, newCore_isSome]
    rw [valid_up] at hq
    exact ⟨fun h => ⟨hp, hq, h⟩, fun h => h.2.2⟩
  · have : ¬ q.valid := by rw [← valid_up]; exact hq
    simp [hp, hq, this]
  · have : ¬ p.valid := hp
    simp [hp, this]
  · have : ¬ p.valid := hp
    simp [hp, this]

theorem new_eq_some {p q : Pred} {s : BoundSet} (h : BoundSet.new (lo p) (up q) = some s) :
    s = ⟨up q, lo p⟩ := by
  unfold BoundSet.new at h
  split at h
  · cases h
  · exact newCore_eq_some h

end Semver

namespace Semver
open Pred Bound Std

/-! ### max of lower bounds, min of upper bounds -/

def maxLo (p q : Pred) : Pred := if (lo q).lt (lo p) then p else q
def minUp (p q : Pred) : Pred := if (up q).lt (up p) then q else p

theorem max_lo (p q : Pred) : Bound.max (lo p) (lo q) = lo (maxLo p q) := by
  unfold Bound.max maxLo; split <;> rfl

theorem min_up (p q : Pred) : Bound.min (up p) (up q) = up (minUp p q) := by
  unfold Bound.min minUp; split <;> rfl

theorem memLo_maxLo (p q : Pred) (v : Version) : memLo (maxLo p q) v ↔ memLo p v ∧ memLo q v := by
  unfold maxLo
  by_cases h : (lo q).lt (lo p) = true
  · rw [if_pos h]; rw [lo_lt_lo] at h
    cases p <;> cases q <;> simp_all [memLo, loLt] <;> grind
  · rw [if_neg h]; rw [lo_lt_lo] at h
    cases p <;> cases q <;> simp_all [memLo, loLt] <;> grind

theorem memUp_minUp (p q : Pred) (v : Version) : memUp (minUp p q) v ↔ memUp p v ∧ memUp q v := by
  unfold minUp
  by_cases h : (up q).lt (up p) = true
  · rw [if_pos h]; rw [up_lt_up] at h
    cases p <;> cases q <;> simp_all [memUp, upLt] <;> grind
  · rw [if_neg h]; rw [up_lt_up] at h
    cases p <;> cases q <;> simp_all [memUp, upLt] <;> grind

theorem nonEmpty_maxLo (p q u : Pred) : nonEmpty (maxLo p q) u ↔ nonEmpty p u ∧ nonEmpty q u := by
  unfold maxLo
  by_cases h : (lo q).lt (lo p) = true
  · rw [if_pos h]; rw [lo_lt_lo] at h
    cases p <;> cases q <;> cases u <;> simp_all [nonEmpty, loLt] <;> grind
  · rw [if_neg h]; rw [lo_lt_lo] at h
    cases p <;> cases q <;> cases u <;> simp_all [nonEmpty, loLt] <;> grind

theorem nonEmpty_minUp (l p q : Pred) : nonEmpty l (minUp p q) ↔ nonEmpty l p ∧ nonEmpty l q := by
  unfold minUp
  by_cases h : (up q).lt (up p) = true
  · rw [if_pos h]; rw [up_lt_up] at h
    cases p <;> cases q <;> cases l <;> simp_all [nonEmpty, upLt] <;> grind
  · rw [if_neg h]; rw [up_lt_up] at h
    cases p <;> cases q <;> cases l <;> simp_all [nonEmpty, upLt] <;> grind

/-- an interval that is empty by the crate's rule contains no version -/
theorem not_nonEmpty_empty {p q : Pred} (h : ¬ nonEmpty p q) (v : Version) : ¬ (memLo p v ∧ memUp q v) := by
  cases p <;> cases q <;> simp_all [nonEmpty, memLo, memUp] <;> grind

/-- flipping a (bounded) predicate complements membership -/
theorem memUp_flip {p : Pred} (hp : p ≠ unb) (v : Version) : memUp p.flip v ↔ ¬ memLo p v := by
  cases p <;> simp_all [Pred.flip, memUp, memLo] <;> grind

theorem memLo_flip {p : Pred} (hp : p ≠ unb) (v : Version) : memLo p.flip v ↔ ¬ memUp p v := by
  cases p <;> simp_all [Pred.flip, memUp, memLo] <;> grind

/-- left remainder of `difference` is a valid interval -/
theorem nonEmpty_flip_of_loLt {p q : Pred} (h : loLt p q) : nonEmpty p q.flip := by
  cases p <;> cases q <;> simp_all [loLt, nonEmpty, Pred.flip] <;> grind

/-- right remainder of `difference` is a valid interval -/
theorem nonEmpty_flip_of_upLt {p q : Pred} (h : upLt q p) : nonEmpty q.flip p := by
  cases p <;> cases q <;> simp_all [upLt, nonEmpty, Pred.flip] <;> grind

theorem loLt_ne_unb {p q : Pred} (h : loLt p q) : q ≠ unb := by
  cases p <;> cases q <;> simp_all [loLt]

theorem upLt_ne_unb {p q : Pred} (h : upLt q p) : q ≠ unb := by
  cases p <;> cases q <;> simp_all [upLt]

/-- a strictly larger lower bound admits no more versions -/
theorem memLo_of_loLt {p q : Pred} (h : loLt p q) (v : Version) (hv : memLo q v) : memLo p v := by
  cases p <;> cases q <;> simp_all [loLt, memLo] <;> grind

theorem memLo_of_not_loLt {p q : Pred} (h : ¬ loLt q p) (v : Version) (hv : memLo q v) : memLo p v := by
  cases p <;> cases q <;> simp_all [loLt, memLo] <;> grind

theorem memUp_of_upLt {p q : Pred} (h : upLt q p) (v : Version) (hv : memUp q v) : memUp p v := by
  cases p <;> cases q <;> simp_all [upLt, memUp] <;> grind

theorem memUp_of_not_upLt {p q : Pred} (h : ¬ upLt p q) (v : Version) (hv : memUp q v) : memUp p v := by
  cases p <;> cases q <;> simp_all [upLt, memUp] <;> grind

theorem predBeq_iff (p q : Pred) : p.beq q = true ↔ predEqv p q := by
  cases p <;> cases q <;> simp [Pred.beq, predEqv, beq_iff]

theorem predEqv_memLo {p q : Pred} (h : predEqv p q) (v : Version) : memLo p v ↔ memLo q v := by
  cases p <;> cases q <;> simp_all [predEqv, memLo] <;> grind

theorem predEqv_memUp {p q : Pred} (h : predEqv p q) (v : Version) : memUp p v ↔ memUp q v := by
  cases p <;> cases q <;> simp_all [predEqv, memUp] <;> grind

/-- lower bounds that are not ordered either way are equal as bounds -/
theorem predEqv_of_not_loLt {p q : Pred} (h1 : ¬ loLt p q) (h2 : ¬ loLt q p) : predEqv p q := by
  cases p <;> cases q <;> simp_all [loLt, predEqv] <;> grind

theorem predEqv_of_not_upLt {p q : Pred} (h1 : ¬ upLt p q) (h2 : ¬ upLt q p) : predEqv p q := by
  cases p <;> cases q <;> simp_all [upLt, predEqv] <;> grind

/-- widening the upper bound keeps an interval non-empty -/
theorem nonEmpty_mono_up {l q q' : Pred} (h : nonEmpty l q') (hle : ¬ upLt q q') : nonEmpty l q := by
  cases l <;> cases q <;> cases q' <;> simp_all [nonEmpty, upLt] <;> grind

/-- lowering the lower bound keeps an interval non-empty -/
theorem nonEmpty_mono_lo {p p' u : Pred} (h : nonEmpty p' u) (hle : ¬ loLt p' p) : nonEmpty p u := by
  cases p <;> cases p' <;> cases u <;> simp_all [nonEmpty, loLt] <;> grind

theorem valid_maxLo {p q : Pred} (hp : p.valid) (hq : q.valid) : (maxLo p q).valid := by
  unfold maxLo; split <;> assumption

theorem valid_minUp {p q : Pred} (hp : p.valid) (hq : q.valid) : (minUp p q).valid := by
  unfold minUp; split <;> assumption

end Semver
