import SemverProofs.Props.C04
import SemverProofs.Lemmas.Gate
/-!
# Successor structure of the precedence order (needed by `min_version`, C11)

* `T-ids.0` is the immediate successor of the prerelease `T-ids`;
* the first prerelease `T'-0` of the next patch tuple is the immediate successor of the release `T`;
* `0.0.0-0` is the least version;
* between `T-0` and `T` lie only prereleases of `T`.
-/
namespace Semver
open Spec

theorem idCmp_zero_le (x : Ident) : Spec.idCmp (.num 0) x ≠ .gt := by
  cases x with
  | num n => simp only [Spec.idCmp]; split <;> simp
  | alpha s => simp [Spec.idCmp]

theorem idCmp_refl (x : Ident) : Spec.idCmp x x = .eq := C04.idCmp_eq.mpr rfl

theorem preCmp_self_snoc (p : List Ident) : Spec.preCmp p (p ++ [.num 0]) = .lt := by
  induction p with
  | nil => rfl
  | cons a p ih => simp [Spec.preCmp, idCmp_refl, ih]

/-- if `p < q` lexicographically then `p ++ [0] ≤ q` -/
theorem preCmp_snoc_le {p q : List Ident} (h : Spec.preCmp p q = .lt) : Spec.preCmp (p ++ [.num 0]) q ≠ .gt := by
  induction p generalizing q with
  | nil =>
    cases q with
    | nil => simp [Spec.preCmp] at h
    | cons b q =>
      simp only [List.nil_append, Spec.preCmp]
      have := idCmp_zero_le b
      cases hb : Spec.idCmp (.num 0) b with
      | lt => simp
      | eq => simp only; cases q <;> simp [Spec.preCmp]
      | gt => exact absurd hb this
  | cons a p ih =>
    cases q with
    | nil => simp [Spec.preCmp] at h
    | cons b q =>
      simp only [List.cons_append, Spec.preCmp] at h ⊢
      cases hab : Spec.idCmp a b with
      | lt => simp
      | eq => rw [hab] at h; simp only at h ⊢; exact ih h
      | gt => rw [hab] at h; simp at h

/-! ### the order in terms of `Spec.prec` -/

theorem lt_iff_prec (a b : Version) : a < b ↔ Spec.prec a b = .lt := by
  rw [lt_def, C04.C04_model_is_spec]

theorem le_iff_prec (a b : Version) : a ≤ b ↔ Spec.prec a b ≠ .gt := by
  rw [le_def, C04.C04_model_is_spec]
  cases Spec.prec a b <;> simp

/-- immediate successor of a prerelease: append `.0` -/
def succPre (v : Version) : Version := { v with pre := v.pre ++ [.num 0] }

theorem lt_succPre (v : Version) (hv : v.pre ≠ []) : v < succPre v := by
  rw [lt_iff_prec]
  unfold Spec.prec succPre
  simp only [Nat.lt_irrefl, if_false]
  cases hp : v.pre with
  | nil => exact absurd hp hv
  | cons x xs =>
    simp only [List.cons_append]
    exact preCmp_self_snoc (x :: xs)

theorem succPre_le (v w : Version) (hv : v.pre ≠ []) (h : v < w) : succPre v ≤ w := by
  rw [lt_iff_prec] at h
  rw [le_iff_prec]
  unfold Spec.prec at h ⊢
  unfold succPre
  simp only
  split at h
  · rename_i h1; simp [h1]
  · split at h
    · cases h
    · split at h
      · rename_i h1 h2 h3; simp [h1, h2, h3]
      · split at h
        · cases h
        · split at h
          · rename_i h1 h2 h3 h4 h5; simp [h1, h2, h3, h4, h5]
          · split at h
            · cases h
            · rename_i h1 h2 h3 h4 h5 h6
              simp only [h1, h2, h3, h4, h5, h6, if_false]
              cases hp : v.pre with
              | nil => exact absurd hp hv
              | cons x xs =>
                rw [hp] at h
                cases hq : w.pre with
                | nil => simp
                | cons y ys =>
                  rw [hq] at h
                  simp only at h
                  simp only [List.cons_append]
                  exact preCmp_snoc_le h

/-- first prerelease of the next patch tuple -/
def succRel (v : Version) : Version := { v with patch := v.patch + 1, pre := [.num 0] }

theorem lt_succRel (v : Version) : v < succRel v := by
  rw [lt_iff_prec]
  unfold Spec.prec succRel
  simp

theorem preCmp_zero_le (q : List Ident) (hq : q ≠ []) : Spec.preCmp [.num 0] q ≠ .gt := by
  cases q with
  | nil => exact absurd rfl hq
  | cons b q =>
    simp only [Spec.preCmp]
    have := idCmp_zero_le b
    cases hb : Spec.idCmp (.num 0) b with
    | lt => simp
    | eq => simp only; cases q <;> simp [Spec.preCmp]
    | gt => exact absurd hb this

theorem succRel_le (v w : Version) (hv : v.pre = []) (h : v < w) : succRel v ≤ w := by
  rw [lt_iff_prec] at h
  rw [le_iff_prec]
  unfold Spec.prec at h ⊢
  unfold succRel
  simp only
  split at h
  · rename_i h1; simp [h1]
  · split at h
    · cases h
    · split at h
      · rename_i h1 h2 h3; simp [h1, h2, h3]
      · split at h
        · cases h
        · split at h
          · rename_i h1 h2 h3 h4 h5
            simp only [h1, h2, h3, h4, if_false]
            by_cases h6 : v.patch + 1 < w.patch
            · simp [h6]
            · have h7 : ¬ w.patch < v.patch + 1 := by omega
              simp only [h6, h7, if_false]
              cases hq : w.pre with
              | nil => simp
              | cons y ys => simp only; exact preCmp_zero_le _ (by simp)
          · split at h
            · cases h
            · rw [hv] at h
              cases hq : w.pre <;> rw [hq] at h <;> simp at h

/-- the least version -/
def leastV : Version := ⟨0, 0, 0, [.num 0], []⟩

theorem leastV_le (w : Version) : leastV ≤ w := by
  rw [le_iff_prec]
  unfold Spec.prec leastV
  simp only [Nat.not_lt_zero, if_false]
  by_cases h1 : 0 < w.major
  · simp [h1]
  · simp only [h1, if_false]
    by_cases h2 : 0 < w.minor
    · simp [h2]
    · simp only [h2, if_false]
      by_cases h3 : 0 < w.patch
      · simp [h3]
      · simp only [h3, if_false]
        cases hq : w.pre with
        | nil => simp
        | cons y ys => simp only; exact preCmp_zero_le _ (by simp)

/-- strictly below a release there are, on its tuple, only its prereleases -/
theorem pre_of_lt_release {w r : Version} (hr : r.pre = []) (h : w < r) (ht : sameTuple w r = true) :
    w.isPre = true := by
  rw [lt_iff_prec] at h
  rw [sameTuple_iff] at ht
  unfold Spec.prec at h
  simp only [ht.1, ht.2.1, ht.2.2, Nat.lt_irrefl, if_false, hr] at h
  simp only [Version.isPre, Bool.not_eq_true', List.isEmpty_eq_false_iff]
  intro h0
  rw [h0] at h
  simp at h

/-- between the first prerelease of a tuple and its release lies only that tuple -/
theorem tuple_of_between {n0 w r : Version} (h0 : n0 ≤ w) (h1 : w < r) (ht : sameTuple r n0 = true) :
    sameTuple w r = true := by
  have := tuple_between h0 (lt_le h1) ht
  rw [sameTuple_iff] at this ⊢
  omega

end Semver
