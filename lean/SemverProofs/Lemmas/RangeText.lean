import SemverProofs.Props.C12
import SemverProofs.Lemmas.ParseWF
/-!
# The range parser on printed versions and printed comparators (towards C13)
-/
namespace Semver
open Pred Bound Spec

theorem digit_ne_wild {c : Char} (h : isDigit c = true) : c ≠ 'x' ∧ c ≠ 'X' ∧ c ≠ '*' ∧ c ≠ 'v' := by
  refine ⟨?_, ?_, ?_, ?_⟩ <;> (intro hc; subst hc; revert h; decide)

/-- `component` on a number text followed by a non-digit -/
theorem component_num {A rest : List Char} {n : Nat} (hA : NumText A n)
    (hr : ∀ c, rest.head? = some c → isDigit c = false) :
    component (A ++ rest) = some (some n, rest) := by
  have hne := hA.1
  have hd : A.all isDigit = true := by rw [← all_digit_eq]; exact hA.2.1
  cases A with
  | nil => exact absurd rfl hne
  | cons a as =>
    have ha : isDigit a = true := by simp at hd; exact hd.1
    obtain ⟨h1, h2, h3, _⟩ := digit_ne_wild ha
    unfold component
    simp only [List.cons_append]
    split
    · rename_i t heq; simp at heq; exact absurd heq.1 h1
    · rename_i t heq; simp at heq; exact absurd heq.1 h2
    · rename_i t heq; simp at heq; exact absurd heq.1 h3
    · have := number_of_numText hA hr
      simp only [List.cons_append] at this
      rw [this]

theorem dotComponent_num {A rest : List Char} {n : Nat} (hA : NumText A n)
    (hr : ∀ c, rest.head? = some c → isDigit c = false) :
    dotComponent ('.' :: (A ++ rest)) = (some (some n), rest) := by
  unfold dotComponent
  simp only
  rw [component_num hA hr]

theorem stripV_digit {A rest : List Char} {n : Nat} (hA : NumText A n) : stripV (A ++ rest) = A ++ rest := by
  have hne := hA.1
  have hd : A.all isDigit = true := by rw [← all_digit_eq]; exact hA.2.1
  cases A with
  | nil => exact absurd rfl hne
  | cons a as =>
    have ha : isDigit a = true := by simp at hd; exact hd.1
    unfold stripV
    simp only [List.cons_append]
    split
    · rename_i t heq; simp at heq; exact absurd heq.1 (digit_ne_wild ha).2.2.2
    · rfl

theorem dropBlanks_digit {A rest : List Char} {n : Nat} (hA : NumText A n) : dropBlanks (A ++ rest) = A ++ rest := by
  have hne := hA.1
  have hd : A.all isDigit = true := by rw [← all_digit_eq]; exact hA.2.1
  have := dropBlanks_append [] (A ++ rest) (by simp) (head_digit_not_blank hd hne)
  simpa using this

/-- what may follow a printed version inside a printed range: end of input, a blank or `|` -/
def versionFollow (rest : List Char) : Prop := ∀ c, rest.head? = some c → c = ' ' ∨ c = '|'

theorem extrasFollow_of_versionFollow {rest : List Char} (h : versionFollow rest) : extrasFollow rest := by
  intro c hc
  rcases h c hc with rfl | rfl <;> exact ⟨by decide, by decide, by decide⟩

/-- **`partial_version` on a printed canonical version** returns exactly its fields -/
theorem partialVersion_render (v : Version) (hc : C12.canon v) (rest : List Char) (hr : versionFollow rest) :
    partialVersion (v.render ++ rest) =
      some (⟨some v.major, some v.minor, some v.patch, v.pre, v.build⟩, rest) := by
  obtain ⟨h1, h2, h3, h4, h5⟩ := hc
  have hA := C12.numText_render v.major h1
  have hB := C12.numText_render v.minor h2
  have hC := C12.numText_render v.patch h3
  -- the qualifier texts
  have hP : PreText (if v.pre.isEmpty then [] else '-' :: renderIds v.pre) v.pre := by
    cases hp : v.pre with
    | nil => exact Or.inl ⟨by simp, rfl⟩
    | cons i is =>
      refine Or.inr (Or.inl ⟨renderIds (i :: is), by simp, ?_⟩)
      exact C12.idsText_render (i :: is) (by simp) (by rw [← hp]; exact h4)
  have hQ : BuildText (if v.build.isEmpty then [] else '+' :: renderIds v.build) v.build := by
    cases hb : v.build with
    | nil => exact Or.inl ⟨by simp, rfl⟩
    | cons i is =>
      refine Or.inr ⟨renderIds (i :: is), by simp, ?_⟩
      exact C12.idsText_render (i :: is) (by simp) (by rw [← hb]; exact h5)
  generalize hPdef : (if v.pre.isEmpty then [] else '-' :: renderIds v.pre) = P at hP
  generalize hQdef : (if v.build.isEmpty then [] else '+' :: renderIds v.build) = Q at hQ
  have hrender : v.render ++ rest =
      renderNat v.major ++ '.' :: (renderNat v.minor ++ '.' :: (renderNat v.patch ++ (P ++ (Q ++ rest)))) := by
    simp [Version.render, renderCore, hPdef, hQdef]
  rw [hrender]
  -- after the patch digits comes `-`, `+`, or what follows the version
  have hnd : ∀ d, (P ++ (Q ++ rest)).head? = some d → isDigit d = false := by
    intro d hd
    rcases hP with ⟨rfl, _⟩ | ⟨T, rfl, _⟩ | ⟨_, c, t, rfl, hl⟩
    · rcases hQ with ⟨rfl, _⟩ | ⟨T, rfl, _⟩
      · simp only [List.nil_append] at hd
        rcases hr d hd with rfl | rfl <;> decide
      · simp at hd; subst hd; decide
    · simp at hd; subst hd; decide
    · -- cannot happen for a printed version (the hyphen is always printed), but harmless
      simp at hd; subst hd
      rw [letter_eq] at hl
      simp only [isAlpha, Bool.or_eq_true, Bool.and_eq_true, decide_eq_true_eq] at hl
      simp only [isDigit, Bool.and_eq_false_iff, decide_eq_false_iff_not]
      rw [char_le_iff, char_le_iff] at *
      have e1 : ('9' : Char).toNat = 57 := by decide
      have e2 : ('a' : Char).toNat = 97 := by decide
      have e3 : ('A' : Char).toNat = 65 := by decide
      rw [char_le_iff, char_le_iff] at hl
      omega
  unfold partialVersion
  simp only
  rw [stripV_digit hA, dropBlanks_digit hA, component_num hA dot_not_digit]
  simp only
  rw [dotComponent_num hB dot_not_digit]
  simp only
  rw [dotComponent_num hC hnd]
  simp only [Option.isSome_some, if_true]
  rw [extras_append hP hQ (extrasFollow_of_versionFollow hr)]
  simp

end Semver
