import SemverProofs.Props.C12
import SemverProofs.Lemmas.ParseWF
import SemverProofs.Lemmas.NpmTables
import SemverModel.RangeFmt
/-!
# The range parser on printed versions and printed comparators (towards C13)
-/
namespace Semver
open Pred Bound Spec

theorem digit_ne_wild {c : Char} (h : isDigit c = true) : c ≠ 'x' ∧ c ≠ 'X' ∧ c ≠ '*' ∧ c ≠ 'v' := by
  refine ⟨?_, ?_, ?_, ?_⟩ <;> (intro hc; subst hc; revert h; decide)

/-- `component` on a number text followed by a non-digit -/
theorem component_num {A rest : List Char} {n : Nat} (hA : NumText A n)
    (hr : ∀ c, rest.head? = some c → isDigit c = false) :
    component (A ++ rest) = some (some n, rest) := by
  have hne := hA.1
  have hd : A.all isDigit = true := by rw [← all_digit_eq]; exact hA.2.1
  cases A with
  | nil => exact absurd rfl hne
  | cons a as =>
    have ha : isDigit a = true := by simp at hd; exact hd.1
    obtain ⟨h1, h2, h3, _⟩ := digit_ne_wild ha
    unfold component
    simp only [List.cons_append]
    split
    · rename_i t heq; simp at heq; exact absurd heq.1 h1
    · rename_i t heq; simp at heq; exact absurd heq.1 h2
    · rename_i t heq; simp at heq; exact absurd heq.1 h3
    · have := number_of_numText hA hr
      simp only [List.cons_append] at this
      rw [this]

theorem dotComponent_num {A rest : List Char} {n : Nat} (hA : NumText A n)
    (hr : ∀ c, rest.head? = some c → isDigit c = false) :
    dotComponent ('.' :: (A ++ rest)) = (some (some n), rest) := by
  unfold dotComponent
  simp only
  rw [component_num hA hr]

theorem stripV_digit {A rest : List Char} {n : Nat} (hA : NumText A n) : stripV (A ++ rest) = A ++ rest := by
  have hne := hA.1
  have hd : A.all isDigit = true := by rw [← all_digit_eq]; exact hA.2.1
  cases A with
  | nil => exact absurd rfl hne
  | cons a as =>
    have ha : isDigit a = true := by simp at hd; exact hd.1
    unfold stripV
    simp only [List.cons_append]
    split
    · rename_i t heq; simp at heq; exact absurd heq.1 (digit_ne_wild ha).2.2.2
    · rfl

theorem head_digit_not_blank' {A rest : List Char} (hA : A.all isDigit = true) (hne : A ≠ []) :
    ∀ c, (A ++ rest).head? = some c → isBlank c = false := by
  intro c hc
  cases A with
  | nil => exact absurd rfl hne
  | cons a as =>
    simp at hc; subst hc
    simp only [List.all_cons, Bool.and_eq_true] at hA
    exact isDigit_not_blank hA.1

theorem dropBlanks_digit {A rest : List Char} {n : Nat} (hA : NumText A n) : dropBlanks (A ++ rest) = A ++ rest := by
  have hne := hA.1
  have hd : A.all isDigit = true := by rw [← all_digit_eq]; exact hA.2.1
  have := dropBlanks_append [] (A ++ rest) (by simp) (head_digit_not_blank' hd hne)
  simpa using this

/-- what may follow a printed version inside a printed range: end of input, a blank or `|` -/
def versionFollow (rest : List Char) : Prop := ∀ c, rest.head? = some c → c = ' ' ∨ c = '|'

theorem extrasFollow_of_versionFollow {rest : List Char} (h : versionFollow rest) : extrasFollow rest := by
  intro c hc
  rcases h c hc with rfl | rfl <;> exact ⟨by decide, by decide, by decide⟩

/-- **`partial_version` on a printed canonical version** returns exactly its fields -/
theorem partialVersion_render (v : Version) (hc : C12.canon v) (rest : List Char) (hr : versionFollow rest) :
    partialVersion (v.render ++ rest) =
      some (⟨some v.major, some v.minor, some v.patch, v.pre, v.build⟩, rest) := by
  obtain ⟨h1, h2, h3, h4, h5⟩ := hc
  have hA := C12.numText_render v.major h1
  have hB := C12.numText_render v.minor h2
  have hC := C12.numText_render v.patch h3
  -- the qualifier texts
  have hP : PreText (if v.pre.isEmpty then [] else '-' :: renderIds v.pre) v.pre := by
    cases hp : v.pre with
    | nil => exact Or.inl ⟨by simp, rfl⟩
    | cons i is =>
      refine Or.inr (Or.inl ⟨renderIds (i :: is), by simp, ?_⟩)
      exact C12.idsText_render (i :: is) (by simp) (by rw [← hp]; exact h4)
  have hQ : BuildText (if v.build.isEmpty then [] else '+' :: renderIds v.build) v.build := by
    cases hb : v.build with
    | nil => exact Or.inl ⟨by simp, rfl⟩
    | cons i is =>
      refine Or.inr ⟨renderIds (i :: is), by simp, ?_⟩
      exact C12.idsText_render (i :: is) (by simp) (by rw [← hb]; exact h5)
  obtain ⟨P, hPdef⟩ : ∃ P, P = (if v.pre.isEmpty then [] else '-' :: renderIds v.pre) := ⟨_, rfl⟩
  obtain ⟨Q, hQdef⟩ : ∃ Q, Q = (if v.build.isEmpty then [] else '+' :: renderIds v.build) := ⟨_, rfl⟩
  rw [← hPdef] at hP
  rw [← hQdef] at hQ
  have hrender : v.render ++ rest =
      renderNat v.major ++ '.' :: (renderNat v.minor ++ '.' :: (renderNat v.patch ++ (P ++ (Q ++ rest)))) := by
    simp only [Version.render, renderCore, List.append_assoc, List.cons_append]
    rw [← hPdef, ← hQdef]
  rw [hrender]
  -- after the patch digits comes `-`, `+`, or what follows the version
  have hnd : ∀ d, (P ++ (Q ++ rest)).head? = some d → isDigit d = false := by
    intro d hd
    rcases hP with ⟨rfl, _⟩ | ⟨T, rfl, _⟩ | ⟨_, c, t, rfl, hl⟩
    · rcases hQ with ⟨rfl, _⟩ | ⟨T, rfl, _⟩
      · simp only [List.nil_append] at hd
        rcases hr d hd with rfl | rfl <;> decide
      · simp at hd; subst hd; decide
    · simp at hd; subst hd; decide
    · -- cannot happen for a printed version (the hyphen is always printed), but harmless
      simp at hd; subst hd
      rw [letter_eq] at hl
      simp only [isAlpha, Bool.or_eq_true, Bool.and_eq_true, decide_eq_true_eq] at hl
      simp only [isDigit, Bool.and_eq_false_iff, decide_eq_false_iff_not]
      rw [char_le_iff, char_le_iff] at *
      have e1 : ('9' : Char).toNat = 57 := by decide
      have e2 : ('a' : Char).toNat = 97 := by decide
      have e3 : ('A' : Char).toNat = 65 := by decide
      rw [char_le_iff, char_le_iff] at hl
      omega
  unfold partialVersion partialCore
  simp only
  rw [stripV_digit hA, dropBlanks_digit hA, component_num hA dot_not_digit]
  simp only
  rw [dotComponent_num hB dot_not_digit]
  simp only
  rw [dotComponent_num hC hnd]
  simp only [Option.isSome_some, if_true]
  rw [extras_append hP hQ (extrasFollow_of_versionFollow hr)]
  simp

end Semver

namespace Semver
open Pred Bound Spec

/-- what follows a printed comparator inside a printed range -/
def CompFollow (rest : List Char) : Prop :=
  rest = [] ∨ (∃ t, rest = ' ' :: t) ∨ (∃ t, rest = '|' :: '|' :: t)

theorem CompFollow.versionFollow {rest : List Char} (h : CompFollow rest) : versionFollow rest := by
  intro c hc
  rcases h with rfl | ⟨t, rfl⟩ | ⟨t, rfl⟩
  · simp at hc
  · simp at hc; exact Or.inl hc.symm
  · simp at hc; exact Or.inr hc.symm

theorem CompFollow.atEnd {rest : List Char} (h : CompFollow rest) : atEnd rest = true := by
  rcases h with rfl | ⟨t, rfl⟩ | ⟨t, rfl⟩ <;> simp [Semver.atEnd, isBlank]

theorem render_head_digit (v : Version) : ∃ c t, v.render = c :: t ∧ isDigit c = true := by
  have h1 := render_ne_nil v.major
  have h2 := all_digits_render v.major
  cases h : renderNat v.major with
  | nil => exact absurd h h1
  | cons c cs =>
    rw [h] at h2
    simp at h2
    refine ⟨c, (v.render).tail, ?_, h2.1⟩
    simp only [Version.render, renderCore, h, List.cons_append, List.tail_cons]

theorem partialVersion_none_of_head {s : List Char} (c : Char) (t : List Char) (hs : s = c :: t)
    (h1 : c ≠ 'v') (h2 : isBlank c = false) (h3 : isDigit c = false) (h4 : c ≠ 'x' ∧ c ≠ 'X' ∧ c ≠ '*') :
    partialVersion s = none := by
  subst hs
  unfold partialVersion partialCore
  have e1 : stripV (c :: t) = c :: t := by
    unfold stripV; split
    · rename_i u heq; simp at heq; exact absurd heq.1 h1
    · rfl
  have e2 : dropBlanks (c :: t) = c :: t := by
    have := dropBlanks_append [] (c :: t) (by simp) (by intro d hd; simp at hd; subst hd; exact h2)
    simpa using this
  simp only [e1, e2]
  have e3 : component (c :: t) = none := by
    unfold component
    split
    · rename_i u heq; simp at heq; exact absurd heq.1 h4.1
    · rename_i u heq; simp at heq; exact absurd heq.1 h4.2.1
    · rename_i u heq; simp at heq; exact absurd heq.1 h4.2.2
    · unfold number
      have : (span isDigit (c :: t)).1 = [] := by simp [span, h3]
      simp [this]
  rw [e3]

theorem hyphen_none_of_op {s : List Char} (c : Char) (t : List Char) (hs : s = c :: t)
    (hc : c = '>' ∨ c = '<') : hyphen s = none := by
  have hpv : partialVersion s = none := by
    apply partialVersion_none_of_head c t hs <;> rcases hc with rfl | rfl <;> decide
  have : blanks1 s = none := by
    subst hs
    unfold blanks1
    have : isBlank c = false := by rcases hc with rfl | rfl <;> decide
    simp [this]
  unfold hyphen optPartial hyphenRest
  simp only [hpv, this]

/-- the full partial of a version -/
def fullPartial (v : Version) : Partial := ⟨some v.major, some v.minor, some v.patch, v.pre, v.build⟩

theorem fullPartial_toVersion (v : Version) : (fullPartial v).toVersion = v := by
  simp [fullPartial, Partial.toVersion]

/-- `simple` on a printed operator comparator -/
theorem simple_op (opText : List Char) (op : Operation) (v : Version) (hc : C12.canon v) (rest : List Char)
    (hr : CompFollow rest)
    (hop : (opText = ['>', '='] ∧ op = .ge) ∨ (opText = ['>'] ∧ op = .gt) ∨
           (opText = ['<', '='] ∧ op = .le) ∨ (opText = ['<'] ∧ op = .lt)) :
    simple (opText ++ (v.render ++ rest)) = (primitiveSet op (fullPartial v), rest) := by
  obtain ⟨d, t, hd, hdig⟩ := render_head_digit v
  have hne : d ≠ '=' := by intro h; subst h; revert hdig; decide
  have hoper : operation (opText ++ (v.render ++ rest)) = some (op, v.render ++ rest) := by
    rcases hop with ⟨rfl, rfl⟩ | ⟨rfl, rfl⟩ | ⟨rfl, rfl⟩ | ⟨rfl, rfl⟩
    · rfl
    · rw [hd]
      show operation ('>' :: d :: (t ++ rest)) = _
      unfold operation
      simp only [if_true]
      split
      · rename_i u heq; simp only [List.cons.injEq] at heq; exact absurd heq.1 hne
      · rfl
    · rfl
    · rw [hd]
      show operation ('<' :: d :: (t ++ rest)) = _
      unfold operation
      have h1 : ('<' : Char) ≠ '>' := by decide
      have h2 : ('<' : Char) ≠ '=' := by decide
      simp only [h1, h2, if_false, if_true]
      split
      · rename_i u heq; simp only [List.cons.injEq] at heq; exact absurd heq.1 hne
      · rfl
  have hhy : hyphen (opText ++ (v.render ++ rest)) = none := by
    rcases hop with ⟨rfl, _⟩ | ⟨rfl, _⟩ | ⟨rfl, _⟩ | ⟨rfl, _⟩
    · exact hyphen_none_of_op '>' _ rfl (Or.inl rfl)
    · exact hyphen_none_of_op '>' _ rfl (Or.inl rfl)
    · exact hyphen_none_of_op '<' _ rfl (Or.inr rfl)
    · exact hyphen_none_of_op '<' _ rfl (Or.inr rfl)
  have hdb : dropBlanks (v.render ++ rest) = v.render ++ rest := by
    rw [hd]
    have := dropBlanks_append [] (d :: t ++ rest) (by simp)
      (by intro c hc'; simp at hc'; subst hc'; exact isDigit_not_blank hdig)
    simpa using this
  have hprim : primitive (opText ++ (v.render ++ rest)) = some (primitiveSet op (fullPartial v), rest) := by
    unfold primitive
    rw [hoper]
    simp only
    rw [hdb, partialVersion_render v hc rest hr.versionFollow]
    rfl
  unfold simple
  rw [hhy, hprim]
  simp [terminated, hr.atEnd]

/-- what follows a printed alternative -/
def AltFollow (rest : List Char) : Prop := rest = [] ∨ ∃ t, rest = '|' :: '|' :: t

theorem AltFollow.compFollow {rest : List Char} (h : AltFollow rest) : CompFollow rest := by
  rcases h with rfl | ⟨t, rfl⟩
  · exact Or.inl rfl
  · exact Or.inr (Or.inr ⟨t, rfl⟩)

theorem AltFollow.blanks1_none {rest : List Char} (h : AltFollow rest) : blanks1 rest = none := by
  rcases h with rfl | ⟨t, rfl⟩ <;> simp [blanks1, isBlank]

/-- `simple` on a printed exact version (an alternative by itself) -/
theorem simple_exact (v : Version) (hc : C12.canon v) (rest : List Char) (hr : AltFollow rest) :
    simple (v.render ++ rest) = (BoundSet.exact v, rest) := by
  obtain ⟨d, t, hd, hdig⟩ := render_head_digit v
  have hpv := partialVersion_render v hc rest hr.compFollow.versionFollow
  have hhy : hyphen (v.render ++ rest) = none := by
    unfold hyphen optPartial hyphenRest
    simp only [hpv, hr.blanks1_none]
  have hprim : primitive (v.render ++ rest) = none := by
    unfold primitive
    have : operation (v.render ++ rest) = none := by
      rw [hd]
      simp only [List.cons_append]
      have h1 : d ≠ '>' := by intro h; subst h; revert hdig; decide
      have h2 : d ≠ '=' := by intro h; subst h; revert hdig; decide
      have h3 : d ≠ '<' := by intro h; subst h; revert hdig; decide
      unfold operation
      simp only [h1, h2, h3, if_false]
    rw [this]
  have hpart : partialP (v.render ++ rest) = some (BoundSet.exact v, rest) := by
    unfold partialP
    rw [hpv]
    simp only [partialSet, fullPartial_toVersion]
    rfl
  unfold simple
  rw [hhy, hprim, hpart]
  simp [terminated, hr.compFollow.atEnd]

end Semver

namespace Semver
open Pred Bound Spec

def predCanon : Pred → Prop
  | inc v => C12.canon v
  | exc v => C12.canon v
  | unb => True

/-- the intervals whose printed form parses back: well-formed, canonical bound versions, at least
one real bound -/
structure Printable (s : BoundSet) : Prop where
  shape : ∃ p q, s = ⟨up q, lo p⟩ ∧ p.valid ∧ q.valid ∧ nonEmpty p q ∧ predCanon p ∧ predCanon q ∧
    ¬ (p = unb ∧ q = unb)

theorem rangeTail_none {s : List Char} (h : blanks1 s = none) : rangeTail s = ([], s) := by
  rw [rangeTail]
  split
  · rfl
  · rename_i r hr; rw [h] at hr; cases hr

theorem rangeTail_some {s r : List Char} (h : blanks1 s = some r) :
    rangeTail s = ((simple r).1 :: (rangeTail (simple r).2).1, (rangeTail (simple r).2).2) := by
  rw [rangeTail]
  split
  · rename_i hn; rw [h] at hn; cases hn
  · rename_i r' hr
    rw [h] at hr
    cases hr
    rfl

theorem rangeTail_altFollow {rest : List Char} (h : AltFollow rest) : rangeTail rest = ([], rest) := by
  rw [rangeTail]
  have := h.blanks1_none
  split
  · rfl
  · rename_i r hr; rw [this] at hr; cases hr

theorem foldSets_one (s : BoundSet) : foldSets [some s] = [s] := by
  simp [foldSets]

theorem canon_valid {v : Version} (h : C12.canon v) : (inc v).valid ∧ (exc v).valid := by
  obtain ⟨h1, h2, h3, _⟩ := h
  constructor <;> simp [Pred.valid, Bound.isValid, h1, h2, h3]

theorem maxLo_unb_r (p : Pred) : maxLo p unb = p := by
  unfold maxLo
  cases p <;> simp [Bound.lt, cmpBound]

theorem minUp_unb_l (q : Pred) : minUp unb q = q := by
  unfold minUp
  cases q <;> simp [Bound.lt, cmpBound]

theorem blanks1_space (t : List Char) (c : Char) (hc : isBlank c = false) :
    blanks1 (' ' :: c :: t) = some (c :: t) := by
  unfold blanks1
  have : dropBlanks (c :: t) = c :: t := by
    have := dropBlanks_append [] (c :: t) (by simp) (by intro d hd; simp at hd; subst hd; exact hc)
    simpa using this
  simp [isBlank, this]

/-- **one printed alternative parses back** to an interval equal to it as a value (`PartialEq`, i.e.
up to build metadata of an exact version) and with the same bounds membership and gate -/
theorem rangeP_render (s : BoundSet) (hs : Printable s) (t : List Char) (ht : s.render = some t)
    (rest : List Char) (hr : AltFollow rest) :
    ∃ s', rangeP (t ++ rest) = ([s'], rest) ∧ s'.beq s = true ∧ Printable s' ∧
      s'.render = some t ∧ ∀ v, s'.within v = s.within v ∧ s'.gate v = s.gate v := by
  obtain ⟨p, q, rfl, vp, vq, hne, cp, cq, hnb⟩ := hs.shape
  have self : ∀ (x : BoundSet) (hx : Printable x) (hxr : x.render = some t),
      ∃ s', ([x], rest) = ([s'], rest) ∧ s'.beq x = true ∧ Printable s' ∧ s'.render = some t ∧
        ∀ v, s'.within v = x.within v ∧ s'.gate v = x.gate v := by
    intro x hx hxr
    refine ⟨x, rfl, ?_, hx, hxr, fun v => ⟨rfl, rfl⟩⟩
    obtain ⟨p', q', rfl, _⟩ := hx.shape
    rw [beq_mk]
    constructor
    · cases q' <;> simp [predEqv] <;> exact ⟨le_self _, le_self _⟩
    · cases p' <;> simp [predEqv] <;> exact ⟨le_self _, le_self _⟩
  have one : ∀ (opText : List Char) (op : Operation) (v : Version), C12.canon v →
      ((opText = ['>', '='] ∧ op = .ge) ∨ (opText = ['>'] ∧ op = .gt) ∨
        (opText = ['<', '='] ∧ op = .le) ∨ (opText = ['<'] ∧ op = .lt)) →
      rangeP (opText ++ (v.render ++ rest)) = (foldSets [primitiveSet op (fullPartial v)], rest) := by
    intro opText op v hv hop
    unfold rangeP
    rw [simple_op opText op v hv rest hr.compFollow hop]
    simp only
    rw [rangeTail_altFollow hr]
  have two : ∀ (o1 : List Char) (op1 : Operation) (v1 : Version) (o2 : List Char) (op2 : Operation) (v2 : Version),
      C12.canon v1 → C12.canon v2 →
      ((o1 = ['>', '='] ∧ op1 = .ge) ∨ (o1 = ['>'] ∧ op1 = .gt)) →
      ((o2 = ['<', '='] ∧ op2 = .le) ∨ (o2 = ['<'] ∧ op2 = .lt)) →
      rangeP (o1 ++ (v1.render ++ (' ' :: (o2 ++ (v2.render ++ rest))))) =
        (foldSets [primitiveSet op1 (fullPartial v1), primitiveSet op2 (fullPartial v2)], rest) := by
    intro o1 op1 v1 o2 op2 v2 h1 h2 hop1 hop2
    unfold rangeP
    rw [simple_op o1 op1 v1 h1 _ (Or.inr (Or.inl ⟨_, rfl⟩))
      (by rcases hop1 with h | h; exact Or.inl h; exact Or.inr (Or.inl h))]
    simp only
    have hb : blanks1 (' ' :: (o2 ++ (v2.render ++ rest))) = some (o2 ++ (v2.render ++ rest)) := by
      rcases hop2 with ⟨rfl, _⟩ | ⟨rfl, _⟩ <;> exact blanks1_space _ '<' (by decide)
    rw [rangeTail_some hb]
    rw [simple_op o2 op2 v2 h2 rest hr.compFollow
      (by rcases hop2 with h | h; exact Or.inr (Or.inr (Or.inl h)); exact Or.inr (Or.inr (Or.inr h)))]
    simp only
    rw [rangeTail_altFollow hr]
  -- the sets the tables produce for full partials
  have pge : ∀ v, primitiveSet .ge (fullPartial v) = BoundSet.atLeast (inc v) := fun v => by
    simp [primitiveSet, fullPartial, Partial.toVersion]
  have pgt : ∀ v, primitiveSet .gt (fullPartial v) = BoundSet.atLeast (exc v) := fun v => by
    simp [primitiveSet, fullPartial, Partial.toVersion]
  have ple : ∀ v, primitiveSet .le (fullPartial v) = BoundSet.atMost (inc v) := fun v => by
    simp [primitiveSet, fullPartial, Partial.toVersion]
  have plt : ∀ v, primitiveSet .lt (fullPartial v) = BoundSet.atMost (exc v) := fun v => by
    simp [primitiveSet, fullPartial]
  have foldTwo : ∀ (P Q : Pred), P.valid → Q.valid → P ≠ unb → Q ≠ unb → nonEmpty P Q →
      foldSets [BoundSet.atLeast P, BoundSet.atMost Q] = [⟨up Q, lo P⟩] := by
    intro P Q hP hQ hPn hQn hN
    have a : BoundSet.atLeast P = some ⟨up unb, lo P⟩ :=
      new_of_nonEmpty hP valid_unb (by cases P <;> simp [nonEmpty])
    have b : BoundSet.atMost Q = some ⟨up Q, lo unb⟩ :=
      new_of_nonEmpty valid_unb hQ (by cases Q <;> simp [nonEmpty])
    rw [a, b]
    simp only [foldSets, List.filterMap_cons, List.filterMap_nil, id, List.foldl_cons, List.foldl_nil,
      Option.bind_some]
    rw [intersect_mk, maxLo_unb_r, minUp_unb_l, new_of_nonEmpty hP hQ hN]
  have foldOneLo : ∀ (P : Pred), P.valid → foldSets [BoundSet.atLeast P] = [⟨up unb, lo P⟩] := by
    intro P hP
    have a : BoundSet.atLeast P = some ⟨up unb, lo P⟩ :=
      new_of_nonEmpty hP valid_unb (by cases P <;> simp [nonEmpty])
    rw [a, foldSets_one]
  have foldOneUp : ∀ (Q : Pred), Q.valid → foldSets [BoundSet.atMost Q] = [⟨up Q, lo unb⟩] := by
    intro Q hQ
    have b : BoundSet.atMost Q = some ⟨up Q, lo unb⟩ :=
      new_of_nonEmpty valid_unb hQ (by cases Q <;> simp [nonEmpty])
    rw [b, foldSets_one]
  cases p with
  | unb =>
    cases q with
    | unb => exact absurd ⟨rfl, rfl⟩ hnb
    | inc v =>
      simp only [BoundSet.render, Option.some.injEq] at ht
      subst ht
      have := one ['<', '='] .le v cq (Or.inr (Or.inr (Or.inl ⟨rfl, rfl⟩)))
      simp only [List.cons_append, List.nil_append] at this ⊢
      rw [this, ple, foldOneUp _ vq]
      exact self _ hs (by simp [BoundSet.render])
    | exc v =>
      simp only [BoundSet.render, Option.some.injEq] at ht
      subst ht
      have := one ['<'] .lt v cq (Or.inr (Or.inr (Or.inr ⟨rfl, rfl⟩)))
      simp only [List.cons_append, List.nil_append] at this ⊢
      rw [this, plt, foldOneUp _ vq]
      exact self _ hs (by simp [BoundSet.render])
  | inc v =>
    cases q with
    | unb =>
      simp only [BoundSet.render, Option.some.injEq] at ht
      subst ht
      have := one ['>', '='] .ge v cp (Or.inl ⟨rfl, rfl⟩)
      simp only [List.cons_append, List.nil_append] at this ⊢
      rw [this, pge, foldOneLo _ vp]
      exact self _ hs (by simp [BoundSet.render])
    | inc v2 =>
      simp only [BoundSet.render] at ht
      by_cases hb : v.beq v2 = true
      · rw [if_pos hb] at ht
        simp only [Option.some.injEq] at ht
        subst ht
        -- exact version: parsed back as `exact v`
        have hx : rangeP (v.render ++ rest) = (foldSets [BoundSet.exact v], rest) := by
          unfold rangeP
          rw [simple_exact v cp rest hr]
          simp only
          rw [rangeTail_altFollow hr]
        rw [hx]
        have he : BoundSet.exact v = some ⟨up (inc v), lo (inc v)⟩ :=
          new_of_nonEmpty vp vp (le_self v)
        rw [he, foldSets_one]
        have hvv := (beq_iff v v2).mp hb
        refine ⟨_, rfl, ?_, ⟨⟨inc v, inc v, rfl, vp, vp, le_self v, cp, cp, by simp⟩⟩, ?_, ?_⟩
        · rw [beq_mk]; exact ⟨hvv, le_self v, le_self v⟩
        · simp [BoundSet.render, Version.beq]
        · intro w
          constructor
          · rw [Bool.eq_iff_iff, within_mk, within_mk]
            simp only [memLo, memUp]
            constructor
            · intro ⟨a, b⟩; exact ⟨a, by grind⟩
            · intro ⟨a, b⟩; exact ⟨a, by grind⟩
          · rw [gate_mk, gate_mk]
            simp only [gBound]
            simp only [Version.beq, Bool.and_eq_true, beq_iff_eq] at hb
            obtain ⟨⟨⟨e1, e2⟩, e3⟩, e4⟩ := hb
            simp [Version.isPre, sameTuple, e1, e2, e3, e4]
      · rw [if_neg hb] at ht
        simp only [Option.some.injEq] at ht
        subst ht
        have := two ['>', '='] .ge v ['<', '='] .le v2 cp cq (Or.inl ⟨rfl, rfl⟩) (Or.inl ⟨rfl, rfl⟩)
        simp only [List.cons_append, List.nil_append, List.append_assoc] at this ⊢
        rw [this, pge, ple, foldTwo _ _ vp vq (by simp) (by simp) hne]
        exact self _ hs (by simp [BoundSet.render, hb])
    | exc v2 =>
      simp only [BoundSet.render, Option.some.injEq] at ht
      subst ht
      have := two ['>', '='] .ge v ['<'] .lt v2 cp cq (Or.inl ⟨rfl, rfl⟩) (Or.inr ⟨rfl, rfl⟩)
      simp only [List.cons_append, List.nil_append, List.append_assoc] at this ⊢
      rw [this, pge, plt, foldTwo _ _ vp vq (by simp) (by simp) hne]
      exact self _ hs (by simp [BoundSet.render])
  | exc v =>
    cases q with
    | unb =>
      simp only [BoundSet.render, Option.some.injEq] at ht
      subst ht
      have := one ['>'] .gt v cp (Or.inr (Or.inl ⟨rfl, rfl⟩))
      simp only [List.cons_append, List.nil_append] at this ⊢
      rw [this, pgt, foldOneLo _ vp]
      exact self _ hs (by simp [BoundSet.render])
    | inc v2 =>
      simp only [BoundSet.render, Option.some.injEq] at ht
      subst ht
      have := two ['>'] .gt v ['<', '='] .le v2 cp cq (Or.inr ⟨rfl, rfl⟩) (Or.inl ⟨rfl, rfl⟩)
      simp only [List.cons_append, List.nil_append, List.append_assoc] at this ⊢
      rw [this, pgt, ple, foldTwo _ _ vp vq (by simp) (by simp) hne]
      exact self _ hs (by simp [BoundSet.render])
    | exc v2 =>
      simp only [BoundSet.render, Option.some.injEq] at ht
      subst ht
      have := two ['>'] .gt v ['<'] .lt v2 cp cq (Or.inr ⟨rfl, rfl⟩) (Or.inr ⟨rfl, rfl⟩)
      simp only [List.cons_append, List.nil_append, List.append_assoc] at this ⊢
      rw [this, pgt, plt, foldTwo _ _ vp vq (by simp) (by simp) hne]
      exact self _ hs (by simp [BoundSet.render])

end Semver

namespace Semver
open Pred Bound Spec

theorem boundSetsTail_none {s : List Char} (h : logicalOr s = none) : boundSetsTail s = ([], s) := by
  rw [boundSetsTail]
  split
  · rfl
  · rename_i r hr; rw [h] at hr; cases hr

theorem boundSetsTail_some {s r : List Char} (h : logicalOr s = some r) :
    boundSetsTail s = ((rangeP r).1 :: (boundSetsTail (rangeP r).2).1, (boundSetsTail (rangeP r).2).2) := by
  rw [boundSetsTail]
  split
  · rename_i hn; rw [h] at hn; cases hn
  · rename_i r' hr
    rw [h] at hr
    cases hr
    rfl

/-- a printed interval starts with an operator or a digit: never with a blank -/
theorem render_head_not_blank (s : BoundSet) (hs : Printable s) (t : List Char) (ht : s.render = some t) :
    ∃ c u, t = c :: u ∧ isBlank c = false := by
  obtain ⟨p, q, rfl, _, _, _, _, _, hnb⟩ := hs.shape
  cases p with
  | unb =>
    cases q with
    | unb => exact absurd ⟨rfl, rfl⟩ hnb
    | inc v => simp only [BoundSet.render, Option.some.injEq] at ht; subst ht; exact ⟨_, _, rfl, by decide⟩
    | exc v => simp only [BoundSet.render, Option.some.injEq] at ht; subst ht; exact ⟨_, _, rfl, by decide⟩
  | inc v =>
    cases q with
    | unb => simp only [BoundSet.render, Option.some.injEq] at ht; subst ht; exact ⟨_, _, rfl, by decide⟩
    | inc v2 =>
      simp only [BoundSet.render] at ht
      split at ht <;> simp only [Option.some.injEq] at ht <;> subst ht
      · obtain ⟨d, u, hd, hdig⟩ := render_head_digit v
        exact ⟨d, u, hd, isDigit_not_blank hdig⟩
      · exact ⟨_, _, rfl, by decide⟩
    | exc v2 => simp only [BoundSet.render, Option.some.injEq] at ht; subst ht; exact ⟨_, _, rfl, by decide⟩
  | exc v =>
    cases q with
    | unb => simp only [BoundSet.render, Option.some.injEq] at ht; subst ht; exact ⟨_, _, rfl, by decide⟩
    | inc v2 => simp only [BoundSet.render, Option.some.injEq] at ht; subst ht; exact ⟨_, _, rfl, by decide⟩
    | exc v2 => simp only [BoundSet.render, Option.some.injEq] at ht; subst ht; exact ⟨_, _, rfl, by decide⟩

theorem logicalOr_bars (t : List Char) (c : Char) (u : List Char) (ht : t = c :: u) (hc : isBlank c = false) :
    logicalOr ('|' :: '|' :: t) = some t := by
  unfold logicalOr
  have h1 : dropBlanks ('|' :: '|' :: t) = '|' :: '|' :: t := by
    have := dropBlanks_append [] ('|' :: '|' :: t) (by simp) (by intro d hd; simp at hd; subst hd; decide)
    simpa using this
  have h2 : dropBlanks t = t := by
    subst ht
    have := dropBlanks_append [] (c :: u) (by simp) (by intro d hd; simp at hd; subst hd; exact hc)
    simpa using this
  rw [h1]
  simp only [h2]

/-- pointwise relation between a range and what its printed form parses back to -/
inductive SameRange : Range → Range → Prop
  | nil : SameRange [] []
  | cons {s' s : BoundSet} {r' r : Range} :
      (s'.beq s = true ∧ Printable s' ∧ ∀ v, s'.within v = s.within v ∧ s'.gate v = s.gate v) →
      SameRange r' r → SameRange (s' :: r') (s :: r)

theorem boundSetsTail_render (r : Range) (hne : r ≠ []) (hp : ∀ s ∈ r, Printable s) (t : List Char)
    (ht : Range.render r = some t) :
    ∃ ls, boundSetsTail ('|' :: '|' :: t) = (ls, []) ∧ SameRange ls.flatten r ∧ Range.render ls.flatten = some t := by
  induction r generalizing t with
  | nil => exact absurd rfl hne
  | cons s rest ih =>
    cases rest with
    | nil =>
      simp only [Range.render] at ht
      obtain ⟨c, u, hcu, hc⟩ := render_head_not_blank s (hp s (by simp)) t ht
      rw [boundSetsTail_some (logicalOr_bars t c u hcu hc)]
      obtain ⟨s', h1, h2, h3, h4, h5⟩ := rangeP_render s (hp s (by simp)) t ht [] (Or.inl rfl)
      simp only [List.append_nil] at h1
      rw [h1]
      simp only
      rw [boundSetsTail_none (by simp [logicalOr, dropBlanks, span])]
      refine ⟨[[s']], rfl, ?_, ?_⟩
      · simp only [List.flatten_cons, List.flatten_nil, List.append_nil]
        exact .cons ⟨h2, h3, h5⟩ .nil
      · simpa [Range.render] using h4
    | cons s2 rest2 =>
      simp only [Range.render] at ht
      cases ha : s.render with
      | none => rw [ha] at ht; cases ht
      | some a =>
        cases hb : Range.render (s2 :: rest2) with
        | none => rw [ha, hb] at ht; cases ht
        | some b =>
          rw [ha, hb] at ht
          simp only [Option.some.injEq] at ht
          subst ht
          obtain ⟨c, u, hcu, hc⟩ := render_head_not_blank s (hp s (by simp)) a ha
          have hcu' : a ++ '|' :: '|' :: b = c :: (u ++ '|' :: '|' :: b) := by rw [hcu]; rfl
          rw [boundSetsTail_some (logicalOr_bars _ c _ hcu' hc)]
          obtain ⟨s', h1, h2, h3, h4, h5⟩ := rangeP_render s (hp s (by simp)) a ha ('|' :: '|' :: b)
            (Or.inr ⟨b, rfl⟩)
          rw [h1]
          simp only
          obtain ⟨ls, g1, g2, g3⟩ := ih (by simp) (fun x hx => hp x (by simp at hx ⊢; right; exact hx)) b hb
          rw [g1]
          refine ⟨[s'] :: ls, rfl, ?_, ?_⟩
          · simp only [List.flatten_cons, List.singleton_append]
            exact .cons ⟨h2, h3, h5⟩ g2
          · simp only [List.flatten_cons, List.singleton_append]
            cases hl : ls.flatten with
            | nil =>
              rw [hl] at g2
              cases g2
            | cons y ys =>
              rw [hl] at g3
              simp only [Range.render, h4, g3]

/-- **the printed form of a printable range parses back** to a range equal to it alternative by
alternative (as values, `PartialEq`), with the same bounds membership and gate, and the same printed
form -/
theorem parse_render (r : Range) (hne : r ≠ []) (hp : ∀ s ∈ r, Printable s) (t : List Char)
    (ht : Range.render r = some t) :
    ∃ r', Range.parse t = .ok r' ∧ SameRange r' r ∧ Range.render r' = some t := by
  cases r with
  | nil => exact absurd rfl hne
  | cons s rest =>
    -- first alternative, then the tail after `||`
    have hfirst : ∃ a, s.render = some a := by
      cases rest with
      | nil => exact ⟨t, by simpa [Range.render] using ht⟩
      | cons s2 rest2 =>
        simp only [Range.render] at ht
        cases ha : s.render with
        | none => rw [ha] at ht; cases ht
        | some a => exact ⟨a, rfl⟩
    obtain ⟨a, ha⟩ := hfirst
    obtain ⟨c, u, hcu, hc⟩ := render_head_not_blank s (hp s (by simp)) a ha
    cases rest with
    | nil =>
      have hta : t = a := by simpa [Range.render, ha] using ht.symm
      subst hta
      obtain ⟨s', h1, h2, h3, h4, h5⟩ := rangeP_render s (hp s (by simp)) t ha [] (Or.inl rfl)
      simp only [List.append_nil] at h1
      have hdb : dropBlanks t = t := by
        subst hcu
        have := dropBlanks_append [] (c :: u) (by simp) (by intro d hd; simp at hd; subst hd; exact hc)
        simpa using this
      refine ⟨[s'], ?_, .cons ⟨h2, h3, h5⟩ .nil, by simpa [Range.render] using h4⟩
      unfold Range.parse boundSets
      simp only [hdb, h1]
      rw [boundSetsTail_none (by simp [logicalOr, dropBlanks, span])]
      simp
    | cons s2 rest2 =>
      simp only [Range.render, ha] at ht
      cases hb : Range.render (s2 :: rest2) with
      | none => rw [hb] at ht; cases ht
      | some b =>
        rw [hb] at ht
        simp only [Option.some.injEq] at ht
        subst ht
        obtain ⟨s', h1, h2, h3, h4, h5⟩ := rangeP_render s (hp s (by simp)) a ha ('|' :: '|' :: b)
          (Or.inr ⟨b, rfl⟩)
        obtain ⟨ls, g1, g2, g3⟩ := boundSetsTail_render (s2 :: rest2) (by simp)
          (fun x hx => hp x (by simp at hx ⊢; right; exact hx)) b hb
        have hdb : dropBlanks (a ++ '|' :: '|' :: b) = a ++ '|' :: '|' :: b := by
          subst hcu
          have := dropBlanks_append [] (c :: u ++ '|' :: '|' :: b) (by simp)
            (by intro d hd; simp at hd; subst hd; exact hc)
          simpa using this
        refine ⟨s' :: ls.flatten, ?_, .cons ⟨h2, h3, h5⟩ g2, ?_⟩
        · unfold Range.parse boundSets
          simp only [hdb, h1, g1]
          simp
        · cases hl : ls.flatten with
          | nil => rw [hl] at g2; cases g2
          | cons y ys =>
            rw [hl] at g3
            simp only [Range.render, h4, g3]

end Semver
