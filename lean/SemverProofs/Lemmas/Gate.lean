import SemverProofs.Lemmas.Ranges
/-!
# The prerelease gate

`satisfies = within ∧ (release ∨ gate)`; how the gate of an intersection relates to the gates of
its operands ("between two prereleases of one tuple lies only that tuple").
-/
namespace Semver
open Pred Bound Std

theorem satisfies_iff (s : BoundSet) (v : Version) :
    s.satisfies v = true ↔ (s.within v = true ∧ (v.isPre = false ∨ s.gate v = true)) := by
  simp only [BoundSet.satisfies, Bool.and_eq_true, Bool.or_eq_true, Bool.not_eq_true']

/-- the order looks at the tuple first -/
theorem le_tuple {a b : Version} (h : a ≤ b) :
    a.major < b.major ∨ (a.major = b.major ∧ (a.minor < b.minor ∨ (a.minor = b.minor ∧ a.patch ≤ b.patch))) := by
  rw [le_def, cmpVersion_eq] at h
  rcases Nat.lt_trichotomy a.major b.major with h1 | h1 | h1
  · exact Or.inl h1
  · right; refine ⟨h1, ?_⟩
    rcases Nat.lt_trichotomy a.minor b.minor with h2 | h2 | h2
    · exact Or.inl h2
    · right; refine ⟨h2, ?_⟩
      rcases Nat.lt_trichotomy a.patch b.patch with h3 | h3 | h3
      · omega
      · omega
      · exfalso
        simp [h1, h2, Nat.compare_eq_gt.mpr h3] at h
    · exfalso
      simp [h1, Nat.compare_eq_gt.mpr h2] at h
  · exfalso
    simp [Nat.compare_eq_gt.mpr h1] at h

theorem sameTuple_iff (a b : Version) :
    sameTuple a b = true ↔ (a.major = b.major ∧ a.minor = b.minor ∧ a.patch = b.patch) := by
  simp [sameTuple, and_assoc]

/-- a version squeezed between two versions of one tuple has that tuple -/
theorem tuple_between {a b c : Version} (h1 : a ≤ b) (h2 : b ≤ c) (h : sameTuple c a = true) :
    sameTuple c b = true := by
  rw [sameTuple_iff] at h ⊢
  have := le_tuple h1
  have := le_tuple h2
  omega

/-- below a prerelease of the same tuple there are only prereleases -/
theorem isPre_of_le_pre {a b : Version} (h : a ≤ b) (ht : sameTuple a b = true) (hb : b.isPre = true) :
    a.isPre = true := by
  rw [sameTuple_iff] at ht
  rw [le_def, cmpVersion_eq] at h
  simp only [ht.1, ht.2.1, ht.2.2, Nat.compare_eq_eq.mpr, Ordering.eq_then] at h
  simp only [Version.isPre, Bool.not_eq_true', List.isEmpty_eq_false_iff] at hb ⊢
  intro h0
  rw [h0] at h
  cases hp : b.pre with
  | nil => exact hb hp
  | cons x xs => rw [hp] at h; simp [cmpPre] at h

theorem lt_le {a b : Version} (h : a < b) : a ≤ b := by grind

/-- the gate contribution of one bound -/
def gBound (p : Pred) (v : Version) : Bool :=
  match p with
  | inc l => l.isPre && sameTuple v l
  | exc l => l.isPre && sameTuple v l
  | unb => false

theorem gate_mk (p q : Pred) (v : Version) :
    (BoundSet.mk (up q) (lo p)).gate v = (gBound p v || gBound q v) := by
  cases p <;> cases q <;> simp [BoundSet.gate, gBound]

/-- a lower bound between a tagged lower bound on `v`'s tuple and the prerelease `v` is itself
tagged on that tuple -/
theorem gBound_lo_mono {p p' : Pred} {v : Version} (hv : v.isPre = true) (hm : memLo p v)
    (hge : ¬ loLt p p') (hg : gBound p' v = true) : gBound p v = true := by
  cases p <;> cases p' <;> simp_all [gBound, memLo, loLt] <;>
  · rename_i a b
    have hab : b ≤ a := by grind
    have hav : a ≤ v := by grind
    have ht := tuple_between hab hav hg.2
    refine ⟨isPre_of_le_pre hav ?_ hv, ht⟩
    rw [sameTuple_iff] at ht ⊢
    omega

theorem gBound_up_mono {q q' : Pred} {v : Version} (hv : v.isPre = true) (hm : memUp q v)
    (hle : ¬ upLt q' q) (hg : gBound q' v = true) : gBound q v = true := by
  cases q <;> cases q' <;> simp_all [gBound, memUp, upLt] <;>
  · rename_i a b
    have hab : a ≤ b := by grind
    have hva : v ≤ a := by grind
    have ht' : sameTuple b v = true := by rw [sameTuple_iff] at hg ⊢; omega
    have ht := tuple_between hva hab ht'
    have hta : sameTuple v a = true := by
      rw [sameTuple_iff] at ht hg ⊢; omega
    refine ⟨isPre_of_le_pre hab ?_ hg.1, hta⟩
    rw [sameTuple_iff] at ht ⊢
    omega

theorem gBound_maxLo {p p' : Pred} {v : Version} (hv : v.isPre = true) (h1 : memLo p v) (h2 : memLo p' v) :
    gBound (maxLo p p') v = (gBound p v || gBound p' v) := by
  unfold maxLo
  by_cases h : (lo p').lt (lo p) = true
  · rw [if_pos h]; rw [lo_lt_lo] at h
    have hge : ¬ loLt p p' := by
      cases p <;> cases p' <;> simp_all [loLt] <;> grind
    cases hg : gBound p' v
    · simp
    · simp [gBound_lo_mono hv h1 hge hg]
  · rw [if_neg h]; rw [lo_lt_lo] at h
    cases hg : gBound p v
    · simp
    · simp [gBound_lo_mono hv h2 h hg]

theorem gBound_minUp {q q' : Pred} {v : Version} (hv : v.isPre = true) (h1 : memUp q v) (h2 : memUp q' v) :
    gBound (minUp q q') v = (gBound q v || gBound q' v) := by
  unfold minUp
  by_cases h : (up q').lt (up q) = true
  · rw [if_pos h]; rw [up_lt_up] at h
    have hle : ¬ upLt q q' := by
      cases q <;> cases q' <;> simp_all [upLt] <;> grind
    cases hg : gBound q v
    · simp
    · simp [gBound_up_mono hv h2 hle hg]
  · rw [if_neg h]; rw [up_lt_up] at h
    cases hg : gBound q' v
    · simp
    · simp [gBound_up_mono hv h1 h hg]

/-- gate of an intersection, for a prerelease inside both operands: either operand's gate -/
theorem intersect_gate {s o r : BoundSet} (hs : s.WF) (ho : o.WF) (h : s.intersect o = some r)
    {v : Version} (hv : v.isPre = true) (h1 : s.within v = true) (h2 : o.within v = true) :
    r.gate v = (s.gate v || o.gate v) := by
  obtain ⟨p, q, rfl, _⟩ := hs
  obtain ⟨p', q', rfl, _⟩ := ho
  rw [intersect_mk] at h
  rw [new_eq_some h]
  rw [within_mk] at h1 h2
  rw [gate_mk, gate_mk, gate_mk, gBound_maxLo hv h1.1 h2.1, gBound_minUp hv h1.2 h2.2]
  cases gBound p v <;> cases gBound p' v <;> cases gBound q v <;> cases gBound q' v <;> rfl

/-- satisfaction of an intersection -/
theorem intersect_satisfies {s o r : BoundSet} (hs : s.WF) (ho : o.WF) (h : s.intersect o = some r)
    (v : Version) :
    r.satisfies v = true ↔
      (s.within v = true ∧ o.within v = true ∧
        (v.isPre = false ∨ s.satisfies v = true ∨ o.satisfies v = true)) := by
  have hw := (intersect_some hs ho h).2 v
  rw [satisfies_iff, hw]
  cases hv : v.isPre
  · simp
  · constructor
    · intro ⟨⟨h1, h2⟩, hg⟩
      rw [intersect_gate hs ho h hv h1 h2] at hg
      simp only [satisfies_iff, hv]
      simp_all
    · intro ⟨h1, h2, hg⟩
      rw [intersect_gate hs ho h hv h1 h2]
      simp only [satisfies_iff, hv] at hg
      simp_all

end Semver
