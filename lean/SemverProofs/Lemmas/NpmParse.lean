import SemverProofs.Lemmas.RangeText
import SemverSpec.NpmText
/-!
# The crate's range parser on every text of the npm range grammar (towards C01, part T2)

`Spec.Npm.AstText r s` relates a syntax tree to its spellings.  Here: on every such text the parser
yields exactly the desugaring tables applied to the tree (`boundSets_textG hG`).
-/
namespace Semver
open Pred Bound Spec Spec.Npm

/-! ### components -/

theorem extrasFollow_not_digit {rest : List Char} (h : extrasFollow rest) :
    ∀ c, rest.head? = some c → isDigit c = false := by
  intro c hc
  have := (h c hc).1
  simp only [isIdChar, Bool.or_eq_false_iff] at this
  exact this.1.1

theorem extrasFollow_not_dot {rest : List Char} (h : extrasFollow rest) : ∀ t, rest ≠ '.' :: t := by
  intro t ht
  subst ht
  exact (h '.' rfl).2.1 rfl

theorem component_xr {A rest : List Char} {a : Option Nat} (hA : XrText A a)
    (hr : ∀ c, rest.head? = some c → isDigit c = false) :
    component (A ++ rest) = some (a, rest) := by
  cases hA with
  | wild hw => rcases hw with rfl | rfl | rfl <;> rfl
  | num hn => exact component_num hn hr

theorem dotComponent_xr {A rest : List Char} {a : Option Nat} (hA : XrText A a)
    (hr : ∀ c, rest.head? = some c → isDigit c = false) :
    dotComponent ('.' :: (A ++ rest)) = (some a, rest) := by
  unfold dotComponent
  simp only
  rw [component_xr hA hr]

theorem dotComponent_follow {rest : List Char} (h : extrasFollow rest) : dotComponent rest = (none, rest) := by
  unfold dotComponent
  split
  · rename_i t
    exact absurd rfl (extrasFollow_not_dot h t)
  · rfl

theorem extras_follow {rest : List Char} (h : extrasFollow rest) : extras rest = (([], []), rest) := by
  have := extras_append (P := []) (Q := []) (p := []) (b := []) (Or.inl ⟨rfl, rfl⟩) (Or.inl ⟨rfl, rfl⟩) h
  simpa using this

theorem letter_not_digit {c : Char} (hl : letter c = true) : isDigit c = false := by
  rw [letter_eq] at hl
  simp only [isAlpha, Bool.or_eq_true, Bool.and_eq_true, decide_eq_true_eq] at hl
  simp only [isDigit, Bool.and_eq_false_iff, decide_eq_false_iff_not]
  have e1 : ('9' : Char).toNat = 57 := by decide
  have e2 : ('a' : Char).toNat = 97 := by decide
  have e3 : ('A' : Char).toNat = 65 := by decide
  rw [char_le_iff, char_le_iff] at *
  rw [char_le_iff, char_le_iff] at hl
  omega

theorem head_not_digit_PQ {P Q rest : List Char} {p q : List Ident} (hP : PreText P p) (hQ : BuildText Q q)
    (hr : extrasFollow rest) : ∀ d, (P ++ (Q ++ rest)).head? = some d → isDigit d = false := by
  intro d hd
  rcases hP with ⟨rfl, _⟩ | ⟨T, rfl, _⟩ | ⟨_, c, t, rfl, hl⟩
  · rcases hQ with ⟨rfl, _⟩ | ⟨T, rfl, _⟩
    · simp only [List.nil_append] at hd
      exact extrasFollow_not_digit hr d hd
    · simp at hd; subst hd; decide
  · simp at hd; subst hd; decide
  · simp at hd; subst hd
    exact letter_not_digit hl

/-! ### partials -/

theorem fromNP_npOf1 (a : Option Nat) : fromNP (npOf a none none [] []) = ⟨a, none, none, [], []⟩ := by
  cases a <;> rfl

theorem fromNP_npOf2 (a b : Option Nat) :
    fromNP (npOf a b none [] []) = ⟨a, a.bind (fun _ => b), none, [], []⟩ := by
  cases a <;> cases b <;> rfl

theorem fromNP_npOf3 (a b c : Option Nat) (pre build : List Ident) :
    fromNP (npOf a b c pre build) =
      ⟨a, a.bind (fun _ => b), (a.bind (fun _ => b)).bind (fun _ => c),
        (if ((a.bind (fun _ => b)).bind (fun _ => c)).isSome then (pre, build) else ([], [])).1,
        (if ((a.bind (fun _ => b)).bind (fun _ => c)).isSome then (pre, build) else ([], [])).2⟩ := by
  cases a <;> cases b <;> cases c <;> rfl

/-- **`partial_version` (after `v` and blanks) on every spelling of a partial** -/
theorem partialCore_text {body rest : List Char} {p : NP} (h : PartialBody body p) (hr : extrasFollow rest) :
    partialCore (body ++ rest) = some (fromNP p, rest) := by
  have hnd := extrasFollow_not_digit hr
  cases h with
  | @one A a hA =>
    unfold partialCore
    rw [component_xr hA hnd]
    simp only
    rw [dotComponent_follow hr]
    simp only
    rw [dotComponent_follow hr, fromNP_npOf1]
    simp
  | @two A B a b hA hB =>
    have e : A ++ '.' :: B ++ rest = A ++ '.' :: (B ++ rest) := by simp
    rw [e]
    unfold partialCore
    rw [component_xr hA dot_not_digit]
    simp only
    rw [dotComponent_xr hB hnd]
    simp only
    rw [dotComponent_follow hr, fromNP_npOf2]
    simp
  | @three A B C P Q a b c pre build hA hB hC hP hQ =>
    have e : A ++ '.' :: (B ++ '.' :: (C ++ (P ++ Q))) ++ rest =
        A ++ '.' :: (B ++ '.' :: (C ++ (P ++ (Q ++ rest)))) := by simp
    rw [e]
    unfold partialCore
    rw [component_xr hA dot_not_digit]
    simp only
    rw [dotComponent_xr hB dot_not_digit]
    simp only
    rw [dotComponent_xr hC (head_not_digit_PQ hP hQ hr)]
    simp only [Option.isSome_some, if_true]
    rw [extras_append hP hQ hr, fromNP_npOf3]
    simp only [Option.join]
    cases a <;> cases b <;> cases c <;> rfl

/-- the first character of a partial body: a digit or a wildcard -/
def bodyStart (c : Char) : Prop := isDigit c = true ∨ c = 'x' ∨ c = 'X' ∨ c = '*'

theorem xr_head {A : List Char} {a : Option Nat} (h : XrText A a) : ∃ c t, A = c :: t ∧ bodyStart c := by
  cases h with
  | wild hw =>
    rcases hw with rfl | rfl | rfl
    · exact ⟨'x', [], rfl, Or.inr (Or.inl rfl)⟩
    · exact ⟨'X', [], rfl, Or.inr (Or.inr (Or.inl rfl))⟩
    · exact ⟨'*', [], rfl, Or.inr (Or.inr (Or.inr rfl))⟩
  | num hn =>
    obtain ⟨hne, hd, _⟩ := hn
    rw [all_digit_eq] at hd
    cases A with
    | nil => exact absurd rfl hne
    | cons c t => exact ⟨c, t, rfl, Or.inl (by simp at hd; exact hd.1)⟩

theorem body_head {body : List Char} {p : NP} (h : PartialBody body p) : ∃ c t, body = c :: t ∧ bodyStart c := by
  cases h with
  | one hA => exact xr_head hA
  | two hA _ =>
    obtain ⟨c, t, rfl, hc⟩ := xr_head hA
    exact ⟨c, _, rfl, hc⟩
  | three hA _ _ _ _ =>
    obtain ⟨c, t, rfl, hc⟩ := xr_head hA
    exact ⟨c, _, rfl, hc⟩

theorem bodyStart_facts {c : Char} (h : bodyStart c) :
    isBlank c = false ∧ c ≠ 'v' ∧ c ≠ '>' ∧ c ≠ '<' ∧ c ≠ '=' ∧ c ≠ '~' ∧ c ≠ '^' ∧ c ≠ '-' ∧ c ≠ '|' := by
  rcases h with h | rfl | rfl | rfl
  · refine ⟨isDigit_not_blank h, ?_, ?_, ?_, ?_, ?_, ?_, ?_, ?_⟩ <;> (intro hc; subst hc; revert h; decide)
  all_goals decide

/-- the first character of a partial text: `v`, a digit or a wildcard -/
def partialStart (c : Char) : Prop := bodyStart c ∨ c = 'v'

theorem partialText_head {t : List Char} {p : NP} (h : PartialText t p) : ∃ c u, t = c :: u ∧ partialStart c := by
  rcases h with h | ⟨b, body, rfl, _, _⟩
  · obtain ⟨c, u, rfl, hc⟩ := body_head h
    exact ⟨c, u, rfl, Or.inl hc⟩
  · exact ⟨'v', _, rfl, Or.inr rfl⟩

theorem partialStart_facts {c : Char} (h : partialStart c) :
    isBlank c = false ∧ c ≠ '>' ∧ c ≠ '<' ∧ c ≠ '=' ∧ c ≠ '~' ∧ c ≠ '^' ∧ c ≠ '-' ∧ c ≠ '|' := by
  rcases h with h | rfl
  · have := bodyStart_facts h
    exact ⟨this.1, this.2.2.1, this.2.2.2.1, this.2.2.2.2.1, this.2.2.2.2.2.1, this.2.2.2.2.2.2.1,
      this.2.2.2.2.2.2.2.1, this.2.2.2.2.2.2.2.2⟩
  · decide

theorem stripV_body {c : Char} {t : List Char} (h : bodyStart c) : stripV (c :: t) = c :: t := by
  unfold stripV
  split
  · rename_i u heq
    simp at heq
    exact absurd heq.1 (bodyStart_facts h).2.1
  · rfl

theorem dropBlanks_nonblank {c : Char} {t : List Char} (h : isBlank c = false) : dropBlanks (c :: t) = c :: t := by
  have := dropBlanks_append [] (c :: t) (by simp) (by intro d hd; simp at hd; subst hd; exact h)
  simpa using this

/-- **`partial_version` on every spelling of a partial** -/
theorem partialVersion_text {t rest : List Char} {p : NP} (h : PartialText t p) (hr : extrasFollow rest) :
    partialVersion (t ++ rest) = some (fromNP p, rest) := by
  rcases h with h | ⟨b, body, rfl, hb, h⟩
  · obtain ⟨c, u, hcu, hc⟩ := body_head h
    unfold partialVersion
    have : stripV (t ++ rest) = t ++ rest := by rw [hcu]; exact stripV_body hc
    rw [this]
    have : dropBlanks (t ++ rest) = t ++ rest := by rw [hcu]; exact dropBlanks_nonblank (bodyStart_facts hc).1
    rw [this]
    exact partialCore_text h hr
  · obtain ⟨c, u, hcu, hc⟩ := body_head h
    unfold partialVersion
    have : stripV ('v' :: (b ++ body) ++ rest) = b ++ (body ++ rest) := by simp [stripV]
    rw [this]
    have : dropBlanks (b ++ (body ++ rest)) = body ++ rest := by
      apply dropBlanks_append b _ (by rw [← all_blank_eq]; exact hb)
      intro d hd
      rw [hcu] at hd
      simp at hd; subst hd
      exact (bodyStart_facts hc).1
    rw [this]
    exact partialCore_text h hr

end Semver

namespace Semver
open Pred Bound Spec Spec.Npm

/-! ### what follows a token -/

/-- the next non-blank thing is not a `-` -/
def NoDash (rest : List Char) : Prop := ∀ u, dropBlanks rest ≠ '-' :: u

structure TokFollow (rest : List Char) : Prop where
  atEnd : atEnd rest = true
  noDash : NoDash rest

theorem atEnd_extrasFollow {rest : List Char} (h : atEnd rest = true) : extrasFollow rest := by
  intro c hc
  unfold Semver.atEnd at h
  split at h
  · simp at hc
  · simp at hc; subst hc; exact ⟨by decide, by decide, by decide⟩
  · rename_i d t _
    simp at hc; subst hc
    simp only [isBlank, Bool.or_eq_true, beq_iff_eq] at h
    rcases h with rfl | rfl <;> exact ⟨by decide, by decide, by decide⟩

theorem hyphenRest_none {rest : List Char} (h : TokFollow rest) : hyphenRest rest = none := by
  unfold hyphenRest
  cases hb : blanks1 rest with
  | none => rfl
  | some r1 =>
    simp only
    have : r1 = dropBlanks rest := by
      unfold blanks1 at hb
      split at hb
      · rename_i c t
        split at hb
        · rename_i hc
          cases hb
          have : dropBlanks (c :: t) = dropBlanks t := by
            simp only [dropBlanks, span, hc, if_true]
          rw [this]
        · cases hb
      · cases hb
    have hd : dash r1 = none := by
      unfold dash
      split
      · rename_i r
        exact absurd this.symm (fun e => h.noDash r (by rw [e]))
      · rfl
    rw [hd]

theorem blanks1_none_of_head {c : Char} {t : List Char} (h : isBlank c = false) : blanks1 (c :: t) = none := by
  simp [blanks1, h]

theorem hyphenRest_none_of_head {c : Char} {t : List Char} (h : isBlank c = false) : hyphenRest (c :: t) = none := by
  unfold hyphenRest
  rw [blanks1_none_of_head h]

theorem hyphen_none_of_head {c : Char} {t : List Char} (h1 : c ≠ 'v') (h2 : isBlank c = false)
    (h3 : isDigit c = false) (h4 : c ≠ 'x' ∧ c ≠ 'X' ∧ c ≠ '*') : hyphen (c :: t) = none := by
  have hpv := partialVersion_none_of_head c t rfl h1 h2 h3 h4
  unfold hyphen optPartial
  simp only [hpv]
  rw [hyphenRest_none_of_head h2]

theorem operation_none_of_head {c : Char} {t : List Char} (h1 : c ≠ '>') (h2 : c ≠ '=') (h3 : c ≠ '<') :
    operation (c :: t) = none := by
  unfold operation
  simp only [h1, h2, h3, if_false]

theorem primitive_none_of_head {c : Char} {t : List Char} (h1 : c ≠ '>') (h2 : c ≠ '=') (h3 : c ≠ '<') :
    primitive (c :: t) = none := by
  unfold primitive
  rw [operation_none_of_head h1 h2 h3]

theorem partialP_none_of_head {c : Char} {t : List Char} (h1 : c ≠ 'v') (h2 : isBlank c = false)
    (h3 : isDigit c = false) (h4 : c ≠ 'x' ∧ c ≠ 'X' ∧ c ≠ '*') : partialP (c :: t) = none := by
  unfold partialP
  rw [partialVersion_none_of_head c t rfl h1 h2 h3 h4]

theorem tilde_none_of_head {c : Char} {t : List Char} (h : c ≠ '~') : tilde (c :: t) = none := by
  unfold tilde tildeGt
  split
  · rename_i heq
    split at heq
    · rename_i u h'; simp at h'; exact absurd h'.1 h
    · rfl
  · rename_i heq
    split at heq
    · rename_i u h'; simp at h'; exact absurd h'.1 h
    · cases heq

theorem caret_none_of_head {c : Char} {t : List Char} (h : c ≠ '^') : caret (c :: t) = none := by
  unfold caret
  split
  · rename_i u heq; simp at heq; exact absurd heq.1 h
  · rfl

/-- blanks, then a partial: `space0` in front of `partial_version` -/
theorem dropBlanks_gap_partial {gap t rest : List Char} {p : NP} (hg : Blanks gap) (ht : PartialText t p) :
    dropBlanks (gap ++ (t ++ rest)) = t ++ rest := by
  obtain ⟨c, u, rfl, hc⟩ := partialText_head ht
  apply dropBlanks_append gap _ (by rw [← all_blank_eq]; exact hg)
  intro d hd
  simp at hd; subst hd
  exact (partialStart_facts hc).1

/-- the head of `gap ++ t ++ rest` is a blank or the start of a partial -/
theorem gap_partial_head {gap t rest : List Char} {p : NP} (hg : Blanks gap) (ht : PartialText t p) :
    ∃ c u, gap ++ (t ++ rest) = c :: u ∧ (isBlank c = true ∨ partialStart c) := by
  cases gap with
  | nil =>
    obtain ⟨c, u, rfl, hc⟩ := partialText_head ht
    exact ⟨c, u ++ rest, rfl, Or.inr hc⟩
  | cons g gs =>
    refine ⟨g, gs ++ (t ++ rest), rfl, Or.inl ?_⟩
    have : (g :: gs).all isBlank = true := by rw [← all_blank_eq]; exact hg
    simp at this
    exact this.1

theorem not_eq_of_blank_or_start {c : Char} (h : isBlank c = true ∨ partialStart c) : c ≠ '=' ∧ c ≠ '>' := by
  rcases h with h | h
  · constructor <;> (intro hc; subst hc; revert h; decide)
  · exact ⟨(partialStart_facts h).2.2.2.1, (partialStart_facts h).2.1⟩

theorem operation_opText (op : Op) {s : List Char} (hs : ∀ c u, s = c :: u → c ≠ '=') :
    operation (opText op ++ s) = some (toOperation op, s) := by
  cases op with
  | lt =>
    show operation ('<' :: s) = _
    unfold operation
    have h1 : ('<' : Char) ≠ '>' := by decide
    have h2 : ('<' : Char) ≠ '=' := by decide
    simp only [h1, h2, if_false, if_true]
    split
    · rename_i u; exact absurd rfl (hs '=' u rfl)
    · rfl
  | le => rfl
  | gt =>
    show operation ('>' :: s) = _
    unfold operation
    simp only [if_true]
    split
    · rename_i u; exact absurd rfl (hs '=' u rfl)
    · rfl
  | ge => rfl
  | eq => rfl

theorem opText_head (op : Op) (s : List Char) : ∃ c u, opText op ++ s = c :: u ∧ (c = '>' ∨ c = '<' ∨ c = '=') := by
  cases op
  · exact ⟨'<', s, rfl, Or.inr (Or.inl rfl)⟩
  · exact ⟨'<', '=' :: s, rfl, Or.inr (Or.inl rfl)⟩
  · exact ⟨'>', s, rfl, Or.inl rfl⟩
  · exact ⟨'>', '=' :: s, rfl, Or.inl rfl⟩
  · exact ⟨'=', s, rfl, Or.inr (Or.inr rfl)⟩

/-- the crate's tables applied to a syntax tree node -/
def evalSimple : Simple → Option BoundSet
  | .prim op p => primitiveSet (toOperation op) (fromNP p)
  | .bare p => partialSet (fromNP p)
  | .tilde p => tildeSet false (fromNP p)
  | .caret p => caretSet (fromNP p)
  | .garbage _ => none

theorem tildeSet_flag (p : NP) : tildeSet true (fromNP p) = tildeSet false (fromNP p) := by
  cases p <;> rfl

theorem garbage_tok {tok rest : List Char} (h1 : ∀ d ∈ tok, isBlank d = false ∧ d ≠ '|') (h2 : atEnd rest = true) :
    garbage (tok ++ rest) = rest := by
  induction tok with
  | nil =>
    simp only [List.nil_append]
    cases rest with
    | nil => rfl
    | cons c t => unfold garbage; rw [if_pos h2]
  | cons c t ih =>
    have hc := h1 c (by simp)
    simp only [List.cons_append]
    unfold garbage
    have : atEnd (c :: (t ++ rest)) = false := by
      unfold Semver.atEnd
      split
      · rename_i heq; cases heq
      · rename_i u heq; simp at heq; exact absurd heq.1 hc.2
      · rename_i d u _ heq; simp at heq; rw [← heq.1]; exact hc.1
    rw [this]
    simp only [Bool.false_eq_true, if_false]
    exact ih (fun d hd => h1 d (by simp [hd]))

/-- what the parser theorems need of a class `G` of garbage tokens: followed by a token boundary such
a token is consumed whole and yields nothing; it starts with no blank, `-` or `|` -/
structure GarbageOK (G : List Char → Prop) : Prop where
  parse : ∀ tok rest, G tok → TokFollow rest → simple (tok ++ rest) = (none, rest)
  head : ∀ tok, G tok → ∃ c u, tok = c :: u ∧ isBlank c = false ∧ c ≠ '-' ∧ c ≠ '|'

/-- tokens whose first character can start no comparator are such a class -/
theorem garbageTok_ok : GarbageOK GarbageTok := by
  constructor
  · intro tok rest hg hr
    obtain ⟨c, u, rfl, hstart, hall⟩ := hg
    simp only [tokenStart, Bool.or_eq_false_iff, beq_eq_false_iff_ne, ne_eq] at hstart
    obtain ⟨⟨⟨⟨⟨⟨⟨⟨⟨⟨⟨⟨h1, h2⟩, h3⟩, h4⟩, h5⟩, h6⟩, h7⟩, h8⟩, h9⟩, h10⟩, h11⟩, h12⟩, h13⟩ := hstart
    rw [digit_eq] at h1
    rw [blank_eq] at h2
    simp only [List.cons_append]
    have hhy : hyphen (c :: (u ++ rest)) = none := hyphen_none_of_head h6 h2 h1 ⟨h3, h4, h5⟩
    have hprim : primitive (c :: (u ++ rest)) = none := primitive_none_of_head h8 h9 h7
    have hpart : partialP (c :: (u ++ rest)) = none := partialP_none_of_head h6 h2 h1 ⟨h3, h4, h5⟩
    have htil : Semver.tilde (c :: (u ++ rest)) = none := tilde_none_of_head h10
    have hcar : Semver.caret (c :: (u ++ rest)) = none := caret_none_of_head h11
    unfold simple
    rw [hhy, hprim, hpart, htil, hcar]
    simp only [terminated]
    have := garbage_tok (tok := c :: u) (rest := rest)
      (fun d hd => by have := hall d hd; rw [blank_eq] at this; exact this) hr.atEnd
    simp only [List.cons_append] at this
    rw [this]
  · intro tok hg
    obtain ⟨c, u, rfl, hstart, hall⟩ := hg
    simp only [tokenStart, Bool.or_eq_false_iff, beq_eq_false_iff_ne, ne_eq] at hstart
    refine ⟨c, u, rfl, ?_, hstart.1.2, hstart.2⟩
    have := hstart.1.1.1.1.1.1.1.1.1.1.1.2
    rw [blank_eq] at this; exact this

/-- **`simple` on every spelling of a simple range**, followed by a token boundary -/
theorem simple_textG {G : List Char → Prop} (hG : GarbageOK G) {s : Simple} {t rest : List Char} (h : SimpleTextG G s t) (hr : TokFollow rest) :
    simple (t ++ rest) = (evalSimple s, rest) := by
  have hef := atEnd_extrasFollow hr.atEnd
  cases h with
  | @prim op p gap t hg ht =>
    obtain ⟨c, u, hcu, hc⟩ := gap_partial_head (rest := rest) hg ht
    obtain ⟨o, ou, hou, ho⟩ := opText_head op (gap ++ (t ++ rest))
    have e : opText op ++ (gap ++ t) ++ rest = opText op ++ (gap ++ (t ++ rest)) := by simp
    rw [e]
    have hhy : hyphen (opText op ++ (gap ++ (t ++ rest))) = none := by
      rw [hou]
      apply hyphen_none_of_head <;> rcases ho with rfl | rfl | rfl <;> decide
    have hoper := operation_opText op (s := gap ++ (t ++ rest))
      (by intro c' u' h'; rw [hcu] at h'; cases h'; exact (not_eq_of_blank_or_start hc).1)
    have hprim : primitive (opText op ++ (gap ++ (t ++ rest))) =
        some (primitiveSet (toOperation op) (fromNP p), rest) := by
      unfold primitive
      rw [hoper]
      simp only
      rw [dropBlanks_gap_partial hg ht, partialVersion_text ht hef]
    unfold simple
    rw [hhy, hprim]
    simp [terminated, hr.atEnd, evalSimple]
  | @bare p t ht =>
    obtain ⟨c, u, hcu, hc⟩ := partialText_head ht
    have hpv := partialVersion_text ht hef
    have hhy : hyphen (t ++ rest) = none := by
      unfold hyphen optPartial
      simp only [hpv]
      rw [hyphenRest_none hr]
    have hf := partialStart_facts hc
    have hprim : primitive (t ++ rest) = none := by
      rw [hcu]
      exact primitive_none_of_head hf.2.1 hf.2.2.2.1 hf.2.2.1
    have hpart : partialP (t ++ rest) = some (partialSet (fromNP p), rest) := by
      unfold partialP
      rw [hpv]
    unfold simple
    rw [hhy, hprim, hpart]
    simp [terminated, hr.atEnd, evalSimple]
  | @tilde p gap t hg ht =>
    have e : '~' :: (gap ++ t) ++ rest = '~' :: (gap ++ (t ++ rest)) := by simp
    rw [e]
    have hhy : hyphen ('~' :: (gap ++ (t ++ rest))) = none := by
      apply hyphen_none_of_head <;> decide
    have hprim : primitive ('~' :: (gap ++ (t ++ rest))) = none := by
      apply primitive_none_of_head <;> decide
    have hpart : partialP ('~' :: (gap ++ (t ++ rest))) = none := by
      apply partialP_none_of_head <;> decide
    obtain ⟨c, u, hcu, hc⟩ := partialText_head ht
    have htil : Semver.tilde ('~' :: (gap ++ (t ++ rest))) = some (tildeSet false (fromNP p), rest) := by
      unfold Semver.tilde tildeGt
      simp only
      rw [dropBlanks_gap_partial hg ht]
      have hs : stripGt (t ++ rest) = (false, t ++ rest) := by
        rw [hcu]
        unfold stripGt
        split
        · rename_i u' heq; simp at heq; exact absurd heq.1 (partialStart_facts hc).2.1
        · rfl
      rw [hs]
      simp only
      have : dropBlanks (t ++ rest) = t ++ rest := by
        rw [hcu]; exact dropBlanks_nonblank (partialStart_facts hc).1
      rw [this, partialVersion_text ht hef]
    unfold simple
    rw [hhy, hprim, hpart, htil]
    simp [terminated, hr.atEnd, evalSimple]
  | @tildeGt p gap gap2 t hg hg2 ht =>
    have e : '~' :: (gap ++ '>' :: (gap2 ++ t)) ++ rest = '~' :: (gap ++ '>' :: (gap2 ++ (t ++ rest))) := by simp
    rw [e]
    have hhy : hyphen ('~' :: (gap ++ '>' :: (gap2 ++ (t ++ rest)))) = none := by
      apply hyphen_none_of_head <;> decide
    have hprim : primitive ('~' :: (gap ++ '>' :: (gap2 ++ (t ++ rest)))) = none := by
      apply primitive_none_of_head <;> decide
    have hpart : partialP ('~' :: (gap ++ '>' :: (gap2 ++ (t ++ rest)))) = none := by
      apply partialP_none_of_head <;> decide
    have htil : Semver.tilde ('~' :: (gap ++ '>' :: (gap2 ++ (t ++ rest)))) =
        some (tildeSet true (fromNP p), rest) := by
      unfold Semver.tilde tildeGt
      simp only
      have : dropBlanks (gap ++ '>' :: (gap2 ++ (t ++ rest))) = '>' :: (gap2 ++ (t ++ rest)) := by
        apply dropBlanks_append gap _ (by rw [← all_blank_eq]; exact hg)
        intro d hd; simp at hd; subst hd; decide
      rw [this]
      have hs : stripGt ('>' :: (gap2 ++ (t ++ rest))) = (true, gap2 ++ (t ++ rest)) := rfl
      rw [hs]
      simp only
      rw [dropBlanks_gap_partial hg2 ht, partialVersion_text ht hef]
    unfold simple
    rw [hhy, hprim, hpart, htil]
    simp [terminated, hr.atEnd, evalSimple, tildeSet_flag]
  | @caret p gap t hg ht =>
    have e : '^' :: (gap ++ t) ++ rest = '^' :: (gap ++ (t ++ rest)) := by simp
    rw [e]
    have hhy : hyphen ('^' :: (gap ++ (t ++ rest))) = none := by
      apply hyphen_none_of_head <;> decide
    have hprim : primitive ('^' :: (gap ++ (t ++ rest))) = none := by
      apply primitive_none_of_head <;> decide
    have hpart : partialP ('^' :: (gap ++ (t ++ rest))) = none := by
      apply partialP_none_of_head <;> decide
    have htil : Semver.tilde ('^' :: (gap ++ (t ++ rest))) = none := by
      apply tilde_none_of_head; decide
    have hcar : Semver.caret ('^' :: (gap ++ (t ++ rest))) = some (caretSet (fromNP p), rest) := by
      unfold Semver.caret
      simp only
      rw [dropBlanks_gap_partial hg ht, partialVersion_text ht hef]
    unfold simple
    rw [hhy, hprim, hpart, htil, hcar]
    simp [terminated, hr.atEnd, evalSimple]
  | garbage hg => exact hG.parse _ rest hg hr

/-- the first character of a simple range is not a blank, not `-`, not `|` -/
theorem simpleText_headG {G : List Char → Prop} (hG : GarbageOK G) {s : Simple} {t : List Char} (h : SimpleTextG G s t) :
    ∃ c u, t = c :: u ∧ isBlank c = false ∧ c ≠ '-' ∧ c ≠ '|' := by
  cases h with
  | @prim op p gap t hg ht =>
    obtain ⟨c, u, hcu, hc⟩ := opText_head op (gap ++ t)
    exact ⟨c, u, hcu, by rcases hc with rfl | rfl | rfl <;> decide⟩
  | bare ht =>
    obtain ⟨c, u, rfl, hc⟩ := partialText_head ht
    have := partialStart_facts hc
    exact ⟨c, u, rfl, this.1, this.2.2.2.2.2.2.1, this.2.2.2.2.2.2.2⟩
  | tilde _ _ => exact ⟨'~', _, rfl, by decide⟩
  | tildeGt _ _ _ => exact ⟨'~', _, rfl, by decide⟩
  | caret _ _ => exact ⟨'^', _, rfl, by decide⟩
  | garbage hg => exact hG.head _ hg

end Semver

namespace Semver
open Pred Bound Spec Spec.Npm

/-! ### alternatives -/

/-- end of an alternative: blanks, then the end of the text or `||` -/
def AltEnd (rest rest0 : List Char) : Prop := ∃ b, rest = b ++ rest0 ∧ b.all isBlank = true ∧ AltFollow rest0

theorem altFollow_head_not_blank {r0 : List Char} (h : AltFollow r0) : ∀ c, r0.head? = some c → isBlank c = false := by
  intro c hc
  rcases h with rfl | ⟨t, rfl⟩
  · simp at hc
  · simp at hc; subst hc; decide

theorem AltEnd.dropBlanks {rest rest0 : List Char} (h : AltEnd rest rest0) : dropBlanks rest = rest0 := by
  obtain ⟨b, rfl, hb, hf⟩ := h
  exact dropBlanks_append b rest0 hb (altFollow_head_not_blank hf)

theorem atEnd_of_blank_head {c : Char} {t : List Char} (h : isBlank c = true) : atEnd (c :: t) = true := by
  unfold Semver.atEnd
  split
  · rfl
  · rfl
  · rename_i d u _ heq; simp at heq; rw [← heq.1]; exact h

theorem AltEnd.tokFollow {rest rest0 : List Char} (h : AltEnd rest rest0) : TokFollow rest := by
  have hd := h.dropBlanks
  obtain ⟨b, rfl, hb, hf⟩ := h
  constructor
  · cases b with
    | nil => exact hf.compFollow.atEnd
    | cons c t =>
      simp at hb
      exact atEnd_of_blank_head hb.1
  · intro u hu
    rw [hd] at hu
    rcases hf with rfl | ⟨t, rfl⟩ <;> cases hu

theorem simple_altFollow {r0 : List Char} (h : AltFollow r0) : simple r0 = (none, r0) := by
  rcases h with rfl | ⟨t, rfl⟩
  · have a1 : partialVersion [] = none := by
      unfold partialVersion partialCore; rfl
    have a2 : hyphen [] = none := by unfold hyphen optPartial hyphenRest; simp only [a1]; rfl
    have a4 : partialP [] = none := by unfold partialP; rw [a1]
    unfold simple
    rw [a2, a4]; rfl
  · have hhy : hyphen ('|' :: '|' :: t) = none := by apply hyphen_none_of_head <;> decide
    have hprim : primitive ('|' :: '|' :: t) = none := by apply primitive_none_of_head <;> decide
    have hpart : partialP ('|' :: '|' :: t) = none := by apply partialP_none_of_head <;> decide
    have htil : Semver.tilde ('|' :: '|' :: t) = none := by apply tilde_none_of_head; decide
    have hcar : Semver.caret ('|' :: '|' :: t) = none := by apply caret_none_of_head; decide
    unfold simple
    rw [hhy, hprim, hpart, htil, hcar]
    simp only [terminated]
    unfold garbage
    rfl

theorem blanks1_blanks {b s : List Char} (hne : b ≠ []) (hb : b.all isBlank = true)
    (hs : ∀ c, s.head? = some c → isBlank c = false) : blanks1 (b ++ s) = some s := by
  cases b with
  | nil => exact absurd rfl hne
  | cons c t =>
    simp at hb
    unfold blanks1
    simp only [List.cons_append, hb.1, if_true]
    rw [dropBlanks_append t s (by simp; exact hb.2) hs]

theorem rangeTail_altEnd {rest rest0 : List Char} (h : AltEnd rest rest0) :
    ∃ k, rangeTail rest = (List.replicate k none, rest0) := by
  obtain ⟨b, rfl, hb, hf⟩ := h
  by_cases hne : b = []
  · subst hne
    exact ⟨0, by simpa using rangeTail_altFollow hf⟩
  · refine ⟨1, ?_⟩
    rw [rangeTail_some (blanks1_blanks hne hb (altFollow_head_not_blank hf)), simple_altFollow hf]
    simp only
    rw [rangeTail_altFollow hf]
    rfl

theorem simplesText_headG {G : List Char → Prop} (hG : GarbageOK G) {l : List Simple} {T : List Char} (h : SimplesTextG G l T) (hne : l ≠ []) :
    ∃ c u, T = c :: u ∧ isBlank c = false ∧ c ≠ '-' ∧ c ≠ '|' := by
  cases h with
  | nil => exact absurd rfl hne
  | one hs => exact simpleText_headG hG hs
  | cons hs _ _ _ =>
    obtain ⟨c, u, rfl, hc⟩ := simpleText_headG hG hs
    exact ⟨c, _, rfl, hc⟩

theorem tokFollow_blanks_tok {b T rest : List Char} (hne : b ≠ []) (hb : b.all isBlank = true)
    (hT : ∃ c u, T = c :: u ∧ isBlank c = false ∧ c ≠ '-' ∧ c ≠ '|') : TokFollow (b ++ (T ++ rest)) := by
  obtain ⟨c, u, rfl, hc1, hc2, _⟩ := hT
  constructor
  · cases b with
    | nil => exact absurd rfl hne
    | cons d t => simp at hb; exact atEnd_of_blank_head hb.1
  · intro w hw
    rw [dropBlanks_append b _ hb (by intro d hd; simp at hd; subst hd; exact hc1)] at hw
    simp at hw
    exact hc2 hw.1

theorem blanks1_of {b : List Char} (h : Blanks1 b) : b ≠ [] ∧ b.all isBlank = true :=
  ⟨h.1, by rw [← all_blank_eq]; exact h.2⟩

/-- the loop of `range()` on the rest of a comparator list -/
theorem rangeTail_simplesG {G : List Char → Prop} (hG : GarbageOK G) {l : List Simple} {T : List Char} (h : SimplesTextG G l T) (hne : l ≠ [])
    {b rest rest0 : List Char} (hb : b ≠ [] ∧ b.all isBlank = true) (hr : AltEnd rest rest0) :
    ∃ k, rangeTail (b ++ (T ++ rest)) = (l.map evalSimple ++ List.replicate k none, rest0) := by
  induction h generalizing b with
  | nil => exact absurd rfl hne
  | @one s t hs =>
    obtain ⟨c, u, hcu, hc⟩ := simpleText_headG hG hs
    obtain ⟨k, hk⟩ := rangeTail_altEnd hr
    refine ⟨k, ?_⟩
    have hb1 : blanks1 (b ++ (t ++ rest)) = some (t ++ rest) :=
      blanks1_blanks hb.1 hb.2 (by intro d hd; rw [hcu] at hd; simp at hd; subst hd; exact hc.1)
    rw [rangeTail_some hb1, simple_textG hG hs hr.tokFollow]
    simp only
    rw [hk]
    rfl
  | @cons s t b' l T hs hb' hl hlne ih =>
    obtain ⟨c, u, hcu, hc⟩ := simpleText_headG hG hs
    have e : t ++ (b' ++ T) ++ rest = t ++ (b' ++ (T ++ rest)) := by simp
    rw [e]
    have hb1 : blanks1 (b ++ (t ++ (b' ++ (T ++ rest)))) = some (t ++ (b' ++ (T ++ rest))) :=
      blanks1_blanks hb.1 hb.2 (by intro d hd; rw [hcu] at hd; simp at hd; subst hd; exact hc.1)
    have hb'' := blanks1_of hb'
    have htf := tokFollow_blanks_tok (rest := rest) hb''.1 hb''.2 (simplesText_headG hG hl hlne)
    obtain ⟨k, hk⟩ := ih hlne hb''
    refine ⟨k, ?_⟩
    rw [rangeTail_some hb1, simple_textG hG hs htf]
    simp only
    rw [hk]
    rfl

theorem foldSets_nones (xs : List (Option BoundSet)) (k : Nat) :
    foldSets (xs ++ List.replicate k none) = foldSets xs := by
  unfold foldSets
  have : (List.replicate k (none : Option BoundSet)).filterMap id = [] := by
    induction k with
    | zero => rfl
    | succ n ih => simp [List.replicate_succ, ih]
  rw [List.filterMap_append, this, List.append_nil]

theorem foldSets_single (o : Option BoundSet) (k : Nat) :
    foldSets (o :: List.replicate k none) = o.toList := by
  have := foldSets_nones [o] k
  simp only [List.singleton_append] at this
  rw [this]
  cases o <;> simp [foldSets]

/-- **`range()` on a comparator list** -/
theorem rangeP_simplesG {G : List Char → Prop} (hG : GarbageOK G) {l : List Simple} {T : List Char} (h : SimplesTextG G l T) (hne : l ≠ [])
    {rest rest0 : List Char} (hr : AltEnd rest rest0) :
    rangeP (T ++ rest) = (foldSets (l.map evalSimple), rest0) := by
  cases h with
  | nil => exact absurd rfl hne
  | @one s t hs =>
    obtain ⟨k, hk⟩ := rangeTail_altEnd hr
    unfold rangeP
    simp only
    rw [simple_textG hG hs hr.tokFollow]
    simp only
    rw [hk]
    simp only [List.map_cons, List.map_nil]
    have := foldSets_nones [evalSimple s] k
    simp only [List.singleton_append] at this
    rw [this]
  | @cons s t b l T hs hb hl hlne =>
    have e : t ++ (b ++ T) ++ rest = t ++ (b ++ (T ++ rest)) := by simp
    rw [e]
    have hb' := blanks1_of hb
    have htf := tokFollow_blanks_tok (rest := rest) hb'.1 hb'.2 (simplesText_headG hG hl hlne)
    obtain ⟨k, hk⟩ := rangeTail_simplesG hG hl hlne hb' hr
    unfold rangeP
    simp only
    rw [simple_textG hG hs htf]
    simp only
    rw [hk]
    simp only [List.map_cons]
    have := foldSets_nones (evalSimple s :: l.map evalSimple) k
    simp only [List.cons_append] at this
    rw [this]

def evalAlt : Alt → List BoundSet
  | .hyphen l h => (hyphenSet ((some (fromNP l)).filter (·.major.isSome)) (hyphenUpper (fromNP h))).toList
  | .simples l => foldSets (l.map evalSimple)

def evalAst (r : Ast) : List BoundSet := r.flatMap evalAlt

theorem blank_extrasFollow {c : Char} {t : List Char} (h : isBlank c = true) : extrasFollow (c :: t) :=
  atEnd_extrasFollow (atEnd_of_blank_head h)

/-- **`range()` on a hyphen range** -/
theorem rangeP_hyphen {lo' hi : NP} {a b1 b2 c rest rest0 : List Char} (ha : PartialText a lo')
    (hb1 : Blanks1 b1) (hb2 : Blanks1 b2) (hc : PartialText c hi) (hr : AltEnd rest rest0) :
    rangeP (a ++ (b1 ++ '-' :: (b2 ++ c)) ++ rest) = (evalAlt (.hyphen lo' hi), rest0) := by
  have e : a ++ (b1 ++ '-' :: (b2 ++ c)) ++ rest = a ++ (b1 ++ '-' :: (b2 ++ (c ++ rest))) := by simp
  rw [e]
  obtain ⟨hb1n, hb1b⟩ := blanks1_of hb1
  obtain ⟨hb2n, hb2b⟩ := blanks1_of hb2
  have hef := atEnd_extrasFollow hr.tokFollow.atEnd
  obtain ⟨d, u, hdu, hd⟩ := partialText_head hc
  have hef1 : extrasFollow (b1 ++ '-' :: (b2 ++ (c ++ rest))) := by
    cases b1 with
    | nil => exact absurd rfl hb1n
    | cons x xs => simp at hb1b; exact blank_extrasFollow hb1b.1
  have hopt : optPartial (a ++ (b1 ++ '-' :: (b2 ++ (c ++ rest)))) =
      (some (fromNP lo'), b1 ++ '-' :: (b2 ++ (c ++ rest))) := by
    unfold optPartial
    rw [partialVersion_text ha hef1]
  have hrest : hyphenRest (b1 ++ '-' :: (b2 ++ (c ++ rest))) = some (fromNP hi, rest) := by
    unfold hyphenRest
    rw [blanks1_blanks hb1n hb1b (by intro x hx; simp at hx; subst hx; decide)]
    simp only [dash]
    rw [blanks1_blanks hb2n hb2b (by intro x hx; rw [hdu] at hx; simp at hx; subst hx; exact (partialStart_facts hd).1)]
    simp only
    exact partialVersion_text hc hef
  have hhy : hyphen (a ++ (b1 ++ '-' :: (b2 ++ (c ++ rest)))) =
      some (hyphenSet ((some (fromNP lo')).filter (·.major.isSome)) (hyphenUpper (fromNP hi)), rest) := by
    unfold hyphen
    simp only
    rw [hopt]
    simp only
    rw [hrest]
  obtain ⟨k, hk⟩ := rangeTail_altEnd hr
  unfold rangeP
  simp only
  have hs : simple (a ++ (b1 ++ '-' :: (b2 ++ (c ++ rest)))) =
      (hyphenSet ((some (fromNP lo')).filter (·.major.isSome)) (hyphenUpper (fromNP hi)), rest) := by
    unfold simple
    rw [hhy]
    simp [terminated, hr.tokFollow.atEnd]
  rw [hs]
  simp only
  rw [hk]
  simp only
  rw [foldSets_single]
  rfl

theorem rangeP_altFollow {r0 : List Char} (h : AltFollow r0) : rangeP r0 = ([], r0) := by
  unfold rangeP
  simp only
  rw [simple_altFollow h]
  simp only
  rw [rangeTail_altFollow h]
  rfl

theorem simplesText_nilG {G : List Char → Prop} (hG : GarbageOK G) {T : List Char} (h : SimplesTextG G [] T) : T = [] := by
  cases h; rfl

theorem altText_headG {G : List Char → Prop} (hG : GarbageOK G) {a : Alt} {t : List Char} (h : AltTextG G a t) (hne : t ≠ []) :
    ∀ c, t.head? = some c → isBlank c = false := by
  intro c hc
  cases h with
  | @simples l t hl =>
    by_cases hl0 : l = []
    · subst hl0; exact absurd (simplesText_nilG hG hl) hne
    · obtain ⟨d, u, rfl, hd, _⟩ := simplesText_headG hG hl hl0
      simp at hc; subst hc; exact hd
  | hyphen ha _ _ _ =>
    obtain ⟨d, u, rfl, hd⟩ := partialText_head ha
    simp at hc; subst hc
    exact (partialStart_facts hd).1

/-- **`range()` on any alternative**, after `space0` -/
theorem rangeP_altG {G : List Char → Prop} (hG : GarbageOK G) {a : Alt} {t : List Char} (h : AltTextG G a t) {b0 rest rest0 : List Char}
    (hb0 : b0.all isBlank = true) (hr : AltEnd rest rest0) :
    rangeP (dropBlanks (b0 ++ (t ++ rest))) = (evalAlt a, rest0) := by
  by_cases ht : t = []
  · have hd : dropBlanks (b0 ++ (t ++ rest)) = rest0 := by
      obtain ⟨b, rfl, hb, hf⟩ := hr
      rw [ht]
      simp only [List.nil_append]
      rw [← List.append_assoc]
      exact dropBlanks_append (b0 ++ b) rest0 (by simp [hb0, hb]) (altFollow_head_not_blank hf)
    rw [hd]
    obtain ⟨b, _, _, hf⟩ := hr
    rw [rangeP_altFollow hf]
    cases h with
    | @simples l t hl =>
      by_cases hl0 : l = []
      · subst hl0; rfl
      · obtain ⟨c, u, hcu, _⟩ := simplesText_headG hG hl hl0
        rw [hcu] at ht; cases ht
    | hyphen ha _ _ _ =>
      obtain ⟨d, u, hdu, _⟩ := partialText_head ha
      rw [hdu] at ht
      simp at ht
  · have hd : dropBlanks (b0 ++ (t ++ rest)) = t ++ rest := by
      apply dropBlanks_append b0 _ hb0
      intro c hc
      apply altText_headG hG h ht c
      cases t with
      | nil => exact absurd rfl ht
      | cons d u => simpa using hc
    rw [hd]
    cases h with
    | @simples l t hl =>
      have hl0 : l ≠ [] := by
        intro h0; subst h0; exact ht (simplesText_nilG hG hl)
      exact rangeP_simplesG hG hl hl0 hr
    | hyphen ha hb1 hb2 hc => exact rangeP_hyphen ha hb1 hb2 hc hr

end Semver

namespace Semver
open Pred Bound Spec Spec.Npm

/-! ### the whole text -/

theorem boundSetsTail_nil' : boundSetsTail [] = ([], []) :=
  boundSetsTail_none (by simp [logicalOr, dropBlanks, span])

theorem boundSets_nil : (boundSets []).1 = [] := by
  unfold boundSets
  simp only
  rw [rangeP_altFollow (Or.inl rfl)]
  simp only
  rw [boundSetsTail_nil']
  rfl

/-- **`bound_sets()` on every text of the grammar**: the tables applied to the tree, alternative by
alternative -/
theorem boundSets_altsG {G : List Char → Prop} (hG : GarbageOK G) {r : Ast} {T : List Char} (h : AltsTextG G r T) :
    ∀ b0 b2 : List Char, b0.all isBlank = true → b2.all isBlank = true →
      (boundSets (dropBlanks (b0 ++ (T ++ b2)))).1 = evalAst r := by
  induction h with
  | nil =>
    intro b0 b2 hb0 hb2
    have : dropBlanks (b0 ++ ([] ++ b2)) = [] := dropBlanks_of_all (by simp [hb0, hb2])
    rw [this, boundSets_nil]
    rfl
  | @one a t ha =>
    intro b0 b2 hb0 hb2
    have hr : AltEnd b2 [] := ⟨b2, by simp, hb2, Or.inl rfl⟩
    unfold boundSets
    simp only
    rw [rangeP_altG hG ha hb0 hr]
    simp only
    rw [boundSetsTail_nil']
    simp [evalAst]
  | @cons a t o r T ha ho _ _ ih =>
    intro b0 b2 hb0 hb2
    obtain ⟨ob1, ob2, rfl, hob1, hob2⟩ := ho
    rw [← all_blank_eq] at hb0 hb2
    have hob1' : ob1.all isBlank = true := by rw [← all_blank_eq]; exact hob1
    have hob2' : ob2.all isBlank = true := by rw [← all_blank_eq]; exact hob2
    have e : b0 ++ (t ++ (ob1 ++ '|' :: '|' :: ob2 ++ T) ++ b2) =
        b0 ++ (t ++ (ob1 ++ '|' :: '|' :: (ob2 ++ (T ++ b2)))) := by simp
    rw [e]
    have hr : AltEnd (ob1 ++ '|' :: '|' :: (ob2 ++ (T ++ b2))) ('|' :: '|' :: (ob2 ++ (T ++ b2))) :=
      ⟨ob1, rfl, hob1', Or.inr ⟨_, rfl⟩⟩
    unfold boundSets
    simp only
    rw [rangeP_altG hG ha (by rw [← all_blank_eq]; exact hb0) hr]
    simp only
    have hlo : logicalOr ('|' :: '|' :: (ob2 ++ (T ++ b2))) = some (dropBlanks (ob2 ++ (T ++ b2))) := by
      unfold logicalOr
      rw [dropBlanks_nonblank (by decide)]
      rfl
    rw [boundSetsTail_some hlo]
    simp only [List.flatten_cons]
    have := ih ob2 b2 hob2' (by rw [← all_blank_eq]; exact hb2)
    unfold boundSets at this
    simp only [List.flatten_cons] at this
    rw [this]
    simp [evalAst]

theorem boundSets_textG {G : List Char → Prop} (hG : GarbageOK G) {r : Ast} {s : List Char} (h : AstTextG G r s) : (boundSets (dropBlanks s)).1 = evalAst r := by
  obtain ⟨b1, T, b2, rfl, hb1, hb2, hT⟩ := h
  exact boundSets_altsG hG hT b1 b2 (by rw [← all_blank_eq]; exact hb1) (by rw [← all_blank_eq]; exact hb2)

/-- **`Range::parse` on every text of the grammar** -/
theorem parse_textG {G : List Char → Prop} (hG : GarbageOK G) {r : Ast} {s : List Char} (h : AstTextG G r s) :
    Range.parse s = if (evalAst r).isEmpty then .error ⟨s, 0, .noValidRanges⟩ else .ok (evalAst r) := by
  unfold Range.parse
  simp only
  rw [boundSets_textG hG h]

/-! ### the same for the parser-independent garbage class `GarbageTok` -/

theorem simple_text {s : Simple} {t rest : List Char} (h : SimpleText s t) (hr : TokFollow rest) :
    simple (t ++ rest) = (evalSimple s, rest) := simple_textG garbageTok_ok h hr

theorem boundSets_text {r : Ast} {s : List Char} (h : AstText r s) : (boundSets (dropBlanks s)).1 = evalAst r :=
  boundSets_textG garbageTok_ok h

theorem parse_text {r : Ast} {s : List Char} (h : AstText r s) :
    Range.parse s = if (evalAst r).isEmpty then .error ⟨s, 0, .noValidRanges⟩ else .ok (evalAst r) :=
  parse_textG garbageTok_ok h

end Semver
