import SemverProofs.Lemmas.VersionOrder
import SemverModel.Bound
/-!
# `Version` as a linear preorder (for `grind`'s order reasoning)

`a ≤ b :⇔ cmpVersion a b ≠ gt`, `a < b :⇔ cmpVersion a b = lt`.  Antisymmetry holds only up to
build metadata, so this is a linear *pre*order; `a ≈ b` is written `a ≤ b ∧ b ≤ a`.
-/
namespace Semver
open Std

instance : LE Version := ⟨fun a b => (cmpVersion a b).isLE = true⟩
instance : LT Version := ⟨fun a b => cmpVersion a b = .lt⟩

theorem le_def (a b : Version) : a ≤ b ↔ (cmpVersion a b).isLE = true := Iff.rfl
theorem lt_def (a b : Version) : a < b ↔ cmpVersion a b = .lt := Iff.rfl

instance : DecidableLE Version := fun a b => inferInstanceAs (Decidable ((cmpVersion a b).isLE = true))
instance : DecidableLT Version := fun a b => inferInstanceAs (Decidable (cmpVersion a b = .lt))

theorem cmp_swap (a b : Version) : cmpVersion b a = (cmpVersion a b).swap :=
  OrientedCmp.eq_swap (cmp := cmpVersion)

instance : IsLinearPreorder Version where
  le_refl a := by
    show (cmpVersion a a).isLE = true
    rw [ReflCmp.compare_self (cmp := cmpVersion)]; rfl
  le_trans a b c h1 h2 := TransCmp.isLE_trans (cmp := cmpVersion) h1 h2
  le_total a b := by
    show (cmpVersion a b).isLE = true ∨ (cmpVersion b a).isLE = true
    rw [cmp_swap a b]
    cases cmpVersion a b <;> simp

instance : LawfulOrderLT Version where
  lt_iff a b := by
    show cmpVersion a b = .lt ↔ (cmpVersion a b).isLE = true ∧ ¬ (cmpVersion b a).isLE = true
    rw [cmp_swap a b]
    cases cmpVersion a b <;> simp

/-! ### bridges from the model's boolean tests -/

@[simp] theorem vlt_iff (a b : Version) : vlt a b = true ↔ a < b := by
  simp [vlt, lt_def]

@[simp] theorem vle_iff (a b : Version) : vle a b = true ↔ a ≤ b := by
  simp only [vle, le_def]
  cases cmpVersion a b <;> simp

theorem cmp_lt_iff (a b : Version) : cmpVersion a b = .lt ↔ a < b := Iff.rfl

theorem cmp_gt_iff (a b : Version) : cmpVersion a b = .gt ↔ b < a := by
  rw [lt_def, cmp_swap a b]
  cases cmpVersion a b <;> simp

theorem cmp_eq_iff (a b : Version) : cmpVersion a b = .eq ↔ a ≤ b ∧ b ≤ a := by
  rw [le_def, le_def, cmp_swap a b]
  cases cmpVersion a b <;> simp

theorem not_lt_iff_le (a b : Version) : ¬ a < b ↔ b ≤ a := by
  rw [lt_def, le_def, cmp_swap a b]
  cases cmpVersion a b <;> simp

theorem not_le_iff_lt (a b : Version) : ¬ a ≤ b ↔ b < a := by
  rw [lt_def, le_def, cmp_swap a b]
  cases cmpVersion a b <;> simp

/-- `Version::eq` is precedence equality -/
theorem beq_iff (a b : Version) : a.beq b = true ↔ a ≤ b ∧ b ≤ a := by
  rw [← cmp_eq_iff]
  constructor
  · intro h
    simp only [Version.beq, Bool.and_eq_true, beq_iff_eq] at h
    obtain ⟨⟨⟨h1, h2⟩, h3⟩, h4⟩ := h
    rw [cmpVersion_eq, h1, h2, h3, h4]
    simp [ReflCmp.compare_self (cmp := cmpPre)]
  · intro h
    rw [cmpVersion_eq] at h
    simp only [Ordering.then_eq_eq, Nat.compare_eq_eq] at h
    obtain ⟨h1, h2, h3, h4⟩ := h
    have h5 := LawfulEqCmp.eq_of_compare (cmp := cmpPre) h4
    simp [Version.beq, h1, h2, h3, h5]

end Semver
