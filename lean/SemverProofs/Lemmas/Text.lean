import SemverModel.Text
import SemverModel.VersionParse
import SemverModel.VersionFmt
/-!
# Lemmas about spans, digits and number text
-/
namespace Semver

theorem span_eq (p : Char → Bool) (s : List Char) : (span p s).1 ++ (span p s).2 = s := by
  induction s with
  | nil => simp [span]
  | cons c cs ih => simp only [span]; split <;> simp [ih]

theorem span_fst_all (p : Char → Bool) (s : List Char) : (span p s).1.all p = true := by
  induction s with
  | nil => simp [span]
  | cons c cs ih => simp only [span]; split <;> simp_all

theorem span_snd_head (p : Char → Bool) (s : List Char) :
    ∀ c, (span p s).2.head? = some c → p c = false := by
  induction s with
  | nil => simp [span]
  | cons c cs ih =>
    simp only [span]
    split
    · exact ih
    · rename_i hc; intro d hd; simp at hd; subst hd; simpa using hc

/-- maximal munch: a prefix satisfying `p` followed by something that does not start with a `p`
character is exactly what `span` takes -/
theorem span_append (p : Char → Bool) (a rest : List Char) (ha : a.all p = true)
    (hr : ∀ c, rest.head? = some c → p c = false) : span p (a ++ rest) = (a, rest) := by
  induction a with
  | nil =>
    cases rest with
    | nil => rfl
    | cons c cs => simp [span, hr c rfl]
  | cons d ds ih =>
    simp only [List.all_cons, Bool.and_eq_true] at ha
    simp [span, ha.1, ih ha.2]

theorem dropBlanks_append (b rest : List Char) (hb : b.all isBlank = true)
    (hr : ∀ c, rest.head? = some c → isBlank c = false) : dropBlanks (b ++ rest) = rest := by
  simp [dropBlanks, span_append isBlank b rest hb hr]

theorem dropBlanks_idem (s : List Char) : dropBlanks (dropBlanks s) = dropBlanks s := by
  unfold dropBlanks
  have h := span_snd_head isBlank s
  have := span_append isBlank [] (span isBlank s).2 (by simp) h
  simpa using congrArg Prod.snd this

theorem dropBlanks_head (s : List Char) : ∀ c, (dropBlanks s).head? = some c → isBlank c = false :=
  span_snd_head isBlank s

/-! ### digits -/

theorem digitVal_digitChar (d : Nat) (h : d < 10) : digitVal (digitChar d) = d := by
  have : d = 0 ∨ d = 1 ∨ d = 2 ∨ d = 3 ∨ d = 4 ∨ d = 5 ∨ d = 6 ∨ d = 7 ∨ d = 8 ∨ d = 9 := by omega
  rcases this with h|h|h|h|h|h|h|h|h|h <;> subst h <;> decide

theorem isDigit_digitChar (d : Nat) (h : d < 10) : isDigit (digitChar d) = true := by
  have : d = 0 ∨ d = 1 ∨ d = 2 ∨ d = 3 ∨ d = 4 ∨ d = 5 ∨ d = 6 ∨ d = 7 ∨ d = 8 ∨ d = 9 := by omega
  rcases this with h|h|h|h|h|h|h|h|h|h <;> subst h <;> decide

theorem valOf_append (a : List Char) (c : Char) : valOf (a ++ [c]) = valOf a * 10 + digitVal c := by
  simp [valOf, List.foldl_append]

theorem valOf_render (n : Nat) : valOf (renderNat n) = n := by
  induction n using Nat.strongRecOn with
  | _ n ih =>
    rw [renderNat]
    split
    · simp [valOf, digitVal_digitChar _ ‹_›]
    · rw [valOf_append, ih (n / 10) (by omega), digitVal_digitChar _ (by omega)]; omega

theorem all_digits_render (n : Nat) : (renderNat n).all isDigit = true := by
  induction n using Nat.strongRecOn with
  | _ n ih =>
    rw [renderNat]
    split
    · simp [isDigit_digitChar _ ‹_›]
    · simp [List.all_append, ih (n / 10) (by omega), isDigit_digitChar _ (Nat.mod_lt _ (by omega))]

theorem render_ne_nil (n : Nat) : renderNat n ≠ [] := by
  rw [renderNat]; split <;> simp

theorem isDigit_isIdChar {c : Char} (h : isDigit c = true) : isIdChar c = true := by
  simp [isIdChar, h]

theorem isDigit_not_blank {c : Char} (h : isDigit c = true) : isBlank c = false := by
  simp only [isDigit, Bool.and_eq_true, decide_eq_true_eq] at h
  simp only [isBlank, Bool.or_eq_false_iff, beq_eq_false_iff_ne, ne_eq]
  constructor <;> (intro hc; subst hc; revert h; decide)

/-! ### `number` -/

/-- `number` on a digit string followed by a non-digit -/
theorem number_append (a rest : List Char) (ha : a.all isDigit = true) (hne : a ≠ [])
    (hr : ∀ c, rest.head? = some c → isDigit c = false) (hv : valOf a ≤ MAX_SAFE_INTEGER) :
    number (a ++ rest) = .ok (valOf a) rest := by
  unfold number
  rw [span_append isDigit a rest ha hr]
  have h1 : a.isEmpty = false := by cases a <;> simp_all
  have h2 : ¬ U64 ≤ valOf a := by unfold U64; unfold MAX_SAFE_INTEGER at hv; omega
  have h3 : ¬ MAX_SAFE_INTEGER < valOf a := by omega
  simp [h1, h2, h3]

/-- what a successful `number` consumed -/
theorem number_ok {s r : List Char} {n : Nat} (h : number s = .ok n r) :
    ∃ a, s = a ++ r ∧ a.all isDigit = true ∧ a ≠ [] ∧ valOf a = n ∧ n ≤ MAX_SAFE_INTEGER ∧
      (∀ c, r.head? = some c → isDigit c = false) := by
  unfold number at h
  simp only at h
  split at h
  · cases h
  · split at h
    · cases h
    · split at h
      · cases h
      · rename_i h1 h2 h3
        cases h
        refine ⟨(span isDigit s).1, (span_eq _ _).symm, span_fst_all _ _, ?_, rfl, by omega, span_snd_head _ _⟩
        intro h0; simp [h0] at h1

end Semver
