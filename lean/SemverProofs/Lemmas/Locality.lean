import SemverProofs.Lemmas.RangeText
/-!
# Locality of the range parser at an `||` boundary (towards C02, text level)

`t` is a separator tail: a blank followed by `||` and anything.  Every sub-parser of `simple`, run on
`y ++ t`, does what it does on `y` and leaves `t` behind: nothing it decides inside `y` depends on what
follows the ` ||`.
-/
namespace Semver
open Pred Bound

/-- a blank, then `||`, then anything -/
structure Sep (t T0 : List Char) : Prop where
  eq : t = ' ' :: T0
  bars : ∃ b, T0 = '|' :: '|' :: b

variable {t T0 : List Char}

theorem Sep.head_blank (h : Sep t T0) : ∀ c, t.head? = some c → c = ' ' := by
  intro c hc; rw [h.eq] at hc; simp at hc; exact hc.symm

theorem span_app (p : Char → Bool) (z : List Char) (h : Sep t T0) (hp : p ' ' = false) :
    span p (z ++ t) = ((span p z).1, (span p z).2 ++ t) := by
  induction z with
  | nil => rw [h.eq]; simp [span, hp]
  | cons c cs ih =>
    simp only [List.cons_append, span]
    split
    · rw [ih]
    · simp

theorem dropBlanks_T0 (h : Sep t T0) : dropBlanks T0 = T0 := by
  obtain ⟨b, hb⟩ := h.bars
  rw [hb]
  have := dropBlanks_append [] ('|' :: '|' :: b) (by simp) (by intro c hc; simp at hc; subst hc; decide)
  simpa using this

theorem dropBlanks_t (h : Sep t T0) : dropBlanks t = T0 := by
  rw [h.eq]
  have := dropBlanks_append [' '] T0 (by decide) (by
    obtain ⟨b, hb⟩ := h.bars
    intro c hc; rw [hb] at hc; simp at hc; subst hc; decide)
  simpa using this

/-- skipping blanks at the junction: either something of `z` remains, or the blanks run into the
separator and stop at `||` -/
theorem dropBlanks_app (z : List Char) (h : Sep t T0) :
    dropBlanks (z ++ t) = if dropBlanks z = [] then T0 else dropBlanks z ++ t := by
  induction z with
  | nil => simp [dropBlanks, span, dropBlanks_t h] ; exact dropBlanks_t h
  | cons c cs ih =>
    by_cases hc : isBlank c = true
    · have e1 : dropBlanks (c :: cs) = dropBlanks cs := by simp [dropBlanks, span, hc]
      have e2 : dropBlanks (c :: cs ++ t) = dropBlanks (cs ++ t) := by simp [dropBlanks, span, hc]
      rw [e1, e2, ih]
    · have e1 : dropBlanks (c :: cs) = c :: cs := by simp [dropBlanks, span, hc]
      have e2 : dropBlanks (c :: cs ++ t) = c :: cs ++ t := by simp [dropBlanks, span, hc]
      rw [e1, e2]; simp

theorem blanks1_T0 (h : Sep t T0) : blanks1 T0 = none := by
  obtain ⟨b, hb⟩ := h.bars
  rw [hb]; simp [blanks1, isBlank]

theorem blanks1_t (h : Sep t T0) : blanks1 t = some T0 := by
  rw [h.eq]
  simp [blanks1, isBlank, dropBlanks_T0 h]

theorem blanks1_app (z : List Char) (h : Sep t T0) :
    blanks1 (z ++ t) = match z with
      | [] => some T0
      | c :: cs => if isBlank c then some (if dropBlanks cs = [] then T0 else dropBlanks cs ++ t) else none := by
  cases z with
  | nil => simpa using blanks1_t h
  | cons c cs =>
    simp only [List.cons_append, blanks1]
    split
    · rw [dropBlanks_app cs h]
    · rfl

/-! ### what fails right at the separator -/

theorem number_T0 (h : Sep t T0) : ∃ e, number T0 = .err e := by
  obtain ⟨b, hb⟩ := h.bars
  rw [hb]; exact ⟨_, by simp [number, span, isDigit]; rfl⟩

theorem component_T0 (h : Sep t T0) : component T0 = none := by
  obtain ⟨b, hb⟩ := h.bars
  rw [hb]
  simp [component, number, span, isDigit]

theorem component_nil : component [] = none := by simp [component, number, span]

theorem partialVersion_T0 (h : Sep t T0) : partialVersion T0 = none := by
  obtain ⟨b, hb⟩ := h.bars
  have e1 : stripV T0 = T0 := by rw [hb]; rfl
  unfold partialVersion partialCore
  simp only [e1, dropBlanks_T0 h, component_T0 h]

theorem partialVersion_nil : partialVersion [] = none := by
  simp [partialVersion, partialCore, stripV, dropBlanks, span, component_nil]

end Semver

namespace Semver
open Pred Bound

variable {t T0 : List Char}

/-- result of an optional parser with `t` appended to the remaining input -/
def mapRest {α : Type} (t : List Char) (o : Option (α × List Char)) : Option (α × List Char) :=
  o.map (fun x => (x.1, x.2 ++ t))

def numberO (s : List Char) : Option (Nat × List Char) :=
  match number s with
  | .ok v r => some (v, r)
  | .err _ => none

theorem numberO_eq (s : List Char) :
    numberO s = if (span isDigit s).1.isEmpty ∨ U64 ≤ valOf (span isDigit s).1 ∨ MAX_SAFE_INTEGER < valOf (span isDigit s).1
      then none else some (valOf (span isDigit s).1, (span isDigit s).2) := by
  unfold numberO number
  simp only
  by_cases h1 : (span isDigit s).1.isEmpty = true
  · simp [h1]
  · by_cases h2 : U64 ≤ valOf (span isDigit s).1
    · simp [h1, h2]
    · by_cases h3 : MAX_SAFE_INTEGER < valOf (span isDigit s).1
      · simp [h1, h2, h3]
      · simp [h1, h2, h3]

theorem numberOk_app (z : List Char) (h : Sep t T0) : numberO (z ++ t) = mapRest t (numberO z) := by
  rw [numberO_eq, numberO_eq, span_app isDigit z h (by decide)]
  simp only
  split <;> simp [mapRest]

theorem component_other (c : Char) (cs : List Char) (h1 : c ≠ 'x') (h2 : c ≠ 'X') (h3 : c ≠ '*') :
    component (c :: cs) = (numberO (c :: cs)).map (fun x => (some x.1, x.2)) := by
  unfold component numberO
  split
  · rename_i u heq; simp at heq; exact absurd heq.1 h1
  · rename_i u heq; simp at heq; exact absurd heq.1 h2
  · rename_i u heq; simp at heq; exact absurd heq.1 h3
  · cases number (c :: cs) <;> rfl

theorem component_app (z : List Char) (h : Sep t T0) : component (z ++ t) = mapRest t (component z) := by
  cases z with
  | nil =>
    rw [List.nil_append, h.eq]
    simp [component, number, span, isDigit, mapRest]
  | cons c cs =>
    simp only [List.cons_append]
    by_cases h1 : c = 'x'
    · subst h1; simp [component, mapRest]
    · by_cases h2 : c = 'X'
      · subst h2; simp [component, mapRest]
      · by_cases h3 : c = '*'
        · subst h3; simp [component, mapRest]
        · rw [component_other c (cs ++ t) h1 h2 h3, component_other c cs h1 h2 h3]
          have := numberOk_app (c :: cs) h
          simp only [List.cons_append] at this
          rw [this]
          cases numberO (c :: cs) <;> simp [mapRest]

theorem dotComponent_app (z : List Char) (h : Sep t T0) :
    dotComponent (z ++ t) = ((dotComponent z).1, (dotComponent z).2 ++ t) := by
  cases z with
  | nil =>
    rw [List.nil_append, h.eq]
    simp [dotComponent]
  | cons c cs =>
    by_cases hc : c = '.'
    · subst hc
      simp only [List.cons_append, dotComponent]
      rw [component_app cs h]
      cases component cs with
      | none => simp [mapRest]
      | some x => simp [mapRest]
    · have e1 : dotComponent (c :: cs ++ t) = (none, c :: cs ++ t) := by
        unfold dotComponent
        split
        · rename_i u heq; simp at heq; exact absurd heq.1 hc
        · rfl
      have e2 : dotComponent (c :: cs) = (none, c :: cs) := by
        unfold dotComponent
        split
        · rename_i u heq; simp at heq; exact absurd heq.1 hc
        · rfl
      rw [e1, e2]

def identifierO (s : List Char) : Option (Ident × List Char) :=
  match identifier s with
  | .ok v r => some (v, r)
  | .err _ => none

theorem identifierOk_app (z : List Char) (h : Sep t T0) : identifierO (z ++ t) = mapRest t (identifierO z) := by
  unfold identifierO identifier
  rw [span_app isIdChar z h (by decide)]
  simp only
  by_cases h1 : (span isIdChar z).1.isEmpty = true
  · simp [h1, mapRest]
  · simp [h1, mapRest]

theorem identTail_fuel (fuel fuel' : Nat) (s : List Char) (h1 : s.length ≤ fuel) (h2 : s.length ≤ fuel') :
    identTail fuel s = identTail fuel' s := by
  induction fuel generalizing fuel' s with
  | zero =>
    have : s = [] := by cases s <;> simp_all
    subst this
    cases fuel' <;> simp [identTail]
  | succ n ih =>
    cases fuel' with
    | zero =>
      have : s = [] := by cases s <;> simp_all
      subst this
      simp [identTail]
    | succ m =>
      unfold identTail
      split
      · rename_i s'
        cases hi : identifier s' with
        | ok a rest =>
          have := identifier_length hi
          simp only
          rw [ih m rest (by simp at h1; omega) (by simp at h2; omega)]
        | err e => rfl
      · rfl

theorem identTail_app (fuel : Nat) (z : List Char) (h : Sep t T0) (hf : (z ++ t).length ≤ fuel) :
    identTail fuel (z ++ t) = ((identTail fuel z).1, (identTail fuel z).2 ++ t) := by
  induction fuel generalizing z with
  | zero => simp [identTail]
  | succ n ih =>
    cases z with
    | nil =>
      rw [List.nil_append, h.eq]
      simp [identTail]
    | cons c cs =>
      unfold identTail
      simp only [List.cons_append]
      split
      · rename_i u heq
        simp at heq
        obtain ⟨rfl, rfl⟩ := heq
        have hid := identifierOk_app cs h
        unfold identifierO at hid
        cases hi : identifier cs with
        | ok a rest =>
          rw [hi] at hid
          cases hit : identifier (cs ++ t) with
          | ok a' rest' =>
            rw [hit] at hid
            simp [mapRest] at hid
            obtain ⟨rfl, rfl⟩ := hid
            have hl := identifier_length hi
            simp only
            rw [ih rest (by simp at hf ⊢; omega)]
            simp [hi]
          | err e => rw [hit] at hid; simp [mapRest] at hid
        | err e =>
          rw [hi] at hid
          cases hit : identifier (cs ++ t) with
          | ok a' rest' => rw [hit] at hid; simp [mapRest] at hid
          | err e' => simp [hi]
      · rename_i hne
        split
        · rename_i u heq; simp at heq; exact absurd (by rw [heq.1]) (hne (cs ++ t))
        · rfl

theorem identListOk_app (z : List Char) (h : Sep t T0) :
    (match identList (z ++ t) with | .ok v r => some (v, r) | .err _ => none) =
      mapRest t (match identList z with | .ok v r => some (v, r) | .err _ => none) := by
  unfold identList
  have hid := identifierOk_app z h
  unfold identifierO at hid
  cases hi : identifier z with
  | ok a rest =>
    rw [hi] at hid
    cases hit : identifier (z ++ t) with
    | ok a' rest' =>
      rw [hit] at hid
      simp [mapRest] at hid
      obtain ⟨rfl, rfl⟩ := hid
      simp only [mapRest, Option.map_some, Option.some.injEq, Prod.mk.injEq]
      rw [identTail_app (rest ++ t).length rest h (by simp)]
      rw [identTail_fuel (rest ++ t).length rest.length rest (by simp) (by simp)]
      simp
    | err e => rw [hit] at hid; simp [mapRest] at hid
  | err e =>
    rw [hi] at hid
    cases hit : identifier (z ++ t) with
    | ok a' rest' => rw [hit] at hid; simp [mapRest] at hid
    | err e' => simp [mapRest]

end Semver

namespace Semver
open Pred Bound

variable {t T0 : List Char}

def identListO (s : List Char) : Option (List Ident × List Char) :=
  match identList s with
  | .ok v r => some (v, r)
  | .err _ => none

theorem identListO_app (z : List Char) (h : Sep t T0) : identListO (z ++ t) = mapRest t (identListO z) :=
  identListOk_app z h

theorem stripHyphen_app (z : List Char) (h : Sep t T0) (hz : z ≠ []) : stripHyphen (z ++ t) = stripHyphen z ++ t := by
  cases z with
  | nil => exact absurd rfl hz
  | cons c cs =>
    unfold stripHyphen
    by_cases hc : c = '-'
    · subst hc; rfl
    · simp only [List.cons_append]
      split
      · rename_i u heq; simp at heq; exact absurd heq.1 hc
      · split
        · rename_i u heq; simp at heq; exact absurd heq.1 hc
        · rfl

theorem identListO_t (h : Sep t T0) : identListO t = none := by
  rw [h.eq]; simp [identListO, identList, identifier, span, isIdChar, isDigit, isAlpha]

theorem identListO_nil : identListO [] = none := by
  simp [identListO, identList, identifier, span]

theorem buildMeta_not_plus (c : Char) (cs : List Char) (hc : c ≠ '+') :
    buildMeta (c :: cs) = .err ⟨c :: cs, some "build version", none⟩ := by
  unfold buildMeta
  split
  · rename_i u heq; simp only [List.cons.injEq] at heq; exact absurd heq.1 hc
  · rfl

theorem buildMeta_plus (cs : List Char) :
    buildMeta ('+' :: cs) = (match identList cs with
      | .ok a r => .ok a r
      | .err e => .err (e.withCtx "build version")) := rfl

theorem buildMeta_nil : buildMeta [] = .err ⟨[], some "build version", none⟩ := rfl

/-- `extras` (which never fails) leaves the separator behind -/
theorem extras_app (z : List Char) (h : Sep t T0) : extras (z ++ t) = ((extras z).1, (extras z).2 ++ t) := by
  have hpre : ∀ y : List Char,
      (match preRelease (y ++ t) with | .ok p r => some (p, r) | .err _ => none) =
        mapRest t (match preRelease y with | .ok p r => some (p, r) | .err _ => none) := by
    intro y
    unfold preRelease
    cases y with
    | nil =>
      have e1 : stripHyphen ([] ++ t) = t := by rw [List.nil_append, h.eq]; rfl
      have e2 : stripHyphen [] = [] := rfl
      rw [e1, e2]
      have a := identListO_t h
      have b := identListO_nil
      unfold identListO at a b
      cases h1 : identList t with
      | ok v r => rw [h1] at a; cases a
      | err e =>
        cases h2 : identList [] with
        | ok v r => rw [h2] at b; cases b
        | err e' => rfl
    | cons c cs =>
      rw [stripHyphen_app (c :: cs) h (by simp)]
      have := identListO_app (stripHyphen (c :: cs)) h
      unfold identListO at this
      cases h1 : identList (stripHyphen (c :: cs) ++ t) with
      | ok v r =>
        rw [h1] at this
        cases h2 : identList (stripHyphen (c :: cs)) with
        | ok v' r' => rw [h2] at this; simpa [mapRest] using this
        | err e => rw [h2] at this; simp [mapRest] at this
      | err e =>
        rw [h1] at this
        cases h2 : identList (stripHyphen (c :: cs)) with
        | ok v' r' => rw [h2] at this; simp [mapRest] at this
        | err e' => simp [mapRest]
  have hbuild : ∀ y : List Char,
      (match buildMeta (y ++ t) with | .ok p r => some (p, r) | .err _ => none) =
        mapRest t (match buildMeta y with | .ok p r => some (p, r) | .err _ => none) := by
    intro y
    cases y with
    | nil =>
      rw [List.nil_append, h.eq, buildMeta_not_plus ' ' T0 (by decide), buildMeta_nil]; rfl
    | cons c cs =>
      by_cases hc : c = '+'
      · subst hc
        simp only [List.cons_append]
        rw [buildMeta_plus, buildMeta_plus]
        have := identListO_app cs h
        unfold identListO at this
        cases h1 : identList (cs ++ t) with
        | ok v r =>
          rw [h1] at this
          cases h2 : identList cs with
          | ok v' r' => rw [h2] at this; simpa [mapRest] using this
          | err e => rw [h2] at this; simp [mapRest] at this
        | err e =>
          rw [h1] at this
          cases h2 : identList cs with
          | ok v' r' => rw [h2] at this; simp [mapRest] at this
          | err e' => simp [mapRest]
      · simp only [List.cons_append]
        rw [buildMeta_not_plus c _ hc, buildMeta_not_plus c _ hc]; rfl
  unfold extras
  have hp := hpre z
  cases h1 : preRelease z with
  | ok p r1 =>
    rw [h1] at hp
    cases h1t : preRelease (z ++ t) with
    | err e => rw [h1t] at hp; simp [mapRest] at hp
    | ok p' r1' =>
      rw [h1t] at hp
      simp [mapRest] at hp
      obtain ⟨rfl, rfl⟩ := hp
      simp only
      have hb := hbuild r1
      cases h2 : buildMeta r1 with
      | ok b r2 =>
        rw [h2] at hb
        cases h2t : buildMeta (r1 ++ t) with
        | err e => rw [h2t] at hb; simp [mapRest] at hb
        | ok b' r2' => rw [h2t] at hb; simp [mapRest] at hb; obtain ⟨rfl, rfl⟩ := hb; rfl
      | err e =>
        rw [h2] at hb
        cases h2t : buildMeta (r1 ++ t) with
        | err e' => rfl
        | ok b' r2' => rw [h2t] at hb; simp [mapRest] at hb
  | err e =>
    rw [h1] at hp
    cases h1t : preRelease (z ++ t) with
    | ok p' r1' => rw [h1t] at hp; simp [mapRest] at hp
    | err e' =>
      simp only
      have hb := hbuild z
      cases h2 : buildMeta z with
      | ok b r2 =>
        rw [h2] at hb
        cases h2t : buildMeta (z ++ t) with
        | err e => rw [h2t] at hb; simp [mapRest] at hb
        | ok b' r2' => rw [h2t] at hb; simp [mapRest] at hb; obtain ⟨rfl, rfl⟩ := hb; rfl
      | err e'' =>
        rw [h2] at hb
        cases h2t : buildMeta (z ++ t) with
        | err e' => rfl
        | ok b' r2' => rw [h2t] at hb; simp [mapRest] at hb

theorem stripV_app (z : List Char) (h : Sep t T0) (hz : z ≠ []) : stripV (z ++ t) = stripV z ++ t := by
  cases z with
  | nil => exact absurd rfl hz
  | cons c cs =>
    unfold stripV
    by_cases hc : c = 'v'
    · subst hc; rfl
    · simp only [List.cons_append]
      split
      · rename_i u heq; simp at heq; exact absurd heq.1 hc
      · split
        · rename_i u heq; simp at heq; exact absurd heq.1 hc
        · rfl

theorem partialCore_app (z : List Char) (h : Sep t T0) (hz : z ≠ []) :
    partialCore (z ++ t) = mapRest t (partialCore z) := by
  unfold partialCore
  rw [component_app _ h]
  cases hc : component z with
  | none => rfl
  | some x =>
    obtain ⟨major, r1⟩ := x
    simp only [mapRest, Option.map_some]
    rw [dotComponent_app r1 h]
    simp only
    rw [dotComponent_app (dotComponent r1).2 h]
    simp only
    by_cases hs : (dotComponent (dotComponent r1).2).1.isSome = true
    · simp only [hs, if_true]
      rw [extras_app _ h]
    · simp only [hs, Bool.false_eq_true, if_false]

theorem partialCore_T0 (h : Sep t T0) : partialCore T0 = none := by
  unfold partialCore; rw [component_T0 h]

theorem partialCore_nil : partialCore [] = none := by
  unfold partialCore; rw [component_nil]

/-- **`partial_version` at the separator** -/
theorem partialVersion_app (z : List Char) (h : Sep t T0) :
    partialVersion (z ++ t) = mapRest t (partialVersion z) := by
  unfold partialVersion
  have key : ∀ y : List Char, partialCore (dropBlanks (y ++ t)) = mapRest t (partialCore (dropBlanks y)) := by
    intro y
    rw [dropBlanks_app y h]
    by_cases hy : dropBlanks y = []
    · rw [if_pos hy, hy, partialCore_T0 h, partialCore_nil]; rfl
    · rw [if_neg hy]; exact partialCore_app _ h hy
  cases z with
  | nil =>
    have e1 : stripV ([] ++ t) = t := by rw [List.nil_append, h.eq]; rfl
    have e2 : stripV [] = [] := rfl
    rw [e1, e2]
    have := key []
    simpa using this
  | cons c cs =>
    rw [stripV_app (c :: cs) h (by simp)]
    exact key (stripV (c :: cs))

end Semver

namespace Semver
open Pred Bound

variable {t T0 : List Char}

theorem operation_app (z : List Char) (h : Sep t T0) : operation (z ++ t) = mapRest t (operation z) := by
  cases z with
  | nil => rw [List.nil_append, h.eq]; simp [operation, mapRest]
  | cons c rest =>
    simp only [List.cons_append]
    unfold operation
    simp only
    have hin : ∀ (mk1 : Operation) (mk2 : Operation),
        (match rest ++ t with
          | '=' :: u => some (mk1, u)
          | _ => some (mk2, rest ++ t)) =
        mapRest t (match rest with
          | '=' :: u => some (mk1, u)
          | _ => some (mk2, rest)) := by
      intro mk1 mk2
      cases rest with
      | nil => rw [List.nil_append, h.eq]; simp [mapRest]
      | cons d r =>
        by_cases hd : d = '='
        · subst hd; simp [mapRest]
        · simp only [List.cons_append]
          split
          · rename_i u heq; simp only [List.cons.injEq] at heq; exact absurd heq.1 hd
          · split
            · rename_i u heq; simp only [List.cons.injEq] at heq; exact absurd heq.1 hd
            · simp [mapRest]
    by_cases h1 : c = '>'
    · simp only [h1, if_true]; exact hin .ge .gt
    · by_cases h2 : c = '='
      · simp [h1, h2, mapRest]
      · by_cases h3 : c = '<'
        · simp only [h1, h2, h3, if_true, if_false]
          have : ('<' : Char) ≠ '>' := by decide
          have : ('<' : Char) ≠ '=' := by decide
          simp only [*, if_false]
          exact hin .le .lt
        · simp [h1, h2, h3, mapRest]

end Semver
