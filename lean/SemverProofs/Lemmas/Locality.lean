import SemverProofs.Lemmas.RangeText
/-!
# Locality of the range parser at an `||` boundary (towards C02, text level)

`t` is a separator tail: a blank followed by `||` and anything.  Every sub-parser of `simple`, run on
`y ++ t`, does what it does on `y` and leaves `t` behind: nothing it decides inside `y` depends on what
follows the ` ||`.
-/
namespace Semver
open Pred Bound

/-- a blank, then `||`, then anything -/
structure Sep (t T0 : List Char) : Prop where
  eq : t = ' ' :: T0
  bars : ∃ b, T0 = '|' :: '|' :: b

variable {t T0 : List Char}

theorem Sep.head_blank (h : Sep t T0) : ∀ c, t.head? = some c → c = ' ' := by
  intro c hc; rw [h.eq] at hc; simp at hc; exact hc.symm

theorem span_app (p : Char → Bool) (z : List Char) (h : Sep t T0) (hp : p ' ' = false) :
    span p (z ++ t) = ((span p z).1, (span p z).2 ++ t) := by
  induction z with
  | nil => rw [h.eq]; simp [span, hp]
  | cons c cs ih =>
    simp only [List.cons_append, span]
    split
    · rw [ih]
    · simp

theorem dropBlanks_T0 (h : Sep t T0) : dropBlanks T0 = T0 := by
  obtain ⟨b, hb⟩ := h.bars
  rw [hb]
  have := dropBlanks_append [] ('|' :: '|' :: b) (by simp) (by intro c hc; simp at hc; subst hc; decide)
  simpa using this

theorem dropBlanks_t (h : Sep t T0) : dropBlanks t = T0 := by
  rw [h.eq]
  have := dropBlanks_append [' '] T0 (by decide) (by
    obtain ⟨b, hb⟩ := h.bars
    intro c hc; rw [hb] at hc; simp at hc; subst hc; decide)
  simpa using this

/-- skipping blanks at the junction: either something of `z` remains, or the blanks run into the
separator and stop at `||` -/
theorem dropBlanks_app (z : List Char) (h : Sep t T0) :
    dropBlanks (z ++ t) = if dropBlanks z = [] then T0 else dropBlanks z ++ t := by
  induction z with
  | nil => simp [dropBlanks, span, dropBlanks_t h] ; exact dropBlanks_t h
  | cons c cs ih =>
    by_cases hc : isBlank c = true
    · have e1 : dropBlanks (c :: cs) = dropBlanks cs := by simp [dropBlanks, span, hc]
      have e2 : dropBlanks (c :: cs ++ t) = dropBlanks (cs ++ t) := by simp [dropBlanks, span, hc]
      rw [e1, e2, ih]
    · have e1 : dropBlanks (c :: cs) = c :: cs := by simp [dropBlanks, span, hc]
      have e2 : dropBlanks (c :: cs ++ t) = c :: cs ++ t := by simp [dropBlanks, span, hc]
      rw [e1, e2]; simp

theorem blanks1_T0 (h : Sep t T0) : blanks1 T0 = none := by
  obtain ⟨b, hb⟩ := h.bars
  rw [hb]; simp [blanks1, isBlank]

theorem blanks1_t (h : Sep t T0) : blanks1 t = some T0 := by
  rw [h.eq]
  simp [blanks1, isBlank, dropBlanks_T0 h]

theorem blanks1_app (z : List Char) (h : Sep t T0) :
    blanks1 (z ++ t) = match z with
      | [] => some T0
      | c :: cs => if isBlank c then some (if dropBlanks cs = [] then T0 else dropBlanks cs ++ t) else none := by
  cases z with
  | nil => simpa using blanks1_t h
  | cons c cs =>
    simp only [List.cons_append, blanks1]
    split
    · rw [dropBlanks_app cs h]
    · rfl

/-! ### what fails right at the separator -/

theorem number_T0 (h : Sep t T0) : ∃ e, number T0 = .err e := by
  obtain ⟨b, hb⟩ := h.bars
  rw [hb]; exact ⟨_, by simp [number, span, isDigit]; rfl⟩

theorem component_T0 (h : Sep t T0) : component T0 = none := by
  obtain ⟨b, hb⟩ := h.bars
  rw [hb]
  simp [component, number, span, isDigit]

theorem component_nil : component [] = none := by simp [component, number, span]

theorem partialVersion_T0 (h : Sep t T0) : partialVersion T0 = none := by
  obtain ⟨b, hb⟩ := h.bars
  have e1 : stripV T0 = T0 := by rw [hb]; rfl
  unfold partialVersion partialCore
  simp only [e1, dropBlanks_T0 h, component_T0 h]

theorem partialVersion_nil : partialVersion [] = none := by
  simp [partialVersion, partialCore, stripV, dropBlanks, span, component_nil]

end Semver

namespace Semver
open Pred Bound

variable {t T0 : List Char}

/-- result of an optional parser with `t` appended to the remaining input -/
def mapRest {α : Type} (t : List Char) (o : Option (α × List Char)) : Option (α × List Char) :=
  o.map (fun x => (x.1, x.2 ++ t))

def numberO (s : List Char) : Option (Nat × List Char) :=
  match number s with
  | .ok v r => some (v, r)
  | .err _ => none

theorem numberO_eq (s : List Char) :
    numberO s = if (span isDigit s).1.isEmpty ∨ U64 ≤ valOf (span isDigit s).1 ∨ MAX_SAFE_INTEGER < valOf (span isDigit s).1
      then none else some (valOf (span isDigit s).1, (span isDigit s).2) := by
  unfold numberO number
  simp only
  by_cases h1 : (span isDigit s).1.isEmpty = true
  · simp [h1]
  · by_cases h2 : U64 ≤ valOf (span isDigit s).1
    · simp [h1, h2]
    · by_cases h3 : MAX_SAFE_INTEGER < valOf (span isDigit s).1
      · simp [h1, h2, h3]
      · simp [h1, h2, h3]

theorem numberOk_app (z : List Char) (h : Sep t T0) : numberO (z ++ t) = mapRest t (numberO z) := by
  rw [numberO_eq, numberO_eq, span_app isDigit z h (by decide)]
  simp only
  split <;> simp [mapRest]

theorem component_other (c : Char) (cs : List Char) (h1 : c ≠ 'x') (h2 : c ≠ 'X') (h3 : c ≠ '*') :
    component (c :: cs) = (numberO (c :: cs)).map (fun x => (some x.1, x.2)) := by
  unfold component numberO
  split
  · rename_i u heq; simp at heq; exact absurd heq.1 h1
  · rename_i u heq; simp at heq; exact absurd heq.1 h2
  · rename_i u heq; simp at heq; exact absurd heq.1 h3
  · cases number (c :: cs) <;> rfl

theorem component_app (z : List Char) (h : Sep t T0) : component (z ++ t) = mapRest t (component z) := by
  cases z with
  | nil =>
    rw [List.nil_append, h.eq]
    simp [component, number, span, isDigit, mapRest]
  | cons c cs =>
    simp only [List.cons_append]
    by_cases h1 : c = 'x'
    · subst h1; simp [component, mapRest]
    · by_cases h2 : c = 'X'
      · subst h2; simp [component, mapRest]
      · by_cases h3 : c = '*'
        · subst h3; simp [component, mapRest]
        · rw [component_other c (cs ++ t) h1 h2 h3, component_other c cs h1 h2 h3]
          have := numberOk_app (c :: cs) h
          simp only [List.cons_append] at this
          rw [this]
          cases numberO (c :: cs) <;> simp [mapRest]

theorem dotComponent_app (z : List Char) (h : Sep t T0) :
    dotComponent (z ++ t) = ((dotComponent z).1, (dotComponent z).2 ++ t) := by
  cases z with
  | nil =>
    rw [List.nil_append, h.eq]
    simp [dotComponent]
  | cons c cs =>
    by_cases hc : c = '.'
    · subst hc
      simp only [List.cons_append, dotComponent]
      rw [component_app cs h]
      cases component cs with
      | none => simp [mapRest]
      | some x => simp [mapRest]
    · have e1 : dotComponent (c :: cs ++ t) = (none, c :: cs ++ t) := by
        unfold dotComponent
        split
        · rename_i u heq; simp at heq; exact absurd heq.1 hc
        · rfl
      have e2 : dotComponent (c :: cs) = (none, c :: cs) := by
        unfold dotComponent
        split
        · rename_i u heq; simp at heq; exact absurd heq.1 hc
        · rfl
      rw [e1, e2]

def identifierO (s : List Char) : Option (Ident × List Char) :=
  match identifier s with
  | .ok v r => some (v, r)
  | .err _ => none

theorem identifierOk_app (z : List Char) (h : Sep t T0) : identifierO (z ++ t) = mapRest t (identifierO z) := by
  unfold identifierO identifier
  rw [span_app isIdChar z h (by decide)]
  simp only
  by_cases h1 : (span isIdChar z).1.isEmpty = true
  · simp [h1, mapRest]
  · simp [h1, mapRest]

theorem identTail_fuel (fuel fuel' : Nat) (s : List Char) (h1 : s.length ≤ fuel) (h2 : s.length ≤ fuel') :
    identTail fuel s = identTail fuel' s := by
  induction fuel generalizing fuel' s with
  | zero =>
    have : s = [] := by cases s <;> simp_all
    subst this
    cases fuel' <;> simp [identTail]
  | succ n ih =>
    cases fuel' with
    | zero =>
      have : s = [] := by cases s <;> simp_all
      subst this
      simp [identTail]
    | succ m =>
      unfold identTail
      split
      · rename_i s'
        cases hi : identifier s' with
        | ok a rest =>
          have := identifier_length hi
          simp only
          rw [ih m rest (by simp at h1; omega) (by simp at h2; omega)]
        | err e => rfl
      · rfl

theorem identTail_app (fuel : Nat) (z : List Char) (h : Sep t T0) (hf : (z ++ t).length ≤ fuel) :
    identTail fuel (z ++ t) = ((identTail fuel z).1, (identTail fuel z).2 ++ t) := by
  induction fuel generalizing z with
  | zero => simp [identTail]
  | succ n ih =>
    cases z with
    | nil =>
      rw [List.nil_append, h.eq]
      simp [identTail]
    | cons c cs =>
      unfold identTail
      simp only [List.cons_append]
      split
      · rename_i u heq
        simp at heq
        obtain ⟨rfl, rfl⟩ := heq
        have hid := identifierOk_app cs h
        unfold identifierO at hid
        cases hi : identifier cs with
        | ok a rest =>
          rw [hi] at hid
          cases hit : identifier (cs ++ t) with
          | ok a' rest' =>
            rw [hit] at hid
            simp [mapRest] at hid
            obtain ⟨rfl, rfl⟩ := hid
            have hl := identifier_length hi
            simp only
            rw [ih rest (by simp at hf ⊢; omega)]
            simp [hi]
          | err e => rw [hit] at hid; simp [mapRest] at hid
        | err e =>
          rw [hi] at hid
          cases hit : identifier (cs ++ t) with
          | ok a' rest' => rw [hit] at hid; simp [mapRest] at hid
          | err e' => simp [hi]
      · rename_i hne
        split
        · rename_i u heq; simp at heq; exact absurd (by rw [heq.1]) (hne (cs ++ t))
        · rfl

theorem identListOk_app (z : List Char) (h : Sep t T0) :
    (match identList (z ++ t) with | .ok v r => some (v, r) | .err _ => none) =
      mapRest t (match identList z with | .ok v r => some (v, r) | .err _ => none) := by
  unfold identList
  have hid := identifierOk_app z h
  unfold identifierO at hid
  cases hi : identifier z with
  | ok a rest =>
    rw [hi] at hid
    cases hit : identifier (z ++ t) with
    | ok a' rest' =>
      rw [hit] at hid
      simp [mapRest] at hid
      obtain ⟨rfl, rfl⟩ := hid
      simp only [mapRest, Option.map_some, Option.some.injEq, Prod.mk.injEq]
      rw [identTail_app (rest ++ t).length rest h (by simp)]
      rw [identTail_fuel (rest ++ t).length rest.length rest (by simp) (by simp)]
      simp
    | err e => rw [hit] at hid; simp [mapRest] at hid
  | err e =>
    rw [hi] at hid
    cases hit : identifier (z ++ t) with
    | ok a' rest' => rw [hit] at hid; simp [mapRest] at hid
    | err e' => simp [mapRest]

end Semver

namespace Semver
open Pred Bound

variable {t T0 : List Char}

def identListO (s : List Char) : Option (List Ident × List Char) :=
  match identList s with
  | .ok v r => some (v, r)
  | .err _ => none

theorem identListO_app (z : List Char) (h : Sep t T0) : identListO (z ++ t) = mapRest t (identListO z) :=
  identListOk_app z h

theorem stripHyphen_app (z : List Char) (h : Sep t T0) (hz : z ≠ []) : stripHyphen (z ++ t) = stripHyphen z ++ t := by
  cases z with
  | nil => exact absurd rfl hz
  | cons c cs =>
    unfold stripHyphen
    by_cases hc : c = '-'
    · subst hc; rfl
    · simp only [List.cons_append]
      split
      · rename_i u heq; simp at heq; exact absurd heq.1 hc
      · split
        · rename_i u heq; simp at heq; exact absurd heq.1 hc
        · rfl

theorem identListO_t (h : Sep t T0) : identListO t = none := by
  rw [h.eq]; simp [identListO, identList, identifier, span, isIdChar, isDigit, isAlpha]

theorem identListO_nil : identListO [] = none := by
  simp [identListO, identList, identifier, span]

theorem buildMeta_not_plus (c : Char) (cs : List Char) (hc : c ≠ '+') :
    buildMeta (c :: cs) = .err ⟨c :: cs, some "build version", none⟩ := by
  unfold buildMeta
  split
  · rename_i u heq; simp only [List.cons.injEq] at heq; exact absurd heq.1 hc
  · rfl

theorem buildMeta_plus (cs : List Char) :
    buildMeta ('+' :: cs) = (match identList cs with
      | .ok a r => .ok a r
      | .err e => .err (e.withCtx "build version")) := rfl

theorem buildMeta_nil : buildMeta [] = .err ⟨[], some "build version", none⟩ := rfl

/-- `extras` (which never fails) leaves the separator behind -/
theorem extras_app (z : List Char) (h : Sep t T0) : extras (z ++ t) = ((extras z).1, (extras z).2 ++ t) := by
  have hpre : ∀ y : List Char,
      (match preRelease (y ++ t) with | .ok p r => some (p, r) | .err _ => none) =
        mapRest t (match preRelease y with | .ok p r => some (p, r) | .err _ => none) := by
    intro y
    unfold preRelease
    cases y with
    | nil =>
      have e1 : stripHyphen ([] ++ t) = t := by rw [List.nil_append, h.eq]; rfl
      have e2 : stripHyphen [] = [] := rfl
      rw [e1, e2]
      have a := identListO_t h
      have b := identListO_nil
      unfold identListO at a b
      cases h1 : identList t with
      | ok v r => rw [h1] at a; cases a
      | err e =>
        cases h2 : identList [] with
        | ok v r => rw [h2] at b; cases b
        | err e' => rfl
    | cons c cs =>
      rw [stripHyphen_app (c :: cs) h (by simp)]
      have := identListO_app (stripHyphen (c :: cs)) h
      unfold identListO at this
      cases h1 : identList (stripHyphen (c :: cs) ++ t) with
      | ok v r =>
        rw [h1] at this
        cases h2 : identList (stripHyphen (c :: cs)) with
        | ok v' r' => rw [h2] at this; simpa [mapRest] using this
        | err e => rw [h2] at this; simp [mapRest] at this
      | err e =>
        rw [h1] at this
        cases h2 : identList (stripHyphen (c :: cs)) with
        | ok v' r' => rw [h2] at this; simp [mapRest] at this
        | err e' => simp [mapRest]
  have hbuild : ∀ y : List Char,
      (match buildMeta (y ++ t) with | .ok p r => some (p, r) | .err _ => none) =
        mapRest t (match buildMeta y with | .ok p r => some (p, r) | .err _ => none) := by
    intro y
    cases y with
    | nil =>
      rw [List.nil_append, h.eq, buildMeta_not_plus ' ' T0 (by decide), buildMeta_nil]; rfl
    | cons c cs =>
      by_cases hc : c = '+'
      · subst hc
        simp only [List.cons_append]
        rw [buildMeta_plus, buildMeta_plus]
        have := identListO_app cs h
        unfold identListO at this
        cases h1 : identList (cs ++ t) with
        | ok v r =>
          rw [h1] at this
          cases h2 : identList cs with
          | ok v' r' => rw [h2] at this; simpa [mapRest] using this
          | err e => rw [h2] at this; simp [mapRest] at this
        | err e =>
          rw [h1] at this
          cases h2 : identList cs with
          | ok v' r' => rw [h2] at this; simp [mapRest] at this
          | err e' => simp [mapRest]
      · simp only [List.cons_append]
        rw [buildMeta_not_plus c _ hc, buildMeta_not_plus c _ hc]; rfl
  unfold extras
  have hp := hpre z
  cases h1 : preRelease z with
  | ok p r1 =>
    rw [h1] at hp
    cases h1t : preRelease (z ++ t) with
    | err e => rw [h1t] at hp; simp [mapRest] at hp
    | ok p' r1' =>
      rw [h1t] at hp
      simp [mapRest] at hp
      obtain ⟨rfl, rfl⟩ := hp
      simp only
      have hb := hbuild r1
      cases h2 : buildMeta r1 with
      | ok b r2 =>
        rw [h2] at hb
        cases h2t : buildMeta (r1 ++ t) with
        | err e => rw [h2t] at hb; simp [mapRest] at hb
        | ok b' r2' => rw [h2t] at hb; simp [mapRest] at hb; obtain ⟨rfl, rfl⟩ := hb; rfl
      | err e =>
        rw [h2] at hb
        cases h2t : buildMeta (r1 ++ t) with
        | err e' => rfl
        | ok b' r2' => rw [h2t] at hb; simp [mapRest] at hb
  | err e =>
    rw [h1] at hp
    cases h1t : preRelease (z ++ t) with
    | ok p' r1' => rw [h1t] at hp; simp [mapRest] at hp
    | err e' =>
      simp only
      have hb := hbuild z
      cases h2 : buildMeta z with
      | ok b r2 =>
        rw [h2] at hb
        cases h2t : buildMeta (z ++ t) with
        | err e => rw [h2t] at hb; simp [mapRest] at hb
        | ok b' r2' => rw [h2t] at hb; simp [mapRest] at hb; obtain ⟨rfl, rfl⟩ := hb; rfl
      | err e'' =>
        rw [h2] at hb
        cases h2t : buildMeta (z ++ t) with
        | err e' => rfl
        | ok b' r2' => rw [h2t] at hb; simp [mapRest] at hb

theorem stripV_app (z : List Char) (h : Sep t T0) (hz : z ≠ []) : stripV (z ++ t) = stripV z ++ t := by
  cases z with
  | nil => exact absurd rfl hz
  | cons c cs =>
    unfold stripV
    by_cases hc : c = 'v'
    · subst hc; rfl
    · simp only [List.cons_append]
      split
      · rename_i u heq; simp at heq; exact absurd heq.1 hc
      · split
        · rename_i u heq; simp at heq; exact absurd heq.1 hc
        · rfl

theorem partialCore_app (z : List Char) (h : Sep t T0) (hz : z ≠ []) :
    partialCore (z ++ t) = mapRest t (partialCore z) := by
  unfold partialCore
  rw [component_app _ h]
  cases hc : component z with
  | none => rfl
  | some x =>
    obtain ⟨major, r1⟩ := x
    simp only [mapRest, Option.map_some]
    rw [dotComponent_app r1 h]
    simp only
    rw [dotComponent_app (dotComponent r1).2 h]
    simp only
    by_cases hs : (dotComponent (dotComponent r1).2).1.isSome = true
    · simp only [hs, if_true]
      rw [extras_app _ h]
    · simp only [hs, Bool.false_eq_true, if_false]

theorem partialCore_T0 (h : Sep t T0) : partialCore T0 = none := by
  unfold partialCore; rw [component_T0 h]

theorem partialCore_nil : partialCore [] = none := by
  unfold partialCore; rw [component_nil]

/-- **`partial_version` at the separator** -/
theorem partialVersion_app (z : List Char) (h : Sep t T0) :
    partialVersion (z ++ t) = mapRest t (partialVersion z) := by
  unfold partialVersion
  have key : ∀ y : List Char, partialCore (dropBlanks (y ++ t)) = mapRest t (partialCore (dropBlanks y)) := by
    intro y
    rw [dropBlanks_app y h]
    by_cases hy : dropBlanks y = []
    · rw [if_pos hy, hy, partialCore_T0 h, partialCore_nil]; rfl
    · rw [if_neg hy]; exact partialCore_app _ h hy
  cases z with
  | nil =>
    have e1 : stripV ([] ++ t) = t := by rw [List.nil_append, h.eq]; rfl
    have e2 : stripV [] = [] := rfl
    rw [e1, e2]
    have := key []
    simpa using this
  | cons c cs =>
    rw [stripV_app (c :: cs) h (by simp)]
    exact key (stripV (c :: cs))

end Semver

namespace Semver
open Pred Bound

variable {t T0 : List Char}

theorem operation_app (z : List Char) (h : Sep t T0) : operation (z ++ t) = mapRest t (operation z) := by
  cases z with
  | nil => rw [List.nil_append, h.eq]; simp [operation, mapRest]
  | cons c rest =>
    simp only [List.cons_append]
    unfold operation
    simp only
    have hin : ∀ (mk1 : Operation) (mk2 : Operation),
        (match rest ++ t with
          | '=' :: u => some (mk1, u)
          | _ => some (mk2, rest ++ t)) =
        mapRest t (match rest with
          | '=' :: u => some (mk1, u)
          | _ => some (mk2, rest)) := by
      intro mk1 mk2
      cases rest with
      | nil => rw [List.nil_append, h.eq]; simp [mapRest]
      | cons d r =>
        by_cases hd : d = '='
        · subst hd; simp [mapRest]
        · simp only [List.cons_append]
          split
          · rename_i u heq; simp only [List.cons.injEq] at heq; exact absurd heq.1 hd
          · split
            · rename_i u heq; simp only [List.cons.injEq] at heq; exact absurd heq.1 hd
            · simp [mapRest]
    by_cases h1 : c = '>'
    · simp only [h1, if_true]; exact hin .ge .gt
    · by_cases h2 : c = '='
      · simp [h1, h2, mapRest]
      · by_cases h3 : c = '<'
        · simp only [h1, h2, h3, if_true, if_false]
          have : ('<' : Char) ≠ '>' := by decide
          have : ('<' : Char) ≠ '=' := by decide
          simp only [*, if_false]
          exact hin .le .lt
        · simp [h1, h2, h3, mapRest]

end Semver

namespace Semver
open Pred Bound

variable {t T0 : List Char}

/-- `partial_version` after skipping blanks, at the separator: either the blanks run into `||` and
both fail, or the separator stays behind -/
theorem partialVersion_dropBlanks_app (r : List Char) (h : Sep t T0) :
    partialVersion (dropBlanks (r ++ t)) = mapRest t (partialVersion (dropBlanks r)) := by
  rw [dropBlanks_app r h]
  by_cases hr : dropBlanks r = []
  · rw [if_pos hr, hr, partialVersion_T0 h, partialVersion_nil]; rfl
  · rw [if_neg hr]; exact partialVersion_app _ h

theorem primitive_app (z : List Char) (h : Sep t T0) : primitive (z ++ t) = mapRest t (primitive z) := by
  unfold primitive
  rw [operation_app z h]
  cases ho : operation z with
  | none => rfl
  | some x =>
    obtain ⟨op, r⟩ := x
    simp only [mapRest, Option.map_some]
    rw [partialVersion_dropBlanks_app r h]
    cases partialVersion (dropBlanks r) with
    | none => rfl
    | some y => simp [mapRest]

theorem partialP_app (z : List Char) (h : Sep t T0) : partialP (z ++ t) = mapRest t (partialP z) := by
  unfold partialP
  rw [partialVersion_app z h]
  cases partialVersion z with
  | none => rfl
  | some y => simp [mapRest]

theorem caret_app (z : List Char) (h : Sep t T0) : caret (z ++ t) = mapRest t (caret z) := by
  cases z with
  | nil => rw [List.nil_append, h.eq]; simp [caret, mapRest]
  | cons c cs =>
    by_cases hc : c = '^'
    · subst hc
      simp only [List.cons_append, caret]
      rw [partialVersion_dropBlanks_app cs h]
      cases partialVersion (dropBlanks cs) with
      | none => rfl
      | some y => simp [mapRest]
    · have e : ∀ l : List Char, caret (c :: l) = none := by
        intro l; unfold caret; split
        · rename_i u heq; simp only [List.cons.injEq] at heq; exact absurd heq.1 hc
        · rfl
      simp only [List.cons_append]
      rw [e, e]; rfl

theorem stripGt_app (z : List Char) (h : Sep t T0) (hz : z ≠ []) :
    stripGt (z ++ t) = ((stripGt z).1, (stripGt z).2 ++ t) := by
  cases z with
  | nil => exact absurd rfl hz
  | cons c cs =>
    by_cases hc : c = '>'
    · subst hc; rfl
    · have e : ∀ l : List Char, stripGt (c :: l) = (false, c :: l) := by
        intro l; unfold stripGt; split
        · rename_i u heq; simp only [List.cons.injEq] at heq; exact absurd heq.1 hc
        · rfl
      simp only [List.cons_append]
      rw [e, e]; rfl

theorem stripGt_T0 (h : Sep t T0) : stripGt T0 = (false, T0) := by
  obtain ⟨b, hb⟩ := h.bars
  rw [hb]; rfl

/-- `tilde` at the separator -/
theorem tilde_app (z : List Char) (h : Sep t T0) : tilde (z ++ t) = mapRest t (tilde z) := by
  cases z with
  | nil => rw [List.nil_append, h.eq]; simp [tilde, tildeGt, mapRest]
  | cons c cs =>
    by_cases hc : c = '~'
    · subst hc
      simp only [List.cons_append]
      unfold tilde tildeGt
      simp only
      rw [dropBlanks_app cs h]
      by_cases hcs : dropBlanks cs = []
      · -- the blanks after `~` run into the separator: both fail
        rw [if_pos hcs, hcs, stripGt_T0 h]
        simp only [dropBlanks_T0 h]
        have : stripGt [] = (false, []) := rfl
        rw [this]
        simp only
        have e : dropBlanks [] = [] := rfl
        rw [e, partialVersion_T0 h, partialVersion_nil]; rfl
      · rw [if_neg hcs, stripGt_app _ h hcs]
        simp only
        rw [partialVersion_dropBlanks_app _ h]
        cases partialVersion (dropBlanks (stripGt (dropBlanks cs)).2) with
        | none => rfl
        | some y => simp [mapRest]
    · have e : ∀ l : List Char, tildeGt (c :: l) = none := by
        intro l; unfold tildeGt; split
        · rename_i u heq; simp only [List.cons.injEq] at heq; exact absurd heq.1 hc
        · rfl
      simp only [List.cons_append]
      unfold tilde
      rw [e, e]; rfl

end Semver

namespace Semver
open Pred Bound

variable {t T0 : List Char}

theorem optPartial_app (z : List Char) (h : Sep t T0) :
    optPartial (z ++ t) = ((optPartial z).1, (optPartial z).2 ++ t) := by
  unfold optPartial
  rw [partialVersion_app z h]
  cases partialVersion z with
  | none => rfl
  | some x => simp [mapRest]

theorem dash_T0 (h : Sep t T0) : dash T0 = none := by
  obtain ⟨b, hb⟩ := h.bars; rw [hb]; rfl

theorem dash_app (z : List Char) (hz : z ≠ []) : dash (z ++ t) = (dash z).map (· ++ t) := by
  cases z with
  | nil => exact absurd rfl hz
  | cons c cs =>
    by_cases hc : c = '-'
    · subst hc; rfl
    · have e : ∀ l : List Char, dash (c :: l) = none := by
        intro l; unfold dash; split
        · rename_i u heq; simp only [List.cons.injEq] at heq; exact absurd heq.1 hc
        · rfl
      simp only [List.cons_append]
      rw [e, e]; rfl

/-- `space1` then a parser that fails both on the empty input and right at `||` -/
theorem blanks1_then {α : Type} (f : List Char → Option (α × List Char)) (z : List Char) (h : Sep t T0)
    (hnil : f [] = none) (hT0 : f T0 = none) (happ : ∀ y, y ≠ [] → f (y ++ t) = mapRest t (f y)) :
    (match blanks1 (z ++ t) with | none => none | some r => f r) =
      mapRest t (match blanks1 z with | none => none | some r => f r) := by
  rw [blanks1_app z h]
  cases z with
  | nil => simp only [blanks1, hT0]; rfl
  | cons c cs =>
    simp only [blanks1]
    by_cases hc : isBlank c = true
    · simp only [hc, if_true]
      by_cases hd : dropBlanks cs = []
      · simp only [hd, if_true, hT0, hnil]; rfl
      · simp only [hd, if_false]; exact happ _ hd
    · simp only [hc, Bool.false_eq_true, if_false]; rfl

theorem hyphenRest_app (z : List Char) (h : Sep t T0) : hyphenRest (z ++ t) = mapRest t (hyphenRest z) := by
  -- innermost: space1 then partial_version
  have inner : ∀ y : List Char,
      (match blanks1 (y ++ t) with | none => none | some r => partialVersion r) =
        mapRest t (match blanks1 y with | none => none | some r => partialVersion r) :=
    fun y => blanks1_then partialVersion y h partialVersion_nil (partialVersion_T0 h)
      (fun y _ => partialVersion_app y h)
  -- middle: "-" then the inner part
  let g : List Char → Option (Partial × List Char) := fun r1 =>
    match dash r1 with
    | none => none
    | some r2 => match blanks1 r2 with | none => none | some r3 => partialVersion r3
  have gnil : g [] = none := rfl
  have gT0 : g T0 = none := by simp only [g, dash_T0 h]
  have gapp : ∀ y, y ≠ [] → g (y ++ t) = mapRest t (g y) := by
    intro y hy
    simp only [g]
    rw [dash_app y hy]
    cases dash y with
    | none => rfl
    | some r2 => simp only [Option.map_some]; exact inner r2
  have := blanks1_then g z h gnil gT0 gapp
  unfold hyphenRest
  exact this

theorem hyphen_app (z : List Char) (h : Sep t T0) : hyphen (z ++ t) = mapRest t (hyphen z) := by
  unfold hyphen
  simp only
  rw [optPartial_app z h]
  simp only
  rw [hyphenRest_app _ h]
  cases hyphenRest (optPartial z).2 with
  | none => rfl
  | some x => simp [mapRest]

theorem atEnd_cons2 (c d : Char) (l : List Char) :
    atEnd (c :: d :: l) = if c = '|' ∧ d = '|' then true else isBlank c := by
  by_cases h : c = '|' ∧ d = '|'
  · obtain ⟨rfl, rfl⟩ := h; simp [atEnd]
  · rw [if_neg h]
    unfold atEnd
    split
    · rename_i heq; simp at heq
    · rename_i u heq
      simp only [List.cons.injEq] at heq
      exact absurd ⟨heq.1, heq.2.1⟩ h
    · rename_i e u heq
      simp only [List.cons.injEq] at heq
      rw [heq.1]

theorem atEnd_one (c : Char) : atEnd [c] = isBlank c := by
  unfold atEnd
  split
  · rename_i heq; simp at heq
  · rename_i u heq; simp at heq
  · rename_i e u heq; simp only [List.cons.injEq] at heq; rw [heq.1]

theorem atEnd_app (r : List Char) (h : Sep t T0) : atEnd (r ++ t) = atEnd r := by
  cases r with
  | nil => rw [List.nil_append, h.eq]; simp [atEnd, isBlank]
  | cons c cs =>
    cases cs with
    | nil =>
      rw [h.eq]
      simp only [List.cons_append, List.nil_append]
      rw [atEnd_cons2, atEnd_one]
      have : ¬ (c = '|' ∧ (' ' : Char) = '|') := by intro ⟨_, h2⟩; revert h2; decide
      rw [if_neg this]
    | cons d ds =>
      simp only [List.cons_append]
      rw [atEnd_cons2, atEnd_cons2]

theorem terminated_app {r : Option (Option BoundSet × List Char)} (h : Sep t T0) :
    terminated (mapRest t r) = mapRest t (terminated r) := by
  cases r with
  | none => rfl
  | some x =>
    obtain ⟨b, rest⟩ := x
    simp only [mapRest, Option.map_some, terminated]
    rw [atEnd_app rest h]
    split <;> rfl

theorem garbage_app (z : List Char) (h : Sep t T0) : garbage (z ++ t) = garbage z ++ t := by
  induction z with
  | nil =>
    rw [List.nil_append, h.eq]
    simp [garbage, atEnd, isBlank]
  | cons c cs ih =>
    have ha := atEnd_app (c :: cs) h
    simp only [List.cons_append] at ha ⊢
    unfold garbage
    rw [ha]
    split
    · rfl
    · exact ih

/-- **`simple` at the separator**: same result, separator left behind -/
theorem simple_app (z : List Char) (h : Sep t T0) : simple (z ++ t) = ((simple z).1, (simple z).2 ++ t) := by
  unfold simple
  rw [hyphen_app z h, terminated_app h, primitive_app z h, terminated_app h, partialP_app z h, terminated_app h,
    tilde_app z h, terminated_app h, caret_app z h, terminated_app h, garbage_app z h]
  cases terminated (hyphen z) with
  | some x => simp [mapRest]
  | none =>
    simp only [mapRest, Option.map_none]
    cases terminated (primitive z) with
    | some x => simp
    | none =>
      simp only [Option.map_none]
      cases terminated (partialP z) with
      | some x => simp
      | none =>
        simp only [Option.map_none]
        cases terminated (tilde z) with
        | some x => simp
        | none =>
          simp only [Option.map_none]
          cases terminated (caret z) with
          | some x => simp
          | none => simp

end Semver

namespace Semver
open Pred Bound

variable {t T0 : List Char}

/-! ### the loops -/

theorem garbage_atEnd (s : List Char) : atEnd (garbage s) = true := by
  induction s with
  | nil => rfl
  | cons c cs ih =>
    unfold garbage
    split
    · assumption
    · exact ih

theorem terminated_atEnd {r : Option (Option BoundSet × List Char)} {x : Option BoundSet × List Char}
    (h : terminated r = some x) : atEnd x.2 = true := by
  unfold terminated at h
  split at h
  · split at h
    · cases h; assumption
    · cases h
  · cases h

theorem simple_atEnd (s : List Char) : atEnd (simple s).2 = true := by
  unfold simple
  split
  · rename_i x h; exact terminated_atEnd h
  · split
    · rename_i x h; exact terminated_atEnd h
    · split
      · rename_i x h; exact terminated_atEnd h
      · split
        · rename_i x h; exact terminated_atEnd h
        · split
          · rename_i x h; exact terminated_atEnd h
          · exact garbage_atEnd s

/-- the input at an alternative boundary: end of input or `||` -/
def AtBar (x : List Char) : Prop := x = [] ∨ ∃ u, x = '|' :: '|' :: u

theorem atBar_of_atEnd {x : List Char} (h1 : atEnd x = true) (h2 : blanks1 x = none) : AtBar x := by
  cases x with
  | nil => exact Or.inl rfl
  | cons c cs =>
    have hc : isBlank c = false := by
      unfold blanks1 at h2
      cases hb : isBlank c with
      | false => rfl
      | true => simp [hb] at h2
    cases cs with
    | nil => rw [atEnd_one] at h1; rw [h1] at hc; cases hc
    | cons d ds =>
      rw [atEnd_cons2] at h1
      by_cases hbar : c = '|' ∧ d = '|'
      · obtain ⟨rfl, rfl⟩ := hbar; exact Or.inr ⟨ds, rfl⟩
      · rw [if_neg hbar] at h1; rw [h1] at hc; cases hc

theorem rangeTail_atBar (s : List Char) (hs : atEnd s = true) : AtBar (rangeTail s).2 := by
  generalize hn : s.length = n
  induction n using Nat.strongRecOn generalizing s with
  | _ n ih =>
    cases hb : blanks1 s with
    | none => rw [rangeTail_none hb]; exact atBar_of_atEnd hs hb
    | some r =>
      rw [rangeTail_some hb]
      have h1 := blanks1_length hb
      have h2 := simple_length r
      exact ih (simple r).2.length (by omega) (simple r).2 (simple_atEnd r) rfl

theorem rangeP_atBar (s : List Char) : AtBar (rangeP s).2 := by
  unfold rangeP
  exact rangeTail_atBar _ (simple_atEnd s)

theorem foldSets_congr {a b : List (Option BoundSet)} (h : a.filterMap id = b.filterMap id) :
    foldSets a = foldSets b := by
  unfold foldSets; rw [h]

theorem simple_T0 (h : Sep t T0) : simple T0 = (none, T0) := by
  obtain ⟨b, hb⟩ := h.bars
  have hpv := partialVersion_T0 h
  have hb1 := blanks1_T0 h
  have e1 : hyphen T0 = none := by
    unfold hyphen optPartial hyphenRest; simp only [hpv, hb1]
  have e2 : primitive T0 = none := by
    unfold primitive
    have : operation T0 = none := by rw [hb]; simp [operation]
    rw [this]
  have e3 : partialP T0 = none := by unfold partialP; rw [hpv]
  have e4 : tilde T0 = none := by
    unfold tilde tildeGt; rw [hb]; rfl
  have e5 : caret T0 = none := by unfold caret; rw [hb]; rfl
  have e6 : garbage T0 = T0 := by
    rw [hb]; unfold garbage; simp [atEnd]
  unfold simple
  rw [e1, e2, e3, e4, e5, e6]
  rfl

/-- `separated(0.., simple, space1)` at the separator: the same comparators (up to dropped ones), and
the rest is `t` appended, or `||…` when the comparator list ran up to the end of the text -/
theorem rangeTail_app (z : List Char) (h : Sep t T0) :
    (rangeTail (z ++ t)).1.filterMap id = (rangeTail z).1.filterMap id ∧
    (rangeTail (z ++ t)).2 = (if (rangeTail z).2 = [] then T0 else (rangeTail z).2 ++ t) := by
  generalize hn : z.length = n
  induction n using Nat.strongRecOn generalizing z with
  | _ n ih =>
    have hbt := blanks1_app z h
    cases z with
    | nil =>
      simp only at hbt
      rw [List.nil_append, rangeTail_some (blanks1_t h), simple_T0 h]
      simp only
      rw [rangeTail_none (blanks1_T0 h), rangeTail_none (by rfl : blanks1 [] = none)]
      simp
    | cons c cs =>
      simp only at hbt
      by_cases hc : isBlank c = true
      · rw [if_pos hc] at hbt
        have hbz : blanks1 (c :: cs) = some (dropBlanks cs) := by simp [blanks1, hc]
        rw [rangeTail_some hbt, rangeTail_some hbz]
        by_cases hd : dropBlanks cs = []
        · simp only [hd, if_true]
          rw [simple_T0 h]
          have : simple [] = (none, []) := by
            have a1 : partialVersion [] = none := partialVersion_nil
            have a2 : hyphen [] = none := by unfold hyphen optPartial hyphenRest; simp only [a1]; rfl
            have a3 : primitive [] = none := rfl
            have a4 : partialP [] = none := by unfold partialP; rw [a1]
            have a5 : tilde [] = none := rfl
            have a6 : caret [] = none := rfl
            unfold simple
            rw [a2, a3, a4, a5, a6]; rfl
          rw [this]
          simp only
          rw [rangeTail_none (blanks1_T0 h), rangeTail_none (by rfl : blanks1 [] = none)]
          simp
        · simp only [hd, if_false]
          rw [simple_app _ h]
          simp only
          have hl1 := dropBlanks_length_le cs
          have hl2 := simple_length (dropBlanks cs)
          have := ih (simple (dropBlanks cs)).2.length (by simp at hn; omega) (simple (dropBlanks cs)).2 rfl
          refine ⟨?_, this.2⟩
          simp only [List.filterMap_cons]
          rw [this.1]
      · have hcf : isBlank c = false := by simpa using hc
        rw [if_neg hc] at hbt
        have hbz : blanks1 (c :: cs) = none := by simp [blanks1, hcf]
        rw [rangeTail_none hbt, rangeTail_none hbz]
        simp

theorem rangeP_app (z : List Char) (h : Sep t T0) :
    (rangeP (z ++ t)).1 = (rangeP z).1 ∧
    (rangeP (z ++ t)).2 = (if (rangeP z).2 = [] then T0 else (rangeP z).2 ++ t) := by
  unfold rangeP
  simp only
  rw [simple_app z h]
  simp only
  have := rangeTail_app (simple z).2 h
  refine ⟨?_, this.2⟩
  apply foldSets_congr
  simp only [List.filterMap_cons]
  rw [this.1]

end Semver

namespace Semver
open Pred Bound

variable {t T0 : List Char}

theorem logicalOr_T0 (h : Sep t T0) (bb : List Char) (hb : T0 = '|' :: '|' :: bb) :
    logicalOr T0 = some (dropBlanks bb) := by
  unfold logicalOr
  rw [dropBlanks_T0 h, hb]
  rfl

theorem rangeP_T0 (h : Sep t T0) : rangeP T0 = ([], T0) := by
  unfold rangeP
  rw [simple_T0 h]
  simp only
  rw [rangeTail_none (blanks1_T0 h)]
  rfl

theorem rangeP_nil : rangeP [] = ([], []) := by
  have : simple [] = (none, []) := by
    have a1 : partialVersion [] = none := partialVersion_nil
    have a2 : hyphen [] = none := by unfold hyphen optPartial hyphenRest; simp only [a1]; rfl
    have a4 : partialP [] = none := by unfold partialP; rw [a1]
    unfold simple
    rw [a2, a4]; rfl
  unfold rangeP
  rw [this]
  simp only
  rw [rangeTail_none (by rfl : blanks1 [] = none)]
  rfl

theorem boundSetsTail_nil : boundSetsTail [] = ([], []) :=
  boundSetsTail_none (by simp [logicalOr, dropBlanks, span])

/-- the alternatives after the separator -/
def afterSep (bb : List Char) : List BoundSet := (boundSets (dropBlanks bb)).1

theorem boundSetsTail_T0 (h : Sep t T0) (bb : List Char) (hb : T0 = '|' :: '|' :: bb) :
    (boundSetsTail T0).1.flatten = afterSep bb := by
  rw [boundSetsTail_some (logicalOr_T0 h bb hb)]
  rfl

/-- **the alternatives loop at the separator**: everything `x` yields, then everything after the `||` -/
theorem boundSetsTail_app (x : List Char) (hx : AtBar x) (h : Sep t T0) (bb : List Char)
    (hb : T0 = '|' :: '|' :: bb) :
    (boundSetsTail (if x = [] then T0 else x ++ t)).1.flatten = (boundSetsTail x).1.flatten ++ afterSep bb := by
  generalize hn : x.length = n
  induction n using Nat.strongRecOn generalizing x with
  | _ n ih =>
    rcases hx with rfl | ⟨u, rfl⟩
    · simp only [if_true]
      rw [boundSetsTail_T0 h bb hb, boundSetsTail_nil]; rfl
    · have hne : ('|' :: '|' :: u) ≠ [] := by simp
      rw [if_neg hne]
      have hlo : logicalOr ('|' :: '|' :: u) = some (dropBlanks u) := by
        unfold logicalOr
        have : dropBlanks ('|' :: '|' :: u) = '|' :: '|' :: u := by
          have := dropBlanks_append [] ('|' :: '|' :: u) (by simp) (by intro c hc; simp at hc; subst hc; decide)
          simpa using this
        rw [this]
        rfl
      have hlot : logicalOr ('|' :: '|' :: u ++ t) =
          some (if dropBlanks u = [] then T0 else dropBlanks u ++ t) := by
        unfold logicalOr
        have : dropBlanks ('|' :: '|' :: u ++ t) = '|' :: '|' :: (u ++ t) := by
          have := dropBlanks_append [] ('|' :: '|' :: (u ++ t)) (by simp)
            (by intro c hc; simp at hc; subst hc; decide)
          simpa using this
        rw [this]
        simp only
        rw [dropBlanks_app u h]
      rw [boundSetsTail_some hlo, boundSetsTail_some hlot]
      by_cases hd : dropBlanks u = []
      · simp only [hd, if_true]
        rw [rangeP_T0 h, rangeP_nil]
        simp only [List.flatten_cons, List.nil_append]
        rw [boundSetsTail_T0 h bb hb, boundSetsTail_nil]; rfl
      · simp only [hd, if_false]
        have hr := rangeP_app (dropBlanks u) h
        rw [hr.1, hr.2]
        simp only [List.flatten_cons, List.append_assoc]
        congr 1
        have hl1 := dropBlanks_length_le u
        have hl2 := rangeP_length (dropBlanks u)
        exact ih (rangeP (dropBlanks u)).2.length (by simp at hn; omega) _ (rangeP_atBar _) rfl

theorem boundSets_app (z : List Char) (h : Sep t T0) (bb : List Char) (hb : T0 = '|' :: '|' :: bb) :
    (boundSets (z ++ t)).1 = (boundSets z).1 ++ afterSep bb := by
  unfold boundSets
  simp only
  have hr := rangeP_app z h
  rw [hr.1, hr.2]
  simp only [List.flatten_cons, List.append_assoc]
  congr 1
  exact boundSetsTail_app _ (rangeP_atBar z) h bb hb

theorem boundSets_T0 (h : Sep t T0) (bb : List Char) (hb : T0 = '|' :: '|' :: bb) :
    (boundSets T0).1 = afterSep bb := by
  unfold boundSets
  simp only
  rw [rangeP_T0 h]
  simp only [List.flatten_cons, List.nil_append]
  exact boundSetsTail_T0 h bb hb

/-- the alternatives of a text, as `Range::parse` sees them (leading blanks skipped) -/
def altsOf (s : List Char) : List BoundSet := (boundSets (dropBlanks s)).1

theorem parse_eq_alts (s : List Char) :
    Range.parse s = if (altsOf s).isEmpty then .error ⟨s, 0, .noValidRanges⟩ else .ok (altsOf s) := rfl

/-- **the alternatives of `a || b` are those of `a` followed by those of `b`**, for all texts -/
theorem alts_or (a b : List Char) : altsOf (a ++ ' ' :: '|' :: '|' :: ' ' :: b) = altsOf a ++ altsOf b := by
  have hsep : Sep (' ' :: '|' :: '|' :: ' ' :: b) ('|' :: '|' :: ' ' :: b) := ⟨rfl, ⟨' ' :: b, rfl⟩⟩
  have hafter : afterSep (' ' :: b) = altsOf b := by
    unfold afterSep altsOf
    have : dropBlanks (' ' :: b) = dropBlanks b := by simp [dropBlanks, span, isBlank]
    rw [this]
  unfold altsOf
  rw [dropBlanks_app a hsep]
  by_cases ha : dropBlanks a = []
  · rw [if_pos ha, boundSets_T0 hsep (' ' :: b) rfl, hafter, ha]
    have : (boundSets []).1 = [] := by
      unfold boundSets; simp only; rw [rangeP_nil]; simp only; rw [boundSetsTail_nil]; rfl
    rw [this]; rfl
  · rw [if_neg ha, boundSets_app _ hsep (' ' :: b) rfl, hafter]
    rfl

end Semver
