import SemverProofs.Lemmas.Locality
import SemverProofs.Lemmas.NpmParse
/-!
# Closed tokens: the parser reads a text token by token

`Locality.lean` shows that nothing reads past a blank followed by `||`.  Here the continuation is
arbitrary: `t` is empty or starts with a blank or a bar (`Fol t`).  A production can then only run off
the end of a token if the *whole* token is an operator (or `~`, `~>`, `^`, nothing) optionally
followed by `v` — a *hungry* token.  For every other blank-free, bar-free token `tok`
(`simple_closed`): `simple (tok ++ t) = ((simple tok).1, t)`.
-/
namespace Semver
open Pred Bound

/-- what may follow a token: nothing, a blank, or a bar -/
structure Fol (t : List Char) : Prop where
  head : ∀ c, t.head? = some c → isBlank c = true ∨ c = '|'

variable {t : List Char}

theorem Fol.ne (h : Fol t) (c : Char) (hc : t.head? = some c) (d : Char) (h1 : isBlank d = false) (h2 : d ≠ '|') :
    c ≠ d := by
  intro e; subst e
  rcases h.head c hc with hb | hb
  · rw [hb] at h1; cases h1
  · exact h2 hb

theorem Fol.notDigit (h : Fol t) (c : Char) (hc : t.head? = some c) : isDigit c = false := by
  rcases h.head c hc with hb | rfl
  · simp only [isBlank, Bool.or_eq_true, beq_iff_eq] at hb
    rcases hb with rfl | rfl <;> decide
  · decide

theorem Fol.notIdChar (h : Fol t) (c : Char) (hc : t.head? = some c) : isIdChar c = false := by
  rcases h.head c hc with hb | rfl
  · simp only [isBlank, Bool.or_eq_true, beq_iff_eq] at hb
    rcases hb with rfl | rfl <;> decide
  · decide

theorem span_fol (p : Char → Bool) (z : List Char) (hp : ∀ c, t.head? = some c → p c = false) :
    span p (z ++ t) = ((span p z).1, (span p z).2 ++ t) := by
  induction z with
  | nil =>
    cases t with
    | nil => simp [span]
    | cons c r => simp [span, hp c rfl]
  | cons c cs ih =>
    simp only [List.cons_append, span]
    split
    · rw [ih]
    · simp

theorem component_folhead (h : Fol t) : component t = none := by
  cases t with
  | nil => exact component_nil
  | cons c r =>
    rw [component_other c r (h.ne c rfl 'x' (by decide) (by decide)) (h.ne c rfl 'X' (by decide) (by decide))
      (h.ne c rfl '*' (by decide) (by decide))]
    unfold numberO number
    have : (span isDigit (c :: r)).1 = [] := by simp [span, h.notDigit c rfl]
    simp [this]

theorem dotComponent_folhead (h : Fol t) : dotComponent t = (none, t) := by
  unfold dotComponent
  split
  · rename_i u
    exact absurd rfl (h.ne '.' rfl '.' (by decide) (by decide))
  · rfl

theorem identTail_folhead (h : Fol t) (fuel : Nat) : identTail fuel t = ([], t) := by
  cases fuel with
  | zero => rfl
  | succ n =>
    unfold identTail
    split
    · rename_i u
      exact absurd rfl (h.ne '.' rfl '.' (by decide) (by decide))
    · rfl

theorem numberOk_fol (z : List Char) (h : Fol t) : numberO (z ++ t) = mapRest t (numberO z) := by
  rw [numberO_eq, numberO_eq, span_fol isDigit z h.notDigit]
  simp only
  split <;> simp [mapRest]


theorem component_fol (z : List Char) (h : Fol t) : component (z ++ t) = mapRest t (component z) := by
  cases z with
  | nil =>
    rw [List.nil_append, component_folhead h, component_nil]; rfl
  | cons c cs =>
    simp only [List.cons_append]
    by_cases h1 : c = 'x'
    · subst h1; simp [component, mapRest]
    · by_cases h2 : c = 'X'
      · subst h2; simp [component, mapRest]
      · by_cases h3 : c = '*'
        · subst h3; simp [component, mapRest]
        · rw [component_other c (cs ++ t) h1 h2 h3, component_other c cs h1 h2 h3]
          have := numberOk_fol (c :: cs) h
          simp only [List.cons_append] at this
          rw [this]
          cases numberO (c :: cs) <;> simp [mapRest]

theorem dotComponent_fol (z : List Char) (h : Fol t) :
    dotComponent (z ++ t) = ((dotComponent z).1, (dotComponent z).2 ++ t) := by
  cases z with
  | nil =>
    rw [List.nil_append, dotComponent_folhead h]; rfl
  | cons c cs =>
    by_cases hc : c = '.'
    · subst hc
      simp only [List.cons_append, dotComponent]
      rw [component_fol cs h]
      cases component cs with
      | none => simp [mapRest]
      | some x => simp [mapRest]
    · have e1 : dotComponent (c :: cs ++ t) = (none, c :: cs ++ t) := by
        unfold dotComponent
        split
        · rename_i u heq; simp at heq; exact absurd heq.1 hc
        · rfl
      have e2 : dotComponent (c :: cs) = (none, c :: cs) := by
        unfold dotComponent
        split
        · rename_i u heq; simp at heq; exact absurd heq.1 hc
        · rfl
      rw [e1, e2]


theorem identifierOk_fol (z : List Char) (h : Fol t) : identifierO (z ++ t) = mapRest t (identifierO z) := by
  unfold identifierO identifier
  rw [span_fol isIdChar z h.notIdChar]
  simp only
  by_cases h1 : (span isIdChar z).1.isEmpty = true
  · simp [h1, mapRest]
  · simp [h1, mapRest]


theorem identTail_fol (fuel : Nat) (z : List Char) (h : Fol t) (hf : (z ++ t).length ≤ fuel) :
    identTail fuel (z ++ t) = ((identTail fuel z).1, (identTail fuel z).2 ++ t) := by
  induction fuel generalizing z with
  | zero => simp [identTail]
  | succ n ih =>
    cases z with
    | nil =>
      rw [List.nil_append, identTail_folhead h]; simp [identTail]
    | cons c cs =>
      unfold identTail
      simp only [List.cons_append]
      split
      · rename_i u heq
        simp at heq
        obtain ⟨rfl, rfl⟩ := heq
        have hid := identifierOk_fol cs h
        unfold identifierO at hid
        cases hi : identifier cs with
        | ok a rest =>
          rw [hi] at hid
          cases hit : identifier (cs ++ t) with
          | ok a' rest' =>
            rw [hit] at hid
            simp [mapRest] at hid
            obtain ⟨rfl, rfl⟩ := hid
            have hl := identifier_length hi
            simp only
            rw [ih rest (by simp at hf ⊢; omega)]
            simp [hi]
          | err e => rw [hit] at hid; simp [mapRest] at hid
        | err e =>
          rw [hi] at hid
          cases hit : identifier (cs ++ t) with
          | ok a' rest' => rw [hit] at hid; simp [mapRest] at hid
          | err e' => simp [hi]
      · rename_i hne
        split
        · rename_i u heq; simp at heq; exact absurd (by rw [heq.1]) (hne (cs ++ t))
        · rfl

theorem identListOk_fol (z : List Char) (h : Fol t) :
    (match identList (z ++ t) with | .ok v r => some (v, r) | .err _ => none) =
      mapRest t (match identList z with | .ok v r => some (v, r) | .err _ => none) := by
  unfold identList
  have hid := identifierOk_fol z h
  unfold identifierO at hid
  cases hi : identifier z with
  | ok a rest =>
    rw [hi] at hid
    cases hit : identifier (z ++ t) with
    | ok a' rest' =>
      rw [hit] at hid
      simp [mapRest] at hid
      obtain ⟨rfl, rfl⟩ := hid
      simp only [mapRest, Option.map_some, Option.some.injEq, Prod.mk.injEq]
      rw [identTail_fol (rest ++ t).length rest h (by simp)]
      rw [identTail_fuel (rest ++ t).length rest.length rest (by simp) (by simp)]
      simp
    | err e => rw [hit] at hid; simp [mapRest] at hid
  | err e =>
    rw [hi] at hid
    cases hit : identifier (z ++ t) with
    | ok a' rest' => rw [hit] at hid; simp [mapRest] at hid
    | err e' => simp [mapRest]


theorem identListO_fol (z : List Char) (h : Fol t) : identListO (z ++ t) = mapRest t (identListO z) :=
  identListOk_fol z h

theorem stripHyphen_fol (z : List Char) (h : Fol t) (hz : z ≠ []) : stripHyphen (z ++ t) = stripHyphen z ++ t := by
  cases z with
  | nil => exact absurd rfl hz
  | cons c cs =>
    unfold stripHyphen
    by_cases hc : c = '-'
    · subst hc; rfl
    · simp only [List.cons_append]
      split
      · rename_i u heq; simp at heq; exact absurd heq.1 hc
      · split
        · rename_i u heq; simp at heq; exact absurd heq.1 hc
        · rfl

theorem identListO_folt (h : Fol t) : identListO t = none := by
  unfold identListO identList identifier
  have : (span isIdChar t).1 = [] := by
    cases t with
    | nil => rfl
    | cons c r => simp [span, h.notIdChar c rfl]
  simp [this]


/-- `extras` (which never fails) leaves the separator behind -/
theorem extras_fol (z : List Char) (h : Fol t) : extras (z ++ t) = ((extras z).1, (extras z).2 ++ t) := by
  have hpre : ∀ y : List Char,
      (match preRelease (y ++ t) with | .ok p r => some (p, r) | .err _ => none) =
        mapRest t (match preRelease y with | .ok p r => some (p, r) | .err _ => none) := by
    intro y
    unfold preRelease
    cases y with
    | nil =>
      have e1 : stripHyphen ([] ++ t) = t := by
        rw [List.nil_append]
        cases t with
        | nil => rfl
        | cons c r =>
          unfold stripHyphen
          split
          · rename_i u heq; simp at heq; exact absurd heq.1 (h.ne c rfl '-' (by decide) (by decide))
          · rfl
      have e2 : stripHyphen [] = [] := rfl
      rw [e1, e2]
      have a := identListO_folt h
      have b := identListO_nil
      unfold identListO at a b
      cases h1 : identList t with
      | ok v r => rw [h1] at a; cases a
      | err e =>
        cases h2 : identList [] with
        | ok v r => rw [h2] at b; cases b
        | err e' => rfl
    | cons c cs =>
      rw [stripHyphen_fol (c :: cs) h (by simp)]
      have := identListO_fol (stripHyphen (c :: cs)) h
      unfold identListO at this
      cases h1 : identList (stripHyphen (c :: cs) ++ t) with
      | ok v r =>
        rw [h1] at this
        cases h2 : identList (stripHyphen (c :: cs)) with
        | ok v' r' => rw [h2] at this; simpa [mapRest] using this
        | err e => rw [h2] at this; simp [mapRest] at this
      | err e =>
        rw [h1] at this
        cases h2 : identList (stripHyphen (c :: cs)) with
        | ok v' r' => rw [h2] at this; simp [mapRest] at this
        | err e' => simp [mapRest]
  have hbuild : ∀ y : List Char,
      (match buildMeta (y ++ t) with | .ok p r => some (p, r) | .err _ => none) =
        mapRest t (match buildMeta y with | .ok p r => some (p, r) | .err _ => none) := by
    intro y
    cases y with
    | nil =>
      rw [List.nil_append, buildMeta_nil]
      cases t with
      | nil => rfl
      | cons c r => rw [buildMeta_not_plus c r (h.ne c rfl '+' (by decide) (by decide))]; rfl
    | cons c cs =>
      by_cases hc : c = '+'
      · subst hc
        simp only [List.cons_append]
        rw [buildMeta_plus, buildMeta_plus]
        have := identListO_fol cs h
        unfold identListO at this
        cases h1 : identList (cs ++ t) with
        | ok v r =>
          rw [h1] at this
          cases h2 : identList cs with
          | ok v' r' => rw [h2] at this; simpa [mapRest] using this
          | err e => rw [h2] at this; simp [mapRest] at this
        | err e =>
          rw [h1] at this
          cases h2 : identList cs with
          | ok v' r' => rw [h2] at this; simp [mapRest] at this
          | err e' => simp [mapRest]
      · simp only [List.cons_append]
        rw [buildMeta_not_plus c _ hc, buildMeta_not_plus c _ hc]; rfl
  unfold extras
  have hp := hpre z
  cases h1 : preRelease z with
  | ok p r1 =>
    rw [h1] at hp
    cases h1t : preRelease (z ++ t) with
    | err e => rw [h1t] at hp; simp [mapRest] at hp
    | ok p' r1' =>
      rw [h1t] at hp
      simp [mapRest] at hp
      obtain ⟨rfl, rfl⟩ := hp
      simp only
      have hb := hbuild r1
      cases h2 : buildMeta r1 with
      | ok b r2 =>
        rw [h2] at hb
        cases h2t : buildMeta (r1 ++ t) with
        | err e => rw [h2t] at hb; simp [mapRest] at hb
        | ok b' r2' => rw [h2t] at hb; simp [mapRest] at hb; obtain ⟨rfl, rfl⟩ := hb; rfl
      | err e =>
        rw [h2] at hb
        cases h2t : buildMeta (r1 ++ t) with
        | err e' => rfl
        | ok b' r2' => rw [h2t] at hb; simp [mapRest] at hb
  | err e =>
    rw [h1] at hp
    cases h1t : preRelease (z ++ t) with
    | ok p' r1' => rw [h1t] at hp; simp [mapRest] at hp
    | err e' =>
      simp only
      have hb := hbuild z
      cases h2 : buildMeta z with
      | ok b r2 =>
        rw [h2] at hb
        cases h2t : buildMeta (z ++ t) with
        | err e => rw [h2t] at hb; simp [mapRest] at hb
        | ok b' r2' => rw [h2t] at hb; simp [mapRest] at hb; obtain ⟨rfl, rfl⟩ := hb; rfl
      | err e'' =>
        rw [h2] at hb
        cases h2t : buildMeta (z ++ t) with
        | err e' => rfl
        | ok b' r2' => rw [h2t] at hb; simp [mapRest] at hb

theorem stripV_fol (z : List Char) (h : Fol t) (hz : z ≠ []) : stripV (z ++ t) = stripV z ++ t := by
  cases z with
  | nil => exact absurd rfl hz
  | cons c cs =>
    unfold stripV
    by_cases hc : c = 'v'
    · subst hc; rfl
    · simp only [List.cons_append]
      split
      · rename_i u heq; simp at heq; exact absurd heq.1 hc
      · split
        · rename_i u heq; simp at heq; exact absurd heq.1 hc
        · rfl

theorem partialCore_fol (z : List Char) (h : Fol t) (hz : z ≠ []) :
    partialCore (z ++ t) = mapRest t (partialCore z) := by
  unfold partialCore
  rw [component_fol _ h]
  cases hc : component z with
  | none => rfl
  | some x =>
    obtain ⟨major, r1⟩ := x
    simp only [mapRest, Option.map_some]
    rw [dotComponent_fol r1 h]
    simp only
    rw [dotComponent_fol (dotComponent r1).2 h]
    simp only
    by_cases hs : (dotComponent (dotComponent r1).2).1.isSome = true
    · simp only [hs, if_true]
      rw [extras_fol _ h]
    · simp only [hs, Bool.false_eq_true, if_false]


end Semver

namespace Semver
open Pred Bound

/-! ### the remaining input of every production consists of characters of its input -/

/-- every character of `r` occurs in `s` -/
def Sub (r s : List Char) : Prop := ∀ c ∈ r, c ∈ s

theorem Sub.refl (s : List Char) : Sub s s := fun _ h => h
theorem Sub.trans {a b c : List Char} (h1 : Sub a b) (h2 : Sub b c) : Sub a c := fun x hx => h2 x (h1 x hx)
theorem Sub.cons (c : Char) (s : List Char) : Sub s (c :: s) := fun x hx => by simp [hx]
theorem Sub.nil (s : List Char) : Sub [] s := fun _ h => by cases h

theorem span_sub (p : Char → Bool) (s : List Char) : Sub (span p s).2 s := by
  intro c hc
  rw [← span_eq p s]
  exact List.mem_append_right _ hc

theorem dropBlanks_sub (s : List Char) : Sub (dropBlanks s) s := span_sub _ _

theorem number_sub {s v r} (h : number s = .ok v r) : Sub r s := by
  unfold number at h
  simp only at h
  split at h
  · cases h
  · split at h
    · cases h
    · split at h
      · cases h
      · cases h; exact span_sub _ _

theorem identifier_sub {s a r} (h : identifier s = .ok a r) : Sub r s := by
  unfold identifier at h
  simp only at h
  split at h
  · cases h
  · cases h; exact span_sub _ _

theorem identTail_sub (fuel : Nat) (s : List Char) : Sub (identTail fuel s).2 s := by
  induction fuel generalizing s with
  | zero => exact Sub.refl s
  | succ n ih =>
    unfold identTail
    split
    · rename_i s'
      split
      · rename_i a rest h
        exact ((ih rest).trans (identifier_sub h)).trans (Sub.cons _ _)
      · exact Sub.refl _
    · exact Sub.refl _

theorem identList_sub {s a r} (h : identList s = .ok a r) : Sub r s := by
  unfold identList at h
  split at h
  · cases h
  · rename_i a' rest h'
    cases h
    exact (identTail_sub _ _).trans (identifier_sub h')

theorem stripHyphen_sub (s : List Char) : Sub (stripHyphen s) s := by
  unfold stripHyphen; split
  · exact Sub.cons _ _
  · exact Sub.refl _

theorem preRelease_sub {s a r} (h : preRelease s = .ok a r) : Sub r s := by
  unfold preRelease at h
  split at h
  · rename_i a' r' h'
    cases h
    exact (identList_sub h').trans (stripHyphen_sub s)
  · cases h

theorem buildMeta_sub {s a r} (h : buildMeta s = .ok a r) : Sub r s := by
  unfold buildMeta at h
  split at h
  · split at h
    · rename_i a' r' h'
      cases h
      exact (identList_sub h').trans (Sub.cons _ _)
    · cases h
  · cases h

theorem extras_sub (s : List Char) : Sub (extras s).2 s := by
  unfold extras
  split
  · rename_i p r1 h1
    split
    · rename_i b r2 h2
      exact (buildMeta_sub h2).trans (preRelease_sub h1)
    · exact preRelease_sub h1
  · split
    · rename_i b r h2
      exact buildMeta_sub h2
    · exact Sub.refl _

theorem component_sub {s c r} (h : component s = some (c, r)) : Sub r s := by
  unfold component at h
  split at h
  · cases h; exact Sub.cons _ _
  · cases h; exact Sub.cons _ _
  · cases h; exact Sub.cons _ _
  · split at h
    · rename_i v r' h'
      cases h
      exact number_sub h'
    · cases h

theorem dotComponent_sub (s : List Char) : Sub (dotComponent s).2 s := by
  unfold dotComponent
  split
  · split
    · rename_i c r h
      exact (component_sub h).trans (Sub.cons _ _)
    · exact Sub.refl _
  · exact Sub.refl _

theorem stripV_sub (s : List Char) : Sub (stripV s) s := by
  unfold stripV; split
  · exact Sub.cons _ _
  · exact Sub.refl _

theorem partialCore_sub {s p r} (h : partialCore s = some (p, r)) : Sub r s := by
  unfold partialCore at h
  split at h
  · cases h
  · rename_i major r1 hc
    cases h
    have h1 := component_sub hc
    have h2 := dotComponent_sub r1
    have h3 := dotComponent_sub (dotComponent r1).2
    split
    · exact (((extras_sub _).trans h3).trans h2).trans h1
    · exact (h3.trans h2).trans h1

theorem partialVersion_sub {s p r} (h : partialVersion s = some (p, r)) : Sub r s := by
  unfold partialVersion at h
  exact ((partialCore_sub h).trans (dropBlanks_sub _)).trans (stripV_sub s)

theorem operation_sub {s o r} (h : operation s = some (o, r)) : Sub r s := by
  unfold operation at h
  split at h
  · cases h
  · rename_i c rest
    split at h
    · split at h
      · cases h; exact (Sub.cons _ _).trans (Sub.cons _ _)
      · cases h; exact Sub.cons _ _
    · split at h
      · cases h; exact Sub.cons _ _
      · split at h
        · split at h
          · cases h; exact (Sub.cons _ _).trans (Sub.cons _ _)
          · cases h; exact Sub.cons _ _
        · cases h

theorem primitive_sub {s b r} (h : primitive s = some (b, r)) : Sub r s := by
  unfold primitive at h
  split at h
  · cases h
  · rename_i op r1 ho
    split at h
    · cases h
    · rename_i p r' hp
      cases h
      exact ((partialVersion_sub hp).trans (dropBlanks_sub _)).trans (operation_sub ho)

theorem partialP_sub {s b r} (h : partialP s = some (b, r)) : Sub r s := by
  unfold partialP at h
  split at h
  · cases h
  · rename_i p r' hp
    cases h
    exact partialVersion_sub hp

theorem stripGt_sub (s : List Char) : Sub (stripGt s).2 s := by
  unfold stripGt; split
  · exact Sub.cons _ _
  · exact Sub.refl _

theorem tildeGt_sub {s g r} (h : tildeGt s = some (g, r)) : Sub r s := by
  unfold tildeGt at h
  split at h
  · rename_i u
    cases h
    exact (((dropBlanks_sub _).trans (stripGt_sub _)).trans (dropBlanks_sub u)).trans (Sub.cons _ _)
  · cases h

theorem tilde_sub {s b r} (h : Semver.tilde s = some (b, r)) : Sub r s := by
  unfold Semver.tilde at h
  split at h
  · cases h
  · rename_i g r1 hg
    split at h
    · cases h
    · rename_i p r' hp
      cases h
      exact (partialVersion_sub hp).trans (tildeGt_sub hg)

theorem caret_sub {s b r} (h : Semver.caret s = some (b, r)) : Sub r s := by
  unfold Semver.caret at h
  split at h
  · rename_i u
    split at h
    · cases h
    · rename_i p r' hp
      cases h
      exact ((partialVersion_sub hp).trans (dropBlanks_sub u)).trans (Sub.cons _ _)
  · cases h

end Semver

namespace Semver
open Pred Bound

variable {t : List Char}

/-! ### solid tokens -/

/-- no blank and no bar inside -/
def Solid (z : List Char) : Prop := ∀ c ∈ z, isBlank c = false ∧ c ≠ '|'

theorem Solid.sub {r z : List Char} (h : Solid z) (hs : Sub r z) : Solid r := fun c hc => h c (hs c hc)

theorem Solid.tail {c : Char} {cs : List Char} (h : Solid (c :: cs)) : Solid cs := h.sub (Sub.cons c cs)

theorem dropBlanks_solid {z : List Char} (hz : Solid z) (hne : z ≠ []) (t : List Char) :
    dropBlanks (z ++ t) = z ++ t := by
  cases z with
  | nil => exact absurd rfl hne
  | cons c cs => exact dropBlanks_nonblank (hz c (by simp)).1

theorem dropBlanks_solid' {z : List Char} (hz : Solid z) : dropBlanks z = z := by
  cases z with
  | nil => rfl
  | cons c cs => exact dropBlanks_nonblank (hz c (by simp)).1

theorem atEnd_solid {r : List Char} (hr : Solid r) (hne : r ≠ []) (t : List Char) : atEnd (r ++ t) = false := by
  cases r with
  | nil => exact absurd rfl hne
  | cons c cs =>
    have hc := hr c (by simp)
    simp only [List.cons_append]
    unfold Semver.atEnd
    split
    · rename_i heq; cases heq
    · rename_i u heq; simp at heq; exact absurd heq.1 hc.2
    · rename_i d u _ heq; simp at heq; rw [← heq.1]; exact hc.1

theorem blanks1_solid {r : List Char} (hr : Solid r) (hne : r ≠ []) (t : List Char) : blanks1 (r ++ t) = none := by
  cases r with
  | nil => exact absurd rfl hne
  | cons c cs => exact blanks1_none_of_head (hr c (by simp)).1

/-- nothing, or just `v` -/
def vEmpty (s : List Char) : Bool := s.isEmpty || s == ['v']

/-- the whole token is an operator, `~`, `~>`, `^` or nothing, optionally followed by `v`: a production
would run off its end into whatever follows -/
def hungry (tok : List Char) : Bool :=
  vEmpty tok ||
  (match operation tok with
    | some (_, r) => vEmpty r
    | none => false) ||
  (match tok with
    | '~' :: r => vEmpty r || (match r with
      | '>' :: r' => vEmpty r'
      | _ => false)
    | '^' :: r => vEmpty r
    | _ => false)

theorem vEmpty_false {s : List Char} (h : vEmpty s = false) : s ≠ [] ∧ s ≠ ['v'] := by
  unfold vEmpty at h
  simp only [Bool.or_eq_false_iff] at h
  constructor
  · intro h0; subst h0; simp at h
  · intro h0; subst h0; simp at h

/-- **`partial_version` on a solid text that is more than a `v`** -/
theorem partialVersion_closed {z : List Char} (hz : Solid z) (hv : vEmpty z = false) (h : Fol t) :
    partialVersion (z ++ t) = mapRest t (partialVersion z) := by
  obtain ⟨hne, hnv⟩ := vEmpty_false hv
  unfold partialVersion
  rw [stripV_fol z h hne]
  have hy : Solid (stripV z) := hz.sub (stripV_sub z)
  have hyne : stripV z ≠ [] := by
    cases z with
    | nil => exact absurd rfl hne
    | cons c cs =>
      unfold stripV
      split
      · rename_i u heq
        simp only [List.cons.injEq] at heq
        obtain ⟨rfl, rfl⟩ := heq
        intro h0; subst h0; exact hnv rfl
      · simp
  rw [dropBlanks_solid hy hyne, dropBlanks_solid' hy]
  exact partialCore_fol _ h hyne

theorem operation_fol (z : List Char) (hne : z ≠ []) (h : Fol t) : operation (z ++ t) = mapRest t (operation z) := by
  cases z with
  | nil => exact absurd rfl hne
  | cons c cs =>
    have hne' : ∀ d, t.head? = some d → d ≠ '=' := fun d hd => h.ne d hd '=' (by decide) (by decide)
    simp only [List.cons_append]
    unfold operation
    by_cases h1 : c = '>'
    · subst h1
      simp only [if_true]
      cases cs with
      | nil =>
        simp only [List.nil_append]
        split
        · rename_i u; exact absurd rfl (hne' '=' rfl)
        · rfl
      | cons d ds =>
        by_cases hd : d = '='
        · subst hd; rfl
        · simp only [List.cons_append]
          split
          · rename_i u heq; simp at heq; exact absurd heq.1 hd
          · split
            · rename_i u heq; simp at heq; exact absurd heq.1 hd
            · rfl
    · simp only [h1, if_false]
      by_cases h2 : c = '='
      · subst h2; rfl
      · simp only [h2, if_false]
        by_cases h3 : c = '<'
        · subst h3
          simp only [if_true]
          cases cs with
          | nil =>
            simp only [List.nil_append]
            split
            · rename_i u; exact absurd rfl (hne' '=' rfl)
            · rfl
          | cons d ds =>
            by_cases hd : d = '='
            · subst hd; rfl
            · simp only [List.cons_append]
              split
              · rename_i u heq; simp at heq; exact absurd heq.1 hd
              · split
                · rename_i u heq; simp at heq; exact absurd heq.1 hd
                · rfl
        · simp only [h3, if_false]; rfl

theorem primitive_closed {z : List Char} (hz : Solid z) (hne : z ≠ [])
    (hh : ∀ o r, operation z = some (o, r) → vEmpty r = false) (h : Fol t) :
    primitive (z ++ t) = mapRest t (primitive z) := by
  unfold primitive
  rw [operation_fol z hne h]
  cases ho : operation z with
  | none => rfl
  | some x =>
    obtain ⟨op, r⟩ := x
    simp only [mapRest, Option.map_some]
    have hr : Solid r := hz.sub (operation_sub ho)
    have hv := hh op r ho
    have hrne := (vEmpty_false hv).1
    rw [dropBlanks_solid hr hrne, dropBlanks_solid' hr, partialVersion_closed hr hv h]
    cases partialVersion r with
    | none => rfl
    | some y => rfl

theorem partialP_closed {z : List Char} (hz : Solid z) (hv : vEmpty z = false) (h : Fol t) :
    partialP (z ++ t) = mapRest t (partialP z) := by
  unfold partialP
  rw [partialVersion_closed hz hv h]
  cases partialVersion z with
  | none => rfl
  | some y => rfl

theorem caret_closed {z : List Char} (hz : Solid z) (hne : z ≠ [])
    (hh : ∀ r, z = '^' :: r → vEmpty r = false) (h : Fol t) :
    Semver.caret (z ++ t) = mapRest t (Semver.caret z) := by
  cases z with
  | nil => exact absurd rfl hne
  | cons c cs =>
    by_cases hc : c = '^'
    · subst hc
      have hv := hh cs rfl
      have hcs : Solid cs := hz.tail
      simp only [List.cons_append]
      unfold Semver.caret
      simp only
      rw [dropBlanks_solid hcs (vEmpty_false hv).1, dropBlanks_solid' hcs, partialVersion_closed hcs hv h]
      cases partialVersion cs with
      | none => rfl
      | some y => rfl
    · simp only [List.cons_append]
      rw [caret_none_of_head hc, caret_none_of_head hc]; rfl

theorem stripGt_ne {c : Char} {cs : List Char} (hc : c ≠ '>') : stripGt (c :: cs) = (false, c :: cs) := by
  unfold stripGt
  split
  · rename_i u heq; simp at heq; exact absurd heq.1 hc
  · rfl

theorem tilde_closed {z : List Char} (hz : Solid z) (hne : z ≠ [])
    (hh : ∀ r, z = '~' :: r → vEmpty r = false ∧ ∀ r', r = '>' :: r' → vEmpty r' = false) (h : Fol t) :
    Semver.tilde (z ++ t) = mapRest t (Semver.tilde z) := by
  cases z with
  | nil => exact absurd rfl hne
  | cons c cs =>
    by_cases hc : c = '~'
    · subst hc
      obtain ⟨hv, hgt⟩ := hh cs rfl
      have hcs : Solid cs := hz.tail
      have hcsne := (vEmpty_false hv).1
      simp only [List.cons_append]
      unfold Semver.tilde tildeGt
      simp only
      rw [dropBlanks_solid hcs hcsne, dropBlanks_solid' hcs]
      cases cs with
      | nil => exact absurd rfl hcsne
      | cons d ds =>
        by_cases hd : d = '>'
        · subst hd
          have hv' := hgt ds rfl
          have hds : Solid ds := hcs.tail
          have e1 : stripGt ('>' :: ds ++ t) = (true, ds ++ t) := rfl
          have e2 : stripGt ('>' :: ds) = (true, ds) := rfl
          rw [e1, e2]
          simp only
          rw [dropBlanks_solid hds (vEmpty_false hv').1, dropBlanks_solid' hds, partialVersion_closed hds hv' h]
          cases partialVersion ds with
          | none => rfl
          | some y => rfl
        · have e1 : stripGt (d :: ds ++ t) = (false, d :: ds ++ t) := stripGt_ne hd
          rw [e1, stripGt_ne hd]
          simp only
          have := dropBlanks_solid hcs (by simp) t
          simp only [List.cons_append] at this ⊢
          rw [this, dropBlanks_solid' hcs]
          have hp := partialVersion_closed hcs hv h
          simp only [List.cons_append] at hp
          rw [hp]
          cases partialVersion (d :: ds) with
          | none => rfl
          | some y => rfl
    · simp only [List.cons_append]
      rw [tilde_none_of_head hc, tilde_none_of_head hc]; rfl

theorem hyphenRest_nil : hyphenRest [] = none := rfl

/-- a solid text is never the start of a hyphen range (the `-` must stand between blanks) -/
theorem hyphen_closed {z : List Char} (hz : Solid z) (hv : vEmpty z = false) (ht : TokFollow t) (h : Fol t) :
    hyphen (z ++ t) = none ∧ hyphen z = none := by
  have key : ∀ t' : List Char, (t' = [] ∨ TokFollow t') → Fol t' → hyphen (z ++ t') = none := by
    intro t' ht' h'
    unfold hyphen optPartial
    rw [partialVersion_closed hz hv h']
    cases hp : partialVersion z with
    | none =>
      simp only [mapRest, Option.map_none]
      unfold hyphenRest
      rw [blanks1_solid hz (vEmpty_false hv).1]
    | some x =>
      obtain ⟨p, r⟩ := x
      simp only [mapRest, Option.map_some]
      have hr : Solid r := hz.sub (partialVersion_sub hp)
      by_cases hr0 : r = []
      · subst hr0
        simp only [List.nil_append]
        rcases ht' with rfl | ht'
        · rfl
        · rw [hyphenRest_none ht']
      · unfold hyphenRest
        rw [blanks1_solid hr hr0]
  refine ⟨key t (Or.inr ht) h, ?_⟩
  have := key [] (Or.inl rfl) ⟨fun c hc => by simp at hc⟩
  simpa using this

end Semver

namespace Semver
open Pred Bound

variable {t : List Char}

theorem hungry_false {tok : List Char} (h : hungry tok = false) :
    vEmpty tok = false ∧
    (∀ o r, operation tok = some (o, r) → vEmpty r = false) ∧
    (∀ r, tok = '~' :: r → vEmpty r = false ∧ ∀ r', r = '>' :: r' → vEmpty r' = false) ∧
    (∀ r, tok = '^' :: r → vEmpty r = false) := by
  unfold hungry at h
  simp only [Bool.or_eq_false_iff] at h
  obtain ⟨⟨h1, h2⟩, h3⟩ := h
  refine ⟨h1, ?_, ?_, ?_⟩
  · intro o r ho; rw [ho] at h2; exact h2
  · intro r hr; subst hr
    simp only [Bool.or_eq_false_iff] at h3
    refine ⟨h3.1, ?_⟩
    intro r' hr'; subst hr'
    exact h3.2
  · intro r hr; subst hr; exact h3

theorem tokFollow_fol (ht : TokFollow t) : Fol t := by
  constructor
  intro c hc
  have := ht.atEnd
  unfold Semver.atEnd at this
  split at this
  · simp at hc
  · simp at hc; subst hc; exact Or.inr rfl
  · rename_i d u _
    simp at hc; subst hc; exact Or.inl this

theorem terminated_closed {z : List Char} (hz : Solid z) (ht : TokFollow t)
    {P : List Char → Option (Option BoundSet × List Char)}
    (hloc : P (z ++ t) = mapRest t (P z)) (hsub : ∀ b r, P z = some (b, r) → Sub r z) :
    terminated (P (z ++ t)) = mapRest t (terminated (P z)) ∧
    ∀ x, terminated (P z) = some x → x.2 = [] := by
  rw [hloc]
  cases hp : P z with
  | none => exact ⟨rfl, fun x hx => by simp [terminated] at hx⟩
  | some y =>
    obtain ⟨b, r⟩ := y
    have hr : Solid r := hz.sub (hsub b r hp)
    by_cases hr0 : r = []
    · subst hr0
      have e : terminated (some (b, ([] : List Char))) = some (b, []) := by simp [terminated, Semver.atEnd]
      constructor
      · rw [e]
        simp only [mapRest, Option.map_some, List.nil_append, terminated]
        rw [if_pos ht.atEnd]
      · intro x hx
        rw [e] at hx
        cases hx; rfl
    · have e1 := atEnd_solid hr hr0 t
      have e2 := atEnd_solid hr hr0 []
      simp only [List.append_nil] at e2
      constructor
      · simp [terminated, mapRest, e1, e2]
      · intro x hx
        simp [terminated, e2] at hx

/-- **closed tokens are parsed by themselves**: for every blank-free, bar-free token that is not
hungry, followed by a token boundary, `simple` returns what it returns on the token alone and stops
exactly at the boundary -/
theorem simple_closed {tok : List Char} (hz : Solid tok) (hh : hungry tok = false) (ht : TokFollow t) :
    simple (tok ++ t) = ((simple tok).1, t) ∧ (simple tok).2 = [] := by
  obtain ⟨hv, hop, htil, hcar⟩ := hungry_false hh
  have hne := (vEmpty_false hv).1
  have h := tokFollow_fol ht
  obtain ⟨hhy1, hhy2⟩ := hyphen_closed hz hv ht h
  obtain ⟨p1, p2⟩ := terminated_closed hz ht (primitive_closed hz hne hop h) (fun b r hp => primitive_sub hp)
  obtain ⟨q1, q2⟩ := terminated_closed hz ht (partialP_closed hz hv h) (fun b r hp => partialP_sub hp)
  obtain ⟨t1, t2⟩ := terminated_closed hz ht (tilde_closed hz hne htil h) (fun b r hp => tilde_sub hp)
  obtain ⟨c1, c2⟩ := terminated_closed hz ht (caret_closed hz hne hcar h) (fun b r hp => caret_sub hp)
  have hg := garbage_tok (tok := tok) (rest := t) hz ht.atEnd
  have hg0 : garbage tok = [] := by
    have := garbage_tok (tok := tok) (rest := []) hz rfl
    simpa using this
  -- each production either fails on both texts or stops exactly at the end of the token
  have step : ∀ (a : Option (Option BoundSet × List Char)), (∀ x, a = some x → x.2 = []) →
      mapRest t a = a.map (fun x => (x.1, t)) := by
    intro a ha
    cases a with
    | none => rfl
    | some x =>
      have := ha x rfl
      obtain ⟨b, r⟩ := x
      simp only at this; subst this
      simp [mapRest]
  rw [step _ p2] at p1
  rw [step _ q2] at q1
  rw [step _ t2] at t1
  rw [step _ c2] at c1
  have e1 : simple (tok ++ t) = (match terminated (primitive (tok ++ t)) with
      | some x => x
      | none => match terminated (partialP (tok ++ t)) with
        | some x => x
        | none => match terminated (Semver.tilde (tok ++ t)) with
          | some x => x
          | none => match terminated (Semver.caret (tok ++ t)) with
            | some x => x
            | none => (none, garbage (tok ++ t))) := by
    unfold simple; rw [hhy1]; rfl
  have e2 : simple tok = (match terminated (primitive tok) with
      | some x => x
      | none => match terminated (partialP tok) with
        | some x => x
        | none => match terminated (Semver.tilde tok) with
          | some x => x
          | none => match terminated (Semver.caret tok) with
            | some x => x
            | none => (none, garbage tok)) := by
    unfold simple; rw [hhy2]; rfl
  rw [e1, e2, p1, q1, t1, c1, hg, hg0]
  cases h1 : terminated (primitive tok) with
  | some x => exact ⟨rfl, p2 x h1⟩
  | none =>
    cases h2 : terminated (partialP tok) with
    | some x => exact ⟨rfl, q2 x h2⟩
    | none =>
      cases h3 : terminated (Semver.tilde tok) with
      | some x => exact ⟨rfl, t2 x h3⟩
      | none =>
        cases h4 : terminated (Semver.caret tok) with
        | some x => exact ⟨rfl, c2 x h4⟩
        | none => exact ⟨rfl, rfl⟩

end Semver

namespace Semver
open Pred Bound Spec Spec.Npm

/-! ### a comparator list is parsed token by token -/

/-- a token no production can run off and that cannot take part in a hyphen range -/
structure ClosedTok (tok : List Char) : Prop where
  solid : Solid tok
  notHungry : hungry tok = false
  noDash : ∀ u, tok ≠ '-' :: u

theorem ClosedTok.ne {tok : List Char} (h : ClosedTok tok) : tok ≠ [] :=
  (vEmpty_false (hungry_false h.notHungry).1).1

theorem ClosedTok.head {tok : List Char} (h : ClosedTok tok) :
    ∃ c u, tok = c :: u ∧ isBlank c = false ∧ c ≠ '-' ∧ c ≠ '|' := by
  cases tok with
  | nil => exact absurd rfl h.ne
  | cons c u =>
    have := h.solid c (by simp)
    exact ⟨c, u, rfl, this.1, fun hc => h.noDash u (by rw [hc]), this.2⟩

/-- tokens joined by non-empty runs of blanks -/
inductive Tokens : List (List Char) → List Char → Prop
  | one {k} : Tokens [k] k
  | cons {k b ks T} : Blanks1 b → Tokens ks T → ks ≠ [] → Tokens (k :: ks) (k ++ (b ++ T))

theorem tokens_head {ks : List (List Char)} {T : List Char} (h : Tokens ks T) (hc : ∀ k ∈ ks, ClosedTok k) :
    ∃ c u, T = c :: u ∧ isBlank c = false ∧ c ≠ '-' ∧ c ≠ '|' := by
  cases h with
  | one => exact (hc T (by simp)).head
  | @cons k b ks T _ _ _ =>
    obtain ⟨c, u, rfl, h1⟩ := (hc k (by simp)).head
    exact ⟨c, _, rfl, h1⟩

theorem rangeTail_tokens {ks : List (List Char)} {T : List Char} (h : Tokens ks T) (hc : ∀ k ∈ ks, ClosedTok k)
    {b rest rest0 : List Char} (hb : b ≠ [] ∧ b.all isBlank = true) (hr : AltEnd rest rest0) :
    ∃ n, rangeTail (b ++ (T ++ rest)) = (ks.map (fun k => (simple k).1) ++ List.replicate n none, rest0) := by
  induction h generalizing b with
  | @one k =>
    have hk := hc k (by simp)
    obtain ⟨c, u, hcu, hc1, _⟩ := hk.head
    obtain ⟨n, hn⟩ := rangeTail_altEnd hr
    refine ⟨n, ?_⟩
    have hb1 : blanks1 (b ++ (k ++ rest)) = some (k ++ rest) :=
      blanks1_blanks hb.1 hb.2 (by intro d hd; rw [hcu] at hd; simp at hd; subst hd; exact hc1)
    rw [rangeTail_some hb1, (simple_closed hk.solid hk.notHungry hr.tokFollow).1]
    simp only
    rw [hn]; rfl
  | @cons k b' ks T hb' hT hne ih =>
    have hk := hc k (by simp)
    have hcs : ∀ x ∈ ks, ClosedTok x := fun x hx => hc x (by simp [hx])
    obtain ⟨c, u, hcu, hc1, _⟩ := hk.head
    have e : k ++ (b' ++ T) ++ rest = k ++ (b' ++ (T ++ rest)) := by simp
    rw [e]
    have hb1 : blanks1 (b ++ (k ++ (b' ++ (T ++ rest)))) = some (k ++ (b' ++ (T ++ rest))) :=
      blanks1_blanks hb.1 hb.2 (by intro d hd; rw [hcu] at hd; simp at hd; subst hd; exact hc1)
    have hb'' := blanks1_of hb'
    have htf := tokFollow_blanks_tok (rest := rest) hb''.1 hb''.2 (tokens_head hT hcs)
    obtain ⟨n, hn⟩ := ih hcs hb''
    refine ⟨n, ?_⟩
    rw [rangeTail_some hb1, (simple_closed hk.solid hk.notHungry htf).1]
    simp only
    rw [hn]; rfl

/-- **`range()` reads a list of closed tokens token by token**: the fold of what `simple` makes of
each token alone -/
theorem rangeP_tokens {ks : List (List Char)} {T : List Char} (h : Tokens ks T) (hc : ∀ k ∈ ks, ClosedTok k)
    {rest rest0 : List Char} (hr : AltEnd rest rest0) :
    rangeP (T ++ rest) = (foldSets (ks.map (fun k => (simple k).1)), rest0) := by
  cases h with
  | one =>
    have hk := hc T (by simp)
    obtain ⟨n, hn⟩ := rangeTail_altEnd hr
    unfold rangeP
    simp only
    rw [(simple_closed hk.solid hk.notHungry hr.tokFollow).1]
    simp only
    rw [hn]
    have := foldSets_nones [(simple T).1] n
    simp only [List.singleton_append] at this
    simp only [List.map_cons, List.map_nil]
    rw [this]
  | @cons k b ks T hb hT hne =>
    have hk := hc k (by simp)
    have hcs : ∀ x ∈ ks, ClosedTok x := fun x hx => hc x (by simp [hx])
    have e : k ++ (b ++ T) ++ rest = k ++ (b ++ (T ++ rest)) := by simp
    rw [e]
    have hb' := blanks1_of hb
    have htf := tokFollow_blanks_tok (rest := rest) hb'.1 hb'.2 (tokens_head hT hcs)
    obtain ⟨n, hn⟩ := rangeTail_tokens hT hcs hb' hr
    unfold rangeP
    simp only
    rw [(simple_closed hk.solid hk.notHungry htf).1]
    simp only
    rw [hn]
    simp only [List.map_cons]
    have := foldSets_nones ((simple k).1 :: ks.map (fun k => (simple k).1)) n
    simp only [List.cons_append] at this
    rw [this]

/-- joining two token lists with blanks -/
theorem tokens_append {ka kb : List (List Char)} {ta tb b : List Char} (ha : Tokens ka ta) (hb : Blanks1 b)
    (hlb : Tokens kb tb) : Tokens (ka ++ kb) (ta ++ (b ++ tb)) := by
  have hkb : kb ≠ [] := by cases hlb <;> simp
  induction ha with
  | one => exact .cons hb hlb hkb
  | @cons k b' ks T hb' hT hne ih =>
    have e : k ++ (b' ++ T) ++ (b ++ tb) = k ++ (b' ++ (T ++ (b ++ tb))) := by simp
    rw [e]
    exact .cons hb' ih (by simp [hne])

/-- what `Range::parse` makes of a list of closed tokens -/
theorem alts_tokens {ks : List (List Char)} {T : List Char} (h : Tokens ks T) (hc : ∀ k ∈ ks, ClosedTok k) :
    altsOf T = foldSets (ks.map (fun k => (simple k).1)) := by
  obtain ⟨c, u, hcu, hc1, _⟩ := tokens_head h hc
  unfold altsOf
  have hd : dropBlanks T = T := by rw [hcu]; exact dropBlanks_nonblank hc1
  rw [hd]
  unfold boundSets
  simp only
  have hr : AltEnd [] [] := ⟨[], rfl, rfl, Or.inl rfl⟩
  have := rangeP_tokens h hc hr
  simp only [List.append_nil] at this
  rw [this]
  simp only
  rw [boundSetsTail_nil']
  simp

end Semver

namespace Semver
open Pred Bound Spec Spec.Npm

/-! ### the wider garbage class: every closed token the parser does not recognise -/

/-- a closed token in which the parser recognises no comparator (`1.2.3.4`, `>=1.y`, `1.`, `foo`, …):
"unparseable tokens are dropped" -/
def ClosedGarbage (tok : List Char) : Prop := ClosedTok tok ∧ (simple tok).1 = none

theorem closedGarbage_ok : GarbageOK ClosedGarbage := by
  constructor
  · intro tok rest hg hr
    rw [(simple_closed hg.1.solid hg.1.notHungry hr).1, hg.2]
  · intro tok hg
    exact hg.1.head

/-- the parser-independent class is part of it -/
theorem garbageTok_closed {tok : List Char} (h : GarbageTok tok) : ClosedGarbage tok := by
  have hp := garbageTok_ok.parse tok [] h ⟨rfl, fun u hu => by simp [dropBlanks, span] at hu⟩
  simp only [List.append_nil] at hp
  obtain ⟨c, u, rfl, hstart, hall⟩ := h
  simp only [tokenStart, Bool.or_eq_false_iff, beq_eq_false_iff_ne, ne_eq] at hstart
  obtain ⟨⟨⟨⟨⟨⟨⟨⟨⟨⟨⟨⟨h1, h2⟩, h3⟩, h4⟩, h5⟩, h6⟩, h7⟩, h8⟩, h9⟩, h10⟩, h11⟩, h12⟩, h13⟩ := hstart
  refine ⟨⟨?_, ?_, ?_⟩, by rw [hp]⟩
  · intro d hd
    have := hall d hd
    rw [blank_eq] at this; exact this
  · unfold hungry
    have e1 : vEmpty (c :: u) = false := by
      unfold vEmpty
      simp only [List.isEmpty_cons, Bool.false_or]
      cases u with
      | nil => simp [h6]
      | cons d ds => simp
    have e2 : operation (c :: u) = none := operation_none_of_head h8 h9 h7
    rw [e1, e2]
    simp only [Bool.false_or, Bool.or_false]
    split
    · rename_i r heq; simp at heq; exact absurd heq.1 h10
    · rename_i r heq; simp at heq; exact absurd heq.1 h11
    · rfl
  · intro v hv
    simp at hv
    exact h12 hv.1

theorem simpleTextG_mono {G G' : List Char → Prop} (hGG : ∀ t, G t → G' t) {s : Simple} {t : List Char}
    (h : SimpleTextG G s t) : SimpleTextG G' s t := by
  cases h with
  | prim hg ht => exact .prim hg ht
  | bare ht => exact .bare ht
  | tilde hg ht => exact .tilde hg ht
  | tildeGt hg hg2 ht => exact .tildeGt hg hg2 ht
  | caret hg ht => exact .caret hg ht
  | garbage hg => exact .garbage (hGG _ hg)

theorem simplesTextG_mono {G G' : List Char → Prop} (hGG : ∀ t, G t → G' t) {l : List Simple} {t : List Char}
    (h : SimplesTextG G l t) : SimplesTextG G' l t := by
  induction h with
  | nil => exact .nil
  | one hs => exact .one (simpleTextG_mono hGG hs)
  | cons hs hb _ hne ih => exact .cons (simpleTextG_mono hGG hs) hb ih hne

theorem altTextG_mono {G G' : List Char → Prop} (hGG : ∀ t, G t → G' t) {a : Alt} {t : List Char}
    (h : AltTextG G a t) : AltTextG G' a t := by
  cases h with
  | simples hl => exact .simples (simplesTextG_mono hGG hl)
  | hyphen ha hb1 hb2 hc => exact .hyphen ha hb1 hb2 hc

theorem altsTextG_mono {G G' : List Char → Prop} (hGG : ∀ t, G t → G' t) {r : Ast} {t : List Char}
    (h : AltsTextG G r t) : AltsTextG G' r t := by
  induction h with
  | nil => exact .nil
  | one ha => exact .one (altTextG_mono hGG ha)
  | cons ha ho _ hne ih => exact .cons (altTextG_mono hGG ha) ho ih hne

/-- every text of the grammar with the narrow garbage class is a text of the grammar with the wide one -/
theorem astText_closed {r : Ast} {s : List Char} (h : AstText r s) : AstTextG ClosedGarbage r s := by
  obtain ⟨b1, T, b2, hs, hb1, hb2, hT⟩ := h
  exact ⟨b1, T, b2, hs, hb1, hb2, altsTextG_mono (fun _ => garbageTok_closed) hT⟩

end Semver
