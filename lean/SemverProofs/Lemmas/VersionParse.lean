import SemverProofs.Lemmas.VersionText
/-!
# `extras`, `version_core` and `version` against the grammar
-/
namespace Semver
open Spec

/-! ### extras: soundness -/

theorem preRelease_ok {s r : List Char} {ids : List Ident} (h : preRelease s = .ok ids r) :
    ∃ P, s = P ++ r ∧ ((∃ T, P = '-' :: T ∧ IdsText T ids) ∨ (IdsText P ids ∧ ∀ t, s ≠ '-' :: t)) := by
  unfold preRelease at h
  split at h
  · rename_i a r' h'
    cases h
    obtain ⟨T, hs, hT⟩ := identList_ok h'
    unfold stripHyphen at hs
    split at hs
    · rename_i t
      exact ⟨'-' :: T, by simp [hs], Or.inl ⟨T, rfl, hT⟩⟩
    · rename_i hno
      exact ⟨T, hs, Or.inr ⟨hT, fun t ht => hno t ht⟩⟩
  · cases h

theorem buildMeta_ok {s r : List Char} {ids : List Ident} (h : buildMeta s = .ok ids r) :
    ∃ T, s = '+' :: (T ++ r) ∧ IdsText T ids := by
  unfold buildMeta at h
  split at h
  · rename_i t
    split at h
    · rename_i a r' h'
      cases h
      obtain ⟨T, hs, hT⟩ := identList_ok h'
      exact ⟨T, by rw [hs], hT⟩
    · cases h
  · cases h

/-- a hyphen-less prerelease directly after the patch digits starts with a letter -/
theorem letter_of_idChar_not_digit_not_hyphen {c : Char} (h : isIdChar c = true) (h1 : isDigit c = false)
    (h2 : c ≠ '-') : isAlpha c = true := by
  simp only [isIdChar, Bool.or_eq_true, beq_iff_eq] at h
  rcases h with (h | h) | h
  · rw [h] at h1; cases h1
  · exact h
  · exact absurd h h2

/-- what `extras` consumed, given that the input starts with a non-digit (it follows `digit1`) -/
theorem extras_ok (s : List Char) (hd : ∀ c, s.head? = some c → isDigit c = false) :
    ∃ P Q, s = P ++ (Q ++ (extras s).2) ∧ PreText P (extras s).1.1 ∧ BuildText Q (extras s).1.2 := by
  unfold extras
  split
  · rename_i p r1 h1
    obtain ⟨P, hs, hP⟩ := preRelease_ok h1
    have hpre : PreText P p := by
      rcases hP with ⟨T, rfl, hT⟩ | ⟨hT, hno⟩
      · exact Or.inr (Or.inl ⟨T, rfl, hT⟩)
      · obtain ⟨c, t, hc, hic⟩ := idsText_head hT
        refine Or.inr (Or.inr ⟨hT, c, t, hc, ?_⟩)
        rw [letter_eq]
        have hsc : s.head? = some c := by rw [hs, hc]; rfl
        apply letter_of_idChar_not_digit_not_hyphen hic (hd c hsc)
        intro hcc; subst hcc
        exact hno (t ++ r1) (by rw [hs, hc]; rfl)
    split
    · rename_i b r2 h2
      obtain ⟨T, hs2, hT⟩ := buildMeta_ok h2
      refine ⟨P, '+' :: T, ?_, hpre, Or.inr ⟨T, rfl, hT⟩⟩
      simp only [hs, hs2, List.cons_append]
    · exact ⟨P, [], by simp [hs], hpre, Or.inl ⟨rfl, rfl⟩⟩
  · split
    · rename_i b r h2
      obtain ⟨T, hs2, hT⟩ := buildMeta_ok h2
      exact ⟨[], '+' :: T, by simp [hs2], Or.inl ⟨rfl, rfl⟩, Or.inr ⟨T, rfl, hT⟩⟩
    · exact ⟨[], [], by simp, Or.inl ⟨rfl, rfl⟩, Or.inl ⟨rfl, rfl⟩⟩

/-! ### extras: completeness -/

/-- what may follow the extras of a version: end of input or a character that is neither an
identifier character, a dot nor a plus -/
def extrasFollow (rest : List Char) : Prop :=
  ∀ c, rest.head? = some c → isIdChar c = false ∧ c ≠ '.' ∧ c ≠ '+'

theorem idFollow_of_extrasFollow {rest : List Char} (h : extrasFollow rest) : idFollow rest :=
  fun c hc => ⟨(h c hc).1, (h c hc).2.1⟩

theorem idFollow_build {Q rest : List Char} {b : List Ident} (hQ : BuildText Q b) (hr : extrasFollow rest) :
    idFollow (Q ++ rest) := by
  rcases hQ with ⟨rfl, _⟩ | ⟨T, rfl, _⟩
  · simpa using idFollow_of_extrasFollow hr
  · intro c hc; simp at hc; subst hc; exact ⟨by decide, by decide⟩

theorem buildMeta_append {Q rest : List Char} {b : List Ident} (hQ : BuildText Q b) (hr : extrasFollow rest) :
    (b ≠ [] → buildMeta (Q ++ rest) = .ok b rest) ∧ (b = [] → ∃ e, buildMeta (Q ++ rest) = .err e) := by
  rcases hQ with ⟨rfl, rfl⟩ | ⟨T, rfl, hT⟩
  · refine ⟨fun h => absurd rfl h, fun _ => ?_⟩
    unfold buildMeta
    cases rest with
    | nil => exact ⟨_, rfl⟩
    | cons c cs =>
      have := (hr c rfl).2.2
      simp only [List.nil_append]
      split
      · rename_i t heq; cases heq; exact absurd rfl this
      · exact ⟨_, rfl⟩
  · refine ⟨fun _ => ?_, fun h => absurd h (idsText_ne_nil hT)⟩
    unfold buildMeta
    simp only [List.cons_append]
    rw [identList_append hT rest (idFollow_of_extrasFollow hr)]

theorem preRelease_err_of_head {s : List Char} (h : ∀ c, s.head? = some c → isIdChar c = false) :
    ∃ e, preRelease s = .err e := by
  unfold preRelease
  have hs : stripHyphen s = s := by
    unfold stripHyphen
    split
    · have := h '-' rfl
      have h2 : isIdChar '-' = true := by decide
      rw [h2] at this; cases this
    · rfl
  rw [hs]
  unfold identList
  obtain ⟨e, he⟩ := identifier_err_of_head h
  rw [he]
  exact ⟨_, rfl⟩

theorem extras_append {P Q rest : List Char} {p b : List Ident} (hP : PreText P p) (hQ : BuildText Q b)
    (hr : extrasFollow rest) : extras (P ++ (Q ++ rest)) = ((p, b), rest) := by
  have hfollow := idFollow_build hQ hr
  obtain ⟨hb1, hb2⟩ := buildMeta_append hQ hr
  unfold extras
  rcases hP with ⟨rfl, rfl⟩ | ⟨T, rfl, hT⟩ | ⟨hT, c, t, hc, hl⟩
  · -- no prerelease: `pre_release` fails on `+`, blank or end of input
    have hhead : ∀ c, (Q ++ rest).head? = some c → isIdChar c = false := fun c hc => (hfollow c hc).1
    obtain ⟨e, he⟩ := preRelease_err_of_head hhead
    simp only [List.nil_append, he]
    by_cases hbe : b = []
    · obtain ⟨e', he'⟩ := hb2 hbe
      rcases hQ with ⟨rfl, _⟩ | ⟨T, rfl, hT⟩
      · simp only [List.nil_append] at he' ⊢; rw [he', hbe]
      · exact absurd hbe (idsText_ne_nil hT)
    · rw [hb1 hbe]
  · have hpr : preRelease ('-' :: T ++ (Q ++ rest)) = .ok p (Q ++ rest) := by
      unfold preRelease
      simp only [List.cons_append, stripHyphen]
      rw [identList_append hT _ hfollow]
    rw [hpr]
    simp only
    by_cases hbe : b = []
    · obtain ⟨e', he'⟩ := hb2 hbe
      rw [he', hbe]
      rcases hQ with ⟨rfl, _⟩ | ⟨T', rfl, hT'⟩
      · simp
      · exact absurd hbe (idsText_ne_nil hT')
    · rw [hb1 hbe]
  · have hne : ∀ t', P ++ (Q ++ rest) ≠ '-' :: t' := by
      intro t' h'
      rw [hc] at h'
      simp at h'
      have := h'.1
      subst this
      rw [letter_eq] at hl
      revert hl; decide
    have hpr : preRelease (P ++ (Q ++ rest)) = .ok p (Q ++ rest) := by
      unfold preRelease
      have : stripHyphen (P ++ (Q ++ rest)) = P ++ (Q ++ rest) := by
        unfold stripHyphen
        split
        · rename_i t heq; exact absurd heq (hne t)
        · rfl
      rw [this]
      rw [identList_append hT _ hfollow]
    rw [hpr]
    simp only
    by_cases hbe : b = []
    · obtain ⟨e', he'⟩ := hb2 hbe
      rw [he', hbe]
      rcases hQ with ⟨rfl, _⟩ | ⟨T', rfl, hT'⟩
      · simp
      · exact absurd hbe (idsText_ne_nil hT')
    · rw [hb1 hbe]

end Semver

namespace Semver
open Spec

/-! ### version_core and version -/

theorem numText_of {a : List Char} {n : Nat} (h1 : a.all isDigit = true) (h2 : a ≠ []) (h3 : valOf a = n)
    (h4 : n ≤ MAX_SAFE_INTEGER) : NumText a n :=
  ⟨h2, by rw [all_digit_eq]; exact h1, by rw [decimal_eq]; exact h3, h4⟩

theorem number_of_numText {A rest : List Char} {n : Nat} (h : NumText A n)
    (hr : ∀ c, rest.head? = some c → isDigit c = false) : number (A ++ rest) = .ok n rest := by
  obtain ⟨h1, h2, h3, h4⟩ := h
  rw [all_digit_eq] at h2
  rw [decimal_eq] at h3
  rw [← h3]
  exact number_append A rest h2 h1 hr (by rw [h3]; exact h4)

theorem dot_not_digit : ∀ c, ('.' :: (l : List Char)).head? = some c → isDigit c = false := by
  intro c hc; simp at hc; subst hc; decide

theorem versionCore_ok {s r : List Char} {a b c : Nat} (h : versionCore s = .ok (a, b, c) r) :
    ∃ A B C, s = A ++ '.' :: (B ++ '.' :: (C ++ r)) ∧ NumText A a ∧ NumText B b ∧ NumText C c ∧
      (∀ d, r.head? = some d → isDigit d = false) := by
  unfold versionCore at h
  split at h
  · cases h
  · rename_i a' r1 h1
    split at h
    · cases h
    · rename_i r2 h2
      split at h
      · cases h
      · rename_i b' r3 h3
        split at h
        · cases h
        · rename_i r4 h4
          split at h
          · cases h
          · rename_i c' r5 h5
            cases h
            obtain ⟨A, hA, a1, a2, a3, a4, _⟩ := number_ok h1
            obtain ⟨B, hB, b1, b2, b3, b4, _⟩ := number_ok h3
            obtain ⟨C, hC, c1, c2, c3, c4, c5⟩ := number_ok h5
            have d1 : r1 = '.' :: r2 := by unfold dot at h2; split at h2 <;> cases h2; rfl
            have d2 : r3 = '.' :: r4 := by unfold dot at h4; split at h4 <;> cases h4; rfl
            refine ⟨A, B, C, ?_, numText_of a1 a2 a3 a4, numText_of b1 b2 b3 b4, numText_of c1 c2 c3 c4, c5⟩
            rw [hA, d1, hB, d2, hC]

theorem versionCore_append {A B C rest : List Char} {a b c : Nat} (hA : NumText A a) (hB : NumText B b)
    (hC : NumText C c) (hr : ∀ d, rest.head? = some d → isDigit d = false) :
    versionCore (A ++ '.' :: (B ++ '.' :: (C ++ rest))) = .ok (a, b, c) rest := by
  unfold versionCore
  rw [number_of_numText hA dot_not_digit]
  simp only [dot]
  rw [number_of_numText hB dot_not_digit]
  simp only
  rw [number_of_numText hC hr]

theorem stripVV_ok (s : List Char) : ∃ pfx, s = pfx ++ stripVV s ∧ (pfx = [] ∨ pfx = ['v'] ∨ pfx = ['V']) := by
  unfold stripVV
  split
  · exact ⟨['v'], rfl, Or.inr (Or.inl rfl)⟩
  · exact ⟨['V'], rfl, Or.inr (Or.inr rfl)⟩
  · exact ⟨[], rfl, Or.inl rfl⟩

theorem dropBlanks_ok (s : List Char) : ∃ b, s = b ++ dropBlanks s ∧ b.all isBlank = true :=
  ⟨(span isBlank s).1, (span_eq _ _).symm, span_fst_all _ _⟩

theorem dropBlanks_eq_nil {s : List Char} (h : dropBlanks s = []) : s.all isBlank = true := by
  obtain ⟨b, hs, hb⟩ := dropBlanks_ok s
  rw [h, List.append_nil] at hs
  rw [hs]; exact hb

theorem dropBlanks_of_all {s : List Char} (h : s.all isBlank = true) : dropBlanks s = [] := by
  have := dropBlanks_append s [] h (by simp)
  simpa using this

/-- soundness of `version()` -/
theorem versionP_ok {s r : List Char} {v : Version} (h : versionP s = .ok v r) :
    r = [] ∧ ∃ pfx b1 A B C P Q b2,
      s = pfx ++ (b1 ++ (A ++ '.' :: (B ++ '.' :: (C ++ (P ++ (Q ++ b2)))))) ∧
      (pfx = [] ∨ pfx = ['v'] ∨ pfx = ['V']) ∧ b1.all blank = true ∧ b2.all blank = true ∧
      NumText A v.major ∧ NumText B v.minor ∧ NumText C v.patch ∧
      PreText P v.pre ∧ BuildText Q v.build := by
  unfold versionP at h
  simp only at h
  split at h
  · cases h
  · rename_i a b c r5 hcore
    split at h
    · rename_i hnil
      cases h
      refine ⟨rfl, ?_⟩
      obtain ⟨pfx, hp, hpfx⟩ := stripVV_ok s
      obtain ⟨b1, hb1, hb1all⟩ := dropBlanks_ok (stripVV s)
      obtain ⟨A, B, C, hs, hA, hB, hC, hnd⟩ := versionCore_ok hcore
      obtain ⟨P, Q, hx, hP, hQ⟩ := extras_ok r5 hnd
      have hb2 := dropBlanks_eq_nil hnil
      refine ⟨pfx, b1, A, B, C, P, Q, (extras r5).2, ?_, hpfx, hb1all, hb2, hA, hB, hC, hP, hQ⟩
      rw [← hx, ← hs, ← hb1, ← hp]
    · cases h

theorem blank_follow {b2 : List Char} (hb : b2.all isBlank = true) : extrasFollow b2 := by
  intro c hc
  cases b2 with
  | nil => simp at hc
  | cons d ds =>
    simp at hc; subst hc
    simp only [List.all_cons, Bool.and_eq_true] at hb
    have := hb.1
    simp only [isBlank, Bool.or_eq_true, beq_iff_eq] at this
    rcases this with rfl | rfl <;> exact ⟨by decide, by decide, by decide⟩

theorem head_not_digit_PQb {P Q b2 : List Char} {p q : List Ident} (hP : PreText P p) (hQ : BuildText Q q)
    (hb : b2.all isBlank = true) : ∀ d, (P ++ (Q ++ b2)).head? = some d → isDigit d = false := by
  intro d hd
  rcases hP with ⟨rfl, _⟩ | ⟨T, rfl, _⟩ | ⟨_, c, t, rfl, hl⟩
  · rcases hQ with ⟨rfl, _⟩ | ⟨T, rfl, _⟩
    · simp only [List.nil_append] at hd
      cases b2 with
      | nil => simp at hd
      | cons e es =>
        simp at hd; subst hd
        simp only [List.all_cons, Bool.and_eq_true] at hb
        have := hb.1
        simp only [isBlank, Bool.or_eq_true, beq_iff_eq] at this
        rcases this with rfl | rfl <;> decide
    · simp at hd; subst hd; decide
  · simp at hd; subst hd; decide
  · simp at hd; subst hd
    rw [letter_eq] at hl
    simp only [isAlpha, Bool.or_eq_true, Bool.and_eq_true, decide_eq_true_eq] at hl
    simp only [isDigit, Bool.and_eq_false_iff, decide_eq_false_iff_not]
    rw [char_le_iff, char_le_iff] at *
    have e1 : ('9' : Char).toNat = 57 := by decide
    have e2 : ('a' : Char).toNat = 97 := by decide
    have e3 : ('A' : Char).toNat = 65 := by decide
    rw [char_le_iff, char_le_iff] at hl
    omega

/-- completeness of `version()` -/
theorem versionP_complete {pfx b1 A B C P Q b2 : List Char} {v : Version}
    (hpfx : pfx = [] ∨ pfx = ['v'] ∨ pfx = ['V']) (hb1 : b1.all blank = true) (hb2 : b2.all blank = true)
    (hA : NumText A v.major) (hB : NumText B v.minor) (hC : NumText C v.patch)
    (hP : PreText P v.pre) (hQ : BuildText Q v.build) :
    versionP (pfx ++ (b1 ++ (A ++ '.' :: (B ++ '.' :: (C ++ (P ++ (Q ++ b2))))))) = .ok v [] := by
  have hAne := hA.1
  have hAd : A.all isDigit = true := by rw [← all_digit_eq]; exact hA.2.1
  obtain ⟨a0, as, rfl⟩ : ∃ a0 as, A = a0 :: as := by cases A <;> simp_all
  have ha0 : isDigit a0 = true := by simp at hAd; exact hAd.1
  -- after the optional v: blanks, then a digit
  have hstrip : stripVV (pfx ++ (b1 ++ ((a0 :: as) ++ '.' :: (B ++ '.' :: (C ++ (P ++ (Q ++ b2))))))) =
      b1 ++ ((a0 :: as) ++ '.' :: (B ++ '.' :: (C ++ (P ++ (Q ++ b2))))) := by
    have hne_v : ∀ (x : Char) (l : List Char), (x = ' ' ∨ x = '\t' ∨ isDigit x = true) →
        stripVV (x :: l) = x :: l := by
      intro x l hx
      unfold stripVV
      split
      · rename_i t heq; cases heq; exfalso; rcases hx with h | h | h <;> revert h <;> decide
      · rename_i t heq; cases heq; exfalso; rcases hx with h | h | h <;> revert h <;> decide
      · rfl
    rcases hpfx with rfl | rfl | rfl
    · simp only [List.nil_append]
      cases b1 with
      | nil => exact hne_v a0 _ (Or.inr (Or.inr ha0))
      | cons x xs =>
        simp only [List.cons_append]
        apply hne_v
        have : isBlank x = true := by
          have := hb1; rw [all_blank_eq] at this; simp at this; exact this.1
        simp only [isBlank, Bool.or_eq_true, beq_iff_eq] at this
        rcases this with h | h
        · exact Or.inl h
        · exact Or.inr (Or.inl h)
    · rfl
    · rfl
  unfold versionP
  simp only
  rw [hstrip]
  rw [dropBlanks_append b1 _ (by rw [← all_blank_eq]; exact hb1)
    (by intro c hc; simp at hc; subst hc; exact isDigit_not_blank ha0)]
  have hb2' : b2.all isBlank = true := by rw [← all_blank_eq]; exact hb2
  rw [versionCore_append hA hB hC (head_not_digit_PQb hP hQ hb2')]
  simp only
  rw [extras_append hP hQ (blank_follow hb2')]
  simp only
  rw [dropBlanks_of_all hb2']

end Semver
