import SemverModel.Error
import SemverSpec.Location
import SemverProofs.Lemmas.Text
/-!
# `location()` of an offset that marks the end of a prefix
-/
namespace Semver

theorem utf8Len_nil : utf8Len [] = 0 := rfl
theorem utf8Len_cons' (c : Char) (t : List Char) : utf8Len (c :: t) = c.utf8Size + utf8Len t := by
  simp [utf8Len]
theorem utf8Len_append' (a b : List Char) : utf8Len (a ++ b) = utf8Len a + utf8Len b := by
  simp [utf8Len, List.map_append, List.sum_append]

theorem utf8Size_pos (c : Char) : 0 < c.utf8Size := Char.utf8Size_pos c

theorem splitAtByte_prefix (p r : List Char) : splitAtByte (p ++ r) (utf8Len p) = some (p, r) := by
  induction p with
  | nil => cases r <;> rfl
  | cons c cs ih =>
    have hpos := utf8Size_pos c
    rw [utf8Len_cons']
    obtain ⟨n, hn⟩ : ∃ n, c.utf8Size + utf8Len cs = n + 1 := ⟨c.utf8Size + utf8Len cs - 1, by omega⟩
    rw [hn]
    simp only [List.cons_append, splitAtByte]
    have : c.utf8Size ≤ n + 1 := by omega
    rw [if_pos this]
    have : n + 1 - c.utf8Size = utf8Len cs := by omega
    rw [this, ih]

/-- line/column of the end of a prefix: newlines in it, bytes after the last one -/
def lineOf (p : List Char) : Nat := (p.filter (· == '\n')).length
def colOf (p : List Char) : Nat := utf8Len (p.reverse.takeWhile (· != '\n')).reverse

theorem location_prefix (p r : List Char) (k : EKind) :
    (SemverError.mk (p ++ r) (utf8Len p) k).location = some (lineOf p, colOf p) := by
  simp only [SemverError.location, splitAtByte_prefix, lineOf, colOf]

theorem colOf_snoc_newline (p : List Char) : colOf (p ++ ['\n']) = 0 := by
  simp [colOf, utf8Len_nil]

theorem colOf_snoc (p : List Char) (c : Char) (hc : c ≠ '\n') : colOf (p ++ [c]) = colOf p + c.utf8Size := by
  simp only [colOf, List.reverse_append, List.reverse_cons, List.reverse_nil, List.nil_append, List.cons_append]
  have : (c != '\n') = true := by simp [hc]
  simp only [List.takeWhile_cons, this, if_true, List.reverse_cons, utf8Len_append', utf8Len_cons', utf8Len_nil]
  omega

theorem lineOf_snoc (p : List Char) (c : Char) : lineOf (p ++ [c]) = lineOf p + (if c = '\n' then 1 else 0) := by
  simp only [lineOf, List.filter_append, List.length_append]
  by_cases h : c = '\n' <;> simp [h]

/-- the specification's walk, started after a prefix `q` already consumed -/
theorem lineColAux_prefix (q p r : List Char) :
    Spec.lineColAux (p ++ r) (utf8Len q + utf8Len p) (utf8Len q) (lineOf q) (colOf q) =
      some (lineOf (q ++ p), colOf (q ++ p)) := by
  induction p generalizing q with
  | nil =>
    simp only [List.nil_append, utf8Len_nil, Nat.add_zero, List.append_nil]
    cases r <;> simp [Spec.lineColAux]
  | cons c cs ih =>
    have hpos := utf8Size_pos c
    rw [utf8Len_cons']
    simp only [List.cons_append]
    unfold Spec.lineColAux
    have h1 : ¬ utf8Len q = utf8Len q + (c.utf8Size + utf8Len cs) := by omega
    have h2 : ¬ utf8Len q > utf8Len q + (c.utf8Size + utf8Len cs) := by omega
    rw [if_neg h1]
    simp only [h2, if_false]
    have hq : q ++ c :: cs = (q ++ [c]) ++ cs := by simp
    have hlen : utf8Len q + c.utf8Size = utf8Len (q ++ [c]) := by
      rw [utf8Len_append', utf8Len_cons', utf8Len_nil]; omega
    have hoff : utf8Len q + (c.utf8Size + utf8Len cs) = utf8Len (q ++ [c]) + utf8Len cs := by
      rw [← hlen]; omega
    by_cases hc : c = '\n'
    · rw [if_pos hc]
      subst hc
      rw [hq, hoff, hlen]
      have := ih (q ++ ['\n'])
      rw [lineOf_snoc, colOf_snoc_newline] at this
      simpa using this
    · rw [if_neg hc]
      rw [hq, hoff, hlen]
      have := ih (q ++ [c])
      rw [lineOf_snoc, colOf_snoc q c hc] at this
      simpa [hc] using this

theorem lineCol_prefix (p r : List Char) : Spec.lineCol (p ++ r) (utf8Len p) = some (lineOf p, colOf p) := by
  have := lineColAux_prefix [] p r
  simpa [Spec.lineCol, utf8Len_nil, lineOf, colOf] using this

/-- **location of a prefix boundary**: the crate's `location()` equals the independently stated
line/column, and is defined (no slice panic) -/
theorem location_eq_spec (p r : List Char) (k : EKind) :
    (SemverError.mk (p ++ r) (utf8Len p) k).location = Spec.lineCol (p ++ r) (utf8Len p) := by
  rw [location_prefix, lineCol_prefix]

end Semver
