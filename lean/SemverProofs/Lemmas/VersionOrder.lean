import SemverModel.VersionOrd
import SemverSpec.Precedence
/-!
# The version comparator is a lawful total preorder and equals the SemVer §11 specification
-/
namespace Semver
open Std

instance : OrientedCmp cmpIdent where
  eq_swap {a b} := by
    cases a <;> cases b <;> simp [cmpIdent]
    · exact OrientedCmp.eq_swap
    · exact OrientedCmp.eq_swap

instance : TransCmp cmpIdent where
  isLE_trans {a b c} h1 h2 := by
    cases a <;> cases b <;> cases c <;> simp_all [cmpIdent]
    · exact TransCmp.isLE_trans h1 h2
    · exact TransCmp.isLE_trans h1 h2

instance : OrientedCmp cmpPre where
  eq_swap {a b} := by
    cases a <;> cases b <;> simp [cmpPre]
    exact OrientedCmp.eq_swap (cmp := List.compareLex cmpIdent)

instance : TransCmp cmpPre where
  isLE_trans {a b c} h1 h2 := by
    cases a <;> cases b <;> cases c <;> simp_all [cmpPre]
    exact TransCmp.isLE_trans (cmp := List.compareLex cmpIdent) h1 h2

instance : TransCmp (fun (a b : Version) => cmpPre a.pre b.pre) where
  eq_swap := OrientedCmp.eq_swap (cmp := cmpPre)
  isLE_trans h1 h2 := TransCmp.isLE_trans (cmp := cmpPre) h1 h2

instance instTransCmpVersion : TransCmp cmpVersion := by unfold cmpVersion; infer_instance

/-! ### `Equal` means equal fields (except build metadata) -/

instance : LawfulEqCmp (compareOn Char.toNat) where
  eq_of_compare {a b} h := by
    simp only [compareOn] at h
    have := LawfulEqCmp.eq_of_compare (cmp := (compare : Nat → Nat → Ordering)) h
    exact Char.toNat_inj.mp this
  compare_self {a} := by simp [compareOn]

instance : LawfulEqCmp cmpIdent where
  eq_of_compare {a b} h := by
    cases a <;> cases b <;> simp_all [cmpIdent]
  compare_self {a} := ReflCmp.compare_self

instance : LawfulEqCmp cmpPre where
  eq_of_compare {a b} h := by
    cases a <;> cases b <;> simp_all [cmpPre]
  compare_self {a} := ReflCmp.compare_self

/-! ### unfolding -/

theorem cmpVersion_eq (a b : Version) :
    cmpVersion a b = (compare a.major b.major).then ((compare a.minor b.minor).then
      ((compare a.patch b.patch).then (cmpPre a.pre b.pre))) := by
  simp [cmpVersion, compareLex, compareOn]

/-! ### agreement with the specification's decision procedure -/

theorem compare_nat_eq (a b : Nat) :
    compare a b = if a < b then .lt else if b < a then .gt else .eq := by
  rw [Nat.compare_eq_ite_lt]

theorem strCmp_eq (s t : List Char) : Spec.strCmp s t = List.compareLex (compareOn Char.toNat) s t := by
  induction s generalizing t with
  | nil => cases t <;> simp [Spec.strCmp, List.compareLex]
  | cons c s ih =>
    cases t with
    | nil => simp [Spec.strCmp, List.compareLex]
    | cons d t =>
      simp only [Spec.strCmp, List.compareLex, compareOn, compare_nat_eq]
      split
      · rfl
      · split
        · rfl
        · exact ih t

theorem idCmp_eq (a b : Ident) : Spec.idCmp a b = cmpIdent a b := by
  cases a <;> cases b <;> simp [Spec.idCmp, cmpIdent, compare_nat_eq, strCmp_eq]

theorem preCmp_eq (p q : List Ident) : Spec.preCmp p q = List.compareLex cmpIdent p q := by
  induction p generalizing q with
  | nil => cases q <;> simp [Spec.preCmp, List.compareLex]
  | cons a p ih =>
    cases q with
    | nil => simp [Spec.preCmp, List.compareLex]
    | cons b q =>
      simp only [Spec.preCmp, List.compareLex, idCmp_eq]
      cases h : cmpIdent a b <;> simp [ih]

end Semver
