import SemverProofs.Lemmas.BoundSets
/-!
# Range-level set operations (lists of alternatives)
-/
namespace Semver
open Pred Bound Std

/-- what every `Range` built by the crate is: at least one alternative, all well-formed -/
def Range.WF (r : Range) : Prop := r ≠ [] ∧ ∀ s ∈ r, s.WF

theorem Range.within_iff (r : Range) (v : Version) :
    Range.within r v = true ↔ ∃ s ∈ r, s.within v = true := by
  simp [Range.within, List.any_eq_true]

theorem Range.satisfies_iff (r : Range) (v : Version) :
    Range.satisfies r v = true ↔ ∃ s ∈ r, s.satisfies v = true := by
  simp [Range.satisfies, List.any_eq_true]

theorem mem_intersectSets {a b : Range} {r : BoundSet} :
    r ∈ Range.intersectSets a b ↔ ∃ x ∈ a, ∃ y ∈ b, x.intersect y = some r := by
  simp [Range.intersectSets, List.mem_flatMap, List.mem_filterMap]

theorem intersectSets_wf {a b : Range} (ha : ∀ s ∈ a, s.WF) (hb : ∀ s ∈ b, s.WF) :
    ∀ r ∈ Range.intersectSets a b, r.WF := by
  intro r hr
  obtain ⟨x, hx, y, hy, h⟩ := mem_intersectSets.mp hr
  exact (intersect_some (ha x hx) (hb y hy) h).1

theorem intersectSets_within {a b : Range} (ha : ∀ s ∈ a, s.WF) (hb : ∀ s ∈ b, s.WF) (v : Version) :
    (∃ r ∈ Range.intersectSets a b, r.within v = true) ↔
      (∃ x ∈ a, x.within v = true) ∧ (∃ y ∈ b, y.within v = true) := by
  constructor
  · intro ⟨r, hr, hv⟩
    obtain ⟨x, hx, y, hy, h⟩ := mem_intersectSets.mp hr
    have := (intersect_some (ha x hx) (hb y hy) h).2 v
    exact ⟨⟨x, hx, (this.mp hv).1⟩, ⟨y, hy, (this.mp hv).2⟩⟩
  · intro ⟨⟨x, hx, hxv⟩, ⟨y, hy, hyv⟩⟩
    cases h : x.intersect y with
    | none => exact absurd ⟨hxv, hyv⟩ (intersect_none (ha x hx) (hb y hy) h v)
    | some r =>
      refine ⟨r, mem_intersectSets.mpr ⟨x, hx, y, hy, h⟩, ?_⟩
      exact ((intersect_some (ha x hx) (hb y hy) h).2 v).mpr ⟨hxv, hyv⟩

theorem Range.intersect_some {a b r : Range} (ha : a.WF) (hb : b.WF) (h : Range.intersect a b = some r) :
    r.WF ∧ ∀ v, Range.within r v = true ↔ (Range.within a v = true ∧ Range.within b v = true) := by
  unfold Range.intersect at h
  simp only at h
  split at h
  · cases h
  · rename_i hne
    cases h
    refine ⟨⟨by intro h0; simp [h0] at hne, intersectSets_wf ha.2 hb.2⟩, ?_⟩
    intro v
    rw [Range.within_iff, Range.within_iff, Range.within_iff]
    exact intersectSets_within ha.2 hb.2 v

theorem Range.intersect_none {a b : Range} (ha : a.WF) (hb : b.WF) (h : Range.intersect a b = none) :
    ∀ v, ¬ (Range.within a v = true ∧ Range.within b v = true) := by
  unfold Range.intersect at h
  simp only at h
  split at h
  · rename_i he
    intro v
    rw [Range.within_iff, Range.within_iff, ← intersectSets_within ha.2 hb.2 v]
    simp only [List.isEmpty_iff] at he
    rw [he]
    simp
  · cases h

/-! ### allows_any / allows_all on ranges -/

theorem Range.allowsAny_iff (a b : Range) :
    Range.allowsAny a b = true ↔ ∃ x ∈ a, ∃ y ∈ b, x.allowsAny y = true := by
  simp [Range.allowsAny, List.any_eq_true]

theorem Range.allowsAll_iff (a b : Range) :
    Range.allowsAll a b = true ↔ ∃ x ∈ a, ∃ y ∈ b, x.allowsAll y = true := by
  simp [Range.allowsAll, List.any_eq_true]

theorem Range.allowsAny_eq_intersect {a b : Range} (ha : a.WF) (hb : b.WF) :
    Range.allowsAny a b = (Range.intersect a b).isSome := by
  have key : Range.allowsAny a b = true ↔ (Range.intersect a b).isSome = true := by
    rw [Range.allowsAny_iff]
    unfold Range.intersect
    simp only
    constructor
    · intro ⟨x, hx, y, hy, h⟩
      rw [Semver.allowsAny_eq_intersect (ha.2 x hx) (hb.2 y hy)] at h
      cases hi : x.intersect y with
      | none => rw [hi] at h; cases h
      | some r =>
        have : r ∈ Range.intersectSets a b := mem_intersectSets.mpr ⟨x, hx, y, hy, hi⟩
        split
        · rename_i he
          simp only [List.isEmpty_iff] at he
          rw [he] at this; cases this
        · rfl
    · intro h
      split at h
      · cases h
      · rename_i hne
        cases hs : Range.intersectSets a b with
        | nil => simp [hs] at hne
        | cons r rest =>
          have : r ∈ Range.intersectSets a b := by rw [hs]; simp
          obtain ⟨x, hx, y, hy, hi⟩ := mem_intersectSets.mp this
          refine ⟨x, hx, y, hy, ?_⟩
          rw [Semver.allowsAny_eq_intersect (ha.2 x hx) (hb.2 y hy), hi]; rfl
  cases h1 : Range.allowsAny a b <;> cases h2 : (Range.intersect a b).isSome <;> simp_all

theorem Range.allowsAny_symm {a b : Range} (ha : a.WF) (hb : b.WF) :
    Range.allowsAny a b = Range.allowsAny b a := by
  have key : ∀ {a b : Range}, a.WF → b.WF → Range.allowsAny a b = true → Range.allowsAny b a = true := by
    intro a b ha hb h
    rw [Range.allowsAny_iff] at h ⊢
    obtain ⟨x, hx, y, hy, h⟩ := h
    exact ⟨y, hy, x, hx, by rw [← Semver.allowsAny_symm (ha.2 x hx) (hb.2 y hy)]; exact h⟩
  cases h1 : Range.allowsAny a b <;> cases h2 : Range.allowsAny b a
  · rfl
  · have := key hb ha h2; simp_all
  · have := key ha hb h1; simp_all
  · rfl

end Semver

namespace Semver
open Pred Bound Std

/-! ### difference on ranges -/

theorem diffStep_spec {rem : List BoundSet} {righty : BoundSet}
    (hr : ∀ s ∈ rem, s.WF) (hy : righty.WF) :
    ∃ l, diffStep rem righty = some l ∧ (∀ s ∈ l, s.WF) ∧
      ∀ v, (∃ x ∈ l, x.within v = true) ↔ ((∃ x ∈ rem, x.within v = true) ∧ ¬ righty.within v = true) := by
  induction rem with
  | nil => exact ⟨[], by simp [diffStep], by simp, by simp⟩
  | cons piece rest ih =>
    obtain ⟨l, hl, hwf, hsem⟩ := ih (fun s hs => hr s (by simp [hs]))
    have hp := difference_spec (hr piece (by simp)) hy
    unfold diffStep at hl ⊢
    simp only [List.foldr_cons]
    rw [hl]
    unfold diffStepF
    cases hd : piece.difference righty with
    | panic => rw [hd] at hp; exact absurd hp id
    | none =>
      rw [hd] at hp
      simp only at hp
      refine ⟨l, rfl, hwf, ?_⟩
      intro v
      rw [hsem v]
      simp only [List.mem_cons, exists_eq_or_imp]
      have := hp v
      grind
    | some pieces =>
      rw [hd] at hp
      simp only at hp
      refine ⟨pieces ++ l, rfl, ?_, ?_⟩
      · intro s hs
        rw [List.mem_append] at hs
        rcases hs with hs | hs
        · exact hp.1 s hs
        · exact hwf s hs
      · intro v
        have h1 := hp.2 v
        have h2 := hsem v
        simp only [List.mem_append, List.mem_cons, exists_eq_or_imp]
        constructor
        · rintro ⟨x, hx | hx, hv⟩
          · have := h1.mp ⟨x, hx, hv⟩; grind
          · have := h2.mp ⟨x, hx, hv⟩; grind
        · rintro ⟨hv | ⟨x, hx, hv⟩, hn⟩
          · obtain ⟨x, hx, hxv⟩ := h1.mpr ⟨hv, hn⟩
            exact ⟨x, Or.inl hx, hxv⟩
          · obtain ⟨x', hx', hxv⟩ := h2.mpr ⟨⟨x, hx, hv⟩, hn⟩
            exact ⟨x', Or.inr hx', hxv⟩

theorem diffFold_spec (other : Range) (ho : ∀ s ∈ other, s.WF) (start : List BoundSet)
    (hs : ∀ s ∈ start, s.WF) :
    ∃ l, other.foldl (fun rem righty => rem.bind (diffStep · righty)) (some start) = some l ∧
      (∀ s ∈ l, s.WF) ∧
      ∀ v, (∃ x ∈ l, x.within v = true) ↔
        ((∃ x ∈ start, x.within v = true) ∧ ∀ y ∈ other, ¬ y.within v = true) := by
  induction other generalizing start with
  | nil => exact ⟨start, rfl, hs, by simp⟩
  | cons y rest ih =>
    obtain ⟨l1, h1, hwf1, hsem1⟩ := diffStep_spec hs (ho y (by simp))
    obtain ⟨l, h2, hwf, hsem⟩ := ih (fun s hs' => ho s (by simp [hs'])) l1 hwf1
    refine ⟨l, ?_, hwf, ?_⟩
    · simp only [List.foldl_cons, Option.bind_some, h1]
      exact h2
    · intro v
      rw [hsem v, hsem1 v]
      simp only [List.mem_cons, forall_eq_or_imp]
      grind

theorem diffAlt_spec {lefty : BoundSet} {other : Range} (hl : lefty.WF) (ho : ∀ s ∈ other, s.WF) :
    ∃ l, diffAlt lefty other = some l ∧ (∀ s ∈ l, s.WF) ∧
      ∀ v, (∃ x ∈ l, x.within v = true) ↔
        (lefty.within v = true ∧ ∀ y ∈ other, ¬ y.within v = true) := by
  obtain ⟨l, h, hwf, hsem⟩ := diffFold_spec other ho [lefty] (by simp; exact hl)
  exact ⟨l, h, hwf, by intro v; rw [hsem v]; simp⟩

theorem diffPieces_spec (a b : Range) (ha : ∀ s ∈ a, s.WF) (hb : ∀ s ∈ b, s.WF) :
    ∃ p, diffPieces a b = some p ∧ (∀ s ∈ p, s.WF) ∧
      ∀ v, (∃ x ∈ p, x.within v = true) ↔
        ((∃ x ∈ a, x.within v = true) ∧ ∀ y ∈ b, ¬ y.within v = true) := by
  induction a with
  | nil => exact ⟨[], rfl, by simp, by simp⟩
  | cons lefty rest ih =>
    obtain ⟨p, hp, hwf, hsem⟩ := ih (fun s hs => ha s (by simp [hs]))
    obtain ⟨l, hl, hwfl, hseml⟩ := diffAlt_spec (ha lefty (by simp)) hb
    refine ⟨l ++ p, ?_, ?_, ?_⟩
    · unfold diffPieces at hp ⊢
      simp only [List.foldr_cons, hp, diffPiecesF, hl]
    · intro s hs
      rw [List.mem_append] at hs
      rcases hs with hs | hs
      · exact hwfl s hs
      · exact hwf s hs
    · intro v
      have h1 := hseml v
      have h2 := hsem v
      simp only [List.mem_append, List.mem_cons, exists_eq_or_imp]
      constructor
      · rintro ⟨x, hx | hx, hv⟩
        · have := h1.mp ⟨x, hx, hv⟩; grind
        · have := h2.mp ⟨x, hx, hv⟩; grind
      · rintro ⟨hv | ⟨x, hx, hv⟩, hn⟩
        · obtain ⟨x, hx, hxv⟩ := h1.mpr ⟨hv, hn⟩
          exact ⟨x, Or.inl hx, hxv⟩
        · obtain ⟨x', hx', hxv⟩ := h2.mpr ⟨⟨x, hx, hv⟩, hn⟩
          exact ⟨x', Or.inr hx', hxv⟩

/-- `Range::difference` on well-formed operands never panics; the result is exactly `a \ b` on
bounds membership -/
theorem Range.difference_spec {a b : Range} (ha : a.WF) (hb : b.WF) :
    ∃ res, Range.difference a b = some res ∧
      match res with
      | none => ∀ v, Range.within a v = true → Range.within b v = true
      | some r => r.WF ∧
          ∀ v, Range.within r v = true ↔ (Range.within a v = true ∧ ¬ Range.within b v = true) := by
  obtain ⟨p, hp, hwf, hsem⟩ := diffPieces_spec a b ha.2 hb.2
  unfold Range.difference
  simp only [hp, Option.map_some]
  refine ⟨_, rfl, ?_⟩
  by_cases he : p.isEmpty = true
  · rw [if_pos he]
    simp only
    intro v hv
    rw [Range.within_iff] at hv ⊢
    have := hsem v
    simp only [List.isEmpty_iff] at he
    subst he
    simp at this
    exact Classical.byContradiction (fun hn => by
      obtain ⟨y, hy, hyv⟩ := this hv.choose hv.choose_spec.1 hv.choose_spec.2
      exact hn ⟨y, hy, hyv⟩)
  · rw [if_neg he]
    simp only
    refine ⟨⟨by intro h0; simp [h0] at he, hwf⟩, ?_⟩
    intro v
    rw [Range.within_iff, Range.within_iff, Range.within_iff, hsem v]
    simp

end Semver
