import SemverProofs.Lemmas.Gate
import SemverProofs.Props.C04
import SemverSpec.Npm
/-!
# Intervals as npm comparator lists

`s.satisfies v = compsSat (loComp p ++ upComp q) v` for `s = (Lower p, Upper q)`: the crate's bounds
test plus prerelease gate is npm's "every comparator admits, and a tagged comparator on the same
tuple if the version is tagged".
-/
namespace Semver
open Pred Bound Spec Spec.Npm

def loComp : Pred → List Comp
  | inc l => [⟨.ge, l⟩]
  | exc l => [⟨.gt, l⟩]
  | unb => []

def upComp : Pred → List Comp
  | inc u => [⟨.le, u⟩]
  | exc u => [⟨.lt, u⟩]
  | unb => []

theorem prec_eq (a b : Version) : Spec.prec a b = cmpVersion a b := (C04.C04_model_is_spec a b).symm

theorem vle_eq (a b : Version) : vle a b = (Spec.prec a b != .gt) := by rw [prec_eq]; rfl
theorem vlt_eq (a b : Version) : vlt a b = (Spec.prec a b == .lt) := by rw [prec_eq]; rfl

theorem prec_swap (a b : Version) : Spec.prec b a = (Spec.prec a b).swap := by
  rw [prec_eq, prec_eq]; exact cmp_swap a b

theorem sameTuple_comm (a b : Version) : sameTuple a b = sameTuple b a := by
  simp only [sameTuple]
  rw [Bool.eq_iff_iff]
  simp only [Bool.and_eq_true, beq_iff_eq]
  constructor <;> (intro ⟨⟨h1, h2⟩, h3⟩; exact ⟨⟨h1.symm, h2.symm⟩, h3.symm⟩)

theorem sameTriple_eq (a b : Version) : Spec.sameTriple a b = sameTuple a b := rfl

theorem isPre_eq (v : Version) : v.isPre = !v.pre.isEmpty := rfl

theorem admits_ge (l v : Version) : (Comp.mk .ge l).admits v = vle l v := by
  simp only [Comp.admits, vle_eq, prec_swap l v]
  cases Spec.prec l v <;> rfl

theorem admits_gt (l v : Version) : (Comp.mk .gt l).admits v = vlt l v := by
  simp only [Comp.admits, vlt_eq, prec_swap l v]
  cases Spec.prec l v <;> rfl

theorem admits_le (u v : Version) : (Comp.mk .le u).admits v = vle v u := by
  simp only [Comp.admits, vle_eq]

theorem admits_lt (u v : Version) : (Comp.mk .lt u).admits v = vlt v u := by
  simp only [Comp.admits, vlt_eq]

theorem within_eq_all (p q : Pred) (v : Version) :
    (BoundSet.mk (up q) (lo p)).within v = (loComp p ++ upComp q).all (·.admits v) := by
  cases p <;> cases q <;>
    simp [BoundSet.within, loComp, upComp, admits_ge, admits_gt, admits_le, admits_lt]

theorem gate_eq_any (p q : Pred) (v : Version) :
    (BoundSet.mk (up q) (lo p)).gate v = (loComp p ++ upComp q).any (·.tagged v) := by
  cases p <;> cases q <;>
    simp [BoundSet.gate, loComp, upComp, Comp.tagged, sameTriple_eq, sameTuple_comm v, isPre_eq]

/-- **an interval is its comparator list** -/
theorem sat_eq_comps (p q : Pred) (v : Version) :
    (BoundSet.mk (up q) (lo p)).satisfies v = compsSat (loComp p ++ upComp q) v := by
  simp only [BoundSet.satisfies, compsSat, within_eq_all, gate_eq_any, isPre_eq, Bool.not_not]

/-! ### comparator lists of an intersection -/

theorem compsSat_append (a b : List Comp) (v : Version) :
    compsSat (a ++ b) v =
      ((a.all (·.admits v) && b.all (·.admits v)) && (v.pre.isEmpty || a.any (·.tagged v) || b.any (·.tagged v))) := by
  simp [compsSat, List.all_append, List.any_append, Bool.or_assoc]

/-- "agreement" of an interval with a comparator list on one version: same bounds answer, and the
same gate answer whenever the version is a prerelease inside the bounds -/
def AgreeAt (s : BoundSet) (cs : List Comp) (v : Version) : Prop :=
  s.within v = cs.all (·.admits v) ∧
    (s.within v = true → v.isPre = true → s.gate v = cs.any (·.tagged v))

theorem agreeAt_self (p q : Pred) (v : Version) : AgreeAt ⟨up q, lo p⟩ (loComp p ++ upComp q) v :=
  ⟨within_eq_all p q v, fun _ _ => gate_eq_any p q v⟩

theorem sat_of_agreeAt {s : BoundSet} {cs : List Comp} {v : Version} (h : AgreeAt s cs v) :
    s.satisfies v = compsSat cs v := by
  obtain ⟨h1, h2⟩ := h
  simp only [BoundSet.satisfies, compsSat, ← h1]
  cases hw : s.within v with
  | false => simp
  | true =>
    cases hv : v.isPre with
    | false =>
      have : v.pre.isEmpty = true := by simpa [isPre_eq] using hv
      simp [this]
    | true =>
      have : v.pre.isEmpty = false := by simpa [isPre_eq] using hv
      simp [this, h2 hw hv]

/-- intersecting intervals = concatenating comparator lists -/
theorem agreeAt_intersect {s o r : BoundSet} {a b : List Comp} {v : Version} (hs : s.WF) (ho : o.WF)
    (h : s.intersect o = some r) (ha : AgreeAt s a v) (hb : AgreeAt o b v) : AgreeAt r (a ++ b) v := by
  have hw := (intersect_some hs ho h).2 v
  obtain ⟨a1, a2⟩ := ha
  obtain ⟨b1, b2⟩ := hb
  constructor
  · rw [List.all_append, ← a1, ← b1, Bool.eq_iff_iff, hw, Bool.and_eq_true]
  · intro hr hv
    have ⟨h1, h2⟩ := hw.mp hr
    rw [List.any_append, ← a2 h1 hv, ← b2 h2 hv]
    exact intersect_gate hs ho h hv h1 h2

/-- an empty intersection admits nothing, like the concatenated comparators -/
theorem comps_none_of_intersect_none {s o : BoundSet} {a b : List Comp} {v : Version} (hs : s.WF) (ho : o.WF)
    (h : s.intersect o = none) (ha : AgreeAt s a v) (hb : AgreeAt o b v) : compsSat (a ++ b) v = false := by
  have hn := intersect_none hs ho h v
  rw [compsSat_append, ← ha.1, ← hb.1]
  cases h1 : s.within v <;> cases h2 : o.within v <;> simp
  exact absurd ⟨h1, h2⟩ hn

end Semver
