import SemverProofs.Lemmas.RangeText
import SemverProofs.Props.C13
/-!
# Every range the crate can build is printable (towards C13)

`Printable` = well-formed + at least one real bound + canonical identifiers in every bound version.
Parse results are printable; `intersect` and `difference` preserve printability.
-/
namespace Semver
open Pred Bound Spec

def idsCanon (v : Version) : Prop := (∀ i ∈ v.pre, C12.IdCanon i) ∧ (∀ i ∈ v.build, C12.IdCanon i)

def predIds (p : Pred) : Prop := ∀ v, predVersion p = some v → idsCanon v

def setIds (s : BoundSet) : Prop := ∃ p q, s = ⟨up q, lo p⟩ ∧ predIds p ∧ predIds q

theorem canon_of_valid_ids {v : Version} (hv : (inc v).valid) (hi : idsCanon v) : C12.canon v := by
  have := (valid_iff (inc v)).mp hv v rfl
  exact ⟨this.1, this.2.1, this.2.2, hi.1, hi.2⟩

theorem predCanon_of {p : Pred} (hv : p.valid) (hi : predIds p) : predCanon p := by
  cases p with
  | inc v => exact canon_of_valid_ids hv (hi v rfl)
  | exc v => exact canon_of_valid_ids (by simpa [Pred.valid, Bound.isValid] using hv) (hi v rfl)
  | unb => trivial

/-- printable = well-formed + bounded + canonical identifiers -/
theorem printable_of {s : BoundSet} (hw : s.WF) (hb : C13.Bounded s) (hi : setIds s) : Printable s := by
  obtain ⟨p, q, rfl, vp, vq, hne⟩ := hw
  obtain ⟨p', q', heq, ip, iq⟩ := hi
  simp only [BoundSet.mk.injEq, Bound.up.injEq, Bound.lo.injEq] at heq
  obtain ⟨rfl, rfl⟩ := heq
  refine ⟨p, q, rfl, vp, vq, hne, predCanon_of vp ip, predCanon_of vq iq, ?_⟩
  intro ⟨h1, h2⟩
  exact hb (by simp [h1, h2])

theorem idsCanon_nil (a b c : Nat) : idsCanon ⟨a, b, c, [], []⟩ := ⟨by simp, by simp⟩
theorem idsCanon_zero (a b c : Nat) : idsCanon ⟨a, b, c, [.num 0], []⟩ :=
  ⟨by intro i hi; simp at hi; subst hi; show 0 < U64; decide, by simp⟩

theorem predIds_unb : predIds unb := by intro v hv; cases hv
theorem predIds_inc {v : Version} (h : idsCanon v) : predIds (inc v) := by
  intro w hw; simp [predVersion] at hw; subst hw; exact h
theorem predIds_exc {v : Version} (h : idsCanon v) : predIds (exc v) := by
  intro w hw; simp [predVersion] at hw; subst hw; exact h

theorem setIds_new {P Q : Pred} {s : BoundSet} (h : BoundSet.new (lo P) (up Q) = some s)
    (hp : predIds P) (hq : predIds Q) : setIds s := ⟨P, Q, new_eq_some h, hp, hq⟩

def Partial.idsOK (p : Partial) : Prop := (∀ i ∈ p.pre, C12.IdCanon i) ∧ (∀ i ∈ p.build, C12.IdCanon i)

theorem toVersion_ids {p : Partial} (h : p.idsOK) : idsCanon p.toVersion := h

theorem primitiveSet_ids {op : Operation} {p : Partial} {s : BoundSet} (hp : p.idsOK)
    (h : primitiveSet op p = some s) : setIds s := by
  obtain ⟨h1, h2⟩ := hp
  unfold primitiveSet at h
  split at h <;>
    first
    | exact setIds_new h predIds_unb (predIds_exc (idsCanon_zero _ _ _))
    | exact setIds_new h (predIds_inc (idsCanon_nil _ _ _)) predIds_unb
    | exact setIds_new h (predIds_inc (idsCanon_nil _ _ _)) (predIds_exc (idsCanon_zero _ _ _))
    | exact setIds_new h (predIds_inc ⟨h1, h2⟩) predIds_unb
    | exact setIds_new h (predIds_exc ⟨h1, h2⟩) predIds_unb
    | exact setIds_new h predIds_unb (predIds_exc ⟨h1, h2⟩)
    | exact setIds_new h predIds_unb (predIds_inc ⟨h1, h2⟩)
    | exact setIds_new h predIds_unb (predIds_inc (idsCanon_nil _ _ _))
    | exact setIds_new h (predIds_inc ⟨h1, by simp⟩) (predIds_inc ⟨h1, by simp⟩)

end Semver

namespace Semver
open Pred Bound Spec

theorem partialSet_ids {p : Partial} {s : BoundSet} (hp : p.idsOK) (h : partialSet p = some s) : setIds s := by
  obtain ⟨h1, h2⟩ := hp
  unfold partialSet at h
  split at h <;>
    first
    | exact setIds_new h (predIds_inc (idsCanon_nil _ _ _)) predIds_unb
    | exact setIds_new h (predIds_inc (idsCanon_nil _ _ _)) (predIds_exc (idsCanon_zero _ _ _))
    | exact setIds_new h (predIds_inc ⟨h1, h2⟩) (predIds_inc ⟨h1, h2⟩)

theorem tildeSet_ids {g : Bool} {p : Partial} {s : BoundSet} (hp : p.idsOK) (h : tildeSet g p = some s) :
    setIds s := by
  obtain ⟨h1, h2⟩ := hp
  unfold tildeSet at h
  split at h <;>
    first
    | exact setIds_new h (predIds_inc (idsCanon_nil _ _ _)) predIds_unb
    | exact setIds_new h (predIds_inc (idsCanon_nil _ _ _)) (predIds_exc (idsCanon_zero _ _ _))
    | exact setIds_new h (predIds_inc ⟨h1, by simp⟩) (predIds_exc (idsCanon_zero _ _ _))
    | cases h

theorem caretSet_ids {p : Partial} {s : BoundSet} (hp : p.idsOK) (h : caretSet p = some s) : setIds s := by
  obtain ⟨h1, h2⟩ := hp
  unfold caretSet at h
  split at h <;>
    first
    | exact setIds_new h (predIds_inc (idsCanon_nil _ _ _)) predIds_unb
    | exact setIds_new h predIds_unb (predIds_exc (idsCanon_zero _ _ _))
    | exact setIds_new h (predIds_inc (idsCanon_nil _ _ _)) (predIds_exc (idsCanon_zero _ _ _))
    | (refine setIds_new h (predIds_inc ⟨h1, by simp⟩) (predIds_exc ?_)
       split <;> exact idsCanon_zero _ _ _)
    | cases h

theorem hyphenUpper_ids {p : Partial} (hp : p.idsOK) : predIds (hyphenUpper p) := by
  unfold hyphenUpper
  split
  · exact predIds_unb
  · exact predIds_exc (idsCanon_zero _ _ _)
  · exact predIds_exc (idsCanon_zero _ _ _)
  · exact predIds_inc hp

theorem hyphenSet_ids {l : Option Partial} {u : Pred} {s : BoundSet} (hl : ∀ p, l = some p → p.idsOK)
    (hu : predIds u) (h : hyphenSet l u = some s) : setIds s := by
  unfold hyphenSet at h
  split at h
  · rename_i p
    exact setIds_new h (predIds_inc (hl p rfl)) hu
  · split at h
    · exact setIds_new h (predIds_inc (idsCanon_nil _ _ _)) predIds_unb
    · exact setIds_new h predIds_unb hu

/-- identifiers read by `extras` are canonical -/
theorem extras_ids (s : List Char) (hd : ∀ c, s.head? = some c → isDigit c = false) :
    (∀ i ∈ (extras s).1.1, C12.IdCanon i) ∧ (∀ i ∈ (extras s).1.2, C12.IdCanon i) := by
  obtain ⟨P, Q, _, hP, hQ⟩ := extras_ok s hd
  constructor
  · rcases hP with ⟨_, hp⟩ | ⟨T, _, hT⟩ | ⟨hT, _⟩
    · rw [hp]; simp
    · exact C12.idCanon_of_idsText hT
    · exact C12.idCanon_of_idsText hT
  · rcases hQ with ⟨_, hp⟩ | ⟨T, _, hT⟩
    · rw [hp]; simp
    · exact C12.idCanon_of_idsText hT

theorem dotComponent_num_head {s : List Char} {n : Nat} (h : (dotComponent s).1 = some (some n)) :
    ∀ c, (dotComponent s).2.head? = some c → isDigit c = false := by
  unfold dotComponent at h ⊢
  split at h
  · rename_i t
    split at h
    · rename_i c r hc
      simp only [Option.some.injEq] at h
      subst h
      simp only
      unfold component at hc
      split at hc
      · cases hc
      · cases hc
      · cases hc
      · split at hc
        · rename_i v r' hn
          simp only [Option.some.injEq, Prod.mk.injEq] at hc
          obtain ⟨_, rfl⟩ := hc
          obtain ⟨_, _, _, _, _, _, hh⟩ := number_ok hn
          exact hh
        · cases hc
    · cases h
  · cases h

theorem partialVersion_ids {s r : List Char} {p : Partial} (h : partialVersion s = some (p, r)) : p.idsOK := by
  unfold partialVersion partialCore at h
  simp only at h
  split at h
  · cases h
  · rename_i major r1 hc
    simp only [Option.some.injEq, Prod.mk.injEq] at h
    obtain ⟨hp, _⟩ := h
    subst hp
    simp only [Partial.idsOK]
    -- the qualifier is kept only when the patch is numeric; then `extras` ran right after digits
    by_cases hpatch : ((major.bind fun _ => (dotComponent r1).1.join).bind fun _ =>
        (dotComponent (dotComponent r1).2).1.join).isSome = true
    · simp only [hpatch, if_true]
      have hsome : ∃ n, (dotComponent (dotComponent r1).2).1 = some (some n) := by
        cases h1 : (dotComponent (dotComponent r1).2).1 with
        | none => simp [h1] at hpatch
        | some o =>
          cases o with
          | none => simp [h1] at hpatch
          | some n => exact ⟨n, rfl⟩
      obtain ⟨n, hn⟩ := hsome
      have hd := dotComponent_num_head hn
      simp only [hn, Option.isSome_some, if_true]
      exact extras_ids _ hd
    · simp only [hpatch, Bool.false_eq_true, if_false]
      exact ⟨by simp, by simp⟩

theorem simple_ids (s : List Char) : ∀ x, (simple s).1 = some x → setIds x := by
  unfold simple
  split
  · rename_i x h
    have := terminated_eq h
    obtain ⟨u, hu, ho⟩ := hyphen_some (o := x.1) (r := x.2) this
    obtain ⟨r3, hu3⟩ := hyphenRest_some hu
    intro y hy
    rw [ho] at hy
    refine hyphenSet_ids ?_ (hyphenUpper_ids (partialVersion_ids hu3)) hy
    intro p hp
    rw [Option.filter_eq_some_iff] at hp
    obtain ⟨r', hp'⟩ := optPartial_some hp.1
    exact partialVersion_ids hp'
  · split
    · rename_i x h
      have := terminated_eq h
      unfold primitive at this
      split at this
      · cases this
      · split at this
        · cases this
        · rename_i p r' hp
          cases this; intro y hy; exact primitiveSet_ids (partialVersion_ids hp) hy
    · split
      · rename_i x h
        have := terminated_eq h
        unfold partialP at this
        split at this
        · cases this
        · rename_i p r hp
          cases this; intro y hy; exact partialSet_ids (partialVersion_ids hp) hy
      · split
        · rename_i x h
          have := terminated_eq h
          unfold tilde at this
          split at this
          · cases this
          · split at this
            · cases this
            · rename_i p r' hp
              cases this; intro y hy; exact tildeSet_ids (partialVersion_ids hp) hy
        · split
          · rename_i x h
            have := terminated_eq h
            unfold caret at this
            split at this
            · split at this
              · cases this
              · rename_i p r hp
                cases this; intro y hy; exact caretSet_ids (partialVersion_ids hp) hy
            · cases this
          · intro y hy; cases hy

/-- the bounds of an intersection are bounds of the operands -/
theorem intersect_ids {s o r : BoundSet} (hs : s.WF) (ho : o.WF) (h : s.intersect o = some r)
    (is : setIds s) (io : setIds o) : setIds r := by
  obtain ⟨p, q, rfl, _⟩ := hs
  obtain ⟨p', q', rfl, _⟩ := ho
  obtain ⟨a, b, e1, ia, ib⟩ := is
  obtain ⟨a', b', e2, ia', ib'⟩ := io
  simp only [BoundSet.mk.injEq, Bound.up.injEq, Bound.lo.injEq] at e1 e2
  obtain ⟨rfl, rfl⟩ := e1
  obtain ⟨rfl, rfl⟩ := e2
  rw [intersect_mk] at h
  refine setIds_new h ?_ ?_
  · unfold maxLo; split <;> assumption
  · unfold minUp; split <;> assumption

end Semver

namespace Semver
open Pred Bound Spec

/-- the pieces `BoundSet::difference` returns: the set itself, or remainders bounded by a flipped
bound of the other set -/
theorem difference_shape {p q p' q' : Pred} (vp : p.valid) (vq : q.valid) (vp' : p'.valid) (vq' : q'.valid)
    {l : List BoundSet} (h : (BoundSet.mk (up q) (lo p)).difference ⟨up q', lo p'⟩ = .some l) :
    ∀ x ∈ l, x = ⟨up q, lo p⟩ ∨ (x = ⟨up p'.flip, lo p⟩ ∧ p' ≠ unb) ∨ (x = ⟨up q, lo q'.flip⟩ ∧ q' ≠ unb) := by
  unfold BoundSet.difference at h
  rw [intersect_mk] at h
  by_cases hne : nonEmpty (maxLo p p') (minUp q q')
  · rw [new_of_nonEmpty (valid_maxLo vp vp') (valid_minUp vq vq') hne] at h
    simp only at h
    by_cases hbeq : (BoundSet.mk (up (minUp q q')) (lo (maxLo p p'))).beq ⟨up q, lo p⟩ = true
    · rw [if_pos hbeq] at h; cases h
    · rw [if_neg hbeq] at h
      simp only [Bound.predicate] at h
      by_cases hl : loLt p p'
      · by_cases hu : upLt q' q
        · simp only [lt_lo_maxLo_true hl, lt_up_minUp_true hu, Bool.and_self, if_true] at h
          rw [maxLo_of_loLt hl, minUp_of_upLt hu] at h
          rw [new_of_nonEmpty vp (valid_flip vp') (nonEmpty_flip_of_loLt hl),
            new_of_nonEmpty (valid_flip vq') vq (nonEmpty_flip_of_upLt hu)] at h
          simp only [DiffRes.some.injEq] at h
          subst h
          intro x hx
          simp at hx
          rcases hx with rfl | rfl
          · exact Or.inr (Or.inl ⟨rfl, loLt_ne_unb hl⟩)
          · exact Or.inr (Or.inr ⟨rfl, upLt_ne_unb hu⟩)
        · simp only [lt_lo_maxLo_true hl, lt_up_minUp_false hu, Bool.and_false, Bool.false_eq_true, if_false,
            if_true] at h
          rw [maxLo_of_loLt hl, new_of_nonEmpty vp (valid_flip vp') (nonEmpty_flip_of_loLt hl)] at h
          simp only [DiffRes.some.injEq] at h
          subst h
          intro x hx
          simp at hx
          subst hx
          exact Or.inr (Or.inl ⟨rfl, loLt_ne_unb hl⟩)
      · simp only [lt_lo_maxLo_false hl, Bool.false_and, Bool.false_eq_true, if_false] at h
        by_cases hu : upLt q' q
        · rw [minUp_of_upLt hu, new_of_nonEmpty (valid_flip vq') vq (nonEmpty_flip_of_upLt hu)] at h
          simp only [DiffRes.some.injEq] at h
          subst h
          intro x hx
          simp at hx
          subst hx
          exact Or.inr (Or.inr ⟨rfl, upLt_ne_unb hu⟩)
        · exfalso
          apply hbeq
          rw [beq_mk]
          exact ⟨minUp_eqv_of_not_upLt hu, maxLo_eqv_of_not_loLt hl⟩
  · rw [(new_none_iff (valid_maxLo vp vp') (valid_minUp vq vq')).mpr hne] at h
    simp only [DiffRes.some.injEq] at h
    subst h
    intro x hx
    simp at hx
    exact Or.inl hx

theorem predIds_flip {p : Pred} (h : predIds p) : predIds p.flip := by
  cases p with
  | inc v => exact predIds_exc (h v rfl)
  | exc v => exact predIds_inc (h v rfl)
  | unb => exact predIds_unb

/-- the invariant carried by every range the crate builds -/
def Good (s : BoundSet) : Prop := s.WF ∧ C13.Bounded s ∧ setIds s

theorem good_printable {s : BoundSet} (h : Good s) : Printable s := printable_of h.1 h.2.1 h.2.2

theorem difference_good {s o : BoundSet} (hs : Good s) (ho : Good o) {l : List BoundSet}
    (h : s.difference o = .some l) : ∀ x ∈ l, Good x := by
  obtain ⟨ws, bs, is⟩ := hs
  obtain ⟨wo, _, io⟩ := ho
  have hwf := difference_spec ws wo
  rw [h] at hwf
  obtain ⟨p, q, rfl, vp, vq, _⟩ := ws
  obtain ⟨p', q', rfl, vp', vq', _⟩ := wo
  obtain ⟨a, b, e1, ia, ib⟩ := is
  obtain ⟨a', b', e2, ia', ib'⟩ := io
  simp only [BoundSet.mk.injEq, Bound.up.injEq, Bound.lo.injEq] at e1 e2
  obtain ⟨rfl, rfl⟩ := e1
  obtain ⟨rfl, rfl⟩ := e2
  intro x hx
  refine ⟨hwf.1 x hx, ?_, ?_⟩
  · rcases difference_shape vp vq vp' vq' h x hx with rfl | ⟨rfl, hn⟩ | ⟨rfl, hn⟩
    · exact bs
    · intro ⟨_, h2⟩; simp at h2; cases p' <;> simp_all [Pred.flip]
    · intro ⟨h1, _⟩; simp at h1; cases q' <;> simp_all [Pred.flip]
  · rcases difference_shape vp vq vp' vq' h x hx with rfl | ⟨rfl, _⟩ | ⟨rfl, _⟩
    · exact ⟨p, q, rfl, ia, ib⟩
    · exact ⟨p, p'.flip, rfl, ia, predIds_flip ia'⟩
    · exact ⟨q'.flip, q, rfl, predIds_flip ib', ib⟩

theorem intersect_good {s o r : BoundSet} (hs : Good s) (ho : Good o) (h : s.intersect o = some r) : Good r :=
  ⟨(intersect_some hs.1 ho.1 h).1, C13.intersect_bounded hs.1 ho.1 h hs.2.1, intersect_ids hs.1 ho.1 h hs.2.2 ho.2.2⟩

def RangeGood (r : Range) : Prop := r ≠ [] ∧ ∀ s ∈ r, Good s

theorem rangeGood_wf {r : Range} (h : RangeGood r) : r.WF := ⟨h.1, fun s hs => (h.2 s hs).1⟩

/-! ### parse results are good -/

theorem foldl_good (rest : List BoundSet) (first : BoundSet) (hf : Good first) (hr : ∀ s ∈ rest, Good s) :
    ∀ s, rest.foldl (fun acc b => acc.bind (·.intersect b)) (some first) = some s → Good s := by
  induction rest generalizing first with
  | nil => intro s h; simp at h; subst h; exact hf
  | cons b rest ih =>
    intro s h
    simp only [List.foldl_cons, Option.bind_some] at h
    cases hi : first.intersect b with
    | none =>
      rw [hi] at h
      have : ∀ l : List BoundSet, l.foldl (fun (acc : Option BoundSet) b => acc.bind (·.intersect b)) none = none := by
        intro l; induction l <;> simp_all
      rw [this] at h; cases h
    | some x =>
      rw [hi] at h
      exact ih x (intersect_good hf (hr b (by simp)) hi) (fun s hs => hr s (by simp [hs])) s h

def OptGood (o : Option BoundSet) : Prop := ∀ s, o = some s → Good s

theorem simple_good (s : List Char) : OptGood (simple s).1 :=
  fun x hx => ⟨simple_wf s x hx, C13.simple_bounded s x hx, simple_ids s x hx⟩

theorem rangeTail_good (s : List Char) : ∀ o ∈ (rangeTail s).1, OptGood o := by
  generalize hn : s.length = n
  induction n using Nat.strongRecOn generalizing s with
  | _ n ih =>
    rw [rangeTail]
    split
    · simp
    · rename_i r h
      have h1 := blanks1_length h
      have h2 := simple_length r
      intro o ho
      simp only [List.mem_cons] at ho
      rcases ho with rfl | ho
      · exact simple_good r
      · exact ih (simple r).2.length (by omega) (simple r).2 rfl o ho

theorem foldSets_good (bs : List (Option BoundSet)) (h : ∀ o ∈ bs, OptGood o) : ∀ s ∈ foldSets bs, Good s := by
  unfold foldSets
  have hall : ∀ s ∈ bs.filterMap id, Good s := by
    intro s hs
    rw [List.mem_filterMap] at hs
    obtain ⟨o, ho, hos⟩ := hs
    exact h o ho s hos
  split
  · simp
  · rename_i first rest heq
    rw [heq] at hall
    split
    · rename_i s hs
      intro x hx
      simp at hx; subst hx
      exact foldl_good rest first (hall first (by simp)) (fun s hs => hall s (by simp [hs])) _ hs
    · simp

theorem rangeP_good (s : List Char) : ∀ x ∈ (rangeP s).1, Good x := by
  unfold rangeP
  apply foldSets_good
  intro o ho
  simp only [List.mem_cons] at ho
  rcases ho with rfl | ho
  · exact simple_good s
  · exact rangeTail_good _ o ho

theorem boundSetsTail_good (s : List Char) : ∀ l ∈ (boundSetsTail s).1, ∀ x ∈ l, Good x := by
  generalize hn : s.length = n
  induction n using Nat.strongRecOn generalizing s with
  | _ n ih =>
    rw [boundSetsTail]
    split
    · simp
    · rename_i r h
      have h1 := logicalOr_length h
      have h2 := rangeP_length r
      intro l hl
      simp only [List.mem_cons] at hl
      rcases hl with rfl | hl
      · exact rangeP_good r
      · exact ih (rangeP r).2.length (by omega) (rangeP r).2 rfl l hl

/-- **every range returned by `Range::parse` is good** (well-formed, bounded, canonical identifiers) -/
theorem parse_good {s : List Char} {r : Range} (h : Range.parse s = .ok r) : RangeGood r := by
  unfold Range.parse at h
  simp only at h
  split at h
  · cases h
  · rename_i hne
    cases h
    refine ⟨by intro h0; simp [h0] at hne, ?_⟩
    intro x hx
    unfold boundSets at hx
    simp only [List.mem_flatten, List.mem_cons] at hx
    obtain ⟨l, hl, hxl⟩ := hx
    rcases hl with rfl | hl
    · exact rangeP_good _ x hxl
    · exact boundSetsTail_good _ l hl x hxl

/-- … and so is every result of `intersect` … -/
theorem range_intersect_good {a b r : Range} (ha : RangeGood a) (hb : RangeGood b)
    (h : Range.intersect a b = some r) : RangeGood r := by
  unfold Range.intersect at h
  simp only at h
  split at h
  · cases h
  · rename_i hne
    cases h
    refine ⟨by intro h0; simp [h0] at hne, ?_⟩
    intro x hx
    obtain ⟨s, hs, o, ho, hi⟩ := mem_intersectSets.mp hx
    exact intersect_good (ha.2 s hs) (hb.2 o ho) hi

end Semver

namespace Semver
open Pred Bound Spec

theorem diffStep_cons (piece : BoundSet) (rest : List BoundSet) (righty : BoundSet) :
    diffStep (piece :: rest) righty = diffStepF righty piece (diffStep rest righty) := rfl

theorem diffStep_good {rem : List BoundSet} {righty : BoundSet} (hr : ∀ s ∈ rem, Good s) (hy : Good righty)
    {l : List BoundSet} (h : diffStep rem righty = some l) : ∀ x ∈ l, Good x := by
  induction rem generalizing l with
  | nil => simp [diffStep] at h; subst h; simp
  | cons piece rest ih =>
    rw [diffStep_cons] at h
    cases hrest : diffStep rest righty with
    | none => rw [hrest] at h; simp [diffStepF] at h
    | some l' =>
      rw [hrest] at h
      unfold diffStepF at h
      have ih' := ih (fun s hs => hr s (by simp [hs])) hrest
      cases hd : piece.difference righty with
      | panic => rw [hd] at h; simp at h
      | none => rw [hd] at h; simp at h; subst h; exact ih'
      | some pieces =>
        rw [hd] at h
        simp at h
        subst h
        intro x hx
        rw [List.mem_append] at hx
        rcases hx with hx | hx
        · exact difference_good (hr piece (by simp)) hy hd x hx
        · exact ih' x hx

theorem diffFold_good (other : Range) (ho : ∀ s ∈ other, Good s) (start : List BoundSet)
    (hs : ∀ s ∈ start, Good s) {l : List BoundSet}
    (h : other.foldl (fun rem righty => rem.bind (diffStep · righty)) (some start) = some l) :
    ∀ x ∈ l, Good x := by
  induction other generalizing start with
  | nil => simp at h; subst h; exact hs
  | cons y rest ih =>
    simp only [List.foldl_cons, Option.bind_some] at h
    cases h1 : diffStep start y with
    | none =>
      rw [h1] at h
      have : ∀ l : Range, l.foldl (fun (rem : Option (List BoundSet)) righty => rem.bind (diffStep · righty)) none = none := by
        intro l; induction l <;> simp_all
      rw [this] at h; cases h
    | some l1 =>
      rw [h1] at h
      exact ih (fun s hs' => ho s (by simp [hs'])) l1 (diffStep_good hs (ho y (by simp)) h1) h

theorem diffPieces_cons (lefty : BoundSet) (rest : Range) (b : Range) :
    diffPieces (lefty :: rest) b = diffPiecesF b lefty (diffPieces rest b) := rfl

theorem diffPieces_good (a b : Range) (ha : ∀ s ∈ a, Good s) (hb : ∀ s ∈ b, Good s) {p : List BoundSet}
    (h : diffPieces a b = some p) : ∀ x ∈ p, Good x := by
  induction a generalizing p with
  | nil => simp [diffPieces] at h; subst h; simp
  | cons lefty rest ih =>
    rw [diffPieces_cons] at h
    unfold diffPiecesF at h
    cases hl : diffAlt lefty b with
    | none => rw [hl] at h; simp at h
    | some l =>
      cases hrest : diffPieces rest b with
      | none => rw [hl, hrest] at h; simp at h
      | some p' =>
        rw [hl, hrest] at h
        simp at h
        subst h
        intro x hx
        rw [List.mem_append] at hx
        rcases hx with hx | hx
        · unfold diffAlt at hl
          have hlg : Good lefty := ha lefty (by simp)
          exact diffFold_good b hb [lefty] (by intro t ht; simp at ht; rw [ht]; exact hlg) hl x hx
        · exact ih (fun s hs => ha s (by simp [hs])) hrest x hx

/-- … and every result of `difference` -/
theorem range_difference_good {a b r : Range} (ha : RangeGood a) (hb : RangeGood b)
    (h : Range.difference a b = some (some r)) : RangeGood r := by
  unfold Range.difference at h
  cases hp : diffPieces a b with
  | none => rw [hp] at h; simp at h
  | some p =>
    rw [hp] at h
    simp only [Option.map_some, Option.some.injEq] at h
    split at h
    · cases h
    · rename_i hne
      cases h
      exact ⟨by intro h0; simp [h0] at hne, diffPieces_good a b ha.2 hb.2 hp⟩

end Semver
