import SemverProofs.GenEquiv.Loops
import SemverProofs.GenEquiv.Version
import SemverProofs.GenEquiv.Bound
import SemverProofs.GenEquiv.Range
import SemverProofs.GenEquiv.Tables
import SemverProofs.GenEquiv.VersionParse
import SemverProofs.GenEquiv.RangeParse
import SemverProofs.GenEquiv.Location
